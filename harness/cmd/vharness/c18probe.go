package main

// C18 probe — the model-vs-code tie of the regenerated field table.
//
// A stub S3 endpoint inside the harness (TLS, self-signed) records every request the proxy
// gateway sends and answers canned documents in which every property-relevant output field holds
// a distinctive marker. A gateway P' (`versitygw … s3 --endpoint https://stub`) is driven with
// one request per proxied method that sets every property-relevant request field (two variants:
// ordinary values; edge values — numeric 0, an Expires that is not RFC1123). Then, per field:
//
//   request side:  what arrived at the stub at the field's wire location  ==  the Lean model's
//                  `sdkInput` for the very same request (`proxy sdkinput`)
//   answer side:   what the client received at the field's wire location  ==  the Lean model's
//                  `gwResult` for the very same backend answer (`proxy gwresult`)
//
// A disagreement is a `correspondence` failure `probe:req|resp:<Method>.<field>`: the generated
// table (or its semantics in Model/Proxy.lean) does not describe the code. S3 is spoken on both
// sides, so a field has the same wire location (header, query parameter, path, body member, XML
// element) in front of and behind the gateway. Also shown here: the methods that dereference
// optional members of the answer crash the gateway when the endpoint omits them
// (`proxy:<op>:crash-on-sparse-answer`, model: `panics`).

import (
	"bytes"
	"crypto/tls"
	"encoding/base64"
	"encoding/xml"
	"fmt"
	"io"
	"net"
	"net/http"
	"net/url"
	"sort"
	"strings"
	"sync"
	"time"

	"verif/harness/gw"
	"verif/harness/lib"
	"verif/harness/prog"
)

// ---------------------------------------------------------------- stub endpoint

type c18StubReq struct {
	Method string
	Path   string
	Query  url.Values
	Header http.Header
	Body   []byte
	Op     string
}

type c18Stub struct {
	ln     net.Listener
	mu     sync.Mutex
	log    []c18StubReq
	sparse bool      // omit every optional member from the answers
	tags   []prog.KV // when set: the bucket's tag set (GetBucketTagging answers it)
	srv    *http.Server
}

func (s *c18Stub) addr() string { return s.ln.Addr().String() }

func (s *c18Stub) take() []c18StubReq {
	s.mu.Lock()
	defer s.mu.Unlock()
	l := s.log
	s.log = nil
	return l
}

const c18ProbeTime = "2021-02-03T04:05:06.000Z"
const c18ProbeHTTPTime = "Wed, 03 Feb 2021 04:05:06 GMT"

// c18StubOp names the S3 operation of a request the way backend.Backend names it.
func c18StubOp(r *http.Request) string {
	q := r.URL.Query()
	has := func(k string) bool { _, ok := q[k]; return ok }
	parts := strings.SplitN(strings.TrimPrefix(r.URL.EscapedPath(), "/"), "/", 2)
	bucket := parts[0]
	key := ""
	if len(parts) == 2 {
		key = parts[1]
	}
	switch {
	case bucket == "":
		return "ListBuckets"
	case key == "":
		switch r.Method {
		case "HEAD":
			return "HeadBucket"
		case "PUT":
			switch {
			case has("tagging"):
				return "PutBucketTagging"
			case has("policy"):
				return "PutBucketPolicy"
			case has("versioning"):
				return "PutBucketVersioning"
			case has("ownershipControls"):
				return "PutBucketOwnershipControls"
			}
			return "CreateBucket"
		case "DELETE":
			switch {
			case has("policy"):
				return "DeleteBucketPolicy"
			case has("ownershipControls"):
				return "DeleteBucketOwnershipControls"
			case has("tagging"):
				return "DeleteBucketTagging"
			}
			return "DeleteBucket"
		case "POST":
			if has("delete") {
				return "DeleteObjects"
			}
		case "GET":
			switch {
			case has("tagging"):
				return "GetBucketTagging"
			case has("policy"):
				return "GetBucketPolicy"
			case has("versioning"):
				return "GetBucketVersioning"
			case has("ownershipControls"):
				return "GetBucketOwnershipControls"
			case has("versions"):
				return "ListObjectVersions"
			case has("uploads"):
				return "ListMultipartUploads"
			case q.Get("list-type") == "2":
				return "ListObjectsV2"
			}
			return "ListObjects"
		}
	default:
		switch r.Method {
		case "PUT":
			switch {
			case has("tagging"):
				return "PutObjectTagging"
			case r.Header.Get("x-amz-copy-source") != "" && has("partNumber"):
				return "UploadPartCopy"
			case r.Header.Get("x-amz-copy-source") != "":
				return "CopyObject"
			case has("partNumber"):
				return "UploadPart"
			}
			return "PutObject"
		case "GET":
			switch {
			case has("tagging"):
				return "GetObjectTagging"
			case has("attributes"):
				return "GetObjectAttributes"
			case has("uploadId"):
				return "ListParts"
			}
			return "GetObject"
		case "HEAD":
			return "HeadObject"
		case "DELETE":
			switch {
			case has("tagging"):
				return "DeleteObjectTagging"
			case has("uploadId"):
				return "AbortMultipartUpload"
			}
			return "DeleteObject"
		case "POST":
			switch {
			case has("uploads"):
				return "CreateMultipartUpload"
			case has("uploadId"):
				return "CompleteMultipartUpload"
			}
		}
	}
	return "unknown"
}

// c18RespSpec: the stub's answer to one operation. Fields: SDK output path -> (wire location, value).
type c18WireVal struct {
	sdk string // SDK output path (Model.Proxy.relevantResp) — "" for members that are not judged
	loc string // "h:<header>" | "x:<xml path under the root>" | "body"
	val string
	opt bool // an optional member (left out by the sparse stub)
}

type c18RespSpec struct {
	status int
	root   string
	vals   []c18WireVal
}

func c18StubAnswers() map[string]c18RespSpec {
	x := func(sdk, path, val string) c18WireVal { return c18WireVal{sdk, "x:" + path, val, true} }
	xr := func(sdk, path, val string) c18WireVal { return c18WireVal{sdk, "x:" + path, val, false} }
	h := func(sdk, name, val string) c18WireVal { return c18WireVal{sdk, "h:" + name, val, true} }
	objHdrs := func(withBody bool) []c18WireVal {
		v := []c18WireVal{h("ETag", "ETag", `"mk-etag"`), h("ContentType", "Content-Type", "text/x-mk"),
			h("ContentEncoding", "Content-Encoding", "mk-enc"), h("ContentDisposition", "Content-Disposition", "mk-disp"),
			h("ContentLanguage", "Content-Language", "mk-lang"), h("CacheControl", "Cache-Control", "mk-cache"),
			h("ExpiresString", "Expires", "mk-expires"), h("Metadata", "x-amz-meta-probe", "mk-meta"),
			h("VersionId", "x-amz-version-id", "mk-vid"), h("StorageClass", "x-amz-storage-class", "GLACIER"),
			h("ContentRange", "Content-Range", "bytes 0-6/7"), h("", "Last-Modified", c18ProbeHTTPTime)}
		if withBody {
			v = append(v, h("TagCount", "x-amz-tagging-count", "3"), c18WireVal{"Body", "body", "MK-BODY", false}, h("ContentLength", "Content-Length", "7"))
		} else {
			v = append(v, h("PartsCount", "x-amz-mp-parts-count", "4"), h("ContentLength", "Content-Length", "7"))
		}
		return v
	}
	listCommon := func(root string) []c18WireVal {
		return []c18WireVal{x("Name", "Name", "mk-name"), x("Prefix", "Prefix", "mk-prefix"), x("MaxKeys", "MaxKeys", "9"),
			x("Delimiter", "Delimiter", "mk-delim"), x("IsTruncated", "IsTruncated", "true"), x("EncodingType", "EncodingType", "url"),
			x("CommonPrefixes", "CommonPrefixes.Prefix", "mk-cp"),
			x("Contents[].Key", "Contents.Key", "mk-key"), x("Contents[].ETag", "Contents.ETag", `"mk-etag"`), x("Contents[].Size", "Contents.Size", "11"),
			x("Contents[].StorageClass", "Contents.StorageClass", "GLACIER"), x("Contents[].Owner", "Contents.Owner.ID", "mk-owner"),
			x("", "Contents.LastModified", c18ProbeTime)}
	}
	return map[string]c18RespSpec{
		"ListBuckets": {200, "ListAllMyBucketsResult", []c18WireVal{xr("Owner.ID", "Owner.ID", "mk-owner"), x("", "Owner.DisplayName", "dn"),
			xr("Buckets[].Name", "Buckets.Bucket.Name", "mk-bucket"), xr("", "Buckets.Bucket.CreationDate", c18ProbeTime),
			x("ContinuationToken", "ContinuationToken", "mk-ct"), x("Prefix", "Prefix", "mk-prefix")}},
		"HeadBucket":                    {200, "", nil},
		"CreateBucket":                  {200, "", nil},
		"DeleteBucket":                  {204, "", nil},
		"PutBucketTagging":              {200, "", nil},
		"PutBucketPolicy":               {204, "", nil},
		"DeleteBucketPolicy":            {204, "", nil},
		"PutBucketVersioning":           {200, "", nil},
		"PutBucketOwnershipControls":    {200, "", nil},
		"DeleteBucketOwnershipControls": {204, "", nil},
		"GetBucketPolicy":               {200, "", []c18WireVal{{"Policy", "body", `{"Version":"2012-10-17","Id":"mk-policy"}`, false}}},
		"GetBucketVersioning":           {200, "VersioningConfiguration", []c18WireVal{x("Status", "Status", "Enabled")}},
		"GetBucketOwnershipControls":    {200, "OwnershipControls", []c18WireVal{xr("OwnershipControls.Rules[].ObjectOwnership", "Rule.ObjectOwnership", "ObjectWriter")}},
		"PutObject": {200, "", []c18WireVal{c18WireVal{"ETag", "h:ETag", `"mk-etag"`, false}, h("VersionId", "x-amz-version-id", "mk-vid"),
			h("ChecksumCRC32", "x-amz-checksum-crc32", "mk-crc32"), h("ChecksumType", "x-amz-checksum-type", "FULL_OBJECT")}},
		"HeadObject": {200, "", objHdrs(false)},
		"GetObject":  {200, "", objHdrs(true)},
		"CopyObject": {200, "CopyObjectResult", []c18WireVal{x("CopyObjectResult", "ETag", `"mk-etag"`), x("", "LastModified", c18ProbeTime),
			h("VersionId", "x-amz-version-id", "mk-vid"), h("CopySourceVersionId", "x-amz-copy-source-version-id", "mk-svid")}},
		"DeleteObject": {204, "", []c18WireVal{h("DeleteMarker", "x-amz-delete-marker", "true"), h("VersionId", "x-amz-version-id", "mk-vid")}},
		"DeleteObjects": {200, "DeleteResult", []c18WireVal{x("Deleted", "Deleted.Key", "mk-deleted"), x("Errors", "Error.Key", "mk-errkey"),
			x("", "Error.Code", "AccessDenied")}},
		"PutObjectTagging":    {200, "", nil},
		"DeleteObjectTagging": {204, "", nil},
		"GetObjectTagging":    {200, "Tagging", []c18WireVal{xr("", "TagSet.Tag.Key", "mk-tagkey"), xr("", "TagSet.Tag.Value", "mk-tagval")}},
		"ListObjects":         {200, "ListBucketResult", append(listCommon(""), x("Marker", "Marker", "mk-marker"), x("NextMarker", "NextMarker", "mk-next"))},
		"ListObjectsV2": {200, "ListBucketResult", append(listCommon(""), x("StartAfter", "StartAfter", "mk-startafter"),
			x("ContinuationToken", "ContinuationToken", "mk-ct"), x("NextContinuationToken", "NextContinuationToken", "mk-nct"), x("KeyCount", "KeyCount", "1"))},
		"ListObjectVersions": {200, "ListVersionsResult", []c18WireVal{x("Name", "Name", "mk-name"), x("Prefix", "Prefix", "mk-prefix"),
			x("Delimiter", "Delimiter", "mk-delim"), x("KeyMarker", "KeyMarker", "mk-km"), x("NextKeyMarker", "NextKeyMarker", "mk-nkm"),
			x("NextVersionIdMarker", "NextVersionIdMarker", "mk-nvm"), x("MaxKeys", "MaxKeys", "9"), x("IsTruncated", "IsTruncated", "true"),
			x("CommonPrefixes", "CommonPrefixes.Prefix", "mk-cp"), x("Versions", "Version.Key", "mk-vkey"), x("", "Version.VersionId", "mk-vvid"),
			x("", "Version.LastModified", c18ProbeTime), x("DeleteMarkers", "DeleteMarker.Key", "mk-dkey"), x("", "DeleteMarker.LastModified", c18ProbeTime)}},
		"CreateMultipartUpload": {200, "InitiateMultipartUploadResult", []c18WireVal{xr("Bucket", "Bucket", "mk-bucket"), xr("Key", "Key", "mk-key"), xr("UploadId", "UploadId", "mk-upid")}},
		"UploadPart":            {200, "", []c18WireVal{h("ETag", "ETag", `"mk-etag"`)}},
		"UploadPartCopy": {200, "CopyPartResult", []c18WireVal{x("CopyPartResult.ETag", "ETag", `"mk-etag"`), xr("", "LastModified", c18ProbeTime),
			h("CopySourceVersionId", "x-amz-copy-source-version-id", "mk-svid")}},
		"ListParts": {200, "ListPartsResult", []c18WireVal{xr("Bucket", "Bucket", "mk-bucket"), xr("Key", "Key", "mk-key"), xr("UploadId", "UploadId", "mk-upid"),
			xr("IsTruncated", "IsTruncated", "true"), x("StorageClass", "StorageClass", "GLACIER"), xr("", "PartNumberMarker", "3"), xr("", "NextPartNumberMarker", "5"),
			xr("", "MaxParts", "9"), xr("", "Initiator.ID", "mk-init"), x("", "Initiator.DisplayName", "dn"), xr("", "Owner.ID", "mk-own"), x("", "Owner.DisplayName", "dn"),
			xr("Parts[].PartNumber", "Part.PartNumber", "4"), xr("Parts[].ETag", "Part.ETag", `"mk-petag"`), xr("Parts[].Size", "Part.Size", "12"), xr("", "Part.LastModified", c18ProbeTime)}},
		"ListMultipartUploads": {200, "ListMultipartUploadsResult", []c18WireVal{xr("Bucket", "Bucket", "mk-bucket"), xr("KeyMarker", "KeyMarker", "mk-km"),
			xr("UploadIdMarker", "UploadIdMarker", "mk-uim"), xr("NextKeyMarker", "NextKeyMarker", "mk-nkm"), xr("NextUploadIdMarker", "NextUploadIdMarker", "mk-nuim"),
			x("Delimiter", "Delimiter", "mk-delim"), xr("Prefix", "Prefix", "mk-prefix"), xr("IsTruncated", "IsTruncated", "true"), xr("", "MaxUploads", "9"),
			xr("Uploads[].Key", "Upload.Key", "mk-ukey"), xr("Uploads[].UploadId", "Upload.UploadId", "mk-uid"), x("Uploads[].StorageClass", "Upload.StorageClass", "GLACIER"),
			xr("", "Upload.Initiated", c18ProbeTime), xr("", "Upload.Initiator.ID", "mk-init"), x("", "Upload.Initiator.DisplayName", "dn"),
			xr("", "Upload.Owner.ID", "mk-own"), x("", "Upload.Owner.DisplayName", "dn"), xr("CommonPrefixes[].Prefix", "CommonPrefixes.Prefix", "mk-cp")}},
		"CompleteMultipartUpload": {200, "CompleteMultipartUploadResult", []c18WireVal{x("Bucket", "Bucket", "mk-bucket"), x("Key", "Key", "mk-key"), x("ETag", "ETag", `"mk-etag-2"`),
			h("VersionId", "x-amz-version-id", "mk-vid")}},
		"AbortMultipartUpload": {204, "", nil},
	}
}

func c18BuildXML(root string, vals []c18WireVal, sparse bool) []byte {
	type node struct {
		name string
		text string
		kids []*node
	}
	top := &node{name: root}
	for _, v := range vals {
		if !strings.HasPrefix(v.loc, "x:") || (sparse && v.opt) {
			continue
		}
		cur := top
		for _, p := range strings.Split(v.loc[2:], ".") {
			var nx *node
			for _, k := range cur.kids {
				if k.name == p {
					nx = k
				}
			}
			if nx == nil {
				nx = &node{name: p}
				cur.kids = append(cur.kids, nx)
			}
			cur = nx
		}
		cur.text = v.val
	}
	var b bytes.Buffer
	var emit func(n *node)
	emit = func(n *node) {
		b.WriteString("<" + n.name)
		if n == top {
			b.WriteString(` xmlns="http://s3.amazonaws.com/doc/2006-03-01/"`)
		}
		b.WriteString(">")
		xml.EscapeText(&b, []byte(n.text))
		for _, k := range n.kids {
			emit(k)
		}
		b.WriteString("</" + n.name + ">")
	}
	b.WriteString(`<?xml version="1.0" encoding="UTF-8"?>`)
	emit(top)
	return b.Bytes()
}

func (s *c18Stub) serve(w http.ResponseWriter, r *http.Request) {
	body, _ := io.ReadAll(r.Body)
	opn := c18StubOp(r)
	s.mu.Lock()
	s.log = append(s.log, c18StubReq{r.Method, r.URL.EscapedPath(), r.URL.Query(), r.Header.Clone(), body, opn})
	sparse := s.sparse
	tags := s.tags
	s.mu.Unlock()
	w.Header().Set("x-amz-request-id", "stub")
	if opn == "GetBucketTagging" && tags != nil {
		w.Header().Set("Content-Type", "application/xml")
		w.WriteHeader(200)
		w.Write(prog.TagsXML(tags))
		return
	}
	if opn == "GetBucketTagging" {
		// the gateway reads its ACL tag before every bucket request: none = bucket of root
		w.Header().Set("Content-Type", "application/xml")
		w.WriteHeader(404)
		w.Write([]byte(`<?xml version="1.0" encoding="UTF-8"?><Error><Code>NoSuchTagSet</Code><Message>The TagSet does not exist</Message></Error>`))
		return
	}
	sp, ok := c18StubAnswers()[opn]
	if !ok {
		w.WriteHeader(501)
		w.Write([]byte(`<?xml version="1.0" encoding="UTF-8"?><Error><Code>NotImplemented</Code><Message>stub: ` + opn + `</Message></Error>`))
		return
	}
	var raw []byte
	for _, v := range sp.vals {
		switch {
		case strings.HasPrefix(v.loc, "h:"):
			if !(sparse && v.opt) {
				w.Header().Set(v.loc[2:], v.val)
			}
		case v.loc == "body":
			raw = []byte(v.val)
		}
	}
	if sp.root != "" {
		raw = c18BuildXML(sp.root, sp.vals, sparse)
		w.Header().Set("Content-Type", "application/xml")
	}
	w.WriteHeader(sp.status)
	if r.Method != "HEAD" {
		w.Write(raw)
	}
}

func c18StartStub(dir string) (*c18Stub, error) {
	certFile, keyFile, err := c18Cert(dir)
	if err != nil {
		return nil, err
	}
	cert, err := tls.LoadX509KeyPair(certFile, keyFile)
	if err != nil {
		return nil, err
	}
	ln, err := tls.Listen("tcp", "127.0.0.1:0", &tls.Config{Certificates: []tls.Certificate{cert}})
	if err != nil {
		return nil, err
	}
	s := &c18Stub{ln: ln}
	s.srv = &http.Server{Handler: http.HandlerFunc(s.serve), ReadTimeout: 30 * time.Second}
	go s.srv.Serve(ln)
	return s, nil
}

// ---------------------------------------------------------------- wire locations of request fields

// c18ReqWire: where an SDK input field of a method travels. "" = not a wire field of its own.
func c18ReqWire(method, sdk string) string {
	switch sdk {
	case "Bucket":
		return "p:bucket"
	case "Key":
		return "p:key"
	case "Body":
		return "body:MK-PAYLOAD"
	case "ContentLength":
		return ""
	}
	hdr := map[string]string{"ContentType": "Content-Type", "ContentEncoding": "Content-Encoding", "ContentDisposition": "Content-Disposition",
		"ContentLanguage": "Content-Language", "CacheControl": "Cache-Control", "Expires": "Expires", "Metadata": "x-amz-meta-probe", "Tagging": "x-amz-tagging",
		"ChecksumCRC32": "x-amz-checksum-crc32", "ChecksumCRC32C": "x-amz-checksum-crc32c", "ChecksumSHA1": "x-amz-checksum-sha1", "ChecksumSHA256": "x-amz-checksum-sha256",
		"ChecksumCRC64NVME": "x-amz-checksum-crc64nvme", "ObjectLockMode": "x-amz-object-lock-mode", "ObjectLockRetainUntilDate": "x-amz-object-lock-retain-until-date",
		"ObjectLockLegalHoldStatus": "x-amz-object-lock-legal-hold", "Range": "Range", "ChecksumMode": "x-amz-checksum-mode", "CopySource": "x-amz-copy-source",
		"MetadataDirective": "x-amz-metadata-directive", "TaggingDirective": "x-amz-tagging-directive", "CopySourceIfMatch": "x-amz-copy-source-if-match",
		"CopySourceIfNoneMatch": "x-amz-copy-source-if-none-match", "CopySourceIfModifiedSince": "x-amz-copy-source-if-modified-since",
		"CopySourceIfUnmodifiedSince": "x-amz-copy-source-if-unmodified-since", "StorageClass": "x-amz-storage-class", "CopySourceRange": "x-amz-copy-source-range",
		"ChecksumType": "x-amz-checksum-type", "MpuObjectSize": "x-amz-mp-object-size", "ObjectOwnership": "x-amz-object-ownership"}
	qry := map[string]string{"Prefix": "prefix", "Delimiter": "delimiter", "Marker": "marker", "MaxKeys": "max-keys", "ContinuationToken": "continuation-token",
		"StartAfter": "start-after", "FetchOwner": "fetch-owner", "KeyMarker": "key-marker", "VersionIdMarker": "version-id-marker", "UploadIdMarker": "upload-id-marker",
		"MaxUploads": "max-uploads", "MaxParts": "max-parts", "PartNumberMarker": "part-number-marker", "PartNumber": "partNumber", "UploadId": "uploadId",
		"VersionId": "versionId", "MaxBuckets": "max-buckets"}
	if sdk == "ChecksumAlgorithm" {
		if method == "PutObject" || method == "UploadPart" {
			return "h:x-amz-sdk-checksum-algorithm"
		}
		return "h:x-amz-checksum-algorithm"
	}
	if method == "GetObjectAttributes" && (sdk == "MaxParts" || sdk == "PartNumberMarker") {
		return "h:x-amz-" + map[string]string{"MaxParts": "max-parts", "PartNumberMarker": "part-number-marker"}[sdk]
	}
	if method == "ListBuckets" && (sdk == "Prefix" || sdk == "ContinuationToken") {
		return "q:" + map[string]string{"Prefix": "prefix", "ContinuationToken": "continuation-token"}[sdk]
	}
	if h, ok := hdr[sdk]; ok {
		return "h:" + h
	}
	if q, ok := qry[sdk]; ok {
		return "q:" + q
	}
	switch sdk {
	case "Policy":
		return "body:mk-policy"
	case "Delete":
		return "body:mk-delkey"
	case "MultipartUpload":
		return "body:mk-part-etag"
	case "OwnershipControls.Rules[].ObjectOwnership":
		return "body:ObjectWriter"
	case "VersioningConfiguration.Status":
		return "body:Suspended"
	}
	if method == "PutObjectTagging" && sdk == "Tagging" {
		return "body:mk-tagval"
	}
	return ""
}

// probe values per request field: [ordinary, edge]
func c18ProbeValue(method, f string, edge bool) string {
	switch f {
	case "ContentType":
		return "text/x-probe"
	case "ContentEncoding":
		return "mk-enc"
	case "ContentDisposition":
		return "mk-disp"
	case "ContentLanguage":
		return "mk-lang"
	case "CacheControl":
		return "mk-cache"
	case "Expires":
		if edge {
			return "never"
		}
		return "Thu, 01 Dec 2033 16:00:00 GMT"
	case "Metadata":
		return "mk-meta"
	case "Tagging":
		return "mk-tagkey=mk-tagval"
	case "ChecksumCRC32":
		return gw.ChecksumB64("crc32", []byte("MK-PAYLOAD"))
	case "ObjectLockMode":
		return "GOVERNANCE"
	case "ObjectLockRetainUntilDate":
		return "2033-12-01T16:00:00Z"
	case "ObjectLockLegalHoldStatus":
		return "ON"
	case "Range":
		return "bytes=0-6"
	case "ChecksumMode":
		return "ENABLED"
	case "MetadataDirective", "TaggingDirective":
		return "REPLACE"
	case "CopySourceIfMatch", "CopySourceIfNoneMatch":
		return `"mk-cond"`
	case "CopySourceIfModifiedSince", "CopySourceIfUnmodifiedSince":
		return "20210203T040506Z" // the front end's own format constant iso8601Format
	case "StorageClass":
		return "STANDARD"
	case "CopySourceRange":
		return "bytes=0-3"
	case "ChecksumType":
		return "FULL_OBJECT"
	case "ChecksumAlgorithm":
		if method == "CopyObject" || method == "CreateMultipartUpload" {
			return "CRC32"
		}
		return ""
	case "MaxBuckets":
		return "7"
	case "MpuObjectSize", "MaxKeys", "MaxUploads", "MaxParts":
		if edge {
			return "0"
		}
		return "7"
	case "ObjectOwnership":
		return "ObjectWriter"
	case "Prefix":
		return "mk-prefix"
	case "Delimiter":
		return "mk-delim"
	case "Marker":
		return "mk-marker"
	case "ContinuationToken":
		return "mk-ct"
	case "StartAfter":
		return "mk-startafter"
	case "FetchOwner":
		return "true"
	case "KeyMarker":
		return "mk-km"
	case "VersionIdMarker":
		return "mk-vidm"
	case "UploadIdMarker":
		return "mk-uidm"
	case "PartNumberMarker":
		return "3"
	case "PartNumber":
		return "2"
	case "UploadId":
		return "mk-upid"
	case "VersionId":
		return "mk-vid"
	}
	return ""
}

type c18ProbeShape struct {
	httpMethod string
	keyed      bool
	query      string // fixed part of the query
	hdrs       []gw.Header
	body       string
	fields     []string // request fields (SDK names) set through their wire location
}

func c18ProbeShapes() map[string]c18ProbeShape {
	src := gw.Header{K: "x-amz-copy-source", V: "mk-srcbucket/mk-srckey"}
	return map[string]c18ProbeShape{
		"ListBuckets":  {"GET", false, "", nil, "", []string{"Prefix", "ContinuationToken", "MaxBuckets"}},
		"HeadBucket":   {"HEAD", false, "", nil, "", nil},
		"CreateBucket": {"PUT", false, "", nil, "", []string{"ObjectOwnership"}},
		"DeleteBucket": {"DELETE", false, "", nil, "", nil},
		"PutBucketOwnershipControls": {"PUT", false, "ownershipControls", nil,
			`<OwnershipControls xmlns="http://s3.amazonaws.com/doc/2006-03-01/"><Rule><ObjectOwnership>ObjectWriter</ObjectOwnership></Rule></OwnershipControls>`, nil},
		"GetBucketOwnershipControls":    {"GET", false, "ownershipControls", nil, "", nil},
		"DeleteBucketOwnershipControls": {"DELETE", false, "ownershipControls", nil, "", nil},
		"PutBucketVersioning": {"PUT", false, "versioning", nil,
			`<VersioningConfiguration xmlns="http://s3.amazonaws.com/doc/2006-03-01/"><Status>Suspended</Status></VersioningConfiguration>`, nil},
		"GetBucketVersioning": {"GET", false, "versioning", nil, "", nil},
		"PutBucketPolicy": {"PUT", false, "policy", nil,
			`{"Version":"2012-10-17","Id":"mk-policy","Statement":[{"Effect":"Allow","Principal":"*","Action":"s3:GetObject","Resource":"arn:aws:s3:::probe-bkt/*"}]}`, nil},
		"GetBucketPolicy":    {"GET", false, "policy", nil, "", nil},
		"DeleteBucketPolicy": {"DELETE", false, "policy", nil, "", nil},
		"PutObject": {"PUT", true, "", nil, "MK-PAYLOAD", []string{"ContentType", "ContentEncoding", "ContentDisposition", "ContentLanguage", "CacheControl", "Expires",
			"Metadata", "Tagging", "ChecksumCRC32", "ObjectLockMode", "ObjectLockRetainUntilDate", "ObjectLockLegalHoldStatus"}},
		"HeadObject": {"HEAD", true, "", nil, "", []string{"VersionId", "PartNumber", "ChecksumMode"}},
		"GetObject":  {"GET", true, "", nil, "", []string{"VersionId", "Range", "ChecksumMode"}},
		"CopyObject": {"PUT", true, "", []gw.Header{src}, "", []string{"ContentType", "ContentEncoding", "ContentDisposition", "ContentLanguage", "CacheControl", "Expires",
			"Metadata", "MetadataDirective", "Tagging", "TaggingDirective", "CopySourceIfMatch", "CopySourceIfNoneMatch", "CopySourceIfModifiedSince",
			"CopySourceIfUnmodifiedSince", "StorageClass", "ChecksumAlgorithm"}},
		"DeleteObject": {"DELETE", true, "", nil, "", []string{"VersionId"}},
		"DeleteObjects": {"POST", false, "delete", nil,
			`<Delete xmlns="http://s3.amazonaws.com/doc/2006-03-01/"><Object><Key>mk-delkey</Key></Object></Delete>`, nil},
		"PutObjectTagging": {"PUT", true, "tagging", nil,
			`<Tagging xmlns="http://s3.amazonaws.com/doc/2006-03-01/"><TagSet><Tag><Key>mk-tagkey</Key><Value>mk-tagval</Value></Tag></TagSet></Tagging>`, nil},
		"GetObjectTagging":    {"GET", true, "tagging", nil, "", nil},
		"DeleteObjectTagging": {"DELETE", true, "tagging", nil, "", nil},
		"ListObjects":         {"GET", false, "", nil, "", []string{"Prefix", "Marker", "Delimiter", "MaxKeys"}},
		"ListObjectsV2":       {"GET", false, "list-type=2", nil, "", []string{"Prefix", "ContinuationToken", "Delimiter", "MaxKeys", "StartAfter", "FetchOwner"}},
		"ListObjectVersions":  {"GET", false, "versions", nil, "", []string{"Prefix", "Delimiter", "KeyMarker", "VersionIdMarker", "MaxKeys"}},
		"CreateMultipartUpload": {"POST", true, "uploads", nil, "", []string{"ContentType", "ContentEncoding", "ContentDisposition", "ContentLanguage", "CacheControl",
			"Expires", "Metadata", "Tagging", "ChecksumAlgorithm", "ChecksumType"}},
		"UploadPart":           {"PUT", true, "", nil, "MK-PAYLOAD", []string{"UploadId", "PartNumber", "ChecksumCRC32"}},
		"UploadPartCopy":       {"PUT", true, "", []gw.Header{src}, "", []string{"UploadId", "PartNumber", "CopySourceRange"}},
		"ListParts":            {"GET", true, "", nil, "", []string{"UploadId", "PartNumberMarker", "MaxParts"}},
		"ListMultipartUploads": {"GET", false, "uploads", nil, "", []string{"Prefix", "Delimiter", "KeyMarker", "UploadIdMarker", "MaxUploads"}},
		"CompleteMultipartUpload": {"POST", true, "", nil,
			`<CompleteMultipartUpload xmlns="http://s3.amazonaws.com/doc/2006-03-01/"><Part><PartNumber>1</PartNumber><ETag>mk-part-etag</ETag></Part></CompleteMultipartUpload>`,
			[]string{"UploadId", "ChecksumType", "MpuObjectSize"}},
		"AbortMultipartUpload": {"DELETE", true, "", nil, "", []string{"UploadId"}},
	}
}

// ---------------------------------------------------------------- the probe

func c18NormTime(s string) string {
	for _, f := range []string{"20060102T150405Z", time.RFC1123, time.RFC3339, "2006-01-02T15:04:05.000Z", time.RFC850, "Mon, 02 Jan 2006 15:04:05 GMT"} {
		if t, err := time.Parse(f, s); err == nil {
			return t.UTC().Format(time.RFC3339)
		}
	}
	return s
}

func c18StubGet(r c18StubReq, loc string) (string, bool) {
	switch {
	case strings.HasPrefix(loc, "h:"):
		v := r.Header.Values(loc[2:])
		if len(v) == 0 {
			return "", false
		}
		return strings.Join(v, ","), true
	case strings.HasPrefix(loc, "q:"):
		v, ok := r.Query[loc[2:]]
		if !ok {
			return "", false
		}
		return strings.Join(v, ","), true
	case loc == "p:bucket":
		p := strings.SplitN(strings.TrimPrefix(r.Path, "/"), "/", 2)
		return p[0], p[0] != ""
	case loc == "p:key":
		p := strings.SplitN(strings.TrimPrefix(r.Path, "/"), "/", 2)
		if len(p) < 2 {
			return "", false
		}
		return p[1], true
	case strings.HasPrefix(loc, "body:"):
		if bytes.Contains(r.Body, []byte(loc[5:])) {
			return loc[5:], true
		}
		return "", false
	}
	return "", false
}

func c18ParseModelFields(s string) map[string]string {
	m := map[string]string{}
	if s == "-" || s == "" {
		return m
	}
	for _, it := range strings.Split(s, ",") {
		kv := strings.SplitN(it, "=", 2)
		if len(kv) != 2 {
			continue
		}
		if kv[1] == "?" {
			m[kv[0]] = "?"
			continue
		}
		if kv[1] == "-" {
			m[kv[0]] = ""
			continue
		}
		b, _ := hexDecodeStr(kv[1])
		m[kv[0]] = b
	}
	return m
}

func c18Probe(a lib.Args, res *lib.Result) error {
	if c18Skip(a, "probe") {
		return nil
	}
	facts, err := c18AskModel(a)
	if err != nil {
		return err
	}
	out, err := a.Driver.Ask([]string{"proxy relevantreq", "proxy relevantresp", "proxy derefs"})
	if err != nil {
		return err
	}
	type ent struct{ m, a, b string }
	var relReq, relResp []ent
	for _, x := range strings.Split(out[0], ",") {
		p := strings.SplitN(x, "|", 3)
		relReq = append(relReq, ent{p[0], p[1], p[2]})
	}
	for _, x := range strings.Split(out[1], ",") {
		p := strings.SplitN(x, "|", 3)
		relResp = append(relResp, ent{p[0], p[1], p[2]})
	}
	cfg, err := mustStorage(a, "c18probe-P", false, false, func(c *gw.Config) {
		c.Env = []string{"AWS_CA_BUNDLE=", "AWS_EC2_METADATA_DISABLED=true", "AWS_CONFIG_FILE=/dev/null", "AWS_SHARED_CREDENTIALS_FILE=/dev/null", "AWS_PROFILE=", "AWS_MAX_ATTEMPTS=1"}
	})
	if err != nil {
		return err
	}
	stub, err := c18StartStub(cfg.Work)
	if err != nil {
		return err
	}
	defer stub.srv.Close()
	cfg.BackendArgs = []string{"s3", "--endpoint", "https://" + stub.addr(), "--access", "stubaccess", "--secret", "stubsecret", "--region", "us-east-1", "--ssl-skip-verify"}
	P, err := gw.Start(cfg)
	if err != nil {
		return err
	}
	defer P.Kill()
	w := &prog.World{Root: rootCreds(cfg), Gws: []*gw.Gateway{P}}
	shapes := c18ProbeShapes()
	answers := c18StubAnswers()
	var names []string
	for m := range shapes {
		names = append(names, m)
	}
	sort.Strings(names)
	const bucket, key = "probe-bkt", "probe/key"
	send := func(m string, sh c18ProbeShape, edge bool) (*prog.Obs, map[string]string) {
		req := gw.Req{Method: sh.httpMethod, Path: "/" + bucket, Body: []byte(sh.body)}
		if m == "ListBuckets" {
			req.Path = "/"
		}
		if sh.keyed {
			req.Path += "/" + key
		}
		q := []string{}
		if sh.query != "" {
			q = append(q, sh.query)
		}
		req.Headers = append(req.Headers, sh.hdrs...)
		sent := map[string]string{}
		for _, f := range sh.fields {
			v := c18ProbeValue(m, f, edge)
			if v == "" {
				continue
			}
			loc := c18ReqWire(m, f)
			switch {
			case strings.HasPrefix(loc, "h:"):
				req.Set(loc[2:], v)
			case strings.HasPrefix(loc, "q:"):
				q = append(q, loc[2:]+"="+gw.EncodeQueryValue(v))
			default:
				continue
			}
			sent[f] = v
		}
		req.Query = strings.Join(q, "&")
		stub.take()
		return w.ExecRaw("root", req), sent
	}
	var lines []string
	type pending struct {
		m      string
		edge   bool
		sent   map[string]string
		stubRq *c18StubReq
		obs    *prog.Obs
	}
	var pend []pending
	for _, m := range names {
		sh := shapes[m]
		for _, edge := range []bool{false, true} {
			obs, sent := send(m, sh, edge)
			if !P.Alive() {
				res.Fail(lib.Failure{Kind: "property", Signature: "proxy:probe:" + m + ":crash", What: "the gateway in front of the stub endpoint died", Input: map[string]interface{}{"family": "probe", "method": m, "edge": edge}, Impl: P.Log.String()})
				if err := P.Restart(); err != nil {
					return err
				}
				continue
			}
			var sr *c18StubReq
			for _, r := range stub.take() {
				if r.Op == m {
					rr := r
					sr = &rr
				}
			}
			res.Count(fmt.Sprintf("probe|%s|%v", m, edge), true, "probe:requests")
			if sr == nil {
				res.Histogram["probe:not-forwarded:"+m]++
				res.Note("probe: %s (edge=%v) was answered by the gateway itself with %d %s — nothing reached the endpoint", m, edge, obs.Status, obs.Code)
				continue
			}
			// the model's SDK input for this request
			var fs []string
			fs = append(fs, "Bucket="+lib.HexS(bucket))
			if sh.keyed {
				fs = append(fs, "Key="+lib.HexS(key))
			}
			for f, v := range sent {
				fs = append(fs, f+"="+lib.HexS(v))
			}
			sort.Strings(fs)
			lines = append(lines, "proxy sdkinput "+m+" "+strings.Join(fs, ","))
			// the model's result for the stub's answer
			var os []string
			for _, v := range answers[m].vals {
				if v.sdk != "" {
					os = append(os, v.sdk+"="+lib.HexS(v.val))
				}
			}
			if len(os) == 0 {
				os = []string{"-"}
			}
			lines = append(lines, "proxy gwresult "+m+" "+strings.Join(os, ","))
			pend = append(pend, pending{m, edge, sent, sr, obs})
		}
	}
	mout, err := a.Driver.Ask(lines)
	if err != nil {
		return err
	}
	for i, p := range pend {
		if mout[2*i] == "bad-op" || mout[2*i+1] == "bad-op" {
			return fmt.Errorf("model driver rejected: %s / %s", lines[2*i], lines[2*i+1])
		}
		min, mres := c18ParseModelFields(mout[2*i]), c18ParseModelFields(mout[2*i+1])
		// ---- request side: every relevant request field of this method that has a wire location
		for _, e := range relReq {
			if e.m != p.m {
				continue
			}
			loc := c18ReqWire(p.m, e.b)
			if loc == "" {
				continue
			}
			var sent string
			var was bool
			switch {
			case loc == "p:bucket":
				sent, was = bucket, true
			case loc == "p:key":
				sent, was = key, true
			case strings.HasPrefix(loc, "body:"):
				sent, was = loc[5:], true
			default:
				sent, was = p.sent[e.b]
				if !was {
					continue
				}
			}
			got, arrived := c18StubGet(*p.stubRq, loc)
			class := fmt.Sprintf("probe:req:%s.%s", p.m, e.a)
			res.Histogram["probe:req-fields"]++
			mv, mhas := min[e.b]
			if strings.HasPrefix(loc, "body:") || loc == "p:bucket" || loc == "p:key" {
				// body members and path components are not individually in the model's request map
				// unless the method is struct-typed: judge by the table criterion
				// (a field the table does not certify but Model/Proxy.lean argues harmless must arrive)
				ok := !facts.lossy[p.m+"."+e.a] || facts.argued[p.m+"."+e.a]
				if ok != arrived {
					res.Fail(lib.Failure{Kind: "correspondence", Signature: class, What: fmt.Sprintf("table says preserved=%v, the endpoint saw it=%v", ok, arrived),
						Input: map[string]interface{}{"family": "probe", "method": p.m, "field": e.a, "edge": p.edge, "sent": sent}, Impl: got, Model: fmt.Sprint(ok)})
				}
				continue
			}
			switch {
			case mhas && mv == "?":
				res.Histogram["probe:req-computed"]++
				tag := "arrives"
				if !arrived {
					tag = "lost"
				}
				res.Histogram[fmt.Sprintf("probe:computed:%s.%s=%s:%s", p.m, e.a, sent, tag)]++
			case mhas:
				if !arrived || c18NormTime(got) != c18NormTime(mv) {
					res.Fail(lib.Failure{Kind: "correspondence", Signature: class, What: "the model says this request field reaches the SDK call with this value; the endpoint saw something else",
						Input: map[string]interface{}{"family": "probe", "method": p.m, "field": e.a, "edge": p.edge, "sent": sent}, Impl: fmt.Sprintf("arrived=%v %q", arrived, got), Model: mv})
				}
			default:
				if arrived {
					res.Fail(lib.Failure{Kind: "correspondence", Signature: class, What: "the model says this request field does not reach the SDK call; the endpoint saw it",
						Input: map[string]interface{}{"family": "probe", "method": p.m, "field": e.a, "edge": p.edge, "sent": sent}, Impl: got, Model: "absent"})
				} else {
					res.Histogram[fmt.Sprintf("probe:lost-as-modelled:%s.%s=%s", p.m, e.a, sent)]++
				}
			}
		}
		if p.edge {
			continue
		}
		// ---- answer side
		cx := c18ParseXML(p.obs.Raw.Body)
		cvals := map[string]string{}
		c18FlattenXML(cx, func(s string) string { return s }, cvals, nil)
		for _, v := range answers[p.m].vals {
			if v.sdk == "" {
				continue
			}
			// which result field does the specification pair with this SDK output field?
			resName := ""
			for _, e := range relResp {
				if e.m == p.m && e.a == v.sdk {
					resName = e.b
				}
			}
			if resName == "" {
				continue
			}
			var got string
			var has bool
			switch {
			case strings.HasPrefix(v.loc, "h:"):
				got = p.obs.Raw.Headers.Get(v.loc[2:])
				has = got != ""
			case strings.HasPrefix(v.loc, "x:"):
				got, has = cvals["xml:"+v.loc[2:]]
			case v.loc == "body":
				got, has = string(p.obs.Raw.Body), len(p.obs.Raw.Body) > 0
			}
			res.Histogram["probe:resp-fields"]++
			class := fmt.Sprintf("probe:resp:%s.%s", p.m, v.sdk)
			mv, mhas := mres[resName]
			switch {
			case mhas && mv == "?":
				res.Histogram["probe:resp-computed"]++
			case mhas:
				if !has || got != mv {
					res.Fail(lib.Failure{Kind: "correspondence", Signature: class, What: "the model says this output field reaches the client; the client saw something else",
						Input: map[string]interface{}{"family": "probe", "method": p.m, "field": v.sdk, "status": p.obs.Status}, Impl: fmt.Sprintf("present=%v %q", has, got), Model: mv})
				}
			default:
				if has && got == v.val {
					res.Fail(lib.Failure{Kind: "correspondence", Signature: class, What: "the model says this output field is not copied; the client saw it",
						Input: map[string]interface{}{"family": "probe", "method": p.m, "field": v.sdk}, Impl: got, Model: "absent"})
				} else {
					res.Histogram["probe:dropped-as-modelled:"+p.m+"."+v.sdk]++
				}
			}
		}
	}
	// ---- PutBucketAcl on a bucket that has other tags: what is written back, in order
	{
		oldACL := `{"Owner":"` + cfg.Access + `","Grantees":[{"Permission":"FULL_CONTROL","Access":"` + cfg.Access + `","Type":"CanonicalUser"}]}`
		for _, layout := range [][]prog.KV{
			{{K: "versitygwAcl", V: base64.StdEncoding.EncodeToString([]byte(oldACL))}},
			{{K: "team", V: "x"}, {K: "versitygwAcl", V: base64.StdEncoding.EncodeToString([]byte(oldACL))}, {K: "env", V: "prod"}},
			{{K: "team", V: "x"}},
		} {
			stub.mu.Lock()
			stub.tags = layout
			stub.mu.Unlock()
			stub.take()
			obs := w.ExecRaw("root", gw.Req{Method: "PUT", Path: "/" + bucket, Query: "acl", Headers: []gw.Header{{K: "x-amz-acl", V: "public-read"}, {K: "x-amz-object-ownership", V: "BucketOwnerPreferred"}}})
			var put *c18StubReq
			for _, r := range stub.take() {
				if r.Op == "PutBucketTagging" {
					rr := r
					put = &rr
				}
			}
			res.Count(fmt.Sprintf("probe-aclput|%d", len(layout)), true, "probe:aclput")
			if put == nil {
				res.Note("probe: PutBucketAcl was answered %d %s without a PutBucketTagging at the endpoint", obs.Status, obs.Code)
				continue
			}
			var t struct {
				Tags []struct {
					Key   string `xml:"Key"`
					Value string `xml:"Value"`
				} `xml:"TagSet>Tag"`
			}
			xml.Unmarshal(put.Body, &t)
			var got []string
			newACL := ""
			for _, x := range t.Tags {
				got = append(got, lib.HexS(x.Key)+":"+lib.HexS(x.Value))
				if x.Key == "versitygwAcl" {
					raw, _ := base64.StdEncoding.DecodeString(x.Value)
					newACL = string(raw)
				}
			}
			var have []string
			for _, kv := range layout {
				have = append(have, lib.HexS(kv.K)+":"+lib.HexS(kv.V))
			}
			ml, err := a.Driver.Ask([]string{"proxy aclput " + strings.Join(have, ",") + " " + lib.HexS(newACL)})
			if err != nil {
				return err
			}
			if ml[0] != "ok "+strings.Join(got, ",") {
				res.Fail(lib.Failure{Kind: "correspondence", Signature: "probe:aclput", What: "PutBucketAcl wrote a different tag set to the endpoint than Model.Proxy.putBucketAcl computes (same old tags, same ACL bytes)",
					Input: map[string]interface{}{"family": "probe", "tags": layout}, Impl: "ok " + strings.Join(got, ","), Model: ml[0]})
			}
		}
		stub.mu.Lock()
		stub.tags = nil
		stub.mu.Unlock()
	}
	// ---- sparse answers: optional members left out
	stub.mu.Lock()
	stub.sparse = true
	stub.mu.Unlock()
	derefs := map[string]bool{}
	for _, d := range strings.Split(out[2], ",") {
		derefs[strings.SplitN(d, ":", 2)[0]] = true
	}
	for _, m := range names {
		sh := shapes[m]
		obs, _ := send(m, sh, false)
		if obs.Raw.Err != nil && obs.Raw.Status == 0 {
			P.WaitExit(800 * time.Millisecond)
		}
		died := !P.Alive()
		res.Count("probe-sparse|"+m, true, "probe:sparse-requests")
		if died {
			res.Fail(lib.Failure{Kind: "property", Signature: "proxy:" + strings.ToLower(m[:1]) + m[1:] + ":crash-on-sparse-answer",
				What:  "the endpoint left out optional members of its answer (the S3 protocol allows that) and the gateway process died on a nil pointer",
				Input: map[string]interface{}{"family": "probe", "method": m, "stub": "sparse"}, Impl: c18LastPanic(P.Log.String())})
			if !derefs[m] {
				res.Fail(lib.Failure{Kind: "correspondence", Signature: "probe:panic-not-modelled:" + m, What: "the generated table lists no unguarded dereference for this method", Input: map[string]interface{}{"family": "probe", "method": m}})
			}
			if err := P.Restart(); err != nil {
				return err
			}
		}
	}
	return nil
}

func c18LastPanic(log string) string {
	if i := strings.Index(log, "panic"); i >= 0 {
		log = log[i:]
	}
	if len(log) > 700 {
		log = log[:700]
	}
	return log
}
