package main

// C20 request grammar: every route of s3api/router.go (service / bucket / object × method × query
// sub-resource) and of the admin router, as a VALID request template over a small fixture world,
// plus typed value pools (boundary, malformed, oversized, empty, negative, non-UTF-8,
// type-confused) for each kind of field and structural mutations of XML/JSON bodies.

import (
	"bytes"
	"fmt"
	"regexp"
	"sort"
	"strconv"
	"strings"

	"verif/harness/gw"
	"verif/harness/lib"
)

// c20Case is one request, fully serialisable (it is the replay input of a failure).
// c20Mut is one explicit change of the valid request of an operation.
//
//	K: q (set query parameter N to V) | q+ (append N=V) | qflag+ (append N without `=`) | q- (remove N) | h | h+ | h- |
//	   body (V replaces the body; N names the mutation) | path | method | listener
type c20Mut struct {
	K   string `json:"k"`
	N   string `json:"n,omitempty"`
	V   []byte `json:"v,omitempty"` // bytes (JSON: base64) — values need not be UTF-8
	Raw bool   `json:"raw,omitempty"`
}

func (m c20Mut) key() string {
	v := string(m.V)
	if len(v) > 40 {
		v = fmt.Sprintf("%q…(%d)", v[:12], len(v))
	} else {
		v = strconv.Quote(v)
	}
	if m.K == "body" {
		return "body:" + m.N
	}
	return m.K + ":" + m.N + "=" + v
}

// c20Case is one request, fully serialisable (it is the replay input of a failure): the operation
// (valid template over the fixture world) + explicit mutations + credentials/auth mode; ids of the
// fixture world stay placeholders ({uid}, {vid}, …) until the request is sent.
type c20Case struct {
	Endpoint string   `json:"endpoint"`
	Class    string   `json:"class"`
	Muts     []c20Mut `json:"muts,omitempty"`
	Raw      []byte   `json:"raw,omitempty"`
	Auth     string   `json:"auth"` // header | unsigned | presign | stream-signed | stream-signed-trailer | stream-unsigned-trailer | none
	Cred     string   `json:"cred"` // root | user | badsecret | unknown | anon
	Defect   string   `json:"defect,omitempty"`
	Chunks   []int    `json:"chunks,omitempty"`
	Trailer  string   `json:"trailer,omitempty"`
	DeclLen  *int64   `json:"decl_len,omitempty"`
	WireMut  string   `json:"wire_mut,omitempty"`
	Expires  int      `json:"expires,omitempty"`
	TimeOff  int      `json:"time_off,omitempty"`
	Request  string   `json:"request,omitempty"` // human-readable form of what went on the wire (filled in on failure)
	group    string   // cases of one group run on one worker, so that a class can stop at its first wedge
}

// c20Built is the request of a case as it goes on the wire (before signing).
type c20Built struct {
	Target  string // "s3" | "admin"
	Method  string
	Path    string
	Query   string
	Headers [][2]string
	Body    []byte
	HTTPOdd bool // not a clean HTTP/1.1 message: answers of the HTTP layer itself are admitted
	Sized   bool // declares or implies a payload size different from what is sent
	// headers the signer itself sets: a mutated value is put on the wire AFTER signing (otherwise
	// the signer would overwrite it); a mutated Authorization switches signing off
	PostSign [][2]string
	RawAuthz bool
}

var c20SignerHeaders = map[string]bool{"x-amz-date": true, "x-amz-content-sha256": true, "x-amz-decoded-content-length": true, "x-amz-trailer": true}

func (c *c20Built) setHdr(k, v string) {
	for i, h := range c.Headers {
		if strings.EqualFold(h[0], k) {
			c.Headers[i][1] = v
			return
		}
	}
	c.Headers = append(c.Headers, [2]string{k, v})
}

// ---------------------------------------------------------------- fixtures

type c20Fix struct {
	Root, User gw.Creds
	UploadID   string // multipart upload in progress on fzb/mp with parts 1..3
	UploadID2  string // upload without parts on fzb/mp2
	PartETags  []string
	VersionID  string // a version of fzv/v1
	VersionID2 string
	// version ids of the keys of the versioned state world ("{dm.marker}", "{multi.old}", …), filled in by ensureStates
	Vars map[string]string
}

func (f *c20Fix) subst(s string) string {
	r := strings.NewReplacer("{uid2}", f.UploadID2, "%7Buid2%7D", f.UploadID2, "{uid}", f.UploadID, "{vid}", f.VersionID, "{vid2}", f.VersionID2,
		"{e1}", f.etag(0), "{e2}", f.etag(1), "{e3}", f.etag(2), "{user}", f.User.Access,
		"%7Buid%7D", f.UploadID, "%7Bvid%7D", f.VersionID, "%7Bvid2%7D", f.VersionID2, "%7Buser%7D", f.User.Access)
	s = r.Replace(s)
	if strings.Contains(s, "{") || strings.Contains(s, "%7B") {
		for k, v := range f.Vars {
			s = strings.ReplaceAll(s, k, v)
			s = strings.ReplaceAll(s, "%7B"+k[1:len(k)-1]+"%7D", v)
		}
	}
	return s
}
func (f *c20Fix) etag(i int) string {
	if i < len(f.PartETags) {
		return f.PartETags[i]
	}
	return "\"d41d8cd98f00b204e9800998ecf8427e\""
}

// ---------------------------------------------------------------- operations

type c20Op struct {
	Name   string
	Method string
	Path   string // with fixture placeholders
	Query  string
	Hdrs   []string // "Name: value"
	Body   string   // body kind (template name) or "data:<n>"
	Stream bool     // body goes through the body reader (streaming auth modes apply)
	Admin  bool
}

var c20Ops = []c20Op{
	{Name: "ListBuckets", Method: "GET", Path: "/", Query: "prefix=f&max-buckets=10&continuation-token="},
	// ---- bucket level
	{Name: "CreateBucket", Method: "PUT", Path: "/fznew", Hdrs: []string{"x-amz-object-ownership: BucketOwnerEnforced", "x-amz-bucket-object-lock-enabled: false"}, Body: "createbucket"},
	{Name: "CreateBucketAcl", Method: "PUT", Path: "/fznew3", Hdrs: []string{"x-amz-acl: public-read", "x-amz-object-ownership: BucketOwnerPreferred"}},
	{Name: "CreateBucketSlash", Method: "PUT", Path: "/fznew2/"},
	{Name: "PutBucketTagging", Method: "PUT", Path: "/fzb", Query: "tagging", Body: "tagging"},
	{Name: "PutBucketOwnershipControls", Method: "PUT", Path: "/fzb", Query: "ownershipControls", Body: "ownership"},
	{Name: "PutBucketVersioning", Method: "PUT", Path: "/fzv", Query: "versioning", Body: "versioning"},
	{Name: "PutObjectLockConfiguration", Method: "PUT", Path: "/fzl", Query: "object-lock", Body: "objectlock"},
	{Name: "PutBucketCors", Method: "PUT", Path: "/fzb", Query: "cors", Body: "cors"},
	{Name: "PutBucketPolicy", Method: "PUT", Path: "/fzb", Query: "policy", Body: "policy"},
	{Name: "PutBucketAcl", Method: "PUT", Path: "/fza", Query: "acl", Body: "acl"},
	{Name: "PutBucketAclHeaders", Method: "PUT", Path: "/fza", Query: "acl", Hdrs: []string{"x-amz-grant-read: {user}", "x-amz-grant-full-control: {user}", "x-amz-grant-write: {user}", "x-amz-grant-read-acp: {user}", "x-amz-grant-write-acp: {user}"}},
	{Name: "PutBucketAclCanned", Method: "PUT", Path: "/fza", Query: "acl", Hdrs: []string{"x-amz-acl: public-read"}},
	{Name: "DeleteBucket", Method: "DELETE", Path: "/fzdel"},
	{Name: "DeleteBucketTagging", Method: "DELETE", Path: "/fzb", Query: "tagging"},
	{Name: "DeleteBucketOwnershipControls", Method: "DELETE", Path: "/fzb", Query: "ownershipControls"},
	{Name: "DeleteBucketPolicy", Method: "DELETE", Path: "/fzdel", Query: "policy"},
	{Name: "DeleteBucketCors", Method: "DELETE", Path: "/fzb", Query: "cors"},
	{Name: "HeadBucket", Method: "HEAD", Path: "/fzb"},
	{Name: "GetBucketTagging", Method: "GET", Path: "/fzb", Query: "tagging"},
	{Name: "GetBucketOwnershipControls", Method: "GET", Path: "/fzb", Query: "ownershipControls"},
	{Name: "GetBucketVersioning", Method: "GET", Path: "/fzv", Query: "versioning"},
	{Name: "GetBucketPolicy", Method: "GET", Path: "/fzb", Query: "policy"},
	{Name: "GetBucketCors", Method: "GET", Path: "/fzb", Query: "cors"},
	{Name: "GetObjectLockConfiguration", Method: "GET", Path: "/fzl", Query: "object-lock"},
	{Name: "GetBucketAcl", Method: "GET", Path: "/fza", Query: "acl"},
	{Name: "ListObjectVersions", Method: "GET", Path: "/fzv", Query: "versions&prefix=v&delimiter=/&key-marker=v1&version-id-marker={vid}&max-keys=2&encoding-type=url"},
	{Name: "ListMultipartUploads", Method: "GET", Path: "/fzb", Query: "uploads&prefix=m&delimiter=/&key-marker=mp&upload-id-marker={uid}&max-uploads=1&encoding-type=url"},
	{Name: "ListMultipartUploadsPlain", Method: "GET", Path: "/fzb", Query: "uploads&max-uploads=2"},
	{Name: "ListObjectsV2", Method: "GET", Path: "/fzb", Query: "list-type=2&prefix=d&delimiter=/&start-after=a&continuation-token=a&max-keys=2&fetch-owner=true&encoding-type=url"},
	{Name: "ListObjects", Method: "GET", Path: "/fzb", Query: "prefix=d&delimiter=/&marker=a&max-keys=2&encoding-type=url"},
	{Name: "DeleteObjects", Method: "POST", Path: "/fzv", Query: "delete", Hdrs: []string{"x-amz-bypass-governance-retention: true"}, Body: "delete"},
	// ---- object level
	{Name: "HeadObject", Method: "HEAD", Path: "/fzb/o1", Hdrs: []string{"Range: bytes=0-9", "x-amz-checksum-mode: ENABLED", "If-Match: x", "If-None-Match: y", "If-Modified-Since: Mon, 02 Jan 2006 15:04:05 GMT", "If-Unmodified-Since: Mon, 02 Jan 2036 15:04:05 GMT"}},
	{Name: "HeadObjectPart", Method: "HEAD", Path: "/fzb/o1", Query: "partNumber=1"},
	{Name: "HeadObjectVersion", Method: "HEAD", Path: "/fzv/v1", Query: "versionId={vid}"},
	{Name: "GetObject", Method: "GET", Path: "/fzb/big", Hdrs: []string{"Range: bytes=10-99", "x-amz-checksum-mode: ENABLED", "If-Match: x", "If-Modified-Since: Mon, 02 Jan 2006 15:04:05 GMT"}},
	{Name: "GetObjectDir", Method: "GET", Path: "/fzb/dir/o2"},
	{Name: "GetObjectVersion", Method: "GET", Path: "/fzv/v1", Query: "versionId={vid}"},
	{Name: "GetObjectTagging", Method: "GET", Path: "/fzb/o1", Query: "tagging&versionId="},
	{Name: "GetObjectRetention", Method: "GET", Path: "/fzl/l1", Query: "retention&versionId="},
	{Name: "GetObjectLegalHold", Method: "GET", Path: "/fzl/l1", Query: "legal-hold&versionId="},
	{Name: "GetObjectAcl", Method: "GET", Path: "/fzb/o1", Query: "acl"},
	{Name: "GetObjectAttributes", Method: "GET", Path: "/fzb/o1", Query: "attributes&versionId=", Hdrs: []string{"x-amz-object-attributes: ETag,ObjectSize,StorageClass,Checksum,ObjectParts", "x-amz-max-parts: 2", "x-amz-part-number-marker: 0"}},
	{Name: "ListParts", Method: "GET", Path: "/fzb/mp", Query: "uploadId={uid}&max-parts=2&part-number-marker=1&encoding-type=url"},
	{Name: "DeleteObject", Method: "DELETE", Path: "/fzb/del1", Hdrs: []string{"x-amz-bypass-governance-retention: true", "x-amz-expected-bucket-owner: x", "x-amz-request-payer: requester"}},
	{Name: "DeleteObjectVersion", Method: "DELETE", Path: "/fzv/v2", Query: "versionId={vid2}"},
	{Name: "DeleteObjectTagging", Method: "DELETE", Path: "/fzb/o1", Query: "tagging"},
	{Name: "AbortMultipartUpload", Method: "DELETE", Path: "/fzb/mp2", Query: "uploadId={uid2}"},
	{Name: "RestoreObject", Method: "POST", Path: "/fzb/o1", Query: "restore", Body: "restore"},
	{Name: "SelectObjectContent", Method: "POST", Path: "/fzb/o1", Query: "select&select-type=2", Body: "select"},
	{Name: "CreateMultipartUpload", Method: "POST", Path: "/fzb/mpnew", Query: "uploads", Hdrs: []string{"Content-Type: text/plain", "x-amz-tagging: a=b", "x-amz-meta-k: v", "x-amz-checksum-algorithm: CRC32", "x-amz-checksum-type: COMPOSITE", "Expires: Mon, 02 Jan 2036 15:04:05 GMT"}},
	{Name: "CreateMultipartUploadLocked", Method: "POST", Path: "/fzl/mpnew", Query: "uploads", Hdrs: []string{"x-amz-object-lock-mode: GOVERNANCE", "x-amz-object-lock-retain-until-date: 2036-01-02T15:04:05Z", "x-amz-object-lock-legal-hold: ON"}},
	{Name: "CompleteMultipartUpload", Method: "POST", Path: "/fzb/mp", Query: "uploadId={uid}", Hdrs: []string{"x-amz-mp-object-size: 10"}, Body: "complete"},
	{Name: "CompleteMultipartUpload3", Method: "POST", Path: "/fzb/mp", Query: "uploadId={uid}", Body: "complete3"},
	{Name: "PutObject", Method: "PUT", Path: "/fzb/new1", Hdrs: []string{"Content-Type: text/plain", "Content-Encoding: gzip", "Content-Disposition: inline", "Content-Language: en", "Cache-Control: no-cache", "Expires: Mon, 02 Jan 2036 15:04:05 GMT", "x-amz-tagging: a=b&c=d", "x-amz-meta-k: v", "x-amz-storage-class: STANDARD", "x-amz-acl: private"}, Body: "data:200", Stream: true},
	{Name: "PutObjectChecksum", Method: "PUT", Path: "/fzb/new2", Hdrs: []string{"x-amz-checksum-crc32: AAAAAA==", "x-amz-sdk-checksum-algorithm: CRC32", "Content-MD5: 1B2M2Y8AsgTpgAmY7PhCfg=="}, Body: "data:0", Stream: true},
	{Name: "PutObjectLocked", Method: "PUT", Path: "/fzl/new3", Hdrs: []string{"x-amz-object-lock-mode: GOVERNANCE", "x-amz-object-lock-retain-until-date: 2036-01-02T15:04:05Z", "x-amz-object-lock-legal-hold: ON"}, Body: "data:10", Stream: true},
	{Name: "PutObjectDir", Method: "PUT", Path: "/fzb/newdir/", Body: "data:0", Stream: true},
	{Name: "PutObjectVersioned", Method: "PUT", Path: "/fzv/v3", Body: "data:33", Stream: true},
	{Name: "PutObjectTagging", Method: "PUT", Path: "/fzb/o1", Query: "tagging&versionId=", Body: "tagging"},
	{Name: "PutObjectRetention", Method: "PUT", Path: "/fzl/l1", Query: "retention&versionId=", Hdrs: []string{"x-amz-bypass-governance-retention: true"}, Body: "retention"},
	{Name: "PutObjectLegalHold", Method: "PUT", Path: "/fzl/l1", Query: "legal-hold&versionId=", Body: "legalhold"},
	{Name: "PutObjectAcl", Method: "PUT", Path: "/fzb/o1", Query: "acl", Body: "acl"},
	{Name: "PutObjectAclHeaders", Method: "PUT", Path: "/fzb/o1", Query: "acl", Hdrs: []string{"x-amz-grant-read: {user}", "x-amz-grant-full-control: {user}"}},
	{Name: "PutObjectAclCanned", Method: "PUT", Path: "/fzb/o1", Query: "acl", Hdrs: []string{"x-amz-acl: public-read"}},
	{Name: "UploadPart", Method: "PUT", Path: "/fzb/mp", Query: "uploadId={uid}&partNumber=4", Hdrs: []string{"x-amz-checksum-crc32: AAAAAA==", "x-amz-sdk-checksum-algorithm: CRC32"}, Body: "data:0", Stream: true},
	{Name: "UploadPartCopy", Method: "PUT", Path: "/fzb/mp", Query: "uploadId={uid}&partNumber=5", Hdrs: []string{"x-amz-copy-source: fzb/big", "x-amz-copy-source-range: bytes=0-99"}},
	{Name: "CopyObject", Method: "PUT", Path: "/fzb/copy1", Hdrs: []string{"x-amz-copy-source: /fzb/o1", "x-amz-metadata-directive: REPLACE", "x-amz-tagging-directive: REPLACE", "x-amz-tagging: a=b", "x-amz-meta-k: v", "x-amz-copy-source-if-none-match: y", "x-amz-copy-source-if-modified-since: 20060102T150405Z", "x-amz-copy-source-if-unmodified-since: 20360102T150405Z", "x-amz-checksum-algorithm: CRC32", "x-amz-storage-class: STANDARD"}},
	{Name: "CopyObjectLocked", Method: "PUT", Path: "/fzl/copy3", Hdrs: []string{"x-amz-copy-source: fzb/o1", "x-amz-object-lock-mode: GOVERNANCE", "x-amz-object-lock-retain-until-date: 2036-01-02T15:04:05Z", "x-amz-object-lock-legal-hold: ON"}},
	{Name: "CopyObjectVersion", Method: "PUT", Path: "/fzb/copy2", Hdrs: []string{"x-amz-copy-source: fzv/v1?versionId={vid}"}},
	// ---- plain forms used by the state matrix (no conditional headers)
	{Name: "HeadObjectPlain", Method: "HEAD", Path: "/fzb/o1"},
	{Name: "GetObjectPlain", Method: "GET", Path: "/fzb/o1"},
	{Name: "DeleteObjectPlain", Method: "DELETE", Path: "/fzb/del1"},
	{Name: "CopyObjectPlain", Method: "PUT", Path: "/fzb/copyt", Hdrs: []string{"x-amz-copy-source: fzb/o1"}},
	{Name: "PutObjectPlain", Method: "PUT", Path: "/fzb/new9", Body: "data:10", Stream: true},
	{Name: "UploadPartPlain", Method: "PUT", Path: "/fzb/mp", Query: "uploadId={uid}&partNumber=6", Body: "data:10", Stream: true},
	// ---- admin API (own listener)
	{Name: "AdminCreateUser", Method: "PATCH", Path: "/create-user", Body: "adminuser", Admin: true},
	{Name: "AdminUpdateUser", Method: "PATCH", Path: "/update-user", Query: "access=fzuser2", Body: "adminupdate", Admin: true},
	{Name: "AdminDeleteUser", Method: "PATCH", Path: "/delete-user", Query: "access=fzuser3", Admin: true},
	{Name: "AdminListUsers", Method: "PATCH", Path: "/list-users", Admin: true},
	{Name: "AdminChangeBucketOwner", Method: "PATCH", Path: "/change-bucket-owner", Query: "bucket=fzdel&owner={user}", Admin: true},
	{Name: "AdminListBuckets", Method: "PATCH", Path: "/list-buckets", Admin: true},
}

var c20Bodies = map[string]string{
	"createbucket": `<CreateBucketConfiguration xmlns="http://s3.amazonaws.com/doc/2006-03-01/"><LocationConstraint>us-east-1</LocationConstraint></CreateBucketConfiguration>`,
	"tagging":      `<Tagging xmlns="http://s3.amazonaws.com/doc/2006-03-01/"><TagSet><Tag><Key>k1</Key><Value>v1</Value></Tag><Tag><Key>k2</Key><Value>v2</Value></Tag></TagSet></Tagging>`,
	"ownership":    `<OwnershipControls xmlns="http://s3.amazonaws.com/doc/2006-03-01/"><Rule><ObjectOwnership>BucketOwnerPreferred</ObjectOwnership></Rule></OwnershipControls>`,
	"versioning":   `<VersioningConfiguration xmlns="http://s3.amazonaws.com/doc/2006-03-01/"><Status>Enabled</Status><MfaDelete>Disabled</MfaDelete></VersioningConfiguration>`,
	"objectlock":   `<ObjectLockConfiguration xmlns="http://s3.amazonaws.com/doc/2006-03-01/"><ObjectLockEnabled>Enabled</ObjectLockEnabled><Rule><DefaultRetention><Mode>GOVERNANCE</Mode><Days>1</Days></DefaultRetention></Rule></ObjectLockConfiguration>`,
	"cors":         `<CORSConfiguration><CORSRule><AllowedOrigin>*</AllowedOrigin><AllowedMethod>GET</AllowedMethod><MaxAgeSeconds>3000</MaxAgeSeconds></CORSRule></CORSConfiguration>`,
	"policy":       `{"Version":"2012-10-17","Statement":[{"Sid":"a","Effect":"Allow","Principal":{"AWS":["{user}"]},"Action":["s3:*"],"Resource":["arn:aws:s3:::fzb","arn:aws:s3:::fzb/*"]}]}`,
	"acl":          `<AccessControlPolicy xmlns="http://s3.amazonaws.com/doc/2006-03-01/"><Owner><ID>rootaccess</ID><DisplayName>r</DisplayName></Owner><AccessControlList><Grant><Grantee xmlns:xsi="http://www.w3.org/2001/XMLSchema-instance" xsi:type="CanonicalUser"><ID>{user}</ID></Grantee><Permission>READ</Permission></Grant><Grant><Grantee xmlns:xsi="http://www.w3.org/2001/XMLSchema-instance" xsi:type="CanonicalUser"><ID>rootaccess</ID></Grantee><Permission>FULL_CONTROL</Permission></Grant></AccessControlList></AccessControlPolicy>`,
	"delete":       `<Delete xmlns="http://s3.amazonaws.com/doc/2006-03-01/"><Quiet>false</Quiet><Object><Key>dx1</Key></Object><Object><Key>v1</Key><VersionId>{vid2}</VersionId></Object></Delete>`,
	"restore":      `<RestoreRequest xmlns="http://s3.amazonaws.com/doc/2006-03-01/"><Days>1</Days><GlacierJobParameters><Tier>Standard</Tier></GlacierJobParameters></RestoreRequest>`,
	"select":       `<SelectObjectContentRequest xmlns="http://s3.amazonaws.com/doc/2006-03-01/"><Expression>select * from s3object</Expression><ExpressionType>SQL</ExpressionType><RequestProgress><Enabled>true</Enabled></RequestProgress><InputSerialization><CSV><FileHeaderInfo>USE</FileHeaderInfo></CSV></InputSerialization><OutputSerialization><CSV></CSV></OutputSerialization><ScanRange><Start>0</Start><End>10</End></ScanRange></SelectObjectContentRequest>`,
	"complete":     `<CompleteMultipartUpload xmlns="http://s3.amazonaws.com/doc/2006-03-01/"><Part><ETag>{e1}</ETag><PartNumber>1</PartNumber></Part></CompleteMultipartUpload>`,
	"complete3":    `<CompleteMultipartUpload xmlns="http://s3.amazonaws.com/doc/2006-03-01/"><Part><ETag>{e1}</ETag><PartNumber>1</PartNumber><ChecksumCRC32>AAAAAA==</ChecksumCRC32></Part><Part><ETag>{e2}</ETag><PartNumber>2</PartNumber></Part><Part><ETag>{e3}</ETag><PartNumber>3</PartNumber></Part></CompleteMultipartUpload>`,
	"retention":    `<Retention xmlns="http://s3.amazonaws.com/doc/2006-03-01/"><Mode>GOVERNANCE</Mode><RetainUntilDate>2036-01-02T15:04:05Z</RetainUntilDate></Retention>`,
	"legalhold":    `<LegalHold xmlns="http://s3.amazonaws.com/doc/2006-03-01/"><Status>OFF</Status></LegalHold>`,
	"adminuser":    `<Account><Access>fzuser9</Access><Secret>fzsecret9</Secret><Role>user</Role><UserID>1009</UserID><GroupID>1009</GroupID></Account>`,
	"adminupdate":  `<MutableProps><Secret>fzsecret2b</Secret><UserID>1002</UserID><GroupID>1002</GroupID></MutableProps>`,
}

// ---------------------------------------------------------------- field kinds and value pools

var c20NumNames = map[string]bool{"max-keys": true, "max-uploads": true, "max-parts": true, "part-number-marker": true, "partnumber": true,
	"max-buckets": true, "x-amz-max-parts": true, "x-amz-part-number-marker": true, "x-amz-mp-object-size": true, "content-length": true,
	"x-amz-decoded-content-length": true, "x-amz-expires": true, "list-type": true, "select-type": true}
var c20IDNames = map[string]bool{"uploadid": true, "versionid": true, "upload-id-marker": true, "version-id-marker": true, "continuation-token": true}

func c20Kind(name string) string {
	n := strings.ToLower(name)
	switch {
	case c20NumNames[n]:
		return "num"
	case c20IDNames[n]:
		return "id"
	case n == "range" || n == "x-amz-copy-source-range":
		return "range"
	case n == "x-amz-copy-source":
		return "copysrc"
	case strings.Contains(n, "date") || strings.Contains(n, "since") || n == "expires":
		return "date"
	case n == "content-md5" || strings.HasPrefix(n, "x-amz-checksum-crc") || strings.HasPrefix(n, "x-amz-checksum-sha"):
		return "b64"
	case n == "x-amz-tagging":
		return "tagq"
	case strings.HasPrefix(n, "x-amz-grant-"):
		return "grant"
	case n == "x-amz-content-sha256":
		return "sha"
	case n == "authorization":
		return "authz"
	case n == "x-amz-object-attributes":
		return "attrs"
	case n == "x-amz-credential":
		return "cred"
	case strings.HasPrefix(n, "x-amz-") || n == "fetch-owner" || n == "encoding-type":
		return "enum"
	}
	return "str"
}

var c20Long = strings.Repeat("A", 1025)
var c20VeryLong = strings.Repeat("B", 70000)

var c20Pools = map[string][]string{
	"num": {"", "0", "-1", "1", "2", "3", "1000", "1001", "10000", "10001", "2147483647", "2147483648", "-2147483648", "-2147483649", "4294967296",
		"9223372036854775807", "9223372036854775808", "-9223372036854775808", "99999999999999999999999", "abc", "1e3", "0x10", "+5", " 5", "5 ", "1.5", "00", "-0", "٣", "1,2", "\x00", "NaN", "true", c20Long},
	"id": {"", "x", "null", "..", ".", "../x", "a/b", "%", "\x00", "\xff\xfe", c20Long, "00000000-0000-0000-0000-000000000000", "01JZZZZZZZZZZZZZZZZZZZZZZZ",
		"{uid}", "{vid}", "{vid2}", "{uid}x", "{vid}x", " {uid}", "{uid}/", "é",
		"{dm.marker}", "{dm.old}", "{multi.cur}", "{multi.old}", "{nullcur.old}", "{s_dm.old}", "{s_multi.old}", "{l_hold.cur}"},
	"str": {"", "/", "//", "a", "a/", "d", "dir/", "dir/o2", "mp", "o1", "zzzz", "\x00", "\xff\xfe", "%", "%zz", "+", " ", "..", "../", "../../etc", ".", "./", "é", " ", "a\nb", "a\r\nX-Inj: 1",
		"*", "?", "&", "=", "#", c20Long, c20VeryLong, "url", "URL", "dir//", "/dir", ".sgwtmp", ".sgwtmp/", "d\x7f"},
	"range": {"", "bytes=0-", "bytes=-1", "bytes=0-0", "bytes=5-2", "bytes=-0", "bytes=0-99999999999999999999", "bytes=99999999999999999999-", "bytes=-99999999999999999999", "bytes=9223372036854775807-",
		"bytes=0-9223372036854775807", "bytes=-9223372036854775808", "bytes=", "bytes=-", "bytes=--1", "bytes=1-2-3", "bytes=a-b", "bytes=1-2,4-5", "bytes 0-1", "bytes", "=", "bytes==", "items=0-1", "bytes=0x1-0x2",
		"bytes=+1-+2", "bytes= 1-2", "bytes=1 -2", "bytes=70000-", "bytes=69999-70000", "bytes=100-100", "\x00", c20Long},
	"copysrc": {"", "/", "//", "fzb", "fzb/", "/fzb/", "fzb/o1", "/fzb/o1", "fzb//o1", "fzb/o1?versionId=", "fzb/o1?versionId", "fzb/o1?versionId=x", "?versionId=x", "?versionId=", "fzv/v1?versionId={vid}", "fzv/v1?versionId={vid}?versionId={vid}",
		"fzv/v1?versionId=null", "fzv/v1?versionId=../x", "%", "%zz", "%2F", "%00", "fzb/%2e%2e/x", "fzb/../x", "../x", "nobucket/k", "fzb/nokey", "fzb/dir/", "fzb/dir", "fzb/mp", "fzb/big", "fzb/o1?", "fzb/o1?x=y", "fzb/o1#", "\xff", c20Long,
		"fzb/" + c20Long, "fzb/copy1", "fzb/copy2"},
	"date": {"", "0", "-1", "now", "2036-01-02T15:04:05Z", "2006-01-02T15:04:05Z", "1969-12-31T23:59:59Z", "0000-01-01T00:00:00Z", "9999-12-31T23:59:59Z", "10000-01-01T00:00:00Z", "2036-13-01T00:00:00Z", "2036-02-30T00:00:00Z",
		"2036-01-02T15:04:05.999999999Z", "2036-01-02T15:04:05+23:59", "2036-01-02", "Mon, 02 Jan 2006 15:04:05 GMT", "Mon, 02 Jan 2036 15:04:05 GMT", "Mon, 32 Jan 2006 15:04:05 GMT", "20060102T150405Z", "20360102T150405Z", "99999999T999999Z",
		"20060102T150405", "20060102", "2006", "T", "20060102T150405.5Z", "20060102T150405,5Z", "２００６0102T150405Z", c20Long},
	"b64":   {"", "x", "AAAA", "AAAAAA==", "AAAAAAA=", "1B2M2Y8AsgTpgAmY7PhCfg==", "1B2M2Y8AsgTpgAmY7PhCfg", "====", "%%%%", "AAAAAAAAAAAAAAAAAAAAAAAAAAA=", "47DEQpj8HBSa+/TImW+5JCeuQeRkm5NMpJWZG3hSuFU=", c20Long},
	"tagq":  {"", "a", "a=", "=b", "a=b", "a=b&a=c", "&", "&&", "=", "a=b&", "a==b", "a=b=c", "%", "%zz=1", "a=%zz", "a=b;c=d", "t2=a%20b", "a+b=c+d", "k=%2", "k%3D=v%26", "k=%00", "k=%ff%fe", strings.Repeat("k=v&", 60), c20Long + "=v", "k=" + c20Long, "\x00=\x00", "é=é"},
	"grant": {"", "id=", "id={user}", "{user}", "{user},{user}", ",", ",,", "{user},", "nosuchuser", "id=\"{user}\"", "emailAddress=a@b", "uri=http://acs.amazonaws.com/groups/global/AllUsers", c20Long},
	"sha": {"", "UNSIGNED-PAYLOAD", "STREAMING-AWS4-HMAC-SHA256-PAYLOAD", "STREAMING-AWS4-HMAC-SHA256-PAYLOAD-TRAILER", "STREAMING-UNSIGNED-PAYLOAD-TRAILER", "STREAMING-AWS4-ECDSA-P256-SHA256-PAYLOAD", "STREAMING-AWS4-ECDSA-P256-SHA256-PAYLOAD-TRAILER",
		"e3b0c44298fc1c149afbf4c8996fb92427ae41e4649b934ca495991b7852b855", "E3B0C44298FC1C149AFBF4C8996FB92427AE41E4649B934CA495991B7852B855", "e3b0", "zz", "STREAMING-", "unsigned-payload", c20Long},
	"authz": {"", " ", "AWS4-HMAC-SHA256", "AWS4-HMAC-SHA256 ", "AWS4-HMAC-SHA256 garbage", "AWS4-HMAC-SHA256 a,b,c", "AWS4-HMAC-SHA256 Credential=,SignedHeaders=,Signature=", "AWS4-HMAC-SHA256 Credential=/,SignedHeaders=x,Signature=y",
		"AWS4-HMAC-SHA256 Credential=////,SignedHeaders=x,Signature=y", "AWS4-HMAC-SHA256 Credential=a/b/c/s3/aws4_request,SignedHeaders=x,Signature=y", "AWS4-HMAC-SHA256 Credential=a/20060102/us-east-1/s3/aws4_request,SignedHeaders=x,Signature=y",
		"AWS4-HMAC-SHA256 Credential=rootaccess/20060102/us-east-1/s3/aws4_request,SignedHeaders=,Signature=", "AWS4-HMAC-SHA256 Credential=rootaccess/20060102/us-east-1/s3/aws4_request, SignedHeaders=host;x-amz-date, Signature=00",
		"AWS4-HMAC-SHA256 Credential=rootaccess/20060102/us-east-1/s3/aws4_request,SignedHeaders=host;;,Signature=00", "AWS4-HMAC-SHA256 Credential=rootaccess/20060102/us-east-1/ec2/aws4_request,SignedHeaders=host,Signature=00",
		"AWS4-HMAC-SHA256 Credential=rootaccess/20060102/us-east-1/s3/aws4,SignedHeaders=host,Signature=00", "AWS4-HMAC-SHA256 Credential=rootaccess/2006010/us-east-1/s3/aws4_request,SignedHeaders=host,Signature=00", "AWS4-HMAC-SHA256 Credential=rootaccess/20060102/us-east-1/s3,SignedHeaders=host,Signature=00", "AWS4-HMAC-SHA256 Credential=rootaccess/20060102/s3,SignedHeaders=host,Signature=00",
		"AWS4-HMAC-SHA256 Credential=rootaccess/20060102/us-east-1/s3/aws4_request/extra,SignedHeaders=host,Signature=00", "AWS4-HMAC-SHA256 Credential=a=b/20060102/us-east-1/s3/aws4_request,SignedHeaders=host,Signature=00",
		"AWS4-HMAC-SHA256 =,=,=", "AWS4-HMAC-SHA256 ,,", "AWS4-HMAC-SHA256 ,,,,,,,,", "AWS4-HMAC-SHA256 Credential,SignedHeaders,Signature", "AWS4-HMAC-SHA256 Signature=00,SignedHeaders=host,Credential=rootaccess/20060102/us-east-1/s3/aws4_request",
		"AWS rootaccess:sig", "AWS4-ECDSA-P256-SHA256 Credential=rootaccess/20060102/us-east-1/s3/aws4_request,SignedHeaders=host,Signature=00", "Bearer x", "Basic cm9vdDpyb290", "aws4-hmac-sha256 Credential=rootaccess/20060102/us-east-1/s3/aws4_request,SignedHeaders=host,Signature=00",
		"AWS4-HMAC-SHA256\tCredential=rootaccess/20060102/us-east-1/s3/aws4_request,SignedHeaders=host,Signature=00", "AWS4-HMAC-SHA256  Credential = rootaccess / 20060102 / us-east-1 / s3 / aws4_request , SignedHeaders = host , Signature = 00",
		"AWS4-HMAC-SHA256 Credential=rootaccess/20060102//s3/aws4_request,SignedHeaders=host,Signature=00", "AWS4-HMAC-SHA256 Credential=/20060102/us-east-1/s3/aws4_request,SignedHeaders=host,Signature=00",
		"AWS4-HMAC-SHA256 Credential=nosuchkey/20060102/us-east-1/s3/aws4_request,SignedHeaders=host,Signature=00", "AWS4-HMAC-SHA256 " + c20Long, "AWS4-HMAC-SHA256 Credential=" + c20Long + "/20060102/us-east-1/s3/aws4_request,SignedHeaders=host,Signature=00"},
	"attrs": {"", ",", "ETag", "ETag,", ",ETag", "ETag,ETag", "etag", "ObjectParts", "Bogus", "ETag, ObjectSize", "ETag,,ObjectSize", c20Long},
	"cred":  {"", "/", "////", "a/b/c/d/e", "rootaccess/20060102/us-east-1/s3/aws4_request", "rootaccess/20060102/us-east-1/s3/aws4_request/x", "rootaccess/2006010/us-east-1/s3/aws4_request", "rootaccess//us-east-1/s3/aws4_request", "/20060102/us-east-1/s3/aws4_request", c20Long},
	"enum": {"", "x", "true", "false", "TRUE", "ON", "OFF", "on", "Enabled", "ENABLED", "GOVERNANCE", "COMPLIANCE", "governance", "REPLACE", "COPY", "private", "public-read", "public-read-write", "authenticated-read", "bucket-owner-full-control",
		"CRC32", "CRC32C", "SHA1", "SHA256", "CRC64NVME", "MD5", "COMPOSITE", "FULL_OBJECT", "STANDARD", "GLACIER", "BucketOwnerEnforced", "BucketOwnerPreferred", "ObjectWriter", "url", "\x00", c20Long},
}

// values put into XML/JSON leaves
var c20LeafPool = []string{"", " ", "0", "-1", "1", "2", "10000", "10001", "2147483647", "2147483648", "-2147483649", "9223372036854775808", "99999999999999999999", "abc", "1.5", "true", "Enabled", "Suspended", "enabled", "ON", "OFF",
	"GOVERNANCE", "COMPLIANCE", "READ", "FULL_CONTROL", "BOGUS", "CanonicalUser", "Group", "rootaccess", "{user}", "nosuchuser", "{e1}", "\"\"", "\"x\"", "x", "null", "{vid}", "{vid2}", "..", "../x", "a/b", "&lt;", "&amp;", "&#0;", "&#x110000;", "&bogus;",
	"<![CDATA[x]]>", "<x/>", "<!--c-->", "\xff\xfe", "\x00", "é", "2036-01-02T15:04:05Z", "1969-12-31T23:59:59Z", "0000-00-00T00:00:00Z", c20Long, c20VeryLong, "BucketOwnerPreferred", "ObjectWriter", "us-east-1", "s3:*", "*", "arn:aws:s3:::fzb/*", "Allow", "Deny"}

var c20ElemRe = regexp.MustCompile(`<([A-Za-z][A-Za-z0-9]*)((?:\s[^>]*)?)>`)

type c20Elem struct {
	name                       string
	openStart, openEnd, endTag int // offsets: `<name…>` is [openStart,openEnd), the matching `</name>` starts at endTag
}

// c20Elems lists the elements of one of OUR templates (well-formed, no self-closing tags).
func c20Elems(doc string) []c20Elem {
	var out []c20Elem
	for _, m := range c20ElemRe.FindAllStringSubmatchIndex(doc, -1) {
		name := doc[m[2]:m[3]]
		// matching end tag: scan with a depth counter for same-named elements
		depth, i := 1, m[1]
		end := -1
		for i < len(doc) {
			o := strings.Index(doc[i:], "<"+name)
			c := strings.Index(doc[i:], "</"+name+">")
			if c < 0 {
				break
			}
			if o >= 0 && o < c && (doc[i+o+1+len(name)] == '>' || doc[i+o+1+len(name)] == ' ') {
				depth++
				i += o + 1
				continue
			}
			depth--
			if depth == 0 {
				end = i + c
				break
			}
			i += c + 1
		}
		if end >= 0 {
			out = append(out, c20Elem{name, m[0], m[1], end})
		}
	}
	return out
}

// c20BodyStructural enumerates the systematic structural variants of an XML template: every element
// subtree removed / emptied / duplicated / given each of a few leaf values, plus document-level forms.
func c20BodyStructural(doc string) (out []string, keys []string) {
	add := func(k, s string) { out = append(out, s); keys = append(keys, k) }
	add("empty", "")
	add("lt", "<")
	add("root-only", c20RootOnly(doc))
	add("no-xmlns", strings.Replace(doc, ` xmlns="http://s3.amazonaws.com/doc/2006-03-01/"`, "", 1))
	add("wrong-root", "<Bogus>"+doc+"</Bogus>")
	add("json", `{"a":1}`)
	add("prolog", `<?xml version="1.0" encoding="UTF-8"?>`+doc)
	add("prolog-latin1", `<?xml version="1.0" encoding="ISO-8859-1"?>`+doc)
	add("doctype", `<!DOCTYPE d [<!ENTITY e "eeeeeeeeee"><!ENTITY f "&e;&e;&e;&e;&e;&e;&e;&e;">]>`+doc)
	add("bom", "\xef\xbb\xbf"+doc)
	add("utf16", "\xff\xfe<\x00a\x00/\x00>\x00")
	add("twice", doc+doc)
	add("trailing-garbage", doc+"<")
	add("deep", strings.Repeat("<a>", 20000)+strings.Repeat("</a>", 20000))
	add("wide", c20RootWrap(doc, strings.Repeat("<X><Y>1</Y></X>", 20000)))
	for i, e := range c20Elems(doc) {
		if i == 0 {
			continue
		}
		sub := doc[e.openStart : e.endTag+len(e.name)+3]
		id := fmt.Sprintf("%s#%d", e.name, i)
		add("drop:"+id, doc[:e.openStart]+doc[e.endTag+len(e.name)+3:])
		add("emptied:"+id, doc[:e.openEnd]+doc[e.endTag:])
		add("dup:"+id, doc[:e.openStart]+sub+sub+doc[e.endTag+len(e.name)+3:])
		add("selfclose:"+id, doc[:e.openStart]+"<"+e.name+"/>"+doc[e.endTag+len(e.name)+3:])
		add("noattr:"+id, doc[:e.openStart]+"<"+e.name+">"+doc[e.openEnd:])
		if !strings.Contains(doc[e.openEnd:e.endTag], "<") { // leaf
			for _, v := range []string{"", "0", "-1", "10001", "2147483648", "99999999999999999999", "abc", "\xff", c20Long} {
				add("leaf:"+id+"="+c20Short(v), doc[:e.openEnd]+v+doc[e.endTag:])
			}
		}
	}
	return
}

func c20Short(v string) string {
	if len(v) > 24 {
		return fmt.Sprintf("%s…(%d)", v[:8], len(v))
	}
	return strconv.Quote(v)
}

func c20RootOnly(doc string) string {
	es := c20Elems(doc)
	if len(es) == 0 {
		return "<a></a>"
	}
	return doc[:es[0].openEnd] + doc[es[0].endTag:]
}
func c20RootWrap(doc, inner string) string {
	es := c20Elems(doc)
	if len(es) == 0 {
		return inner
	}
	return doc[:es[0].openEnd] + inner + doc[es[0].endTag:]
}

// c20BodyRandom: one random mutation of a body (XML or JSON or data).
func c20BodyRandom(r *lib.Rand, doc string) (string, string) {
	if doc == "" {
		return r.Pick([]string{"x", "<a/>", "{}", string(r.Bytes(r.Intn(64)))}), "body:junk"
	}
	switch r.Intn(8) {
	case 0: // truncate
		n := r.Intn(len(doc))
		return doc[:n], "body:truncate"
	case 1: // flip a byte
		b := []byte(doc)
		b[r.Intn(len(b))] = byte(r.U64())
		return string(b), "body:byteflip"
	case 2: // delete a span
		i := r.Intn(len(doc))
		j := i + r.Intn(len(doc)-i)
		return doc[:i] + doc[j:], "body:delspan"
	case 3, 4, 5: // leaf value
		es := c20Elems(doc)
		var leaves []c20Elem
		for _, e := range es {
			if !strings.Contains(doc[e.openEnd:e.endTag], "<") {
				leaves = append(leaves, e)
			}
		}
		if len(leaves) == 0 { // JSON: replace a quoted string
			qs := regexp.MustCompile(`"[^"]*"`).FindAllStringIndex(doc, -1)
			if len(qs) == 0 {
				return doc + "x", "body:append"
			}
			q := qs[r.Intn(len(qs))]
			v := r.Pick(c20LeafPool)
			switch r.Intn(4) {
			case 0:
				return doc[:q[0]] + strconv.Quote(v) + doc[q[1]:], "body:json-string"
			case 1:
				return doc[:q[0]] + r.Pick([]string{"1", "null", "[]", "{}", "true", "[1]", "[null]", "[[\"x\"]]", "{\"AWS\":1}", "-1e999"}) + doc[q[1]:], "body:json-type"
			case 2:
				return doc[:q[0]] + doc[q[1]:], "body:json-drop"
			}
			return doc[:q[0]] + doc[q[0]:q[1]] + "," + doc[q[0]:q[1]] + doc[q[1]:], "body:json-dup"
		}
		e := leaves[r.Intn(len(leaves))]
		return doc[:e.openEnd] + r.Pick(c20LeafPool) + doc[e.endTag:], "body:leaf:" + e.name
	case 6: // structural
		vs, ks := c20BodyStructural(doc)
		i := r.Intn(len(vs))
		return vs[i], "body:" + strings.SplitN(ks[i], "#", 2)[0]
	}
	// splice two places
	i, j := r.Intn(len(doc)), r.Intn(len(doc))
	if i > j {
		i, j = j, i
	}
	return doc[:i] + doc[j:] + doc[i:j], "body:splice"
}

// ---------------------------------------------------------------- building and mutating cases

func c20SplitQuery(q string) [][2]string {
	var out [][2]string
	if q == "" {
		return out
	}
	for _, p := range strings.Split(q, "&") {
		k, v, has := strings.Cut(p, "=")
		if !has {
			v = "\x01" // flag without `=`
		}
		out = append(out, [2]string{k, v})
	}
	return out
}

func c20JoinQuery(q [][2]string, rawVals map[int]bool) string {
	var p []string
	for i, kv := range q {
		if kv[1] == "\x01" {
			p = append(p, kv[0])
		} else if rawVals[i] {
			p = append(p, kv[0]+"="+kv[1])
		} else {
			p = append(p, kv[0]+"="+gw.EncodeQueryValue(kv[1]))
		}
	}
	return strings.Join(p, "&")
}

func c20Data(n int) []byte {
	b := make([]byte, n)
	for i := range b {
		b[i] = byte('a' + i%23)
	}
	return b
}

func c20OpByName(name string) (c20Op, bool) {
	for _, o := range c20Ops {
		if o.Name == name {
			return o, true
		}
	}
	return c20Op{}, false
}

// build applies the mutations of a case to the valid request of its operation.
func (c c20Case) build(f *c20Fix) c20Built {
	if c.Raw != nil || c.Endpoint == "http-layer" {
		return c20Built{Target: "s3", HTTPOdd: true, Sized: true}
	}
	op, _ := c20OpByName(c.Endpoint)
	b := c20Built{Target: "s3", Method: op.Method, Path: op.Path}
	if op.Admin {
		b.Target = "admin"
	}
	q := c20SplitQuery(op.Query)
	rawVals := map[int]bool{}
	for _, h := range op.Hdrs {
		k, v, _ := strings.Cut(h, ": ")
		b.Headers = append(b.Headers, [2]string{k, v})
	}
	if strings.HasPrefix(op.Body, "data:") {
		n, _ := strconv.Atoi(op.Body[5:])
		b.Body = c20Data(n)
	} else if op.Body != "" {
		b.Body = []byte(c20Bodies[op.Body])
	}
	for _, m := range c.Muts {
		v := string(m.V)
		switch m.K {
		case "q":
			for i := range q {
				if q[i][0] == m.N {
					q[i][1] = v
					if m.Raw {
						rawVals[i] = true
					}
					break
				}
			}
		case "q+":
			q = append(q, [2]string{m.N, v})
			if m.Raw {
				rawVals[len(q)-1] = true
			}
		case "qflag", "qflag+":
			done := false
			if m.K == "qflag" {
				for i := range q {
					if q[i][0] == m.N {
						q[i][1], done = "\x01", true
						break
					}
				}
			}
			if !done {
				q = append(q, [2]string{m.N, "\x01"})
			}
		case "q-":
			for i := range q {
				if q[i][0] == m.N {
					q = append(q[:i:i], q[i+1:]...)
					break
				}
			}
		case "h":
			b.setHdr(m.N, v)
			if c20SignerHeaders[strings.ToLower(m.N)] {
				b.PostSign = append(b.PostSign, [2]string{m.N, v})
			}
			if strings.EqualFold(m.N, "Authorization") {
				b.RawAuthz = true
			}
		case "h+":
			b.Headers = append(b.Headers, [2]string{m.N, v})
			if strings.EqualFold(m.N, "Authorization") {
				b.RawAuthz = true
			}
		case "h-":
			out := b.Headers[:0:0]
			for _, h := range b.Headers {
				if !strings.EqualFold(h[0], m.N) {
					out = append(out, h)
				}
			}
			b.Headers = out
		case "body":
			b.Body = m.V
		case "path":
			b.Path = v
		case "method":
			b.Method = v
		case "listener":
			if b.Target == "s3" {
				b.Target = "admin"
			} else {
				b.Target = "s3"
			}
		}
		if m.Raw {
			b.HTTPOdd = true
		}
	}
	b.Query = c20JoinQuery(q, rawVals)
	// substitute the fixture ids (plain and percent-encoded placeholder forms)
	b.Path, b.Query = f.subst(b.Path), f.subst(b.Query)
	for i := range b.Headers {
		b.Headers[i][1] = f.subst(b.Headers[i][1])
	}
	b.Body = []byte(f.subst(string(b.Body)))
	// is this a clean HTTP/1.1 message?
	for _, h := range b.Headers {
		if !httpHeaderValue(h[1]) || !c20Token(h[0]) || len(h[1]) > 3000 {
			b.HTTPOdd = true
		}
		switch strings.ToLower(h[0]) {
		case "content-length", "transfer-encoding", "host", "expect", "connection":
			b.HTTPOdd, b.Sized = true, true
		case "x-amz-decoded-content-length":
			b.Sized = true
		}
	}
	for _, s := range []string{b.Path, b.Query} {
		for i := 0; i < len(s); i++ {
			if s[i] <= ' ' || s[i] >= 0x7f {
				b.HTTPOdd = true
			}
		}
	}
	if !strings.HasPrefix(b.Path, "/") || len(b.Path)+len(b.Query) > 3000 {
		b.HTTPOdd = true
	}
	switch b.Method {
	case "GET", "PUT", "POST", "DELETE", "HEAD", "PATCH", "OPTIONS", "TRACE":
	default:
		b.HTTPOdd = true
	}
	if c.DeclLen != nil || c.WireMut != "" {
		b.Sized = true
	}
	return b
}

var c20ExtraQuery = []string{"uploadId", "versionId", "partNumber", "tagging", "acl", "retention", "legal-hold", "attributes", "uploads", "versions", "policy", "cors", "object-lock", "ownershipControls", "versioning", "delete",
	"restore", "select", "select-type", "list-type", "max-keys", "max-parts", "max-uploads", "part-number-marker", "key-marker", "upload-id-marker", "version-id-marker", "continuation-token", "start-after", "marker", "prefix", "delimiter",
	"encoding-type", "fetch-owner", "max-buckets", "X-Amz-Algorithm", "X-Amz-Credential", "X-Amz-Date", "X-Amz-Expires", "X-Amz-SignedHeaders", "X-Amz-Signature", "X-Amz-Security-Token", "response-content-type", "response-expires", "x-id"}
var c20ExtraHdr = []string{"Range", "x-amz-copy-source", "x-amz-copy-source-range", "Content-MD5", "x-amz-tagging", "x-amz-meta-k", "x-amz-meta-", "x-amz-acl", "x-amz-grant-read", "x-amz-grant-full-control", "x-amz-content-sha256", "x-amz-date",
	"x-amz-decoded-content-length", "x-amz-trailer", "x-amz-checksum-crc32", "x-amz-checksum-crc32c", "x-amz-checksum-sha1", "x-amz-checksum-sha256", "x-amz-checksum-crc64nvme", "x-amz-checksum-algorithm", "x-amz-sdk-checksum-algorithm",
	"x-amz-checksum-type", "x-amz-checksum-mode", "x-amz-object-lock-mode", "x-amz-object-lock-retain-until-date", "x-amz-object-lock-legal-hold", "x-amz-bypass-governance-retention", "x-amz-mp-object-size", "x-amz-object-attributes",
	"x-amz-max-parts", "x-amz-part-number-marker", "x-amz-metadata-directive", "x-amz-tagging-directive", "x-amz-storage-class", "x-amz-expected-bucket-owner", "x-amz-object-ownership", "x-amz-bucket-object-lock-enabled",
	"If-Match", "If-None-Match", "If-Modified-Since", "If-Unmodified-Since", "Expires", "Content-Type", "Content-Encoding", "Expect", "Transfer-Encoding", "Content-Length", "Authorization", "Host", "x-amz-security-token", "Origin"}

var c20PathPool = []string{"/", "//", "/fzb", "/fzb/", "/fzb//", "/fzb/o1", "/fzb/o1/", "/fzb//o1", "/fzb/dir", "/fzb/dir/", "/fzb/dir/o2/", "/fzb/dir/o2/x", "/fzb/mp", "/fzb/big", "/fzv/v1", "/fzl/l1", "/nobucket", "/nobucket/k", "/fzb/nokey", "/FZ", "/f", "/fzb.",
	"/-fzb", "/192.168.1.1", "/fzb/%00", "/fzb/%ff%fe", "/%00", "/fzb/%2e%2e/x", "/fzb/../x", "/fzb/./x", "/../x", "/..", "/.", "/fzb/..", "/fzb/.", "/fzb/a%2Fb", "/fzb/%", "/fzb/%zz", "/%", "/fzb/+", "/fzb/a b", "/fzb/a%20b", "/fzb/?", "/fzb/%3F", "/fzb/%23",
	"/fzb/" + c20Long, "/" + c20Long, "/fzb/" + strings.Repeat("d/", 300) + "x", "/fzb/.sgwtmp/x", "/.sgwtmp", "/fzb/é", "/fzb/%C3%A9", "/fzb/o1%0d%0aX-Inj:%201", "fzb", "fzb/o1", "", "*", "http://example.com/fzb/o1", "//fzb/o1", "/fzb/o1//", "/fzb/dir//o2",
	"/create-user", "/list-users", "/delete-user", "/update-user", "/change-bucket-owner", "/list-buckets", "/health",
	"/fzv/dm", "/fzv/multi", "/fzv/nullcur", "/fzv/vdir/", "/fzs/s_dm", "/fzs/s_multi", "/fzl/l_hold", "/fzl/l_ret", "/fzv/dm/", "/fzv/multi/x"}

var c20Methods = []string{"GET", "PUT", "POST", "DELETE", "HEAD", "PATCH", "OPTIONS", "TRACE", "CONNECT", "get", "BREW"}

func c20PickInt(r *lib.Rand, xs []int) int { return xs[r.Intn(len(xs))] }

func c20PoolValue(r *lib.Rand, name string) (string, string) {
	kind := c20Kind(name)
	v := r.Pick(c20Pools[kind])
	if r.Chance(15) {
		v = r.Pick(c20Pools[r.Pick([]string{"num", "id", "str", "enum"})])
	}
	return v, kind
}

// c20Mutate derives one malformed / extreme variant of the valid request of op.
func c20Mutate(r *lib.Rand, op c20Op) c20Case {
	c := c20Case{Endpoint: op.Name, Auth: "header", Cred: "root"}
	q := c20SplitQuery(op.Query)
	var hdrs []string
	for _, h := range op.Hdrs {
		k, _, _ := strings.Cut(h, ": ")
		hdrs = append(hdrs, k)
	}
	bodyDoc := ""
	if op.Body != "" && !strings.HasPrefix(op.Body, "data:") {
		bodyDoc = c20Bodies[op.Body]
	}
	var classes []string
	n := 1 + r.Intn(3)
	if r.Chance(8) {
		n = 0
	}
	for m := 0; m < n; m++ {
		switch k := r.Intn(20); {
		case k < 5 && len(q) > 0: // a query value
			i := r.Intn(len(q))
			v, kind := c20PoolValue(r, q[i][0])
			if r.Chance(8) {
				c.Muts = append(c.Muts, c20Mut{K: "qflag", N: q[i][0]})
			} else {
				c.Muts = append(c.Muts, c20Mut{K: "q", N: q[i][0], V: []byte(v), Raw: r.Chance(6)})
			}
			classes = append(classes, "q:"+kind)
		case k < 8 && len(hdrs) > 0: // a header value
			i := r.Intn(len(hdrs))
			v, kind := c20PoolValue(r, hdrs[i])
			c.Muts = append(c.Muts, c20Mut{K: "h", N: hdrs[i], V: []byte(v)})
			classes = append(classes, "h:"+kind)
		case k < 10: // body
			if bodyDoc != "" || r.Chance(30) {
				nb, cl := c20BodyRandom(r, bodyDoc)
				c.Muts = append(c.Muts, c20Mut{K: "body", N: strings.TrimPrefix(cl, "body:"), V: []byte(nb)})
				classes = append(classes, strings.SplitN(cl, "#", 2)[0])
			} else if strings.HasPrefix(op.Body, "data:") {
				sz := []int{0, 1, 15, 16, 17, 4096, 65536, 70001}[r.Intn(8)]
				c.Muts = append(c.Muts, c20Mut{K: "body", N: fmt.Sprintf("size=%d", sz), V: c20Data(sz)})
				classes = append(classes, "body:size")
			}
		case k < 12: // add a query parameter
			name := r.Pick(c20ExtraQuery)
			v, kind := c20PoolValue(r, name)
			if r.Chance(30) {
				c.Muts = append(c.Muts, c20Mut{K: "qflag+", N: name})
			} else {
				c.Muts = append(c.Muts, c20Mut{K: "q+", N: name, V: []byte(v)})
			}
			classes = append(classes, "q+:"+kind)
		case k < 14: // add a header
			name := r.Pick(c20ExtraHdr)
			v, kind := c20PoolValue(r, name)
			switch strings.ToLower(name) {
			case "transfer-encoding":
				v = r.Pick([]string{"chunked", "identity", "gzip, chunked", "x"})
			case "expect":
				v = r.Pick([]string{"100-continue", "x"})
			}
			c.Muts = append(c.Muts, c20Mut{K: "h", N: name, V: []byte(v)})
			classes = append(classes, "h+:"+kind)
		case k < 15: // drop something
			if len(q) > 0 && r.Bool() {
				c.Muts = append(c.Muts, c20Mut{K: "q-", N: q[r.Intn(len(q))][0]})
				classes = append(classes, "q-")
			} else if len(hdrs) > 0 {
				c.Muts = append(c.Muts, c20Mut{K: "h-", N: hdrs[r.Intn(len(hdrs))]})
				classes = append(classes, "h-")
			}
		case k < 17: // path
			c.Muts = append(c.Muts, c20Mut{K: "path", V: []byte(r.Pick(c20PathPool))})
			classes = append(classes, "path")
		case k < 18: // method
			c.Muts = append(c.Muts, c20Mut{K: "method", V: []byte(r.Pick(c20Methods))})
			classes = append(classes, "method")
		case k < 19: // duplicate a query parameter or header
			if len(q) > 0 && r.Bool() {
				i := r.Intn(len(q))
				v, _ := c20PoolValue(r, q[i][0])
				c.Muts = append(c.Muts, c20Mut{K: "q+", N: q[i][0], V: []byte(v)})
				classes = append(classes, "q-dup")
			} else if len(hdrs) > 0 {
				i := r.Intn(len(hdrs))
				v, _ := c20PoolValue(r, hdrs[i])
				c.Muts = append(c.Muts, c20Mut{K: "h+", N: hdrs[i], V: []byte(v)})
				classes = append(classes, "h-dup")
			}
		default: // other listener
			c.Muts = append(c.Muts, c20Mut{K: "listener"})
			classes = append(classes, "listener")
		}
	}
	// credentials and auth mode
	switch k := r.Intn(20); {
	case k < 9:
	case k < 12:
		c.Cred = "user"
		classes = append(classes, "user")
	case k < 14:
		c.Cred = "anon"
		c.Auth = "none"
		classes = append(classes, "anon")
	case k < 16:
		c.Cred = r.Pick([]string{"badsecret", "unknown"})
		classes = append(classes, "badcred")
	case k < 18:
		c.Defect = r.Pick([]string{"malformed-auth", "bad-signature", "empty-signature", "altered-header", "altered-query", "altered-payload", "altered-path", "missing-auth"})
		classes = append(classes, "defect")
	case k < 19:
		c.TimeOff = c20PickInt(r, []int{-1000000, -3600, 3600, 1000000})
		classes = append(classes, "clock")
	default:
		c.Auth = "presign"
		c.Expires = c20PickInt(r, []int{0, 1, 60, 604800, 604801, -1})
		classes = append(classes, "presign")
	}
	if op.Stream && c.Auth == "header" && r.Chance(45) {
		c.Auth = r.Pick([]string{"unsigned", "stream-signed", "stream-signed-trailer", "stream-unsigned-trailer"})
		if strings.HasPrefix(c.Auth, "stream") {
			c.Trailer = r.Pick([]string{"crc32", "crc32c", "sha1", "sha256", "crc64nvme"})
			for i := r.Intn(4); i > 0; i-- {
				c.Chunks = append(c.Chunks, 1+r.Intn(40))
			}
			if r.Chance(25) {
				d := int64(c20PickInt(r, []int{0, -1, 1, 201, 199, 1 << 40}))
				c.DeclLen = &d
			}
			if r.Chance(50) {
				c.WireMut = r.Pick(c20WireMuts)
			}
		}
		classes = append(classes, "auth:"+c.Auth)
	}
	sort.Strings(classes)
	c.Class = strings.Join(classes, "+")
	if c.Class == "" {
		c.Class = "valid"
	}
	return c
}

// small boundary subsets of the pools: the quick tier sweeps every field of every operation with these
var c20CorePools = map[string][]string{
	"num":     {"", "0", "-1", "1", "3", "1000", "10001", "2147483648", "99999999999999999999999", "abc"},
	"id":      {"", "x", "..", "{uid}x", "{vid}x", "\xff\xfe"},
	"str":     {"", "/", "\x00", "\xff\xfe", "%", "..", "zzzz", "mp", "d"},
	"range":   {"", "bytes=0-", "bytes=-1", "bytes=5-2", "bytes=", "bytes=1-2-3", "bytes=99999999999999999999-", "bytes=70000-"},
	"copysrc": {"", "/", "fzb", "fzb/", "fzb/o1?versionId=", "?versionId=x", "%zz", "fzb/nokey", "fzv/v1?versionId={vid}x"},
	"date":    {"", "0", "20060102T150405Z", "2036-01-02T15:04:05Z", "Mon, 32 Jan 2006 15:04:05 GMT", "99999999T999999Z"},
	"b64":     {"", "x", "AAAAAA==", "===="},
	"tagq":    {"", "a", "a=b=c", "&", "%zz=1", "t2=a%20b", "k=%2"},
	"grant":   {"", "id=", ",", "nosuchuser"},
	"enum":    {"", "x", "ON", "GOVERNANCE", "REPLACE", "CRC32", "COMPOSITE", "\x00"},
	"attrs":   {"", ",", "Bogus"},
	"sha":     {"", "UNSIGNED-PAYLOAD", "STREAMING-UNSIGNED-PAYLOAD-TRAILER", "zz"},
}

// c20Systematic: every single-field replacement of every operation (each query parameter and header
// with each value of its pool, each structural variant of its body).
func c20Systematic(core bool) []c20Case {
	var out []c20Case
	pool := func(kind string) []string {
		if core {
			if p, ok := c20CorePools[kind]; ok {
				return p
			}
			return c20Pools[kind][:1]
		}
		return c20Pools[kind]
	}
	for _, op := range c20Ops {
		base := c20Case{Endpoint: op.Name, Auth: "header", Cred: "root"}
		if op.Body != "" && !strings.HasPrefix(op.Body, "data:") && op.Body != "policy" {
			vs, ks := c20BodyStructural(c20Bodies[op.Body])
			for i := range vs {
				c := base
				c.Class = "sys:body:" + strings.SplitN(strings.SplitN(ks[i], "#", 2)[0], "=", 2)[0]
				c.Muts = []c20Mut{{K: "body", N: ks[i], V: []byte(vs[i])}}
				out = append(out, c)
			}
		}
		for _, kv := range c20SplitQuery(op.Query) {
			kind := c20Kind(kv[0])
			for _, v := range pool(kind) {
				c := base
				c.Class = "sys:q:" + kind
				c.Muts = []c20Mut{{K: "q", N: kv[0], V: []byte(v)}}
				out = append(out, c)
			}
			c := base
			c.Class = "sys:qflag"
			c.Muts = []c20Mut{{K: "qflag", N: kv[0]}}
			out = append(out, c)
		}
		for _, h := range op.Hdrs {
			k, _, _ := strings.Cut(h, ": ")
			kind := c20Kind(k)
			for _, v := range pool(kind) {
				c := base
				c.Class = "sys:h:" + kind
				c.Muts = []c20Mut{{K: "h", N: k, V: []byte(v)}}
				out = append(out, c)
			}
		}
		if core {
			continue
		}
		for _, p := range c20PathPool {
			c := base
			c.Class = "sys:path"
			c.Muts = []c20Mut{{K: "path", V: []byte(p)}}
			out = append(out, c)
		}
	}
	// what runs before authentication completes, on one read and one write operation: the
	// Authorization header, the date and payload-hash headers, the presigned-URL query values
	for _, ep := range []string{"GetObject", "PutObject"} {
		base := c20Case{Endpoint: ep, Auth: "header", Cred: "root"}
		for _, hv := range []struct{ h, kind string }{{"Authorization", "authz"}, {"X-Amz-Date", "date"}, {"X-Amz-Content-Sha256", "sha"}} {
			for _, v := range c20Pools[hv.kind] {
				c := base
				c.Class = "sys:preauth:" + hv.kind
				c.Muts = []c20Mut{{K: "h", N: hv.h, V: []byte(v)}}
				out = append(out, c)
			}
		}
		for _, qv := range []struct{ q, kind string }{{"X-Amz-Algorithm", "enum"}, {"X-Amz-Credential", "cred"}, {"X-Amz-Date", "date"}, {"X-Amz-Expires", "num"}, {"X-Amz-SignedHeaders", "str"}, {"X-Amz-Signature", "str"}} {
			for _, v := range pool(qv.kind) {
				c := base
				c.Auth, c.Expires = "presign", 60
				c.Class = "sys:presign:" + qv.kind
				c.Muts = []c20Mut{{K: "q+", N: qv.q, V: []byte(v)}}
				out = append(out, c)
				c.Auth, c.Cred = "none", "anon"
				c.Muts = []c20Mut{{K: "q+", N: "X-Amz-Algorithm", V: []byte("AWS4-HMAC-SHA256")}, {K: "q+", N: "X-Amz-Credential", V: []byte("rootaccess/20060102/us-east-1/s3/aws4_request")},
					{K: "q+", N: "X-Amz-Date", V: []byte("20060102T150405Z")}, {K: "q+", N: "X-Amz-Expires", V: []byte("60")}, {K: "q+", N: "X-Amz-SignedHeaders", V: []byte("host")}, {K: "q+", N: "X-Amz-Signature", V: []byte("00")},
					{K: "q", N: qv.q, V: []byte(v)}}
				out = append(out, c)
			}
		}
	}
	return out
}

func c20Token(s string) bool {
	if s == "" {
		return false
	}
	for i := 0; i < len(s); i++ {
		c := s[i]
		if !(c >= 'a' && c <= 'z' || c >= 'A' && c <= 'Z' || c >= '0' && c <= '9' || c == '-' || c == '_') {
			return false
		}
	}
	return true
}

// named mutations of the encoded (aws-chunked) body
var c20WireMuts = []string{"truncate:half", "truncate:1", "truncate:last", "size:-1", "size:ffffffffffffffff", "size:7fffffffffffffff", "size:140000001", "size:140000000", "size:40000000", "size:zz", "size:", "size:+5", "size: 5",
	"nocrlf", "lf-only", "extra-after-final", "drop-final", "sig:short", "sig:none", "sig:long", "semicolon-only", "trailer:none", "trailer:bad", "trailer:long", "trailer:dup", "junk", "empty", "zeros"}

func c20ApplyWireMut(name string, wire []byte) []byte {
	first := func() (int, int) { // the first chunk-size token [0,i)
		i := 0
		for i < len(wire) && wire[i] != ';' && wire[i] != '\r' && wire[i] != '\n' {
			i++
		}
		return 0, i
	}
	switch {
	case name == "truncate:half":
		return wire[:len(wire)/2]
	case name == "truncate:1":
		if len(wire) > 0 {
			return wire[:1]
		}
	case name == "truncate:last":
		if len(wire) > 0 {
			return wire[:len(wire)-1]
		}
	case strings.HasPrefix(name, "size:"):
		_, i := first()
		return append([]byte(name[5:]), wire[i:]...)
	case name == "nocrlf":
		return []byte(strings.ReplaceAll(string(wire), "\r\n", ""))
	case name == "lf-only":
		return []byte(strings.ReplaceAll(string(wire), "\r\n", "\n"))
	case name == "extra-after-final":
		return append(append([]byte{}, wire...), []byte("EXTRA-BYTES")...)
	case name == "drop-final":
		if i := strings.LastIndex(string(wire), "\r\n0"); i >= 0 {
			return wire[:i+2]
		}
	case name == "sig:short":
		return []byte(strings.Replace(string(wire), "chunk-signature=", "chunk-signature=00\r\n", 1))
	case name == "sig:none":
		return []byte(strings.Replace(string(wire), ";chunk-signature=", ";x=", 1))
	case name == "sig:long":
		return []byte(strings.Replace(string(wire), "chunk-signature=", "chunk-signature="+strings.Repeat("a", 5000), 1))
	case name == "semicolon-only":
		_, i := first()
		return append(append([]byte{}, wire[:i]...), []byte(";\r\n")...)
	case name == "trailer:none":
		if i := strings.LastIndex(string(wire), "x-amz-checksum-"); i >= 0 {
			return append(append([]byte{}, wire[:i]...), []byte("\r\n")...)
		}
	case name == "trailer:bad":
		if i := strings.LastIndex(string(wire), "x-amz-checksum-"); i >= 0 {
			return append(append([]byte{}, wire[:i]...), []byte("x-amz-checksum-crc32\r\n\r\n")...)
		}
	case name == "trailer:long":
		if i := strings.LastIndex(string(wire), "x-amz-checksum-"); i >= 0 {
			return append(append([]byte{}, wire[:i]...), []byte("x-amz-checksum-crc32:"+strings.Repeat("A", 100000)+"\r\n\r\n")...)
		}
	case name == "trailer:dup":
		if i := strings.LastIndex(string(wire), "x-amz-checksum-"); i >= 0 {
			return append(append([]byte{}, wire...), wire[i:]...)
		}
	case strings.HasPrefix(name, "size@"):
		// size@<k>:<value> — the size token of the k-th chunk header (0 = first) replaced
		ks, val, _ := strings.Cut(name[5:], ":")
		k, _ := strconv.Atoi(ks)
		pos := 0
		for i := 0; ; i++ {
			end := pos
			for end < len(wire) && wire[end] != ';' && wire[end] != '\r' && wire[end] != '\n' {
				end++
			}
			if i == k {
				return append(append(append([]byte{}, wire[:pos]...), []byte(val)...), wire[end:]...)
			}
			n, err := strconv.ParseInt(string(wire[pos:end]), 16, 64)
			eol := bytes.Index(wire[end:], []byte("\r\n"))
			if err != nil || eol < 0 || n == 0 {
				return wire
			}
			pos = end + eol + 2 + int(n) + 2
			if pos > len(wire) {
				return wire
			}
		}
	case strings.HasPrefix(name, "cut:"):
		return c20Cut(wire, name[4:])
	case name == "junk":
		return []byte("\x00\xff\r\n\r\n;;==\r\n")
	case name == "empty":
		return nil
	case name == "zeros":
		return []byte("0\r\n0\r\n0\r\n\r\n\r\n")
	}
	return wire
}

// ---------------------------------------------------------------- raw (HTTP-level) cases

func c20RawCases() []c20Case {
	addr := "{addr}"
	mk := func(name string, raw string) c20Case {
		return c20Case{Endpoint: "http-layer", Class: "raw:" + name, Raw: []byte(raw), Auth: "none", Cred: "anon"}
	}
	h := "Host: " + addr + "\r\n"
	var out []c20Case
	for _, t := range []struct{ n, raw string }{
		{"empty", ""},
		{"crlf", "\r\n\r\n"},
		{"no-version", "GET /\r\n\r\n"},
		{"http09", "GET /fzb\r\n"},
		{"http10", "GET /fzb HTTP/1.0\r\n\r\n"},
		{"http2-preface", "PRI * HTTP/2.0\r\n\r\nSM\r\n\r\n"},
		{"star", "OPTIONS * HTTP/1.1\r\n" + h + "\r\n"},
		{"get-star", "GET * HTTP/1.1\r\n" + h + "\r\n"},
		{"no-slash", "GET fzb HTTP/1.1\r\n" + h + "\r\n"},
		{"empty-target", "GET  HTTP/1.1\r\n" + h + "\r\n"},
		{"query-only", "GET ?x=1 HTTP/1.1\r\n" + h + "\r\n"},
		{"absolute", "GET http://" + addr + "/fzb/o1 HTTP/1.1\r\n" + h + "\r\n"},
		{"absolute-nopath", "GET http://" + addr + " HTTP/1.1\r\n" + h + "\r\n"},
		{"no-host", "GET /fzb HTTP/1.1\r\n\r\n"},
		{"two-hosts", "GET /fzb HTTP/1.1\r\n" + h + "Host: other\r\n\r\n"},
		{"header-no-colon", "GET /fzb HTTP/1.1\r\n" + h + "Bogus\r\n\r\n"},
		{"header-empty-name", "GET /fzb HTTP/1.1\r\n" + h + ": x\r\n\r\n"},
		{"header-nul", "GET /fzb HTTP/1.1\r\n" + h + "X-A: a\x00b\r\n\r\n"},
		{"header-fold", "GET /fzb HTTP/1.1\r\n" + h + "Authorization: AWS4-HMAC-SHA256\r\n Credential=x\r\n\r\n"},
		{"header-huge", "GET /fzb HTTP/1.1\r\n" + h + "X-A: " + strings.Repeat("a", 1<<20) + "\r\n\r\n"},
		{"header-many", "GET /fzb HTTP/1.1\r\n" + h + strings.Repeat("X-A: a\r\n", 20000) + "\r\n"},
		{"target-huge", "GET /fzb/" + strings.Repeat("a", 1<<20) + " HTTP/1.1\r\n" + h + "\r\n"},
		{"cl-negative", "PUT /fzb/x HTTP/1.1\r\n" + h + "Content-Length: -1\r\n\r\n"},
		{"cl-huge", "PUT /fzb/x HTTP/1.1\r\n" + h + "Content-Length: 99999999999999999999\r\n\r\n"},
		{"cl-maxint", "PUT /fzb/x HTTP/1.1\r\n" + h + "Content-Length: 9223372036854775807\r\n\r\nabc"},
		{"cl-two", "PUT /fzb/x HTTP/1.1\r\n" + h + "Content-Length: 1\r\nContent-Length: 2\r\n\r\nab"},
		{"cl-junk", "PUT /fzb/x HTTP/1.1\r\n" + h + "Content-Length: abc\r\n\r\n"},
		{"te-chunked-bad", "PUT /fzb/x HTTP/1.1\r\n" + h + "Transfer-Encoding: chunked\r\n\r\nzz\r\nabc\r\n0\r\n\r\n"},
		{"te-chunked-huge", "PUT /fzb/x HTTP/1.1\r\n" + h + "Transfer-Encoding: chunked\r\n\r\nffffffffffffffff\r\nabc\r\n0\r\n\r\n"},
		{"te-chunked-neg", "PUT /fzb/x HTTP/1.1\r\n" + h + "Transfer-Encoding: chunked\r\n\r\n-1\r\nabc\r\n0\r\n\r\n"},
		{"te-chunked-ok", "PUT /fzb/x HTTP/1.1\r\n" + h + "Transfer-Encoding: chunked\r\n\r\n3\r\nabc\r\n0\r\n\r\n"},
		{"te-and-cl", "PUT /fzb/x HTTP/1.1\r\n" + h + "Transfer-Encoding: chunked\r\nContent-Length: 3\r\n\r\n3\r\nabc\r\n0\r\n\r\n"},
		{"expect-100", "PUT /fzb/x HTTP/1.1\r\n" + h + "Expect: 100-continue\r\nContent-Length: 3\r\n\r\nabc"},
		{"binary", "\x16\x03\x01\x02\x00\x01\x00\x01\xfc\x03\x03" + strings.Repeat("\x00", 100)},
		{"nul-line", "GET /fzb\x00 HTTP/1.1\r\n" + h + "\r\n"},
		{"lf-only", "GET /fzb HTTP/1.1\n" + "Host: " + addr + "\n\n"},
		{"pipelined", "GET /fzb HTTP/1.1\r\n" + h + "\r\nGET /fzb HTTP/1.1\r\n" + h + "\r\n"},
		{"space-in-target", "GET /fzb/a b HTTP/1.1\r\n" + h + "\r\n"},
		{"nonascii-target", "GET /fzb/\xff\xfe HTTP/1.1\r\n" + h + "\r\n"},
		{"method-long", strings.Repeat("G", 10000) + " /fzb HTTP/1.1\r\n" + h + "\r\n"},
		{"version-junk", "GET /fzb HTTP/9.9\r\n" + h + "\r\n"},
		{"body-shorter", "PUT /fzb/x HTTP/1.1\r\n" + h + "Content-Length: 100\r\n\r\nabc"},
	} {
		out = append(out, mk(t.n, t.raw))
	}
	return out
}

func (c c20Case) keys() []string {
	var k []string
	for _, m := range c.Muts {
		k = append(k, m.key())
	}
	if c.WireMut != "" {
		k = append(k, "wire:"+c.WireMut)
	}
	if c.DeclLen != nil {
		k = append(k, fmt.Sprintf("decl=%d", *c.DeclLen))
	}
	if c.Raw != nil {
		k = append(k, c.Class)
	}
	return k
}

func (b c20Built) String() string {
	t := b.Path
	if b.Query != "" {
		t += "?" + b.Query
	}
	if len(t) > 300 {
		t = t[:300] + "…"
	}
	var hs []string
	for _, h := range b.Headers {
		v := h[1]
		if len(v) > 80 {
			v = v[:80] + "…"
		}
		hs = append(hs, h[0]+": "+v)
	}
	body := string(b.Body)
	if len(body) > 400 {
		body = body[:400] + fmt.Sprintf("…(%d bytes)", len(b.Body))
	}
	return fmt.Sprintf("%s %s [%s] {%s} body=%q", b.Method, t, b.Target, strings.Join(hs, "; "), body)
}

// ---------------------------------------------------------------- framing cuts

// c20Cut ends the encoded aws-chunked stream at a framing boundary: "crlf:<i>" = right after the
// i-th CRLF (0 = empty body), "mid:<i>" = one byte into the token that follows it, "lf:<i>" = the
// i-th CRLF itself cut between CR and LF. Content-Length is computed from what is sent, so the
// HTTP layer hands the body reader a clean EOF at exactly that place.
func c20Cut(wire []byte, spec string) []byte {
	kind, is, _ := strings.Cut(spec, ":")
	n, _ := strconv.Atoi(is)
	pos, seen := 0, 0
	for seen < n {
		j := bytes.Index(wire[pos:], []byte("\r\n"))
		if j < 0 {
			return wire
		}
		pos += j + 2
		seen++
	}
	switch kind {
	case "mid":
		if pos+1 <= len(wire) {
			return wire[:pos+1]
		}
	case "lf":
		if pos >= 1 && n > 0 {
			return wire[:pos-1]
		}
	}
	return wire[:pos]
}

// c20FramingCuts: the stream of every streaming mode cut at every framing boundary, for PutObject and UploadPart.
func c20FramingCuts() []c20Case {
	var out []c20Case
	for _, ep := range []string{"PutObjectPlain", "UploadPartPlain"} {
		for _, mode := range []string{"stream-unsigned-trailer", "stream-signed", "stream-signed-trailer"} {
			// 10 bytes in two chunks: size line, data, size line, data, final chunk, trailer line(s), blank line
			for i := 0; i <= 9; i++ {
				for _, kind := range []string{"crlf", "mid", "lf"} {
					if kind == "lf" && i == 0 {
						continue
					}
					out = append(out, c20Case{Endpoint: ep, Class: "cut:" + mode, Auth: mode, Cred: "root", Chunks: []int{5}, Trailer: "crc32",
						WireMut: fmt.Sprintf("cut:%s:%d", kind, i)})
				}
			}
		}
	}
	return out
}

// ---------------------------------------------------------------- state matrix

// keys of the versioned / locked state world (built by ensureStates) and how they can be addressed
var c20StateKeys = []struct{ bucket, key string }{
	{"fzv", "multi"}, {"fzv", "dm"}, {"fzv", "nullcur"}, {"fzv", "vdir/"}, {"fzv", "nokey"},
	{"fzs", "s_multi"}, {"fzs", "s_dm"}, {"fzl", "l_hold"}, {"fzl", "l_ret"}, {"fzb", "mp"}, {"fzb", "dir/"},
}

// c20StateMatrix: every object-level operation on every key state, without a version id and with
// versionId = current / an older one / a delete marker / null / garbage / an id of another key.
// `destructive` cases change the state: the runner rebuilds it afterwards.
func c20StateMatrix() (cases []c20Case, destructive []bool) {
	type opSpec struct {
		ep          string
		destructive bool
	}
	ops := []opSpec{{"HeadObjectPlain", false}, {"GetObjectPlain", false}, {"GetObjectTagging", false}, {"GetObjectAttributes", false}, {"GetObjectAcl", false},
		{"GetObjectRetention", false}, {"GetObjectLegalHold", false}, {"HeadObjectPart", false}, {"CopyObjectPlain", false},
		{"PutObjectTagging", true}, {"DeleteObjectTagging", true}, {"PutObjectLegalHold", true}, {"PutObjectRetention", true}, {"DeleteObjectPlain", true}}
	for _, sk := range c20StateKeys {
		name := strings.TrimSuffix(sk.key, "/")
		vids := []string{"", "{" + name + ".cur}", "{" + name + ".old}", "{" + name + ".marker}", "null", "garbage-id", "{multi.old}"}
		for _, op := range ops {
			for _, vid := range vids {
				c := c20Case{Endpoint: op.ep, Class: "state:" + sk.bucket + "/" + sk.key, Auth: "header", Cred: "root"}
				path := "/" + sk.bucket + "/" + sk.key
				if op.ep == "CopyObjectPlain" {
					src := sk.bucket + "/" + sk.key
					if vid != "" {
						src += "?versionId=" + vid
					}
					c.Muts = []c20Mut{{K: "h", N: "x-amz-copy-source", V: []byte(src)}}
				} else {
					c.Muts = []c20Mut{{K: "path", V: []byte(path)}, {K: "q-", N: "versionId"}}
					if vid != "" {
						c.Muts = append(c.Muts, c20Mut{K: "q+", N: "versionId", V: []byte(vid)})
					}
				}
				cases = append(cases, c)
				destructive = append(destructive, op.destructive)
			}
		}
	}
	return
}

// ---------------------------------------------------------------- boundary chunk sizes

var c20BoundarySizes = []string{"7fffffffffffffff", "8000000000000000", "ffffffffffffffff", "10000000000000000", "FFFFFFFFFFFFFFFF", "-1", "-8000000000000000", "+5", "0x5", "0005", "00000000000000000005", "",
	" 5", "5 ", "zz", "7ffffffffffffffe", "80000000", "100000000", "140000001", "-0", "1_0"}

// c20ChunkSizeCases: every boundary chunk size as the first and as a later chunk header, in all three
// streaming modes, for PutObject and UploadPart, under a valid header signature (the seed signature of
// the chunk chain is right, so the body reader is reached and parses the header).
func c20ChunkSizeCases() []c20Case {
	var out []c20Case
	for _, ep := range []string{"PutObjectPlain", "UploadPartPlain"} {
		for _, mode := range []string{"stream-signed", "stream-signed-trailer", "stream-unsigned-trailer"} {
			for k := 0; k < 2; k++ {
				for _, v := range c20BoundarySizes {
					out = append(out, c20Case{Endpoint: ep, Class: "chunk-size:" + mode, Auth: mode, Cred: "root", Chunks: []int{5}, Trailer: "crc32",
						WireMut: fmt.Sprintf("size@%d:%s", k, v), group: ep + mode})
				}
			}
		}
	}
	return out
}

// ---------------------------------------------------------------- bucket policy with a many-star resource

// the policy of bucket fzp: Allow s3:* to everybody on resources with 8, 12 and 15 `*` — the glob
// matcher behind every access check of a non-admin account must answer in bounded time whatever the key
func c20StarResource(k int) string { return "arn:aws:s3:::fzp/" + strings.Repeat("*a", k) + "*b" }

func c20GlobPolicy() string {
	return `{"Version":"2012-10-17","Statement":[{"Effect":"Allow","Principal":"*","Action":"s3:*","Resource":["` + c20StarResource(8) + `","` + c20StarResource(12) + `","` + c20StarResource(15) + `"]}]}`
}

// c20PolicyGlobCases: object operations by the role-user account on long keys that fail to match late.
func c20PolicyGlobCases() []c20Case {
	keys := []string{"aaaaaaaaaaaaaaaab", strings.Repeat("a", 200), strings.Repeat("a", 100) + "c", strings.Repeat("a", 1000), strings.Repeat("ab", 60) + "c", strings.Repeat("a", 60) + "/" + strings.Repeat("a", 60)}
	var out []c20Case
	for _, key := range keys {
		for _, ep := range []string{"GetObjectPlain", "HeadObjectPlain", "PutObjectPlain", "DeleteObjectPlain", "GetObjectTagging", "GetObjectAttributes"} {
			out = append(out, c20Case{Endpoint: ep, Class: "policy-glob", Auth: "header", Cred: "user", group: "policy-glob",
				Muts: []c20Mut{{K: "path", V: []byte("/fzp/" + key)}}})
		}
		out = append(out, c20Case{Endpoint: "CopyObjectPlain", Class: "policy-glob", Auth: "header", Cred: "user", group: "policy-glob",
			Muts: []c20Mut{{K: "path", V: []byte("/fzp/" + key)}, {K: "h", N: "x-amz-copy-source", V: []byte("fzp/" + key)}}})
	}
	return out
}
