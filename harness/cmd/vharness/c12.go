package main

// C12 — aws-chunked decoding is independent of stream fragmentation.
//
// The REAL readers (utils.NewSignedChunkReader / utils.NewUnsignedChunkReader) are called in-process
// behind a fragmenting io.Reader and read with a schedule of destination buffer sizes.  Every
// observation is (a) compared with the Lean model run on the same stream / fragmentation / buffer
// schedule (kind "correspondence"), (b) judged by the executable Spec oracle Spec.Chunked.admitsB and
// (c) compared with the one-shot read of the same stream (both kind "property").  c12E2E repeats the
// property end to end against a gateway process.

import (
	"bytes"
	"crypto/hmac"
	"crypto/sha256"
	"encoding/base64"
	"encoding/hex"
	"errors"
	"fmt"
	"hash/crc32"
	"io"
	"sort"
	"strconv"
	"strings"
	"sync"
	"time"

	"github.com/versity/versitygw/s3api/utils"
	"github.com/versity/versitygw/s3err"
	"verif/harness/gw"
	"verif/harness/lib"
)

const (
	c12Secret  = "c12-secret-key"
	c12Region  = "us-east-1"
	c12Ymd     = "20240102"
	c12AmzDate = "20240102T030405Z"
	c12Seed    = "4f232c4386841ef735655705268965c44a0e4690baa4adea153f7db9fa80a0a9"
)

var c12Date = time.Date(2024, 1, 2, 3, 4, 5, 0, time.UTC)
var c12Caps = []int{1, 2, 3, 7, 16, 64, 4096, 32768}

func init() {
	checks["c12"] = checkDef{"C12",
		"(variant, stream, fragmentation, buffer schedule): variants signed / signed-trailer / unsigned-trailer (trailer crc32 or sha256); streams = valid encodings of payloads ≤ 64 B in 1–4 chunks (incl. 1-byte chunks and the empty payload), every truncation of them, single-byte mutations (4 per byte), and grammar-level malformations (signs, white space, case, leading zeros, negative/huge sizes, trailing bytes, wrong trailer fields); fragmentations = whole / every single cut / all pairs (thorough) / random cut sets, io.EOF with the last bytes or separately; buffer sizes from {1,2,3,7,16,64,4096,32768}, constant or mixed. Non-trivial = the stream has at least one data chunk or is invalid, and (it is delivered in ≥ 2 reads or is invalid); distinct by (variant, stream, cuts, eof mode, buffer schedule). Every delivery is also compared with the one-shot read of the same stream (fragmentation independence, except for grey-zone streams). End to end: chunked uploads through a real gateway (bodies up to 1 MiB in many chunks; wire bodies cut at every framing CRLF ±1, at a stride and at the end, declared length matching the cut).",
		[]checkFn{c12Shims, c12Readers, c12E2E}}
}

// ------------------------------------------------------------------ the fragmenting reader

type c12FragReader struct {
	frags      [][]byte
	eofWith    bool
	endErr     error // when set: returned instead of io.EOF, never together with bytes
	off        int
	boundaries []int // stream offsets at which a delivery ended
}

func (f *c12FragReader) Read(p []byte) (int, error) {
	for len(f.frags) > 0 && len(f.frags[0]) == 0 {
		f.frags = f.frags[1:]
	}
	if len(f.frags) == 0 {
		if f.endErr != nil {
			return 0, f.endErr
		}
		return 0, io.EOF
	}
	n := copy(p, f.frags[0])
	f.frags[0] = f.frags[0][n:]
	for len(f.frags) > 0 && len(f.frags[0]) == 0 {
		f.frags = f.frags[1:]
	}
	f.off += n
	f.boundaries = append(f.boundaries, f.off)
	if f.eofWith && f.endErr == nil && len(f.frags) == 0 {
		return n, io.EOF
	}
	return n, nil
}

type c12Frag struct {
	Cuts    []int `json:"cuts"`
	EofWith bool  `json:"eof_with_last_bytes"`
	Caps    []int `json:"caps"`
}

func (f c12Frag) spec() string {
	e := "0"
	if f.EofWith {
		e = "1"
	}
	return c12Ints(f.Cuts) + ":" + e + ":" + c12Ints(f.Caps)
}

func c12Ints(xs []int) string {
	if len(xs) == 0 {
		return "-"
	}
	s := make([]string, len(xs))
	for i, x := range xs {
		s[i] = strconv.Itoa(x)
	}
	return strings.Join(s, ",")
}

func c12Cut(s []byte, cuts []int) [][]byte {
	var out [][]byte
	prev := 0
	for _, c := range cuts {
		if c > len(s) {
			c = len(s)
		}
		if c < prev {
			c = prev
		}
		out = append(out, append([]byte{}, s[prev:c]...))
		prev = c
	}
	return append(out, append([]byte{}, s[prev:]...))
}

// ------------------------------------------------------------------ running the real readers

func c12ErrClass(err error) string {
	var ae s3err.APIError
	if errors.As(err, &ae) {
		switch ae.Code {
		case "SignatureDoesNotMatch":
			return "sigmismatch"
		case "BadDigest":
			return "baddigest"
		case "InvalidRequest":
			return "badtrailer"
		}
		return "api:" + ae.Code
	}
	if err == io.ErrUnexpectedEOF {
		return "unexpectedeof"
	}
	switch msg := err.Error(); {
	case msg == "invalid chunk header format":
		return "invalidformat"
	case msg == "malformed chunk encoding":
		return "malformed"
	case strings.HasPrefix(msg, "actual checksum:"):
		return "baddigest"
	default:
		return "other:" + msg
	}
}

func c12NewReader(variant, algo string, under io.Reader) (io.Reader, error) {
	ad := utils.AuthData{Signature: c12Seed}
	switch variant {
	case "signed":
		return utils.NewSignedChunkReader(under, ad, c12Region, c12Secret, c12Date, "", false)
	case "signed-trailer":
		if algo == "sha256" {
			return utils.NewSignedChunkReader(under, ad, c12Region, c12Secret, c12Date, "x-amz-checksum-sha256", false)
		}
		return utils.NewSignedChunkReader(under, ad, c12Region, c12Secret, c12Date, "x-amz-checksum-crc32", false)
	default:
		if algo == "sha256" {
			return utils.NewUnsignedChunkReader(under, "x-amz-checksum-sha256", false)
		}
		return utils.NewUnsignedChunkReader(under, "x-amz-checksum-crc32", false)
	}
}

// c12Impl reads the stream through the real reader the way io.Copy would, with the given buffer
// schedule. Returns the canonical outcome, the panic text (if any) and the delivery boundaries.
func c12Impl(variant, algo string, stream []byte, f c12Frag) (outcome, panicText string, boundaries []int) {
	return c12ImplEnd(variant, algo, stream, f, nil)
}

var errC12End = errors.New("c12: end of underlying stream")

// c12PassthroughEOF: was the clean io.EOF of an accepting run merely the underlying reader's
// io.EOF handed through (the reader never got to a final chunk)?  Probe: the same run with the
// underlying stream ending in a distinct error instead of io.EOF no longer ends cleanly.
func c12PassthroughEOF(variant, algo string, stream []byte, f c12Frag) bool {
	o, _, _ := c12ImplEnd(variant, algo, stream, f, errC12End)
	return !strings.HasPrefix(o, "ok ")
}

func c12ImplEnd(variant, algo string, stream []byte, f c12Frag, endErr error) (outcome, panicText string, boundaries []int) {
	fr := &c12FragReader{frags: c12Cut(stream, f.Cuts), eofWith: f.EofWith, endErr: endErr}
	defer func() {
		if x := recover(); x != nil {
			outcome, panicText, boundaries = "panic", fmt.Sprint(x), fr.boundaries
		}
	}()
	r, err := c12NewReader(variant, algo, fr)
	if err != nil {
		return "err new:" + err.Error(), "", nil
	}
	var out []byte
	for i := 0; i < 4*len(stream)+64; i++ {
		c := 1
		if len(f.Caps) > 0 {
			c = f.Caps[i%len(f.Caps)]
		}
		if c < 1 {
			c = 1
		}
		buf := make([]byte, c)
		n, err := r.Read(buf)
		out = append(out, buf[:n]...)
		if err == io.EOF {
			return "ok " + lib.Hex(out), "", fr.boundaries
		}
		if err != nil {
			return "err " + c12ErrClass(err), "", fr.boundaries
		}
	}
	return "livelock", "", fr.boundaries
}

// ------------------------------------------------------------------ streams

type c12Stream struct {
	Variant string
	Algo    string
	Kind    string // valid | truncated | mutated | malformed
	Stream  []byte
	Payload []byte // of the valid stream this one was derived from
	Note    string
}

func (s c12Stream) ctx() string {
	return fmt.Sprintf("%s %s %s %s %s %s %s", s.Variant, s.Algo, lib.HexS(c12Secret), lib.HexS(c12Region), lib.HexS(c12Ymd), lib.HexS(c12AmzDate), lib.HexS(c12Seed))
}

func c12Encode(variant, algo string, payload []byte, sizes []int) []byte {
	key := gw.SigningKey(c12Secret, c12Ymd, c12Region, "s3", "aws4_request")
	scope := c12Ymd + "/" + c12Region + "/s3/aws4_request"
	switch variant {
	case "signed":
		return gw.EncodeSignedChunks(payload, sizes, c12Seed, key, c12AmzDate, scope, "", false)
	case "signed-trailer":
		return gw.EncodeSignedChunks(payload, sizes, c12Seed, key, c12AmzDate, scope, algo, true)
	default:
		return gw.EncodeUnsignedChunks(payload, sizes, algo)
	}
}

var c12Variants = []string{"signed", "signed-trailer", "unsigned-trailer"}

// chunk-size sequences: 1–4 chunks, 1-byte chunks, sizes that need two hex digits
func c12Chunkings(r *lib.Rand, n int) []int {
	if n == 0 {
		return nil
	}
	switch r.Intn(6) {
	case 0:
		return []int{n}
	case 1:
		return []int{1, n - 1}
	case 2:
		return []int{n - 1, 1}
	case 3:
		return []int{1, 1, n}
	default:
		k := 1 + r.Intn(3)
		var out []int
		left := n
		for i := 0; i < k && left > 1; i++ {
			s := 1 + r.Intn(left)
			if r.Chance(30) {
				s = 1
			}
			out = append(out, s)
			left -= s
		}
		return out // the encoder appends the remainder as the last chunk
	}
}

func c12ValidStream(r *lib.Rand, variant string, n int) c12Stream {
	algo := "crc32"
	if variant != "signed" && r.Chance(25) {
		algo = "sha256"
	}
	payload := r.Bytes(n)
	if r.Chance(30) { // printable, with CR/LF/;/= inside the data
		alpha := "ab01\r\n;=:- "
		for i := range payload {
			payload[i] = alpha[r.Intn(len(alpha))]
		}
	}
	sizes := c12Chunkings(r, n)
	return c12Stream{Variant: variant, Algo: algo, Kind: "valid", Stream: c12Encode(variant, algo, payload, sizes), Payload: payload,
		Note: fmt.Sprintf("payload=%d sizes=%v", n, sizes)}
}

// layout: regions [start,end) of the non-first headers of a signed stream, each including the CRLF
// that precedes it (the reader treats that CRLF as part of the header); tolerant walker.
func c12NonFirstHeaders(stream []byte) [][2]int {
	var out [][2]int
	pos, first := 0, true
	for pos < len(stream) {
		semi := bytes.IndexByte(stream[pos:], ';')
		if semi < 0 {
			break
		}
		size, err := strconv.ParseInt(string(stream[pos:pos+semi]), 16, 64)
		if err != nil || size < 0 {
			break
		}
		eol := bytes.Index(stream[pos:], []byte("\r\n"))
		if eol < 0 {
			break
		}
		hdrEnd := pos + eol + 2
		if size == 0 {
			if !first {
				out = append(out, [2]int{pos - 2, len(stream)})
			}
			break
		}
		if !first {
			out = append(out, [2]int{pos - 2, hdrEnd})
		}
		first = false
		pos = hdrEnd + int(size) + 2
		if size > int64(len(stream)) {
			break
		}
	}
	return out
}

func c12HasHeaderCut(regions [][2]int, boundaries []int) bool {
	for _, b := range boundaries {
		for _, rg := range regions {
			if rg[0] < b && b < rg[1] {
				return true
			}
		}
	}
	return false
}

// the unsigned stream ends right after a chunk-size line of a non-empty chunk
func c12EndsAfterSizeLine(stream []byte) bool {
	pos := 0
	for pos < len(stream) {
		nl := bytes.IndexByte(stream[pos:], '\n')
		if nl < 0 {
			return false
		}
		size, err := strconv.ParseInt(strings.TrimSpace(string(stream[pos:pos+nl])), 16, 64)
		if err != nil || size <= 0 {
			return false
		}
		pos += nl + 1
		if pos == len(stream) {
			return true
		}
		pos += int(size) + 2
	}
	return false
}

// ------------------------------------------------------------------ one stream, many fragmentations

type c12Job struct {
	s     c12Stream
	frags []c12Frag
}

func c12Variant(s c12Stream) string {
	if s.Variant == "unsigned-trailer" {
		return "unsigned"
	}
	return "signed"
}

func c12Signature(s c12Stream, f c12Frag, class, impl, panicText string, boundaries []int) string {
	v := c12Variant(s)
	accepted := strings.HasPrefix(impl, "ok ")
	if impl == "panic" {
		switch {
		case strings.Contains(panicText, "makeslice"):
			return v + ":panic:makeslice-len-out-of-range"
		case strings.Contains(panicText, "slice bounds out of range [:-"):
			return v + ":panic:negative-slice-bound"
		case strings.Contains(panicText, "slice bounds out of range [-"):
			return v + ":panic:negative-buf-offset"
		}
		return v + ":panic:other"
	}
	if v == "signed" {
		if c12HasHeaderCut(c12NonFirstHeaders(s.Stream), boundaries) {
			if accepted {
				return "signed:wrong-payload-accepted"
			}
			return "signed:cut-inside-nonfirst-header"
		}
		if accepted && c12PassthroughEOF(s.Variant, s.Algo, s.Stream, f) {
			return "signed:truncated-accepted"
		}
	} else if class == "truncated" && accepted && c12EndsAfterSizeLine(s.Stream) {
		return "unsigned:truncated-after-size-line"
	}
	return v + ":" + class + ":other"
}

// c12RunJobs runs every (stream, fragmentation) on the implementation, asks the model for the same
// and the oracle for a verdict on each distinct implementation observation.
func c12RunJobs(a lib.Args, res *lib.Result, jobs []c12Job) error {
	type obsRec struct {
		impl, panicText string
		boundaries      []int
	}
	const perLine = 400
	impl := make([][]obsRec, len(jobs))
	var wg sync.WaitGroup
	sem := make(chan struct{}, 16)
	for i := range jobs {
		wg.Add(1)
		sem <- struct{}{}
		go func(i int) {
			defer wg.Done()
			defer func() { <-sem }()
			j := jobs[i]
			rs := make([]obsRec, len(j.frags))
			for k, f := range j.frags {
				o, p, b := c12Impl(j.s.Variant, j.s.Algo, j.s.Stream, f)
				rs[k] = obsRec{o, p, b}
			}
			impl[i] = rs
		}(i)
	}
	wg.Wait()

	// driver lines: run (chunks of perLine specs) + one oracle line per stream
	type ref struct{ job, lo, hi int }
	var lines []string
	var refs []ref
	obsLists := make([][]string, len(jobs))
	for i, j := range jobs {
		for lo := 0; lo < len(j.frags); lo += perLine {
			hi := lo + perLine
			if hi > len(j.frags) {
				hi = len(j.frags)
			}
			specs := make([]string, 0, hi-lo)
			for _, f := range j.frags[lo:hi] {
				specs = append(specs, f.spec())
			}
			lines = append(lines, "chunk run "+j.s.ctx()+" "+lib.Hex(j.s.Stream)+" "+strings.Join(specs, "/"))
			refs = append(refs, ref{i, lo, hi})
		}
		seen := map[string]bool{}
		for _, o := range impl[i] {
			ob := "rejected"
			if strings.HasPrefix(o.impl, "ok ") {
				ob = "ok:" + o.impl[3:]
			} else if o.impl == "panic" || o.impl == "livelock" {
				ob = "crashed"
			}
			if !seen[ob] {
				seen[ob] = true
				obsLists[i] = append(obsLists[i], ob)
			}
		}
		sort.Strings(obsLists[i])
		lines = append(lines, "chunk oracle "+j.s.ctx()+" "+lib.Hex(j.s.Stream)+" "+strings.Join(obsLists[i], "/"))
		refs = append(refs, ref{i, -1, -1})
	}
	out, err := a.Driver.AskParallel(lines, 16)
	if err != nil {
		return err
	}
	model := make([][]string, len(jobs))
	verdict := make([]map[string]string, len(jobs))
	class := make([]string, len(jobs))
	for li, rf := range refs {
		if rf.lo < 0 {
			parts := strings.Split(out[li], " ")
			if len(parts) != 1+len(obsLists[rf.job]) {
				return fmt.Errorf("oracle answered %q for %q", out[li], lines[li][:80])
			}
			class[rf.job] = parts[0]
			verdict[rf.job] = map[string]string{}
			for k, ob := range obsLists[rf.job] {
				verdict[rf.job][ob] = parts[1+k]
			}
			continue
		}
		ms := strings.Split(out[li], "|")
		if len(ms) != rf.hi-rf.lo {
			return fmt.Errorf("model answered %d outcomes for %d specs: %.200q", len(ms), rf.hi-rf.lo, out[li])
		}
		model[rf.job] = append(model[rf.job], ms...)
	}
	obsOf := func(impl string) string {
		if strings.HasPrefix(impl, "ok ") {
			return "ok:" + impl[3:]
		} else if impl == "panic" || impl == "livelock" {
			return "crashed"
		}
		return "rejected"
	}
	for i, j := range jobs {
		s := j.s
		hasData := len(s.Payload) > 0
		// the one-shot read (whole stream in one delivery, io.EOF afterwards) is the reference of the
		// fragmentation-independence check
		oneShot, _, _ := c12Impl(s.Variant, s.Algo, s.Stream, c12Frag{nil, false, []int{len(s.Stream) + 1}})
		for k, f := range j.frags {
			o := impl[i][k]
			if class[i] != "grey" && obsOf(o.impl) != obsOf(oneShot) {
				res.Fail(lib.Failure{Kind: "property", Signature: c12Variant(s) + ":fragmentation-dependent:" + class[i],
					What: fmt.Sprintf("the outcome depends on the fragmentation: one-shot read %s, this delivery %s", c12Short(oneShot), c12Short(o.impl)),
					Input: map[string]interface{}{"variant": s.Variant, "algo": s.Algo, "kind": s.Kind, "note": s.Note, "stream": hex.EncodeToString(s.Stream),
						"cuts": f.Cuts, "eof_with_last_bytes": f.EofWith, "caps": f.Caps, "delivery_boundaries": o.boundaries}, Impl: o.impl, Model: model[i][k]})
			}
			ob := "rejected"
			if strings.HasPrefix(o.impl, "ok ") {
				ob = "ok:" + o.impl[3:]
			} else if o.impl == "panic" || o.impl == "livelock" {
				ob = "crashed"
			}
			nReads := len(o.boundaries)
			nontrivial := (hasData || s.Kind != "valid") && (nReads >= 2 || s.Kind != "valid")
			cutClass := "cuts:" + strconv.Itoa(len(f.Cuts))
			if len(f.Cuts) > 2 {
				cutClass = "cuts:3+"
			}
			res.Count(fmt.Sprintf("%s|%x|%s", s.Variant, s.Stream, f.spec()), nontrivial,
				"variant:"+s.Variant, "kind:"+s.Kind, "class:"+class[i], cutClass, "out:"+strings.SplitN(o.impl, " ", 3)[0]+"/"+class[i])
			input := map[string]interface{}{"variant": s.Variant, "algo": s.Algo, "kind": s.Kind, "note": s.Note,
				"stream": hex.EncodeToString(s.Stream), "stream_text": strconv.QuoteToASCII(string(s.Stream)),
				"cuts": f.Cuts, "eof_with_last_bytes": f.EofWith, "caps": f.Caps, "delivery_boundaries": o.boundaries}
			if i < 3 && k == len(j.frags)/2 {
				res.Sample(map[string]interface{}{"input": input, "impl": o.impl, "model": model[i][k], "stream_class": class[i]})
			}
			if verdict[i][ob] != "ok" {
				what := fmt.Sprintf("stream is %s by Spec.Chunked; the reader answered %s", class[i], c12Short(o.impl))
				if o.panicText != "" {
					what += " (" + o.panicText + ")"
				}
				res.Fail(lib.Failure{Kind: "property", Signature: c12Signature(s, f, class[i], o.impl, o.panicText, o.boundaries),
					What: what, Input: input, Impl: o.impl, Model: model[i][k]})
			}
			if model[i][k] != o.impl {
				res.Fail(lib.Failure{Kind: "correspondence", Signature: s.Variant + ":" + s.Kind,
					What: "real reader and Lean model disagree", Input: input, Impl: o.impl, Model: model[i][k]})
			}
		}
	}
	return nil
}

func c12Short(s string) string {
	if len(s) > 60 {
		return s[:60] + "…"
	}
	return s
}

// ------------------------------------------------------------------ fragmentation generators

func c12ConstCaps(i int) []int { return []int{c12Caps[i%len(c12Caps)]} }

func c12MixedCaps(r *lib.Rand) []int {
	n := 1 + r.Intn(4)
	out := make([]int, n)
	for i := range out {
		out[i] = c12Caps[r.Intn(len(c12Caps))]
	}
	return out
}

func c12SingleCuts(n int, r *lib.Rand) []c12Frag {
	var out []c12Frag
	for _, e := range []bool{false, true} {
		out = append(out, c12Frag{nil, e, []int{32768}}, c12Frag{nil, e, []int{4096}})
	}
	for c := 1; c < n; c++ {
		out = append(out, c12Frag{[]int{c}, c%2 == 0, []int{32768}})
		if c%3 == 0 {
			out = append(out, c12Frag{[]int{c}, c%2 == 1, c12MixedCaps(r)})
		}
	}
	for i := range c12Caps {
		out = append(out, c12Frag{nil, i%2 == 0, c12ConstCaps(i)})
	}
	return out
}

func c12RandomFrag(n int, r *lib.Rand) c12Frag {
	k := r.Intn(7)
	cuts := make([]int, 0, k)
	for i := 0; i < k && n > 0; i++ {
		cuts = append(cuts, r.Intn(n+1))
	}
	sort.Ints(cuts)
	var caps []int
	switch r.Intn(3) {
	case 0:
		caps = []int{32768}
	case 1:
		caps = c12ConstCaps(r.Intn(len(c12Caps)))
	default:
		caps = c12MixedCaps(r)
	}
	return c12Frag{cuts, r.Bool(), caps}
}

// ------------------------------------------------------------------ invalid streams

func c12Mutations(b byte) [4]byte {
	m := [4]byte{b ^ 0x01, b ^ 0x20, '-', 'f'}
	if m[2] == b {
		m[2] = '0'
	}
	if m[3] == b {
		m[3] = ' '
	}
	return m
}

// grammar-level malformations of a valid stream (each a single local edit)
func c12Malformed(base c12Stream, r *lib.Rand) []c12Stream {
	var out []c12Stream
	s := base.Stream
	add := func(note string, b []byte) {
		out = append(out, c12Stream{Variant: base.Variant, Algo: base.Algo, Kind: "malformed", Stream: b, Payload: base.Payload, Note: note + " of " + base.Note})
	}
	ins := func(at int, x string) []byte {
		return append(append(append([]byte{}, s[:at]...), x...), s[at:]...)
	}
	rep := func(at, n int, x string) []byte {
		return append(append(append([]byte{}, s[:at]...), x...), s[at+n:]...)
	}
	// the first size token is s[0:k]
	k := bytes.IndexAny(s, ";\r")
	if k > 0 {
		add("plus-sign", ins(0, "+"))
		add("minus-sign", ins(0, "-"))
		add("leading-zero", ins(0, "0"))
		add("leading-zeros", ins(0, "0000000000000000000"))
		add("leading-zeros-1100", ins(0, strings.Repeat("0", 1100)))
		add("upper-case-size", rep(0, k, strings.ToUpper(string(s[:k]))))
		add("space-before-size", ins(0, " "))
		add("space-after-size", ins(k, " "))
		add("tab-after-size", ins(k, "\t"))
		add("nbsp-after-size", ins(k, " "))
		add("0x-size", ins(0, "0x"))
		add("underscore-size", ins(k, "_0"))
		add("huge-size", rep(0, k, "7fffffffffffffff"))
		add("overflow-size", rep(0, k, "8000000000000000"))
		add("above-maxalloc-size", rep(0, k, "1000000000001"))
		add("negative-huge-size", rep(0, k, "-8000000000000000"))
		add("empty-size", rep(0, k, ""))
		add("size+1", rep(0, k, strconv.FormatInt(int64(len(base.Payload))+200, 16)))
	}
	add("trailing-byte", append(append([]byte{}, s...), 'x'))
	add("trailing-crlf", append(append([]byte{}, s...), "\r\n"...))
	add("leading-crlf", ins(0, "\r\n"))
	add("bare-lf-final", bytes.Replace(s, []byte("\r\n\r\n"), []byte("\n\n"), 1))
	if i := bytes.Index(s, []byte("x-amz-checksum-")); i >= 0 {
		add("trailer-name-case", rep(i, 1, "X"))
		add("trailer-space-after-colon", bytes.Replace(s, []byte(":"), []byte(": "), 1))
		add("trailer-other-algo", rep(i+15, 0, "x"))
		j := i + bytes.IndexByte(s[i:], ':') + 1
		add("trailer-checksum-lf", ins(j+2, "\n"))
		add("trailer-checksum-short", rep(j, 4, ""))
		add("trailer-checksum-nopad", bytes.Replace(s, []byte("=\r\n"), []byte("\r\n"), 1))
		add("trailer-leading-space", ins(i, " "))
		add("trailer-trailing-space", ins(i+bytes.Index(s[i:], []byte("\r\n")), " "))
	}
	if i := bytes.LastIndex(s, []byte("\r\n0")); i >= 0 {
		add("final-size-00", ins(i+2, "0"))
		add("final-size--0", ins(i+2, "-"))
		add("final-size-+0", ins(i+2, "+"))
	}
	if i := bytes.Index(s, []byte("chunk-signature=")); i >= 0 {
		add("sig-upper-case", rep(i+16, 64, strings.ToUpper(string(s[i+16:i+16+64]))))
		add("sig-empty", rep(i+16, 64, ""))
		add("sig-keyword-case", rep(i, 1, "C"))
		// an empty signature on a later chunk / on the final chunk (repo fix 7242bc4: refused at the header)
		if j := bytes.LastIndex(s, []byte("chunk-signature=")); j > i && j+16+64 <= len(s) {
			add("sig-empty-final", rep(j+16, 64, ""))
			// a whole extra chunk that nothing signs, in front of the final chunk: the chain of the other
			// chunks stays intact (accepted, with three more payload bytes, before 7242bc4)
			if j >= 2 && s[j-2] == '0' && s[j-1] == ';' {
				add("unsigned-extra-chunk", ins(j-2, "3;chunk-signature=\r\nxyz\r\n"))
			}
			if k2 := bytes.Index(s[i+16:], []byte("chunk-signature=")); k2 >= 0 && i+16+k2 < j {
				add("sig-empty-later", rep(i+16+k2+16, 64, ""))
			}
		}
	}
	for n := 0; n < 6; n++ { // random short insertions / deletions
		at := r.Intn(len(s) + 1)
		if r.Bool() && at < len(s) {
			add("delete-byte", rep(at, 1, ""))
		} else {
			add("insert-byte", ins(at, string(r.Bytes(1))))
		}
	}
	return out
}

// ------------------------------------------------------------------ the check

func c12Readers(a lib.Args, res *lib.Result) error {
	r := lib.NewRandStream(a.Seed, 12)
	if in := a.ReplayInput(); in != nil {
		st, _ := hex.DecodeString(fmt.Sprint(in["stream"]))
		s := c12Stream{Variant: fmt.Sprint(in["variant"]), Algo: fmt.Sprint(in["algo"]), Kind: fmt.Sprint(in["kind"]), Stream: st, Payload: []byte{0}, Note: "replay"}
		f := c12Frag{EofWith: in["eof_with_last_bytes"] == true}
		for _, x := range c12Arr(in["cuts"]) {
			f.Cuts = append(f.Cuts, x)
		}
		for _, x := range c12Arr(in["caps"]) {
			f.Caps = append(f.Caps, x)
		}
		return c12RunJobs(a, res, []c12Job{{s, []c12Frag{f}}})
	}
	thorough := a.Thorough()
	var jobs []c12Job
	flush := func() error {
		err := c12RunJobs(a, res, jobs)
		jobs = jobs[:0]
		return err
	}

	// 0. corpus: the minimal witnesses of the known defect classes (also proved in Lean/Open/C12)
	jobs = append(jobs, c12Corpus()...)

	// 1. valid streams × every single cut point (+ whole, + every constant buffer size)
	lens := []int{0, 1, 2, 3, 5, 15, 16, 17, 31, 33, 40, 63, 64}
	nValid := 2
	if thorough {
		nValid = 12
	}
	var bases []c12Stream
	for _, v := range c12Variants {
		for _, n := range lens {
			for i := 0; i < nValid; i++ {
				s := c12ValidStream(r, v, n)
				bases = append(bases, s)
				jobs = append(jobs, c12Job{s, c12SingleCuts(len(s.Stream), r)})
			}
		}
		if err := flush(); err != nil {
			return err
		}
	}

	// 2. random fragmentations of valid streams
	nRandom := 30000
	if thorough {
		nRandom = 1000000
	}
	per := nRandom / len(bases)
	for _, s := range bases {
		fr := make([]c12Frag, per)
		for i := range fr {
			fr[i] = c12RandomFrag(len(s.Stream), r)
		}
		jobs = append(jobs, c12Job{s, fr})
		if len(jobs) >= 64 {
			if err := flush(); err != nil {
				return err
			}
		}
	}
	if err := flush(); err != nil {
		return err
	}

	// 3. all pairs of cut points (thorough: streams ≤ 400 B; quick: one tiny stream per variant)
	for _, v := range c12Variants {
		var pick []c12Stream
		for _, s := range bases {
			if s.Variant != v || len(s.Stream) > 400 || len(s.Payload) == 0 {
				continue
			}
			if thorough && len(pick) < 3 && len(s.Payload) >= 16 || !thorough && len(pick) < 1 && len(s.Payload) == 2 {
				pick = append(pick, s)
			}
		}
		for _, s := range pick {
			var fr []c12Frag
			n := len(s.Stream)
			for c1 := 1; c1 < n; c1++ {
				for c2 := c1 + 1; c2 < n; c2++ {
					fr = append(fr, c12Frag{[]int{c1, c2}, (c1+c2)%2 == 0, []int{32768}})
				}
			}
			jobs = append(jobs, c12Job{s, fr})
			if err := flush(); err != nil {
				return err
			}
		}
	}

	// 4. every truncation point; 5. every byte × 4 mutations; 6. grammar-level malformations
	stride := 7
	if thorough {
		stride = 1
	}
	invalidFrags := func(n int) []c12Frag {
		fr := []c12Frag{{nil, false, []int{32768}}, {nil, true, []int{32768}}, {nil, false, []int{7}}, {nil, true, []int{64}}}
		for i := 0; i < 4; i++ {
			fr = append(fr, c12RandomFrag(n, r))
		}
		return fr
	}
	for bi, s := range bases {
		if bi%stride != 0 {
			continue
		}
		for t := 0; t < len(s.Stream); t++ {
			ts := c12Stream{Variant: s.Variant, Algo: s.Algo, Kind: "truncated", Stream: s.Stream[:t], Payload: s.Payload, Note: fmt.Sprintf("first %d bytes of %s", t, s.Note)}
			jobs = append(jobs, c12Job{ts, invalidFrags(t)})
		}
		for p := 0; p < len(s.Stream); p++ {
			for _, m := range c12Mutations(s.Stream[p]) {
				ms := append([]byte{}, s.Stream...)
				ms[p] = m
				jobs = append(jobs, c12Job{c12Stream{Variant: s.Variant, Algo: s.Algo, Kind: "mutated", Stream: ms, Payload: s.Payload,
					Note: fmt.Sprintf("byte %d %q→%q of %s", p, s.Stream[p], m, s.Note)}, invalidFrags(len(ms))[:5]})
			}
		}
		for _, ms := range c12Malformed(s, r) {
			jobs = append(jobs, c12Job{ms, invalidFrags(len(ms.Stream))})
		}
		if err := flush(); err != nil {
			return err
		}
	}
	res.Note("trailer algorithms in the correspondence: crc32 and sha256 (the ones with an executable Lean instance); crc32c, sha1, crc64nvme are not exercised")
	return nil
}

func c12Arr(v interface{}) []int {
	var out []int
	if xs, ok := v.([]interface{}); ok {
		for _, x := range xs {
			if f, ok := x.(float64); ok {
				out = append(out, int(f))
			}
		}
	}
	return out
}

// c12Corpus: minimal witnesses, run first.
func c12Corpus() []c12Job {
	pay := []byte("0123456789abcdefghijklmnopqrstuvwxyzABCD")
	var jobs []c12Job
	for _, v := range []string{"signed", "signed-trailer"} {
		s := c12Stream{Variant: v, Algo: "crc32", Kind: "valid", Stream: c12Encode(v, "crc32", pay, []int{17, 16, 7}), Payload: pay, Note: "corpus 17+16+7"}
		jobs = append(jobs, c12Job{s, []c12Frag{
			{nil, false, []int{32768}},
			{[]int{110}, false, []int{32768}}, // inside the 2nd header → rejected
			{[]int{106}, false, []int{32768}}, // after "\r\n10" → size read as 0x1010 → wrong payload accepted
			{[]int{103}, false, []int{32768}}, // after "\r" → rejected
		}})
		for _, t := range []int{100, 200, 300, len(s.Stream) - 2} {
			ts := c12Stream{Variant: v, Algo: "crc32", Kind: "truncated", Stream: s.Stream[:t], Payload: pay, Note: fmt.Sprintf("corpus first %d bytes", t)}
			jobs = append(jobs, c12Job{ts, []c12Frag{{nil, false, []int{32768}}, {nil, true, []int{32768}}}})
		}
		// a signature that contains LF, header split right behind its CR: the two stale bytes in the
		// stash complete the header, bufOffset becomes negative
		if i := bytes.Index(s.Stream[90:], []byte("chunk-signature=")); i >= 0 {
			at := 90 + i + 16
			lf := append([]byte{}, s.Stream...)
			lf[at+62], lf[at+63] = 'a', '\n'
			jobs = append(jobs, c12Job{c12Stream{Variant: v, Algo: "crc32", Kind: "mutated", Stream: lf, Payload: pay, Note: "corpus LF at the end of the 2nd signature"},
				[]c12Frag{{nil, false, []int{32768}}, {[]int{at + 65}, false, []int{32768}}}})
		}
		neg := append([]byte("-"), s.Stream...)
		jobs = append(jobs, c12Job{c12Stream{Variant: v, Algo: "crc32", Kind: "malformed", Stream: neg, Payload: pay, Note: "corpus negative size"}, []c12Frag{{nil, false, []int{32768}}}})
	}
	u := c12Stream{Variant: "unsigned-trailer", Algo: "crc32", Kind: "valid", Stream: c12Encode("unsigned-trailer", "crc32", pay, []int{17, 16, 7}), Payload: pay, Note: "corpus 17+16+7"}
	jobs = append(jobs, c12Job{u, []c12Frag{{nil, false, []int{32768}}, {[]int{30}, true, []int{3}}}})
	for _, t := range []int{4, 27, 48} {
		ts := c12Stream{Variant: "unsigned-trailer", Algo: "crc32", Kind: "truncated", Stream: u.Stream[:t], Payload: pay, Note: fmt.Sprintf("corpus first %d bytes (ends after a size line)", t)}
		jobs = append(jobs, c12Job{ts, []c12Frag{{nil, false, []int{32768}}, {nil, true, []int{16}}}})
	}
	for _, bad := range []string{"-5\r\nhello\r\n0\r\nx-amz-checksum-crc32:AAAAAA==\r\n\r\n", "7fffffffffffffff\r\nhello\r\n0\r\nx-amz-checksum-crc32:AAAAAA==\r\n\r\n"} {
		jobs = append(jobs, c12Job{c12Stream{Variant: "unsigned-trailer", Algo: "crc32", Kind: "malformed", Stream: []byte(bad), Payload: pay, Note: "corpus bad size"}, []c12Frag{{nil, false, []int{64}}}})
	}
	return jobs
}

// ------------------------------------------------------------------ end to end

// c12DataBytesIn: how many payload bytes a (possibly truncated) aws-chunked wire body carries in
// full or in part, walking the chunk framing (signed: "size;chunk-signature=…CRLF", unsigned: "size CRLF").
func c12DataBytesIn(wire []byte) int64 {
	var n int64
	pos := 0
	for pos < len(wire) {
		eol := bytes.Index(wire[pos:], []byte("\r\n"))
		if eol < 0 {
			return n
		}
		line := string(wire[pos : pos+eol])
		if i := strings.IndexByte(line, ';'); i >= 0 {
			line = line[:i]
		}
		size, err := strconv.ParseInt(line, 16, 64)
		if err != nil || size <= 0 {
			return n
		}
		pos += eol + 2
		have := int64(len(wire) - pos)
		if have <= size {
			if have > 0 {
				n += have
			}
			return n
		}
		n += size
		pos += int(size) + 2
	}
	return n
}

// c12E2E: chunked uploads through a real gateway process.  Valid uploads (bodies up to several
// hundred KB in many chunks, so that fasthttp's own reads cut chunk headers at arbitrary places)
// must be stored byte-identically; an upload whose wire body is cut short — with the declared decoded
// length set to what the cut body carries, so that only the chunk reader can notice — must be
// refused and must not create the object.
func c12E2E(a lib.Args, res *lib.Result) error {
	if a.ReplayInput() != nil {
		return nil
	}
	cfg, err := mustStorage(a, "c12", false, false, nil)
	if err != nil {
		return err
	}
	g, err := gw.Start(cfg)
	if err != nil {
		return err
	}
	defer g.Kill()
	cr := rootCreds(cfg)
	r := lib.NewRandStream(a.Seed, 1212)
	if rsp := gw.Do(g.Addr(), gw.Req{Method: "PUT", Path: "/c12", Auth: "header", Creds: cr}); rsp.Status != 200 {
		return fmt.Errorf("create bucket: %d %s %v", rsp.Status, rsp.Body, rsp.Err)
	}
	modes := []string{"stream-signed", "stream-signed-trailer", "stream-unsigned-trailer"}
	sizes := []int{0, 1, 17, 4096, 5000, 70000, 300000}
	rounds := 1
	if a.Thorough() {
		sizes = append(sizes, 1<<20)
		rounds = 6
	}
	chunkings := func(n int) [][]int {
		rnd := []int{}
		for left := n; left > 0; {
			c := 1 + r.Intn(8192)
			rnd = append(rnd, c)
			left -= c
		}
		return [][]int{{n}, c12Repeat(1000, n/1000+1), c12Repeat(4096-87, n/4009+1), rnd}
	}
	key := 0
	for round := 0; round < rounds; round++ {
		for _, mode := range modes {
			for _, n := range sizes {
				body := r.Bytes(n)
				for _, ch := range chunkings(n) {
					key++
					path := fmt.Sprintf("/c12/v%d", key)
					algo := pick(r, "crc32", "sha256", "crc32c", "sha1", "crc64nvme")
					put := gw.Do(g.Addr(), gw.Req{Method: "PUT", Path: path, Body: body, Auth: mode, Creds: cr, Chunks: ch, Trailer: algo})
					get := gw.Do(g.Addr(), gw.Req{Method: "GET", Path: path, Auth: "header", Creds: cr})
					res.Count(fmt.Sprintf("e2e|%s|%d|%v|%s", mode, n, ch, algo), n > 0, "e2e:valid:"+mode)
					in := map[string]interface{}{"e2e": true, "mode": mode, "size": n, "chunks": c12Short(fmt.Sprint(ch)), "trailer": algo}
					if put.Status != 200 {
						res.Fail(lib.Failure{Kind: "property", Signature: "e2e:" + mode + ":valid-upload-refused",
							What: fmt.Sprintf("valid chunked upload answered %d %s", put.Status, put.ErrCode()), Input: in, Impl: fmt.Sprint(put.Status)})
					} else if get.Status != 200 || !bytes.Equal(get.Body, body) {
						res.Fail(lib.Failure{Kind: "property", Signature: "e2e:" + mode + ":readback-differs",
							What: fmt.Sprintf("object stored by a valid chunked upload reads back differently (GET %d, %d bytes for %d)", get.Status, len(get.Body), n), Input: in, Impl: fmt.Sprint(get.Status)})
					}
				}
			}
		}
	}
	// truncated wire bodies
	body := r.Bytes(5000)
	step := 53
	if a.Thorough() {
		step = 7
	}
	for _, mode := range modes {
		// learn the wire body
		var wire []byte
		gw.Do(g.Addr(), gw.Req{Method: "PUT", Path: "/c12/probe", Body: body, Auth: mode, Creds: cr, Chunks: c12Repeat(700, 8), Trailer: "crc32",
			WireMut: func(w []byte) []byte { wire = append([]byte{}, w...); return w }})
		wlen := len(wire)
		seen := map[int]bool{}
		var cutsAt []int
		addCut := func(c int) {
			if c >= 0 && c < wlen && !seen[c] {
				seen[c] = true
				cutsAt = append(cutsAt, c)
			}
		}
		for c := 0; c < wlen; c += step {
			addCut(c)
		}
		for i := 0; i+1 < wlen; i++ { // around every CRLF of the framing (and of the data)
			if wire[i] == '\r' && wire[i+1] == '\n' {
				addCut(i)
				addCut(i + 1)
				addCut(i + 2)
				addCut(i + 3)
			}
		}
		for c := wlen - 6; c < wlen; c++ {
			addCut(c)
		}
		for _, c := range cutsAt {
			key++
			path := fmt.Sprintf("/c12/t%d", key)
			cut := c
			var decl int64
			req := gw.Req{Method: "PUT", Path: path, Body: body, Auth: mode, Creds: cr, Chunks: c12Repeat(700, 8), Trailer: "crc32"}
			// two passes: the first learns how many payload bytes the cut body carries
			req.WireMut = func(w []byte) []byte { decl = c12DataBytesIn(w[:cut]); return w[:cut] }
			probe := req
			probe.Path = "/c12/probe2"
			gw.Do(g.Addr(), probe)
			d := decl
			req.DeclLen = &d
			put := gw.Do(g.Addr(), req)
			get := gw.Do(g.Addr(), gw.Req{Method: "GET", Path: path, Auth: "header", Creds: cr})
			res.Count(fmt.Sprintf("e2e-trunc|%s|%d", mode, cut), true, "e2e:truncated:"+mode)
			if put.Status < 400 && put.Err == nil || get.Status == 200 {
				res.Fail(lib.Failure{Kind: "property", Signature: "e2e:" + mode + ":truncated-upload-accepted",
					What:  fmt.Sprintf("chunked upload cut after %d of %d wire bytes (declared decoded length %d) answered %d; GET afterwards %d with %d bytes", cut, wlen, d, put.Status, get.Status, len(get.Body)),
					Input: map[string]interface{}{"e2e": true, "mode": mode, "cut": cut, "wire_len": wlen, "declared": d}, Impl: fmt.Sprint(put.Status)})
			}
		}
	}
	return nil
}

func c12Repeat(x, n int) []int {
	out := make([]int, n)
	for i := range out {
		out[i] = x
	}
	return out
}

// ------------------------------------------------------------------ differential tests of the Lean shims / hash instances / encoder

func c12Shims(a lib.Args, res *lib.Result) error {
	if a.ReplayInput() != nil {
		return nil
	}
	r := lib.NewRandStream(a.Seed, 1200)
	n := 300
	if a.Thorough() {
		n = 5000
	}
	var lines, want, what []string
	add := func(line, w, kind string) {
		lines = append(lines, line)
		want = append(want, w)
		what = append(what, kind)
	}
	lens := []int{0, 1, 2, 3, 31, 54, 55, 56, 57, 63, 64, 65, 119, 120, 128, 300}
	for i := 0; i < n; i++ {
		b := r.Bytes(lens[r.Intn(len(lens))] + r.Intn(3))
		k := r.Bytes([]int{0, 1, 32, 63, 64, 65, 100}[r.Intn(7)])
		h := sha256.Sum256(b)
		add("chunk sha256 "+lib.Hex(b), lib.Hex(h[:]), "sha256")
		m := hmac.New(sha256.New, k)
		m.Write(b)
		add("chunk hmac "+lib.Hex(k)+" "+lib.Hex(b), lib.Hex(m.Sum(nil)), "hmac")
		c := crc32.NewIEEE()
		c.Write(b)
		add("chunk crc32 "+lib.Hex(b), lib.Hex(c.Sum(nil)), "crc32")
		add("chunk b64 "+lib.Hex(b), lib.HexS(base64.StdEncoding.EncodeToString(b)), "b64")
		add("chunk hexenc "+lib.Hex(b), lib.HexS(hex.EncodeToString(b)), "hexenc")
		// base64 validity / decoded length on near-valid strings
		e := []byte(base64.StdEncoding.EncodeToString(r.Bytes(r.Intn(9))))
		for m := r.Intn(3); m > 0 && len(e) > 0; m-- {
			alpha := "=\r\nAz09+/-_ \x00"
			switch r.Intn(3) {
			case 0:
				e[r.Intn(len(e))] = alpha[r.Intn(len(alpha))]
			case 1:
				at := r.Intn(len(e) + 1)
				e = append(e[:at], append([]byte{alpha[r.Intn(len(alpha))]}, e[at:]...)...)
			default:
				at := r.Intn(len(e))
				e = append(e[:at], e[at+1:]...)
			}
		}
		w := "err"
		if d, err := base64.StdEncoding.DecodeString(string(e)); err == nil {
			w = strconv.Itoa(len(d))
		}
		add("chunk b64len "+lib.Hex(e), w, "b64len")
		// ParseInt(s, 16, 64) and TrimSpace on small alphabets
		alpha := "0123456789abcdefABCDEFg+-_x \t\r\n  \u0085\xc2\xa0\xe2\x80"
		t := make([]byte, r.Intn(6))
		for i := range t {
			t[i] = alpha[r.Intn(len(alpha))]
		}
		if r.Chance(10) {
			t = []byte(pick(r, "7fffffffffffffff", "8000000000000000", "-8000000000000000", "-8000000000000001", "ffffffffffffffffff", "0000000000000000000001"))
		}
		w = "err"
		if v, err := strconv.ParseInt(string(t), 16, 64); err == nil {
			w = strconv.FormatInt(v, 10)
		}
		add("chunk parsehex "+lib.Hex(t), w, "parsehex")
		add("chunk trim "+lib.Hex(t), lib.HexS(strings.TrimSpace(string(t))), "trim")
		// the Spec's encoder against the harness encoders (which the readers accept)
		v := c12Variants[r.Intn(3)]
		algo := pick(r, "crc32", "sha256")
		p := r.Bytes(r.Intn(40))
		sizes := c12Chunkings(r, len(p))
		s := c12Stream{Variant: v, Algo: algo}
		add("chunk encode "+s.ctx()+" "+lib.Hex(p)+" "+c12Ints(sizes), lib.Hex(c12Encode(v, algo, p, sizes)), "encode")
	}
	out, err := a.Driver.AskParallel(lines, 8)
	if err != nil {
		return err
	}
	for i := range lines {
		res.Count(lines[i], true, "shim:"+what[i])
		if out[i] != want[i] {
			res.Fail(lib.Failure{Kind: "correspondence", Signature: "shim:" + what[i], What: "Lean shim / hash instance / encoder differs from Go",
				Input: map[string]interface{}{"line": lines[i]}, Impl: want[i], Model: out[i]})
		}
	}
	return nil
}
