package main

// C17, ownership stage: "a new account works at once with all its attributes (… user and group
// id)", observed as the owner of what the account creates under `posix --chuid --chgid`.
//
// Oracle (independent of the gateway's own identity): with --chuid and --chgid every file-system
// object an authenticated account creates — bucket directory, parent directories of a nested key,
// object file, multipart part file, completed multipart object — is owned by
// (account.UserID, account.GroupID).  The account is the one the model's lookup answers at that
// request (created with these ids, or moved to them by update-user).
//
// The gateway child runs once as the harness itself (root:root) and once as uid 0 with a primary
// group that differs from its uid (0:5): a "does it need a chown" test that compares with the wrong
// one of the gateway's ids only shows there.

import (
	"encoding/json"
	"fmt"
	"os"
	"path/filepath"
	"regexp"
	"strconv"
	"strings"
	"syscall"

	"verif/harness/gw"
	"verif/harness/lib"
)

type c17OwnCase struct {
	Stage   string  `json:"stage"` // "e2e-own"
	GwUID   uint32  `json:"gw_uid"`
	GwGID   uint32  `json:"gw_gid"`
	Acct    c17Acct `json:"acct"`
	Updated bool    `json:"via_update"` // created with other ids, moved to these by update-user
}

var c17OwnIDs = [][2]int{{0, 0}, {0, 5}, {5, 0}, {5, 5}, {1001, 1001}, {1001, 0}}

func c17StatOwner(path string) string {
	st, err := os.Lstat(path)
	if err != nil {
		return "err:stat:" + filepath.Base(path)
	}
	sys := st.Sys().(*syscall.Stat_t)
	return fmt.Sprintf("owner:%d:%d", sys.Uid, sys.Gid)
}

var c17UploadIDRe = regexp.MustCompile(`<UploadId>([^<]+)</UploadId>`)

// c17OwnObserve lets the account create one of everything and returns (what, owner) pairs; every
// request is one lookup of the account.
func c17OwnObserve(e *c17Env, acc c17Acct, n int) (obs [][2]string, requests int, err error) {
	cr := gw.Creds{Access: acc.Access, Secret: acc.Secret}
	bkt := fmt.Sprintf("own%d", n)
	root := e.cfg.Root
	do := func(r gw.Req) (gw.Resp, error) {
		r.Auth, r.Creds = "header", cr
		rsp := gw.Do(e.g.Addr(), r)
		requests++
		if rsp.Err != nil || rsp.Status < 200 || rsp.Status > 299 {
			return rsp, fmt.Errorf("%s %s?%s as %s: %d %s %v", r.Method, r.Path, r.Query, acc.Access, rsp.Status, rsp.ErrCode(), rsp.Err)
		}
		return rsp, nil
	}
	if _, err = do(gw.Req{Method: "PUT", Path: "/" + bkt}); err != nil {
		return
	}
	obs = append(obs, [2]string{"bucket-directory", c17StatOwner(filepath.Join(root, bkt))})
	if _, err = do(gw.Req{Method: "PUT", Path: "/" + bkt + "/d1/d2/obj", Body: []byte("payload")}); err != nil {
		return
	}
	obs = append(obs, [2]string{"parent-directory", c17StatOwner(filepath.Join(root, bkt, "d1"))},
		[2]string{"nested-parent-directory", c17StatOwner(filepath.Join(root, bkt, "d1", "d2"))},
		[2]string{"object-file", c17StatOwner(filepath.Join(root, bkt, "d1", "d2", "obj"))})
	rsp, e1 := do(gw.Req{Method: "POST", Path: "/" + bkt + "/m1/mpobj", Query: "uploads="})
	if e1 != nil {
		return obs, requests, e1
	}
	m := c17UploadIDRe.FindSubmatch(rsp.Body)
	if m == nil {
		return obs, requests, fmt.Errorf("no UploadId in %s", rsp.Body)
	}
	id := string(m[1])
	rsp, e1 = do(gw.Req{Method: "PUT", Path: "/" + bkt + "/m1/mpobj", Query: "partNumber=1&uploadId=" + id, Body: []byte("part-one")})
	if e1 != nil {
		return obs, requests, e1
	}
	etag := rsp.Headers.Get("ETag")
	// the part file: <bucket>/.sgwtmp/multipart/<hash of key>/<upload id>/1
	part := ""
	filepath.Walk(filepath.Join(root, bkt, ".sgwtmp", "multipart"), func(p string, info os.FileInfo, err error) error {
		if err == nil && !info.IsDir() && filepath.Base(p) == "1" && strings.Contains(p, id) {
			part = p
		}
		return nil
	})
	if part == "" {
		obs = append(obs, [2]string{"multipart-part-file", "err:not-found"})
	} else {
		obs = append(obs, [2]string{"multipart-part-file", c17StatOwner(part)})
	}
	body := "<CompleteMultipartUpload><Part><PartNumber>1</PartNumber><ETag>" + etag + "</ETag></Part></CompleteMultipartUpload>"
	if _, err = do(gw.Req{Method: "POST", Path: "/" + bkt + "/m1/mpobj", Query: "uploadId=" + id, Body: []byte(body)}); err != nil {
		return
	}
	obs = append(obs, [2]string{"multipart-parent-directory", c17StatOwner(filepath.Join(root, bkt, "m1"))},
		[2]string{"multipart-completed-object", c17StatOwner(filepath.Join(root, bkt, "m1", "mpobj"))})
	return obs, requests, nil
}

func c17RunOwn(a lib.Args, res *lib.Result, v c17Variant, cs c17OwnCase, idx int) error {
	mode := c17Mode{Cache: true}
	name := "c17-own-" + strconv.Itoa(idx)
	var e *c17Env
	err := c17Retry(func() error {
		os.RemoveAll(filepath.Join(a.Work, name))
		var err error
		e, err = c17StartGwCred(a, name, mode, cs.GwUID, cs.GwGID)
		return err
	})
	if err != nil {
		return err
	}
	defer e.close()
	acc := cs.Acct
	script := []string{fmt.Sprintf("iam reset %s 1000000 0 %s -", v.bits(true), c17Root.enc())}
	var recs []c17Rec
	clock := 0
	admin := func(o c17Op) string {
		x := e.admin(o)
		script = append(script, "iam call "+o.enc())
		recs = append(recs, c17Rec{clock, clock + 1, o, x, len(script) - 1})
		clock += 2
		return x
	}
	var adminObs []string
	if cs.Updated {
		first := acc
		first.UID, first.GID = 7, 7
		adminObs = append(adminObs, admin(c17Op{Kind: "create", Acct: &first}))
		// a lookup in between, so that the change has something cached to get past
		e.authProbe(acc.Access, acc.Secret)
		script = append(script, "iam call get="+lib.HexS(acc.Access))
		adminObs = append(adminObs, admin(c17Op{Kind: "update", Key: acc.Access, UID: &acc.UID, GID: &acc.GID}))
	} else {
		adminObs = append(adminObs, admin(c17Op{Kind: "create", Acct: &acc}))
	}
	for _, x := range adminObs {
		if x != "ok" {
			return fmt.Errorf("ownership stage: admin call answered %s\n%s", x, e.g.Log.String())
		}
	}
	obs, nreq, err := c17OwnObserve(e, acc, idx)
	canon, _ := json.Marshal(cs)
	cls := fmt.Sprintf("e2e-own:gateway-%d:%d", cs.GwUID, cs.GwGID)
	res.Count(string(canon), true, cls, fmt.Sprintf("e2e-own:account-%d:%d", acc.UID, acc.GID))
	if cs.Updated {
		res.Histogram["e2e-own:ids-set-by-update-user"]++
	}
	res.Histogram["e2e-own:requests"] += nreq
	if err != nil {
		res.Fail(lib.Failure{Kind: "property", Signature: "iam:owner:request-refused", What: "ownership stage: a request of a freshly created userplus account failed: " + err.Error(), Input: cs})
		return nil
	}
	// the model's account at these requests
	script = append(script, "iam call get="+lib.HexS(acc.Access))
	out, err := a.Driver.Ask(script)
	if err != nil {
		return err
	}
	want := c17Expect(out[len(out)-1], "owner", acc.Secret, false)
	spec := fmt.Sprintf("owner:%d:%d", acc.UID, acc.GID)
	for _, o := range obs {
		res.Histogram["e2e-own:checked:"+o[0]]++
		if o[1] != spec {
			res.Fail(lib.Failure{Kind: "property", Signature: "iam:owner:" + o[0] + ":not-the-accounts-ids",
				What:  fmt.Sprintf("gateway running as %d:%d with --chuid --chgid; account %s has uid %d gid %d (%s): its %s is %s", cs.GwUID, cs.GwGID, acc.Access, acc.UID, acc.GID, map[bool]string{true: "set by update-user", false: "as created"}[cs.Updated], o[0], o[1]),
				Input: cs, Impl: o[1], Model: want})
		} else if o[1] != want {
			res.Fail(lib.Failure{Kind: "correspondence", Signature: "iam:e2e-own:" + o[0], What: "the model's account implies another owner", Input: cs, Impl: o[1], Model: want})
		}
	}
	return nil
}

func c17StartGwCred(a lib.Args, name string, mode c17Mode, uid, gid uint32) (*c17Env, error) {
	cfg, err := mustStorage(a, name, false, false, func(c *gw.Config) {
		c.Access, c.Secret = c17Root.Access, c17Root.Secret
	})
	if err != nil {
		return nil, err
	}
	cfg.IAMCacheTTL = 3600
	cfg.BackendArgs = []string{"posix", "--chuid", "--chgid", cfg.Root}
	var g *gw.Gateway
	if uid == uint32(os.Geteuid()) && gid == uint32(os.Getegid()) {
		g, err = gw.Start(cfg)
	} else {
		g, err = gw.StartCred(cfg, uid, gid)
	}
	if err != nil {
		return nil, err
	}
	return &c17Env{cfg: cfg, g: g, root: gw.Creds{Access: cfg.Access, Secret: cfg.Secret}}, nil
}

// c17E2EOwn: every (uid, gid) pair, as created and as set by update-user, against both gateway
// identities (quick: all 6 pairs × 2 identities, the update path on half of them).
func c17E2EOwn(a lib.Args, res *lib.Result, v c17Variant) error {
	var cases []c17OwnCase
	if in := a.ReplayInput(); in != nil {
		b, _ := json.Marshal(in)
		var cs c17OwnCase
		if err := json.Unmarshal(b, &cs); err != nil {
			return err
		}
		cases = []c17OwnCase{cs}
	} else {
		roles := []string{"userplus", "admin"}
		n := 0
		for _, gid := range []uint32{0, 5} {
			for i, ids := range c17OwnIDs {
				for _, upd := range []bool{false, true} {
					if !a.Thorough() && upd != ((i+int(gid))%2 == 0) && !(ids[0] == 0 && ids[1] == 0) {
						continue // quick: one of the two paths per pair (both for 0/0)
					}
					n++
					cases = append(cases, c17OwnCase{Stage: "e2e-own", GwUID: 0, GwGID: gid, Updated: upd,
						Acct: c17Acct{fmt.Sprintf("own%d", n), "s1", roles[n%2], ids[0], ids[1]}})
				}
			}
		}
	}
	for i, cs := range cases {
		if err := c17RunOwn(a, res, v, cs, i); err != nil {
			return err
		}
	}
	return nil
}
