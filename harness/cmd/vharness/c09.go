package main

import (
	"strings"

	"verif/harness/lib"
	"verif/harness/prog"
)

// vids known so far per key, read from the implementation's answers
func c09KnownVids(hist []*prog.Step) map[string][]string {
	m := map[string][]string{}
	add := func(k, v string) {
		if v == "" {
			return
		}
		for _, x := range m[k] {
			if x == v {
				return
			}
		}
		m[k] = append(m[k], v)
	}
	for _, s := range hist {
		switch s.Op.Kind {
		case "putObject", "copyObject", "deleteObject":
			add(s.Op.K, s.Obs.NewVid)
		case "deleteObjects":
			i := 0
			for _, kv := range s.Op.Keys {
				if i < len(s.Obs.NewVids) && kv[1] == "" {
					add(kv[0], s.Obs.NewVids[i])
					i++
				}
			}
		}
	}
	return m
}

func c09Next(g *prog.Gen, idx int, hist []*prog.Step) *prog.Op {
	b := "bkt-v"
	keys := []string{"k1", "dir/k2", "obj.txt"}
	n := len(hist)
	total := 12 + (idx % 25)
	// prelude: bucket, optionally objects that predate versioning, then enable
	pre := idx%3 != 0
	switch {
	case n == 0:
		return &prog.Op{Kind: "createBucket", Caller: "root", B: b, Valid: true}
	case n == 1 && pre:
		return &prog.Op{Kind: "putObject", Caller: "root", B: b, K: keys[0], Put: g.PutSpec(), Valid: true}
	case n == 2 && pre:
		return &prog.Op{Kind: "putObject", Caller: "root", B: b, K: keys[1], Put: g.PutSpec(), Valid: true}
	case (n == 1 && !pre) || (n == 3 && pre):
		return &prog.Op{Kind: "putVersioning", Caller: "root", B: b, On: true}
	}
	// every other program ends its random part with a fixed epilogue on one key: a null version, then a delete
	// marker, then a new version, then the deletion of that new version by id — issued back to back, so that
	// the archive copies are made within the same clock tick; the marker must be the one re-exposed
	if idx%4 == 3 && n >= total && n < total+6 {
		// second epilogue: a version with an id, then the null version (written while Suspended), then a new
		// version, deleted by id: the null version — newer than the id version — must be re-exposed
		k := keys[0]
		switch n - total {
		case 0:
			return &prog.Op{Kind: "putVersioning", Caller: "root", B: b, On: true}
		case 1:
			return &prog.Op{Kind: "putObject", Caller: "root", B: b, K: k, Put: g.PutSpec(), Valid: true}
		case 2:
			return &prog.Op{Kind: "putVersioning", Caller: "root", B: b, On: false}
		case 3:
			return &prog.Op{Kind: "putObject", Caller: "root", B: b, K: k, Put: &prog.PutSpec{Data: []prog.Seg{{Seed: 7800 + idx, Off: 0, Len: 9}}}, Valid: true}
		case 4:
			return &prog.Op{Kind: "putVersioning", Caller: "root", B: b, On: true}
		case 5:
			return &prog.Op{Kind: "putObject", Caller: "root", B: b, K: k, Put: &prog.PutSpec{Data: []prog.Seg{{Seed: 7900 + idx, Off: 0, Len: 4}}}, Valid: true}
		}
	}
	if idx%4 == 3 && n == total+6 {
		if vs := c09KnownVids(hist)[keys[0]]; len(vs) > 0 {
			return &prog.Op{Kind: "deleteObject", Caller: "root", B: b, K: keys[0], Vid: vs[len(vs)-1]}
		}
		return &prog.Op{Kind: "getObject", Caller: "root", B: b, K: keys[0]}
	}
	if idx%4 == 3 {
		total += 7
	}
	if idx%4 == 1 && n >= total && n < total+6 {
		k := keys[0]
		switch n - total {
		case 0:
			return &prog.Op{Kind: "putVersioning", Caller: "root", B: b, On: false}
		case 1:
			return &prog.Op{Kind: "putObject", Caller: "root", B: b, K: k, Put: g.PutSpec(), Valid: true}
		case 2:
			return &prog.Op{Kind: "putVersioning", Caller: "root", B: b, On: true}
		case 3:
			return &prog.Op{Kind: "deleteObject", Caller: "root", B: b, K: k}
		case 4:
			return &prog.Op{Kind: "putObject", Caller: "root", B: b, K: k, Put: &prog.PutSpec{Data: []prog.Seg{{Seed: 7700 + idx, Off: 0, Len: 5}}}, Valid: true}
		case 5:
			vs := c09KnownVids(hist)[k]
			if len(vs) == 0 {
				return &prog.Op{Kind: "listVersions", Caller: "root", B: b}
			}
			return &prog.Op{Kind: "deleteObject", Caller: "root", B: b, K: k, Vid: vs[len(vs)-1]}
		}
	}
	if idx%4 == 1 {
		total += 6
	}
	if n >= total {
		if n == total {
			return &prog.Op{Kind: "listVersions", Caller: "root", B: b}
		}
		// final: read every known version of every key
		vids := c09KnownVids(hist)
		var all [][2]string
		for _, k := range keys {
			all = append(all, [2]string{k, ""})
			for _, v := range vids[k] {
				all = append(all, [2]string{k, v})
			}
			all = append(all, [2]string{k, "null"})
		}
		i := n - total - 1
		if i >= len(all) {
			return nil
		}
		return &prog.Op{Kind: "getObject", Caller: "root", B: b, K: all[i][0], Vid: all[i][1]}
	}
	// every other program concentrates on one key, toggles Enabled/Suspended often and prefers the newest
	// version id: histories in which null versions and id versions alternate, and the latest is deleted by id
	focus := idx%2 == 1
	if focus {
		keys = keys[:1]
	}
	k := keys[g.R.Intn(len(keys))]
	vids := c09KnownVids(hist)[k]
	if focus && g.R.Chance(22) {
		return &prog.Op{Kind: "putVersioning", Caller: "root", B: b, On: g.R.Chance(50)}
	}
	pickVid := func() string {
		r := g.R.Intn(10)
		switch {
		case focus && len(vids) > 0 && r < 4:
			return vids[len(vids)-1]
		case len(vids) > 0 && r < 7:
			return vids[g.R.Intn(len(vids))]
		case r < 8:
			return "null"
		case r < 9:
			return "01ARZ3NDEKTSV4RRFFQ69G5FAV" // a well-formed id that was never issued
		}
		return ""
	}
	caller := []string{"root", "u:adm1"}[g.R.Intn(2)]
	switch r := g.R.Intn(100); {
	case r < 28:
		return &prog.Op{Kind: "putObject", Caller: caller, B: b, K: k, Put: g.PutSpec(), Valid: true}
	case r < 34:
		o := &prog.Op{Kind: "copyObject", Caller: caller, SB: b, SK: keys[g.R.Intn(len(keys))], B: b, K: k, Valid: true}
		if g.R.Chance(40) {
			if vs := c09KnownVids(hist)[o.SK]; len(vs) > 0 {
				o.SVid = vs[g.R.Intn(len(vs))]
			}
		} else if g.R.Chance(25) {
			o.SVid = "null" // the null version, whether it is the current one or archived
		}
		return o
	case r < 46:
		return &prog.Op{Kind: "deleteObject", Caller: caller, B: b, K: k}
	case r < 62:
		return &prog.Op{Kind: "deleteObject", Caller: caller, B: b, K: k, Vid: pickVid()}
	case r < 66:
		o := &prog.Op{Kind: "deleteObjects", Caller: caller, B: b}
		for i := 1 + g.R.Intn(3); i > 0; i-- {
			kk := keys[g.R.Intn(len(keys))]
			v := ""
			if vs := c09KnownVids(hist)[kk]; len(vs) > 0 && g.R.Chance(50) {
				v = vs[g.R.Intn(len(vs))]
			}
			o.Keys = append(o.Keys, [2]string{kk, v})
		}
		return o
	case r < 76:
		return &prog.Op{Kind: "getObject", Caller: caller, B: b, K: k, Vid: pickVid()}
	case r < 82:
		return &prog.Op{Kind: "headObject", Caller: caller, B: b, K: k, Vid: pickVid()}
	case r < 86:
		return &prog.Op{Kind: "getObject", Caller: caller, B: b, K: k}
	case r < 92:
		// half of the listings are read page by page (max-keys 1…3): the pages together must be the listing
		lo := &prog.Op{Kind: "listVersions", Caller: caller, B: b, Max: []int{0, 0, 1, 2, 3}[g.R.Intn(5)]}
		if lo.Max > 0 && g.R.Chance(45) {
			lo.Prefix = "/" // paged level by level with delimiter "/"
		}
		return lo
	case r < 96:
		return &prog.Op{Kind: "putVersioning", Caller: "root", B: b, On: g.R.Chance(60)}
	case r < 98:
		return &prog.Op{Kind: "getVersioning", Caller: "root", B: b}
	default:
		return &prog.Op{Kind: "putObjectTagging", Caller: caller, B: b, K: k, Tags: g.KVs([]string{"t1", "t2"}, 2)}
	}
}

func c09Classify(s *prog.Step, class string) (string, string) {
	if class == "fine" {
		return "correspondence", s.Op.Kind + ":error-code"
	}
	v := ""
	if s.Op.Vid != "" {
		v = "-by-version"
	}
	return "property", "versions:" + s.Op.Kind + v + ":" + class
}

func init() {
	fam := func(name string, sidecar, noOTmp bool, off int64, q, t int) checkFn {
		return func(a lib.Args, res *lib.Result) error {
			cls := c09Classify
			if sidecar {
				cls = func(s *prog.Step, class string) (string, string) {
					k, sig := c09Classify(s, class)
					return k, "sidecar:" + sig
				}
			}
			return runPrograms(a, res, progOpts{name: name, prop: "C09", programs: tierN(a, q, t), next: c09Next, versioning: true,
				sidecar: sidecar, noOTmp: noOTmp, nGateways: 2, classify: cls, seedOff: off})
		}
	}
	checks["c09"] = checkDef{"C09",
		"adaptive programs on a versioned bucket (two thirds with objects that predate enabling): put / copy (incl. from a version) / delete / delete-by-version / batch delete / get- and head-by-version (issued ids, `null`, a never-issued id) / list-versions / enable-suspend / tagging, then ListObjectVersions and a GET of every id ever issued; version ids are read from the implementation's answers and handed to the model. Compared with Model.Gw.step (per-key version stacks). Non-trivial = program reaches the bucket; distinct by op list.",
		[]checkFn{fam("versions-xattr", false, false, 901, 240, 6000), fam("versions-namedtmp", false, true, 902, 60, 2000), fam("versions-sidecar", true, false, 905, 16, 300),
			// multipart completions replace current versions too: the programs of C08's versioned family, judged here
			func(a lib.Args, res *lib.Result) error {
				return runPrograms(a, res, progOpts{name: "versions-multipart", prop: "C09", programs: tierN(a, 40, 1200), next: c08Next(true), versioning: true,
					nGateways: 2, classify: c09Classify, seedOff: 903})
			}}}
	_ = strings.Join
}
