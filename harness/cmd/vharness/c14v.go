package main

// C14, validation part: ValidatePolicyDocument / BucketPolicy.Validate / Action.IsValid /
// Action.IsObjectAction / Resources.Add against Model.Policy and the verdict of Spec.Policy.

import (
	"encoding/json"
	"errors"
	"fmt"
	"sort"
	"strings"

	"github.com/versity/versitygw/auth"
	"github.com/versity/versitygw/s3err"
	"verif/harness/lib"
)

const c14Runs = 20 // validations per document (Go randomises map iteration per range statement)

func c14ErrName(err error) string {
	if err == nil {
		return "ok"
	}
	d := err.Error()
	var ae s3err.APIError
	if errors.As(err, &ae) {
		d = ae.Description
	}
	switch {
	case strings.HasPrefix(d, "Action does not apply"):
		return "resourceMismatch"
	case d == "Policy has invalid resource":
		return "invalidResource"
	case d == "Invalid principal in policy":
		return "invalidPrincipal"
	case d == "Policy has invalid action":
		return "invalidAction"
	case d == "This policy contains invalid Json", strings.HasPrefix(d, "Policies must be valid JSON"):
		return "invalidJson"
	case strings.HasPrefix(d, "Could not parse the policy: Statement is empty"):
		return "emptyStatement"
	case d == "Missing required field Statement":
		return "missingStatement"
	case d == "Missing required field Principal":
		return "missingPrincipal"
	case d == "Missing required field Action":
		return "missingAction"
	case d == "Missing required field Resource":
		return "missingResource"
	case strings.HasPrefix(d, "Invalid effect:"):
		return "invalidEffect"
	}
	return "other:" + d
}

// ------------------------------------------------------------------ document generator

type c14GenDoc struct {
	doc     c14Doc
	bucket  string
	class   string // histogram class = injected fault (or "valid" / "grey:…")
	nfaults int
	judge   bool // false: below the level of RawDoc (duplicate members, key case, leading blanks) — correspondence only
}

func c14ObjectRes(r *lib.Rand, b string) string {
	return c14Arn + b + "/" + pick(r, "*", "*", "a*", "x/?", "", "k", c14RandWord(r, "ab*?/", 3))
}

func c14ValidStmt(r *lib.Rand, b string, accts []string) c14RawStmt {
	var pr c14Field
	if r.Chance(50) {
		pr = c14Field{Kind: "s", S: "*"}
		if r.Chance(20) {
			pr = c14Field{Kind: "a", L: []string{"*"}}
		}
		if r.Chance(5) {
			pr = c14Field{Kind: "a", L: []string{"*", "*"}}
		}
	} else {
		pr = c14Shape(r, c14MemberList(r, func() string { return r.Pick(accts) }))
	}
	pr.AWS = r.Chance(30)
	acts := c14MemberList(r, func() string { return c14ValidAction(r) })
	var rs []string
	switch k := r.Intn(10); {
	case k < 6: // both kinds
		rs = []string{c14Arn + b, c14ObjectRes(r, b)}
		if r.Bool() {
			rs[0], rs[1] = rs[1], rs[0]
		}
		if r.Chance(20) {
			rs = append(rs, c14ObjectRes(r, b))
		}
	case k < 8:
		rs = []string{c14ObjectRes(r, b)}
	default:
		rs = []string{c14Arn + b}
	}
	st := c14RawStmt{Effect: c14Field{Kind: "s", S: pick(r, "Allow", "Deny")}, Principal: pr, Action: c14Shape(r, acts), Resource: c14Shape(r, rs)}
	if r.Chance(10) {
		st.Extra = pick(r, `"Sid":"s1"`, `"Condition":{"StringEquals":{"s3:prefix":"x"}}`)
	}
	return st
}

var c14BadValues = []string{"5", "true", "{}", "[1]", `[["x"]]`, `["s3:GetObject",5]`, "1.5e3"}

var c14Buckets = []string{"bucket", "bucket", "b", "my-bucket"}

func c14Gen(r *lib.Rand, buckets, accts []string) c14GenDoc {
	b := r.Pick(buckets)
	g := c14GenDoc{bucket: b, class: "valid", judge: true}
	d := c14Doc{Kind: "d"}
	ns := 1 + r.Intn(4)
	for i := 0; i < ns; i++ {
		d.Stmts = append(d.Stmts, c14ValidStmt(r, b, accts))
	}
	if r.Chance(25) {
		d.Extra = pick(r, `"Version":"2012-10-17",`, `"Id":"p1",`)
	}
	if r.Chance(35) {
		g.doc = d
		return g
	}
	g.nfaults = 1
	i := r.Intn(ns)
	st := &d.Stmts[i]
	switch k := r.Intn(20); k {
	case 0:
		g.class = "fault:effect"
		st.Effect = c14Field{Kind: "s", S: pick(r, "allow", "ALLOW", "", "Permit", "Allow ", "deny")}
		if r.Chance(20) {
			st.Effect = c14Field{Kind: "m"}
		} else if r.Chance(10) {
			st.Effect = c14Field{Kind: "b", BadText: pick(r, "5", "true", `["Allow"]`, "{}")}
		}
	case 1:
		g.class = "fault:principal"
		switch r.Intn(6) {
		case 0:
			st.Principal = c14Field{Kind: "s", S: pick(r, "mallory", "", "alice*", "Alice")}
			if st.Principal.S == "" && r.Bool() {
				st.Principal.Raw = "{}" // an object without AWS decodes like the empty string
			}
		case 1:
			st.Principal = c14Field{Kind: "a", L: []string{"*", "alice"}}
		case 2:
			st.Principal = c14Field{Kind: "a", L: []string{"alice", "mallory"}}
		case 3:
			st.Principal = c14Field{Kind: "a", Null: r.Bool()}
		case 4:
			st.Principal = c14Field{Kind: "a", L: []string{"alice", ""}}
		default:
			st.Principal = c14Field{Kind: "b", BadText: pick(r, "5", "true", "[1]", `{"AWS":5}`, `{"AWS":[1]}`)}
		}
		if st.Principal.Kind != "b" {
			st.Principal.AWS = r.Chance(30)
		}
	case 2, 3:
		g.class = "fault:action"
		switch r.Intn(5) {
		case 0:
			st.Action = c14Field{Kind: "s", S: pick(r, "", "s3:", "s3", "*", "s3*", "GetObject", "s3:getobject", "S3:GetObject", "s3:Foo", "s3:Foo*", "s3:GetObjectX", "s3:GetObject**", "ec2:*", "s3:GetObject ")}
		case 1:
			st.Action = c14Field{Kind: "a", L: []string{"s3:GetObject", pick(r, "", "s3:Nope", "s3:PutObjekt", "s3:Zz*")}}
		case 2:
			st.Action = c14Field{Kind: "a", Null: r.Bool()}
		case 3:
			for {
				a := c14AnyAction(r)
				if auth.Action(a).IsValid() != nil {
					st.Action = c14Field{Kind: "s", S: a}
					break
				}
			}
		default:
			st.Action = c14Field{Kind: "b", BadText: r.Pick(c14BadValues)}
		}
	case 4, 5:
		g.class = "fault:resource-outside"
		bad := pick(r, c14Arn+"other/*", c14Arn+"*", c14Arn+b[:len(b)-1], c14Arn+b[:len(b)-1]+"/*", c14Arn, c14Arn+"/"+b, b+"/*", "arn:aws:s3::"+b, "arn:aws:s3:::"+"x"+b+"/*", "", "*", c14Arn+"?"+b[1:]+"/*", c14Arn+"*/"+"k")
		if r.Bool() {
			st.Resource = c14Field{Kind: "s", S: bad}
		} else {
			st.Resource = c14Field{Kind: "a", L: []string{c14Arn + b, c14ObjectRes(r, b), bad}}
		}
		if r.Chance(10) {
			st.Resource = c14Field{Kind: "a", Null: r.Bool()}
		} else if r.Chance(10) {
			st.Resource = c14Field{Kind: "b", BadText: r.Pick(c14BadValues)}
		}
	case 6, 7:
		g.class = "fault:resource-prefix-of-other-bucket"
		bad := c14Arn + b + pick(r, "2/*", "2", "*", "-x/*", "?/k", "*/*", "2/k")
		st.Resource = c14Field{Kind: "a", L: []string{c14Arn + b, c14ObjectRes(r, b), bad}}
		if r.Bool() {
			st.Resource.L = []string{bad, c14Arn + b, c14ObjectRes(r, b)}
		}
	case 8, 9:
		g.class = "fault:kind-mismatch"
		if r.Bool() {
			st.Action = c14Shape(r, []string{pick(r, "s3:GetObject", "s3:PutObject", "s3:DeleteObject", "s3:GetObject*", "s3:AbortMultipartUpload")})
			st.Resource = c14Shape(r, []string{c14Arn + b})
		} else {
			st.Action = c14Shape(r, []string{pick(r, "s3:ListBucket", "s3:GetBucketAcl", "s3:PutBucketPolicy", "s3:ListBucket*", "s3:DeleteBucket")})
			st.Resource = c14Shape(r, []string{c14ObjectRes(r, b)})
		}
	case 10, 11:
		g.class = "fault:s3star-plus-mismatch"
		if r.Bool() {
			st.Action = c14Field{Kind: "a", L: []string{"s3:*", pick(r, "s3:GetObject", "s3:PutObject", "s3:Get*")}}
			st.Resource = c14Shape(r, []string{c14Arn + b})
		} else {
			st.Action = c14Field{Kind: "a", L: []string{pick(r, "s3:ListBucket", "s3:GetBucketAcl"), "s3:*"}}
			st.Resource = c14Shape(r, []string{c14ObjectRes(r, b)})
		}
		if r.Chance(30) {
			st.Action.L = append(st.Action.L, c14ValidAction(r))
		}
	case 12, 13:
		g.class = "fault:missing-field"
		switch r.Intn(4) {
		case 0:
			st.Principal = c14Field{Kind: "m"}
		case 1:
			st.Action = c14Field{Kind: "m"}
		case 2:
			st.Resource = c14Field{Kind: "m"}
			if r.Bool() {
				st.Action = c14Field{Kind: "s", S: "s3:*"}
			}
		default:
			st.Principal, st.Action, st.Resource = c14Field{Kind: "m"}, c14Field{Kind: "m"}, c14Field{Kind: "m"}
		}
	case 14:
		g.class = "fault:empty-statement-list"
		d.Stmts = nil
	case 15:
		g.class = "fault:no-statement"
		d = c14Doc{Kind: "nostmt", Text: pick(r, `{}`, `{"Statement":null}`, `{"Version":"2012-10-17"}`, `{"Statements":[]}`)}
	case 16, 17:
		g.class = "fault:bad-json"
		good := d.json()
		var t string
		switch r.Intn(9) {
		case 0:
			t = good[:r.Intn(len(good))]
		case 1:
			t = good + pick(r, "x", "}", "{}", ",")
		case 2:
			t = "[" + good + "]"
		case 3:
			t = pick(r, "", "null", `"x"`, "5", "{", "}", "<Policy/>", "\xef\xbb\xbf"+good)
		case 4:
			t = `{"Statement":` + pick(r, `{}`, `"x"`, `5`, `true`, `[5]`, `["x"]`, `[[]]`) + `}`
		case 5:
			t = strings.Replace(good, `"Statement"`, `Statement`, 1)
		case 6:
			t = strings.Replace(good, ":", "=", 1)
		case 7:
			t = strings.Replace(good, `"Effect"`, `"Effect":1,"Effect"`, 1) // dup with wrong type first (still a type error)
			if t == good {
				t = good[:len(good)-1]
			}
		default:
			t = strings.Replace(good, "]}", "],}", 1)
		}
		d = c14Doc{Kind: "badjson", Text: t}
	case 18:
		g.class = "grey:lenient-action"
		switch r.Intn(4) {
		case 0:
			st.Action = c14Shape(r, []string{pick(r, "s3:GetBucketObjectLockConfiguration", "s3:**", "s3:GetBucketObjectL*")})
			st.Resource = c14Field{Kind: "a", L: []string{c14Arn + b, c14ObjectRes(r, b)}}
		case 1: // wildcard covering both kinds, one kind of resource
			st.Action = c14Shape(r, []string{pick(r, "s3:Get*", "s3:Put*", "s3:G*", "s3:List*", "s3:Delete*")})
			st.Resource = c14Shape(r, []string{pick(r, c14Arn+b, c14ObjectRes(r, b))})
		case 2:
			st.Action = c14Shape(r, []string{"s3:**"})
			st.Resource = c14Shape(r, []string{c14Arn + b})
		default:
			st.Action = c14Shape(r, []string{"s3:GetBucketObjectLockConfiguration"})
			st.Resource = c14Shape(r, []string{c14ObjectRes(r, b)})
		}
		g.nfaults = 2 // do not compare error codes
	default:
		// below RawDoc: member-name case, duplicate members, leading blanks, shuffled member order
		g.judge = false
		g.nfaults = 2
		good := d.json()
		switch r.Intn(5) {
		case 0:
			g.class = "grey:member-case"
			d = c14Doc{Kind: "badjson", Text: strings.Replace(strings.Replace(good, `"Effect"`, `"effect"`, 1), `"Statement"`, pick(r, `"statement"`, `"STATEMENT"`), 1)}
		case 1:
			g.class = "grey:duplicate-member"
			d = c14Doc{Kind: "badjson", Text: strings.Replace(good, `"Action":`, `"Action":`+pick(r, `"s3:GetObject"`, `"s3:Nope"`, `[]`)+`,"Action":`, 1)}
		case 2:
			g.class = "grey:leading-blank"
			d = c14Doc{Kind: "badjson", Text: pick(r, " ", "\n", "\t") + good}
		case 3:
			g.class = "grey:duplicate-statement-member"
			d = c14Doc{Kind: "badjson", Text: `{"Statement":[],` + good[1:]}
		default:
			g.class = "shuffled-members"
			g.judge = true
			g.nfaults = 2
			for j := range d.Stmts {
				p := []int{0, 1, 2, 3}
				for x := 3; x > 0; x-- {
					y := r.Intn(x + 1)
					p[x], p[y] = p[y], p[x]
				}
				d.Stmts[j].Shuffle = p
			}
		}
	}
	g.doc = d
	return g
}

func (g c14GenDoc) members(f func(st c14RawStmt) c14Field) [][]string {
	var out [][]string
	for _, st := range g.doc.Stmts {
		fl := f(st)
		switch fl.Kind {
		case "s":
			out = append(out, []string{fl.S})
		case "a":
			out = append(out, fl.L)
		}
	}
	return out
}

func (g c14GenDoc) hasPrefixFault() bool {
	for _, l := range g.members(func(st c14RawStmt) c14Field { return st.Resource }) {
		for _, rc := range l {
			p := c14Arn + g.bucket
			if strings.HasPrefix(rc, p) && rc != p && !strings.HasPrefix(rc, p+"/") {
				return true
			}
		}
	}
	return false
}

func (g c14GenDoc) hasMissing() bool {
	for _, st := range g.doc.Stmts {
		if st.Principal.Kind == "m" || st.Action.Kind == "m" || st.Resource.Kind == "m" {
			return true
		}
	}
	return false
}

// ------------------------------------------------------------------ the check

type c14VCase struct {
	g        c14GenDoc
	text     string
	accepts  int
	refuses  int
	errNames map[string]int
	decoded  *auth.BucketPolicy
	post     map[string]int // outcomes of BucketPolicy.Validate on the decoded structure
}

func c14RunValidate(text, bucket string, iam auth.IAMService) (acc, ref int, names map[string]int) {
	names = map[string]int{}
	for i := 0; i < c14Runs; i++ {
		err := auth.ValidatePolicyDocument([]byte(text), bucket, iam)
		names[c14ErrName(err)]++
		if err == nil {
			acc++
		} else {
			ref++
		}
	}
	return
}

func c14PostValidate(bp *auth.BucketPolicy, bucket string, iam auth.IAMService) map[string]int {
	out := map[string]int{}
	for i := 0; i < c14Runs; i++ {
		func() {
			defer func() {
				if recover() != nil {
					out["panic"]++
				}
			}()
			out[c14ErrName(bp.Validate(bucket, iam))]++
		}()
	}
	return out
}

func keysOf(m map[string]int) []string {
	ks := make([]string, 0, len(m))
	for k := range m {
		ks = append(ks, k)
	}
	sort.Strings(ks)
	return ks
}

func c14GenFromReplay(in map[string]interface{}) (c14GenDoc, error) {
	b, _ := json.Marshal(in["gen"])
	var raw struct {
		Doc    c14Doc
		Bucket string
		Class  string
		NF     int
		Judge  bool
	}
	if err := json.Unmarshal(b, &raw); err != nil {
		return c14GenDoc{}, err
	}
	return c14GenDoc{raw.Doc, raw.Bucket, raw.Class, raw.NF, raw.Judge}, nil
}

func c14Corpus() []c14GenDoc {
	s := func(x string) c14Field { return c14Field{Kind: "s", S: x} }
	l := func(x ...string) c14Field { return c14Field{Kind: "a", L: x} }
	mk := func(class string, nf int, st ...c14RawStmt) c14GenDoc {
		return c14GenDoc{doc: c14Doc{Kind: "d", Stmts: st}, bucket: "bucket", class: class, nfaults: nf, judge: true}
	}
	ok := c14RawStmt{Effect: s("Allow"), Principal: s("*"), Action: s("s3:GetObject"), Resource: s(c14Arn + "bucket/*")}
	return []c14GenDoc{
		mk("corpus", 0, ok),
		mk("corpus", 1, c14RawStmt{Effect: s("Allow"), Principal: s("*"), Action: s("s3:GetObject"), Resource: s(c14Arn + "bucket2/*")}),
		mk("corpus", 1, c14RawStmt{Effect: s("Allow"), Principal: s("*"), Action: s("s3:ListBucket"), Resource: s(c14Arn + "bucket*")}),
		mk("corpus", 1, c14RawStmt{Effect: s("Allow"), Principal: s("*"), Action: l("s3:*", "s3:GetObject"), Resource: s(c14Arn + "bucket")}),
		mk("corpus", 1, c14RawStmt{Effect: s("Allow"), Principal: c14Field{Kind: "m"}, Action: c14Field{Kind: "m"}, Resource: c14Field{Kind: "m"}}),
		mk("corpus", 1, c14RawStmt{Effect: s("Allow"), Principal: s("*"), Action: s("s3:*"), Resource: c14Field{Kind: "m"}}),
		mk("corpus", 1, c14RawStmt{Effect: s("Allow"), Principal: s("*"), Action: s("s3:GetObject"), Resource: s(c14Arn + "bucket")}),
		mk("corpus", 1, c14RawStmt{Effect: s("Allow"), Principal: l("*", "alice"), Action: s("s3:GetObject"), Resource: s(c14Arn + "bucket/*")}),
		mk("corpus", 1, ok, c14RawStmt{Effect: s("allow"), Principal: s("*"), Action: s("s3:GetObject"), Resource: s(c14Arn + "bucket/*")}),
		mk("corpus", 1),
		// forms of an empty member: each is refused by the decode hooks before Validate sees an empty map
		mk("corpus:empty-forms", 1, c14RawStmt{Effect: s("Allow"), Principal: c14Field{Kind: "a"}, Action: s("s3:GetObject"), Resource: s(c14Arn + "bucket/*")}),                        // "Principal": []
		mk("corpus:empty-forms", 1, c14RawStmt{Effect: s("Allow"), Principal: c14Field{Kind: "a", Null: true}, Action: s("s3:GetObject"), Resource: s(c14Arn + "bucket/*")}),            // "Principal": null
		mk("corpus:empty-forms", 1, c14RawStmt{Effect: s("Allow"), Principal: c14Field{Kind: "s", Raw: "{}"}, Action: s("s3:GetObject"), Resource: s(c14Arn + "bucket/*")}),             // "Principal": {}
		mk("corpus:empty-forms", 1, c14RawStmt{Effect: s("Allow"), Principal: c14Field{Kind: "a", AWS: true}, Action: s("s3:GetObject"), Resource: s(c14Arn + "bucket/*")}),             // {"AWS": []}
		mk("corpus:empty-forms", 1, c14RawStmt{Effect: s("Allow"), Principal: c14Field{Kind: "a", AWS: true, Null: true}, Action: s("s3:GetObject"), Resource: s(c14Arn + "bucket/*")}), // {"AWS": null}
		mk("corpus:empty-forms", 1, c14RawStmt{Effect: s("Allow"), Principal: c14Field{Kind: "s", AWS: true}, Action: s("s3:GetObject"), Resource: s(c14Arn + "bucket/*")}),             // {"AWS": ""}
		mk("corpus:empty-forms", 1, c14RawStmt{Effect: s("Allow"), Principal: s(""), Action: s("s3:GetObject"), Resource: s(c14Arn + "bucket/*")}),                                      // "Principal": ""
		mk("corpus:empty-forms", 1, c14RawStmt{Effect: s("Allow"), Principal: s("*"), Action: s(""), Resource: s(c14Arn + "bucket/*")}),                                                 // "Action": ""
		mk("corpus:empty-forms", 1, c14RawStmt{Effect: s("Allow"), Principal: s("*"), Action: c14Field{Kind: "a"}, Resource: s(c14Arn + "bucket/*")}),                                   // "Action": []
		mk("corpus:empty-forms", 1, c14RawStmt{Effect: s("Allow"), Principal: s("*"), Action: c14Field{Kind: "a", Null: true}, Resource: s(c14Arn + "bucket/*")}),                       // "Action": null
		mk("corpus:empty-forms", 1, c14RawStmt{Effect: s("Allow"), Principal: s("*"), Action: s("s3:GetObject"), Resource: c14Field{Kind: "a"}}),                                        // "Resource": []
		mk("corpus:empty-forms", 1, c14RawStmt{Effect: s("Allow"), Principal: s("*"), Action: s("s3:GetObject"), Resource: s("")}),                                                      // "Resource": ""
		mk("corpus:empty-forms", 1, c14RawStmt{Effect: s("Allow"), Principal: s("*"), Action: s("s3:GetObject"), Resource: c14Field{Kind: "a", Null: true}}),                            // "Resource": null
		// one member absent at a time (former class validate:missing-field)
		mk("corpus:missing", 1, c14RawStmt{Effect: s("Allow"), Principal: c14Field{Kind: "m"}, Action: s("s3:GetObject"), Resource: s(c14Arn + "bucket/*")}),
		mk("corpus:missing", 1, c14RawStmt{Effect: s("Allow"), Principal: s("*"), Action: c14Field{Kind: "m"}, Resource: s(c14Arn + "bucket/*")}),
		mk("corpus:missing", 1, c14RawStmt{Effect: s("Allow"), Principal: s("*"), Action: s("s3:GetObject"), Resource: c14Field{Kind: "m"}}),
		mk("corpus:missing", 1, ok, c14RawStmt{Effect: s("Deny"), Principal: c14Field{Kind: "m"}, Action: c14Field{Kind: "m"}, Resource: c14Field{Kind: "m"}}),
	}
}

func c14Validate(a lib.Args, res *lib.Result) error {
	if a.ReplayInput() != nil && a.ReplayInput()["check"] != "validate" {
		return nil
	}
	n := 3000
	if a.Thorough() {
		n = 250000
	}
	r := lib.NewRandStream(a.Seed, 314)
	iam := c14NewIAM()
	var cases []*c14VCase
	var lines []string
	sampled := 0
	flush := func() error {
		out, err := a.Driver.AskParallel(lines, 8)
		if err != nil {
			return err
		}
		for i, c := range cases {
			g := c.g
			f := strings.Fields(out[3*i])
			if len(f) != 2 {
				return fmt.Errorf("policy validate: bad answer %q for %s", out[3*i], lines[3*i])
			}
			mres, verdict := f[0], f[1]
			in := map[string]interface{}{"check": "validate", "document": c.text, "bucket": g.bucket, "accounts": c14Accounts,
				"gen": map[string]interface{}{"Doc": g.doc, "Bucket": g.bucket, "Class": g.class, "NF": g.nfaults, "Judge": g.judge}}
			impl := fmt.Sprintf("accepted %d/%d, refused %d/%d %v", c.accepts, c14Runs, c.refuses, c14Runs, keysOf(c.errNames))
			model := fmt.Sprintf("model=%s spec=%s", mres, verdict)
			if sampled < 3 {
				sampled++
				res.Sample(map[string]interface{}{"document": c.text, "bucket": g.bucket, "impl": impl, "model": model})
			}
			// ---- property (Spec verdict on the implementation's observation)
			if g.judge {
				switch {
				case c.accepts > 0 && c.refuses > 0:
					res.Fail(lib.Failure{Kind: "property", Signature: "validate:map-order-dependent",
						What: "the same document is sometimes accepted and sometimes refused", Input: in, Impl: impl, Model: model})
				case verdict == "refuse" && c.accepts > 0:
					sig, what := "validate:accepts-illformed", "a document that is not a valid policy for the bucket is accepted"
					switch {
					case g.hasMissing():
						sig, what = "validate:missing-field", "a statement without Principal, Action or Resource is accepted"
					case g.hasPrefixFault():
						sig, what = "validate:resource-prefix-of-other-bucket", "a resource whose bucket component merely starts with the bucket name (other bucket / wildcard) is accepted"
					}
					res.Fail(lib.Failure{Kind: "property", Signature: sig, What: what, Input: in, Impl: impl, Model: model})
				case verdict == "accept" && c.refuses > 0:
					res.Fail(lib.Failure{Kind: "property", Signature: "validate:refuses-wellformed", What: "a well-formed policy for the bucket is refused", Input: in, Impl: impl, Model: model})
				}
				// ---- model vs spec (validate_iff_wellformed holds for every document)
				if verdict == "accept" && mres != "ok" || verdict == "refuse" && mres == "ok" {
					res.Fail(lib.Failure{Kind: "model-vs-spec", Signature: "validate", What: "Model.Policy.validateDocument contradicts Spec.Policy.verdict (contradicts validate_iff_wellformed)", Input: in, Model: model})
				}
			}
			// ---- correspondence: document level (one outcome: validate_order_independent)
			if g.doc.Kind == "d" || g.judge {
				if c.accepts > 0 && mres != "ok" || c.refuses > 0 && mres == "ok" {
					res.Fail(lib.Failure{Kind: "correspondence", Signature: "ValidatePolicyDocument", What: "outcome of ValidatePolicyDocument differs from Model.Policy.validateDocument", Input: in, Impl: impl, Model: model})
				} else if g.nfaults <= 1 && len(c.errNames) == 1 && c.errNames[mres] == 0 {
					res.Fail(lib.Failure{Kind: "correspondence", Signature: "ValidatePolicyDocument:error-code", What: "error of ValidatePolicyDocument differs from the model's", Input: in, Impl: impl, Model: model})
				}
			}
			// ---- correspondence: decoding
			dec := out[3*i+1]
			if g.doc.Kind == "d" {
				if c.decoded == nil {
					if strings.HasPrefix(dec, "ok") {
						res.Fail(lib.Failure{Kind: "correspondence", Signature: "decode", What: "real decoder refuses, Model.Policy.decodeDoc accepts", Input: in, Impl: "decode error", Model: dec})
					}
				} else {
					want := "ok " + c14Policy(c14FromReal(*c.decoded))
					if c14CanonPolicy(dec) != want {
						res.Fail(lib.Failure{Kind: "correspondence", Signature: "decode", What: "decoded structure differs from Model.Policy.decodeDoc", Input: in, Impl: want, Model: dec})
					}
				}
			}
			// ---- correspondence: BucketPolicy.Validate on the real decoded structure
			if c.decoded != nil {
				want := strings.TrimSpace(out[3*i+2])
				for k := range c.post {
					if k != want {
						res.Fail(lib.Failure{Kind: "correspondence", Signature: "BucketPolicy.Validate", What: "outcome of BucketPolicy.Validate on the decoded policy differs from Model.Policy.validatePolicy",
							Input: in, Impl: fmt.Sprint(keysOf(c.post)), Model: out[3*i+2]})
						break
					}
				}
			}
		}
		cases, lines = cases[:0], lines[:0]
		return nil
	}
	add := func(g c14GenDoc) {
		text := g.doc.json()
		c := &c14VCase{g: g, text: text}
		c.accepts, c.refuses, c.errNames = c14RunValidate(text, g.bucket, iam)
		var bp auth.BucketPolicy
		if json.Unmarshal([]byte(text), &bp) == nil {
			c.decoded = &bp
			c.post = c14PostValidate(&bp, g.bucket, iam)
		}
		cases = append(cases, c)
		lines = append(lines, fmt.Sprintf("policy validate %s %s %s", lib.HexS(g.bucket), c14List(c14Accounts), g.doc.enc()))
		lines = append(lines, fmt.Sprintf("policy decode %s", g.doc.enc()))
		if c.decoded != nil {
			lines = append(lines, fmt.Sprintf("policy validated %s %s %s", lib.HexS(g.bucket), c14List(c14Accounts), c14Policy(c14FromReal(bp))))
		} else {
			lines = append(lines, "policy validated - _ _") // placeholder (answer unused)
		}
		out := "refused"
		if c.accepts > 0 && c.refuses > 0 {
			out = "both"
		} else if c.accepts > 0 {
			out = "accepted"
		}
		res.Count("v|"+g.bucket+"|"+text, json.Valid([]byte(text)), "validate:"+g.class, "validate:impl="+out, fmt.Sprintf("validate:statements=%d", len(g.doc.Stmts)))
	}
	if in := a.ReplayInput(); in != nil {
		g, err := c14GenFromReplay(in)
		if err != nil {
			return err
		}
		add(g)
		n = 0
	} else {
		for _, g := range c14Corpus() {
			add(g)
		}
	}
	for i := 0; i < n; i++ {
		add(c14Gen(r, c14Buckets, c14Accounts))
		if len(lines) >= 150000 {
			if err := flush(); err != nil {
				return err
			}
		}
	}
	if err := flush(); err != nil {
		return err
	}
	return c14Units(a, res)
}

// sort the member sets of a model-side policy encoding ("ok <policy>") so that it can be compared
// with the sorted keys of the real maps
func c14CanonPolicy(ans string) string {
	if !strings.HasPrefix(ans, "ok ") {
		return ans
	}
	p := strings.TrimPrefix(ans, "ok ")
	if p == "_" {
		return ans
	}
	sts := strings.Split(p, "|")
	for i, st := range sts {
		f := strings.Split(st, ":")
		for j := 1; j < len(f); j++ {
			if f[j] == "_" {
				continue
			}
			xs := strings.Split(f[j], ",")
			ds := make([]string, len(xs))
			for k, x := range xs {
				if x == "-" {
					ds[k] = ""
				} else {
					b := make([]byte, len(x)/2)
					fmt.Sscanf(x, "%x", &b)
					ds[k] = string(b)
				}
			}
			sort.Strings(ds)
			f[j] = c14List(ds)
		}
		sts[i] = strings.Join(f, ":")
	}
	return "ok " + strings.Join(sts, "|")
}

// c14Units: Action.IsValid, Action.IsObjectAction and Resources.Add against the model, plus
// BucketPolicy.Validate on directly constructed (not decodable) structures.
func c14Units(a lib.Args, res *lib.Result) error {
	if a.ReplayInput() != nil {
		return nil
	}
	n := 3000
	if a.Thorough() {
		n = 60000
	}
	r := lib.NewRandStream(a.Seed, 414)
	iam := c14NewIAM()
	type cs struct{ kind, in, impl string }
	var cases []cs
	var lines []string
	addAction := func(s string) {
		valid := auth.Action(s).IsValid() == nil
		kind := "panic"
		func() {
			defer func() { recover() }()
			p := auth.Action(s).IsObjectAction()
			switch {
			case p == nil:
				kind = "all"
			case *p:
				kind = "object"
			default:
				kind = "bucket"
			}
		}()
		impl := "f " + kind
		if valid {
			impl = "t " + kind
		}
		cases = append(cases, cs{"actionvalid", s, impl})
		lines = append(lines, "policy actionvalid "+lib.HexS(s))
		res.Count("ua|"+s, valid, "unit:action", fmt.Sprintf("unit:action-valid=%v", valid))
	}
	addResource := func(s string) {
		m := auth.Resources{}
		impl := "none"
		if m.Add(s) == nil {
			for k := range m {
				impl = "some " + lib.HexS(k)
			}
		}
		cases = append(cases, cs{"resourcevalid", s, impl})
		lines = append(lines, "policy resourcevalid "+lib.HexS(s))
		res.Count("ur|"+s, impl != "none", "unit:resource")
	}
	for _, n := range c14ActionNames {
		addAction(n)
		addAction(n + "*")
		addAction(n[:len(n)-1] + "*")
		addAction(n[:len(n)-1])
	}
	for _, s := range []string{"", "s3:*", "s3:**", "s3:", "s3:GetBucketObjectLockConfiguration", "*", "s3*"} {
		addAction(s)
	}
	for _, s := range []string{"", c14Arn, c14Arn + "/", c14Arn + "/b", c14Arn + "b", c14Arn + "*", "arn:aws:s3::b", "b", c14Arn + c14Arn + "b"} {
		addResource(s)
	}
	for i := 0; i < n; i++ {
		addAction(c14AnyAction(r))
		rc := pick(r, c14Arn, c14Arn, c14Arn, "arn:aws:s3::", "arn:aws:s3::::", "", "ARN:aws:s3:::", c14Arn[:r.Intn(len(c14Arn))]) + c14RandWord(r, "ab*?/", 4)
		addResource(rc)
	}
	// directly constructed structures (what Validate does on policies the decoder can never produce)
	type pc struct {
		pol    []c14Stmt
		bucket string
		post   map[string]int
	}
	var pcs []pc
	for i := 0; i < n/10; i++ {
		ns := 1 + r.Intn(3)
		bp := auth.BucketPolicy{}
		for j := 0; j < ns; j++ {
			it := auth.BucketPolicyItem{Effect: auth.BucketPolicyAccessType(pick(r, "Allow", "Deny", "Allow", "x")), Principals: auth.Principals{}, Actions: auth.Actions{}, Resources: auth.Resources{}}
			for k := r.Intn(3); k > 0; k-- {
				it.Principals[pick(r, "*", "alice", "bob", "mallory", "")] = struct{}{}
			}
			if r.Chance(4) {
				it.Actions[""] = struct{}{} // IsObjectAction indexes a[len(a)-1]: panic (only ever alone: its outcome would depend on map order otherwise)
			} else {
				for k := r.Intn(4); k > 0; k-- {
					x := c14AnyAction(r)
					if x == "" {
						x = "s3:*"
					}
					it.Actions[auth.Action(x)] = struct{}{}
				}
			}
			for k := r.Intn(3); k > 0; k-- {
				it.Resources[pick(r, "b", "b/*", "*", "b2/x", "bx", "a", "b/", "")] = struct{}{}
			}
			bp.Statement = append(bp.Statement, it)
		}
		p := pc{c14FromReal(bp), pick(r, "b", "b", "", "*"), nil}
		p.post = c14PostValidate(&bp, p.bucket, iam)
		pcs = append(pcs, p)
		lines = append(lines, fmt.Sprintf("policy validated %s %s %s", lib.HexS(p.bucket), c14List(c14Accounts), c14Policy(p.pol)))
		res.Count("up|"+c14Policy(p.pol)+"|"+p.bucket, true, "unit:constructed-policy")
	}
	out, err := a.Driver.AskParallel(lines, 8)
	if err != nil {
		return err
	}
	for i, c := range cases {
		if out[i] != c.impl {
			sig := "Action.IsValid/IsObjectAction"
			if c.kind == "resourcevalid" {
				sig = "Resources.Add"
			}
			res.Fail(lib.Failure{Kind: "correspondence", Signature: sig, What: "real function differs from its model", Input: map[string]interface{}{"check": "unit", "op": c.kind, "arg": c.in}, Impl: c.impl, Model: out[i]})
		}
	}
	for i, p := range pcs {
		ans := strings.TrimSpace(out[len(cases)+i])
		for k := range p.post {
			if k != ans {
				res.Fail(lib.Failure{Kind: "correspondence", Signature: "BucketPolicy.Validate", What: "outcome of BucketPolicy.Validate on a constructed policy differs from Model.Policy.validatePolicy",
					Input: map[string]interface{}{"check": "unit", "policy": p.pol, "bucket": p.bucket}, Impl: fmt.Sprint(keysOf(p.post)), Model: ans})
				break
			}
		}
	}
	return nil
}
