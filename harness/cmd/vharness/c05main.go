package main

import (
	"encoding/json"
	"fmt"
	"go/ast"
	"go/parser"
	"go/token"
	"os"
	"path/filepath"
	"runtime/debug"
	"strconv"
	"strings"
	"sync"
	"time"

	"verif/harness/gw"
	"verif/harness/lib"
)

func init() {
	checks["c05"] = checkDef{"C05",
		"steered: every schedule = (deployment ∈ {O_TMPFILE, --disableotmp}, initial state ∈ {absent, one complete object}, 2–3 requests from PUT/COPY/multipart-complete/DELETE/GET/HEAD with distinct bodies, sizes 3–42 and 6 attribute shapes, an interleaving of their key-touching filesystem steps enumerated by the model) replayed on single-stepped gateway processes sharing one storage directory; non-trivial = at least two requests took steps alternately (a real interleaving), distinct by (strategy, initial, requests, schedule). stress: 8 clients × 3 free-running gateway processes on one key, histories judged by Spec.Register.linearizableB.",
		[]checkFn{c05SourceFacts, c05Steered, c05VerShape, c05VerMarkerRace, c05AttrListRace, c05Stress}}
}

// repoDir: the directory of the versitygw module this harness was built against (go.mod replace).
func repoDir() string {
	if bi, ok := debug.ReadBuildInfo(); ok {
		for _, d := range bi.Deps {
			if d.Path == "github.com/versity/versitygw" && d.Replace != nil {
				return d.Replace.Path
			}
		}
	}
	return "/repo"
}

// c05SourceFacts re-derives from the source, on every run, the claim the process-free model rests
// on: the posix backend keeps no lock, cache or other mutable in-memory state about objects.
func c05SourceFacts(a lib.Args, res *lib.Result) error {
	dir := filepath.Join(repoDir(), "backend", "posix")
	fset := token.NewFileSet()
	pkgs, err := parser.ParseDir(fset, dir, func(fi os.FileInfo) bool { return !strings.HasSuffix(fi.Name(), "_test.go") }, 0)
	if err != nil {
		return fmt.Errorf("parse %s: %v", dir, err)
	}
	var bad []string
	fields := 0
	for _, pkg := range pkgs {
		for fname, f := range pkg.Files {
			for _, imp := range f.Imports {
				if imp.Path.Value == `"sync"` || imp.Path.Value == `"sync/atomic"` {
					bad = append(bad, filepath.Base(fname)+" imports "+imp.Path.Value)
				}
			}
			ast.Inspect(f, func(n ast.Node) bool {
				ts, ok := n.(*ast.TypeSpec)
				if !ok || ts.Name.Name != "Posix" {
					return true
				}
				st, ok := ts.Type.(*ast.StructType)
				if !ok {
					return true
				}
				for _, fl := range st.Fields.List {
					fields++
					switch t := fl.Type.(type) {
					case *ast.MapType, *ast.ChanType:
						bad = append(bad, fmt.Sprintf("Posix field %v is a map/chan", fl.Names))
					case *ast.SelectorExpr:
						if id, ok := t.X.(*ast.Ident); ok && id.Name == "sync" {
							bad = append(bad, fmt.Sprintf("Posix field %v is sync.%s", fl.Names, t.Sel.Name))
						}
					}
				}
				return true
			})
			// package-level mutable state: var declarations of map / sync types
			for _, d := range f.Decls {
				gd, ok := d.(*ast.GenDecl)
				if !ok || gd.Tok != token.VAR {
					continue
				}
				for _, sp := range gd.Specs {
					vs := sp.(*ast.ValueSpec)
					if _, ok := vs.Type.(*ast.MapType); ok {
						bad = append(bad, fmt.Sprintf("package variable %v is a map", vs.Names))
					}
				}
			}
		}
	}
	res.Count("source-facts", false, "source:posix-struct-fields", fmt.Sprintf("source:posix-fields=%d", fields))
	if fields == 0 {
		bad = append(bad, "struct Posix not found")
	}
	for _, b := range bad {
		res.Fail(lib.Failure{Kind: "correspondence", Signature: "source:posix-in-process-state", What: "the posix backend is no longer free of in-process shared state (the model has no process structure): " + b,
			Input: map[string]interface{}{"mode": "source", "dir": dir}})
	}
	return nil
}

// c05Detect finds out which step shape the code under test has (unchanged, or with the proposed
// fixes applied) so that the model variant that transcribes THAT code is the one it is compared with.
func c05Detect(a lib.Args, r *c05Rig, res *lib.Result) error {
	ini := c05Write{ID: 1, Len: 5, Attrs: []string{"m0", "ctype"}}
	w := c05Write{ID: 2, Len: 9, Attrs: []string{"m0", "ctype"}}
	strip := func(steps []string) string {
		var o []string
		for _, s := range steps {
			f := strings.Split(s, ":")
			if len(f) >= 3 {
				o = append(o, f[1]+":"+f[2])
			}
		}
		return strings.Join(o, " ")
	}
	long := strings.Repeat("0", 64)
	put := c05Case{Strat: r.strat, Init: &ini, Reqs: []c05Req{{Kind: "P", W: w}}, Sched: long, Pair: "PUT"}
	get := c05Case{Strat: r.strat, Init: &ini, Reqs: []c05Req{{Kind: "G"}}, Sched: long, Pair: "GET"}
	op := r.runCase(put, nil)
	og := r.runCase(get, nil)
	if op.Err != "" || og.Err != "" {
		return fmt.Errorf("shape detection: %s %s", op.Err, og.Err)
	}
	// the code as it is, and the regression variant (before 4399f3e: the name is removed first)
	wcands := []string{"otmp", "otmp-old"}
	if r.strat == "mktemp" {
		wcands = []string{"mktemp", "mktemp-old"}
	}
	var lines []string
	for _, ws := range wcands {
		lines = append(lines, fmt.Sprintf("conc run %s bypath %s %s %s", ws, put.initSpec(), put.reqSpec(), long))
	}
	for _, m := range []string{"bypath", "byfd"} {
		lines = append(lines, fmt.Sprintf("conc run %s %s %s %s %s", r.strat, m, get.initSpec(), get.reqSpec(), long))
	}
	lines = append(lines, "conc variant")
	out, err := a.Driver.Ask(lines)
	if err != nil {
		return err
	}
	variant := out[len(out)-1]
	out = out[:len(out)-1]
	found := 0
	for k, ws := range wcands {
		m, err := c05ParseRun(out[k])
		if err == nil && strip(m.Steps) == strip(op.Steps) {
			r.wstrat = ws
			found++
			break
		}
	}
	for k, md := range []string{"bypath", "byfd"} {
		m, err := c05ParseRun(out[len(wcands)+k])
		if err == nil && strip(m.Steps) == strip(og.Steps) {
			r.mode = md
			found++
			break
		}
	}
	res.Note("code shape on %s: publication=%s read=%s (Model.Conc.codeVariant = %s)", r.strat, r.wstrat, r.mode, variant)
	want := map[string]string{"old": "bypath", "current": "byfd"}[variant]
	if want != r.mode || (variant == "old") != strings.HasSuffix(r.wstrat, "-old") {
		// not a failure of the code: the constant that names the code's variant for the theorems is stale
		res.Note("Model.Conc.codeVariant = %s does not name the shape of the binary under test (publication=%s read=%s): switch the constant", variant, r.wstrat, r.mode)
		res.Count("variant|"+r.strat, false, "shape:variant-constant-stale")
	}
	res.Count("shape|"+r.strat, false, "shape:"+r.strat+":publication="+r.wstrat, "shape:"+r.strat+":read="+r.mode)
	if r.mode == "bypath" {
		res.Fail(lib.Failure{Kind: "correspondence", Signature: "steps:regression-variant:read-by-path:" + r.strat, What: "GetObject reads by path again (stat, attributes and open in separate path lookups: the REGRESSION variant of Model.Conc): torn answers under concurrent overwrites are back",
			Input: map[string]interface{}{"mode": "shape", "strategy": r.strat}, Impl: "GET: " + strip(og.Steps), Model: "current variant: " + out[len(wcands)+1]})
	}
	if strings.HasSuffix(r.wstrat, "-old") {
		res.Fail(lib.Failure{Kind: "correspondence", Signature: "steps:regression-variant:" + r.strat, What: "the publication steps of the code are those of the REGRESSION variant of Model.Conc (the object name is removed before the new file is linked/renamed): the window in which the key is missing is back",
			Input: map[string]interface{}{"mode": "shape", "strategy": r.strat}, Impl: "PUT: " + strip(op.Steps), Model: "current variant: " + out[0]})
	}
	if found != 2 {
		res.Fail(lib.Failure{Kind: "correspondence", Signature: "steps:shape-unknown:" + r.strat, What: "the filesystem steps of a solo PUT / GET match no variant of Model.Conc",
			Input: map[string]interface{}{"mode": "shape", "strategy": r.strat}, Impl: "PUT: " + strip(op.Steps) + " | GET: " + strip(og.Steps), Model: strings.Join(out, " || ")})
	}
	return nil
}

// c05CopyTagsProbe: CopyObject of a TAGGED source with the default tagging directive (COPY). The code
// stores the source's tags on the destination BY NAME after PutObject has published it — outside
// Model.Conc (whose writes carry every attribute on the temp file). The probe steers the one schedule
// that shows what this does to the property: COPY runs up to and including its publication, a PUT
// without tags replaces the key, COPY goes on; afterwards the key holds the PUT's body with the
// COPY source's tags, for good.
func c05CopyTagsProbe(a lib.Args, r *c05Rig, res *lib.Result) error {
	r.seq++
	key := fmt.Sprintf("k%06d", r.seq)
	path := "/" + r.bucket + "/" + key
	ini := c05Write{ID: 5, Len: 9, Attrs: []string{"m0"}}
	src := c05Write{ID: 6, Len: 9, Attrs: []string{"m0", "tags"}} // 1 + 6%3 = 1 tag
	put := c05Write{ID: 7, Len: 9, Attrs: []string{"m0"}}
	in := map[string]interface{}{"mode": "steered", "pair": "copy-tags-probe", "strategy": r.strat,
		"requests": []c05Req{{Kind: "C", W: src}, {Kind: "P", W: put}}, "schedule": "COPY up to its publication; PUT completely; COPY to its end; GET"}
	srcPath := "/" + r.bucket + "/src-" + key
	for _, q := range []gw.Req{{Method: "PUT", Path: path, Body: ini.body(), Headers: ini.headers()},
		{Method: "PUT", Path: srcPath, Body: src.body(), Headers: src.headers()}} {
		if rsp := r.do(r.free, q); rsp.Status != 200 {
			return fmt.Errorf("copy-tags probe set-up: %d %s", rsp.Status, rsp.Body)
		}
	}
	proj := &c05Proj{bucket: r.bucket, key: key}
	rel := func(s *gw.Sys) bool { n, _ := proj.project(s); return n != "" }
	done := make(chan struct{})
	var crsp gw.Resp
	go func() {
		crsp = r.do(r.procs[0], gw.Req{Method: "PUT", Path: path, Headers: []gw.Header{{K: "x-amz-copy-source", V: srcPath[1:]}}})
		close(done)
	}()
	var steps []string
	published, finished := false, false
	for !finished {
		sys, fin, err := r.steppers[0].Next(done, rel, 8*time.Second)
		if err != nil {
			r.steppers[0].Cont()
			<-done
			res.Count("probe-err|"+r.strat, false, "probe:copy-tags:stepper-error")
			return nil // the probe is best effort; the machinery's hiccups are not findings
		}
		if fin {
			finished = true
			break
		}
		n, cl := proj.project(sys)
		steps = append(steps, n+":"+cl)
		if !published && cl == "ok" && (n == "rename" || n == "linkat") {
			published = true
			// the key is COPY's now: a PUT without tags replaces it while COPY is held
			if rsp := r.do(r.free, gw.Req{Method: "PUT", Path: path, Body: put.body(), Headers: put.headers()}); rsp.Status != 200 {
				r.steppers[0].Cont()
				<-done
				return fmt.Errorf("copy-tags probe put: %d %s", rsp.Status, rsp.Body)
			}
		}
		r.steppers[0].Cont()
	}
	writes := []c05Write{ini, src, put}
	final := c05View(c05Req{Kind: "G"}, r.do(r.free, gw.Req{Method: "GET", Path: path}), writes, map[int]string{})
	out, err := a.Driver.Ask([]string{fmt.Sprintf("conc judge G %s,%s,%s %s", ini.spec("P"), src.spec("P"), put.spec("P"), final)})
	if err != nil {
		return err
	}
	byName := false
	for _, st := range steps {
		if strings.Contains(st, "-by-name.") {
			byName = true
		}
	}
	res.Count("probe|"+r.strat, true, "probe:copy-tags:"+r.strat, fmt.Sprintf("probe:copy-tags:by-name-store=%v", byName), "probe:copy-tags:verdict="+strings.SplitN(out[0], "+", 2)[0])
	if strings.HasPrefix(out[0], "bad:") {
		res.Fail(lib.Failure{Kind: "property", Signature: "conc:copy-tags-by-name:" + strings.SplitN(strings.TrimPrefix(out[0], "bad:"), "+", 2)[0],
			What:  "CopyObject (default tagging directive) stores the source's tags on the destination BY NAME after the publication: a PUT that replaced the key in between now carries the COPY's tags for good (" + out[0] + "); CopyObject answered " + strconv.Itoa(crsp.Status),
			Input: in, Impl: final + " | COPY steps: " + strings.Join(steps, " "), Model: "outside Model.Conc (see not_modelled); an object's tags must be those of the write its body belongs to"})
	}
	return nil
}

func c05WithTags(attrs []string, on bool) []string {
	var o []string
	for _, a := range attrs {
		if a != "tags" {
			o = append(o, a)
		}
	}
	if on {
		o = append(o, "tags")
	}
	return o
}

func c05Interleaved(s string) bool {
	// at least two switches between requests
	sw := 0
	for i := 1; i < len(s); i++ {
		if s[i] != s[i-1] {
			sw++
		}
	}
	return sw >= 2
}

// c05Steered: conformance + steered schedules.
func c05Steered(a lib.Args, res *lib.Result) error {
	strats := []string{"otmp", "mktemp"}
	var replay *c05Case
	if in := a.ReplayInput(); in != nil {
		mode, _ := in["mode"].(string)
		if mode != "steered" {
			return nil
		}
		c, err := c05CaseOf(in)
		if err != nil {
			return err
		}
		replay = &c
		strats = []string{c.Strat}
	}
	var wg sync.WaitGroup
	errs := make([]error, len(strats))
	for si, strat := range strats {
		wg.Add(1)
		go func(si int, strat string) {
			defer wg.Done()
			errs[si] = c05SteeredOn(a, res, strat, replay)
		}(si, strat)
	}
	wg.Wait()
	for _, e := range errs {
		if e != nil {
			return e
		}
	}
	return nil
}

func c05CaseOf(in map[string]interface{}) (c05Case, error) {
	var c c05Case
	b, _ := jsonMarshal(in)
	if err := jsonUnmarshal(b, &c); err != nil {
		return c, err
	}
	if len(c.Reqs) == 0 {
		return c, fmt.Errorf("replay: no requests in input")
	}
	return c, nil
}

func c05SteeredOn(a lib.Args, res *lib.Result, strat string, replay *c05Case) error {
	rig, err := c05NewRig(a, "c05-"+strat, strat, 3)
	if err != nil {
		return err
	}
	if err := c05Detect(a, rig, res); err != nil {
		rig.close()
		return err
	}
	if replay == nil || replay.Pair == "copy-tags-probe" {
		if err := c05CopyTagsProbe(a, rig, res); err != nil {
			rig.close()
			return err
		}
		if replay != nil {
			rig.close()
			return nil
		}
	}
	r := lib.NewRandStream(a.Seed, int64(51+len(strat)))
	// ---- cases
	var cases []c05Case
	if replay != nil {
		cases = []c05Case{*replay}
	} else {
		cases = append(cases, c05Corpus(strat)...)
		perPair := 14
		if a.Thorough() {
			perPair = 1 << 30
		}
		type pend struct {
			c    c05Case
			line string
		}
		var pends []pend
		base := 10
		variants := 1
		if a.Thorough() {
			variants = 3
		}
		for _, pd := range c05Pairs {
			for v := 0; v < variants; v++ {
				for _, ini := range pd.inits {
					w0, w1, w2 := c05Payloads(r, base)
					base += 3
					c := c05Case{Strat: strat, Pair: pd.name}
					if ini {
						c.Init = &w0
					}
					ws := []c05Write{w1, w2}
					wi := 0
					for ki, k := range pd.kinds {
						rq := c05Req{Kind: k}
						if rq.isWrite() {
							rq.W = ws[wi%2]
							wi++
							if pd.tagged != nil {
								rq.W.Attrs = c05WithTags(rq.W.Attrs, pd.tagged[ki])
							}
						}
						c.Reqs = append(c.Reqs, rq)
					}
					limit := 4000
					if len(pd.kinds) > 2 && !a.Thorough() {
						limit = 300
					}
					pends = append(pends, pend{c, fmt.Sprintf("conc enum %s %s %s %s %d", rig.wstrat, rig.mode, c.initSpec(), c.reqSpec(), limit)})
				}
			}
		}
		var lines []string
		for _, p := range pends {
			lines = append(lines, p.line)
		}
		out, err := a.Driver.Ask(lines)
		if err != nil {
			return err
		}
		for k, p := range pends {
			f := strings.Fields(out[k])
			if len(f) < 2 || !strings.HasPrefix(f[0], "n=") {
				return fmt.Errorf("driver enum answer: %q", out[k])
			}
			scheds := f[1:]
			res.Count("enum|"+strat+"|"+p.c.Pair+"|"+p.c.reqSpec(), false, fmt.Sprintf("enum:%s:schedules-of-model", p.c.Pair))
			n := perPair
			if len(p.c.Reqs) > 2 {
				n = perPair / 2
				if a.Thorough() {
					n = 1500
				}
			}
			if n >= len(scheds) {
				for _, s := range scheds {
					c := p.c
					c.Sched = s
					cases = append(cases, c)
				}
				res.Count("exh|"+strat+"|"+p.c.Pair+"|"+p.c.reqSpec(), false, "enum:"+p.c.Pair+":all-schedules-run")
			} else {
				// a seeded sample without repetition
				idx := make([]int, len(scheds))
				for i := range idx {
					idx[i] = i
				}
				for i := 0; i < n; i++ {
					j := i + r.Intn(len(idx)-i)
					idx[i], idx[j] = idx[j], idx[i]
					c := p.c
					c.Sched = scheds[idx[i]]
					cases = append(cases, c)
				}
			}
		}
	}
	// ---- model answers
	var lines []string
	for _, c := range cases {
		lines = append(lines, rig.runLine(c))
	}
	out, err := a.Driver.Ask(lines)
	if err != nil {
		return err
	}
	judged := make([]c05Judged, len(cases))
	for k, c := range cases {
		m, err := c05ParseRun(out[k])
		if err != nil {
			return err
		}
		judged[k] = c05Judged{c: c, model: m}
	}
	// ---- the real runs. A schedule that cannot be replayed as the model says (time-out of the
	// stepping machinery, or a step list that differs) is tried again on a fresh key, after a
	// time-out with fresh processes: a real difference between code and model is deterministic and
	// shows every time, a hiccup of ptrace-stepping does not.
	for k := range judged {
		j := &judged[k]
		for attempt := 0; attempt < 3; attempt++ {
			j.obs = rig.runCase(j.c, j.model.Steps)
			if j.obs.Err == "" && j.obs.Div == "" {
				break
			}
			res.Count(fmt.Sprintf("retry|%s|%d|%d", strat, k, attempt), false, "steered:retried-after:"+c05Short(j.obs))
			if len(res.Notes) < 12 {
				res.Note("retry %s case %d attempt %d: err=%q div=%q impl=%s\n%s", strat, k, attempt, j.obs.Err, j.obs.Div, strings.Join(j.obs.Steps, " "), j.obs.Diag)
			}
			if j.obs.Err != "" {
				rig.close()
				os.RemoveAll(rig.cfg.Work)
				rig, err = c05NewRig(a, fmt.Sprintf("c05-%s-r%d-%d", strat, k, attempt), strat, 3)
				if err != nil {
					return err
				}
				if err := c05Detect(a, rig, res); err != nil {
					rig.close()
					return err
				}
			}
		}
	}
	defer func() { rig.close() }()
	// ---- oracles
	lines = lines[:0]
	type ref struct{ k, i, what int }
	var refs []ref
	for k := range judged {
		j := &judged[k]
		j.verdict = make([]string, len(j.c.Reqs))
		if j.obs.Err != "" || len(j.obs.Resp) != len(j.c.Reqs) {
			continue
		}
		for i, rq := range j.c.Reqs {
			if (rq.Kind == "G" || rq.Kind == "H") && strings.HasPrefix(j.obs.Resp[i], "read(") {
				lines = append(lines, fmt.Sprintf("conc judge %s %s %s", rq.Kind, j.c.writeSpecs(), j.obs.Resp[i]))
				refs = append(refs, ref{k, i, 0})
			}
		}
	}
	for k := range judged {
		j := &judged[k]
		if strings.HasPrefix(j.obs.Final, "read(") {
			lines = append(lines, fmt.Sprintf("conc judge G %s %s", j.c.writeSpecs(), j.obs.Final))
			refs = append(refs, ref{k, -1, 0})
		}
	}
	out, err = a.Driver.Ask(lines)
	if err != nil {
		return err
	}
	for n, rf := range refs {
		if rf.i < 0 {
			judged[rf.k].final = out[n]
		} else {
			judged[rf.k].verdict[rf.i] = out[n]
		}
	}
	lines = lines[:0]
	for k := range judged {
		j := &judged[k]
		ini := "-"
		if j.c.Init != nil {
			ini = fmt.Sprint(j.c.Init.ID)
		}
		if j.obs.Err != "" || j.obs.Div != "" || len(j.obs.Resp) != len(j.c.Reqs) {
			lines = append(lines, "conc lin - -", "conc lin - -")
			continue
		}
		lines = append(lines, fmt.Sprintf("conc lin %s %s", ini, c05LinEvents(j.c, j.obs.Steps, j.obs.Resp, j.verdict, false)),
			fmt.Sprintf("conc lin %s %s", ini, c05LinEvents(j.c, j.obs.Steps, j.obs.Resp, j.verdict, true)))
	}
	out, err = a.Driver.Ask(lines)
	if err != nil {
		return err
	}
	for k := range judged {
		j := judged[k]
		c05Report(res, a, j, out[2*k], out[2*k+1])
		outcome := "steered:outcome:clean"
		for i, v := range j.verdict {
			if strings.HasPrefix(v, "bad:") {
				outcome = "steered:outcome:torn-read"
			} else if v == "grey:short-body" {
				outcome = "steered:outcome:short-body(grey)"
			}
			if i < len(j.obs.Resp) && j.obs.Resp[i] == "nokey" && j.c.Reqs[i].Kind == "D" {
				res.Count("grey-del", false, "steered:grey:delete-answered-NoSuchKey")
			}
		}
		if out[2*k] == "bad" {
			outcome = "steered:outcome:not-linearizable"
		}
		res.Count(fmt.Sprintf("%s|%s|%s|%s", j.c.Strat, j.c.initSpec(), j.c.reqSpec(), j.c.Sched), c05Interleaved(j.c.Sched),
			"steered:"+j.c.Pair+":"+strat, outcome, fmt.Sprintf("steered:steps-compared=%d", 0))
		res.Histogram["steered:steps-compared"] += len(j.obs.Steps)
		if k < 2 {
			res.Sample(map[string]interface{}{"case": j.c, "model_steps": strings.Join(j.model.Steps, " "), "impl_steps": strings.Join(j.obs.Steps, " "), "impl": j.obs.Resp, "model": j.model.Resp, "lin": out[2*k]})
		}
	}
	delete(res.Histogram, "steered:steps-compared=0")
	return nil
}

func jsonMarshal(v interface{}) ([]byte, error)   { return json.Marshal(v) }
func jsonUnmarshal(b []byte, v interface{}) error { return json.Unmarshal(b, v) }

func c05Short(o c05Obs) string {
	if o.Err != "" {
		if strings.Contains(o.Err, "timeout") {
			return "stepper-timeout"
		}
		return "harness-error"
	}
	return "step-divergence"
}
