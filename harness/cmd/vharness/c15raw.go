package main

// C15, raw request shapes: under --readonly NO request changes anything, whatever combination of
// subresource parameters it carries. The handlers pick their branch from the query parameters that are
// present; a request that names two subresources at once (`?select=&uploadId=…`, `?uploads=&restore=`) must
// not slip past the read-only test of one branch into the mutation of another. Oracle: byte-exact snapshot
// of the storage, versioning and IAM directories after every request (no model involved).

import (
	"fmt"
	"sort"
	"strings"

	"verif/harness/gw"
	"verif/harness/lib"
)

func c15RawShapes(a lib.Args, res *lib.Result) error {
	if in := a.ReplayInput(); in != nil {
		if st, _ := in["stage"].(string); st != "raw-shapes" {
			return nil
		}
	}
	cfg, err := mustStorage(a, "c15raw", true, false, nil)
	if err != nil {
		return err
	}
	g, err := gw.Start(cfg)
	if err != nil {
		return err
	}
	root := rootCreds(cfg)
	usr := gw.Creds{Access: "rousr1", Secret: "rosecret1"}
	do := func(c gw.Creds, q gw.Req) gw.Resp {
		q.Auth, q.Creds = "header", c
		return gw.Do(g.Addr(), q)
	}
	gw.Do(g.AdminAddr(), gw.Req{Method: "PATCH", Path: "/create-user", Auth: "header", Creds: root,
		Body: []byte("<Account><Access>rousr1</Access><Secret>rosecret1</Secret><Role>user</Role><UserID>0</UserID><GroupID>0</GroupID></Account>")})
	b := "/rob"
	if r := do(root, gw.Req{Method: "PUT", Path: b}); r.Status != 200 {
		g.Kill()
		return fmt.Errorf("c15 raw: create bucket %d %s", r.Status, r.Body)
	}
	do(root, gw.Req{Method: "PUT", Path: b, Query: "versioning", Body: []byte(`<VersioningConfiguration><Status>Enabled</Status></VersioningConfiguration>`)})
	do(root, gw.Req{Method: "PUT", Path: b, Query: "policy", Body: []byte(`{"Version":"2012-10-17","Statement":[{"Effect":"Allow","Principal":{"AWS":["rousr1"]},"Action":"s3:*","Resource":["arn:aws:s3:::rob","arn:aws:s3:::rob/*"]}]}`)})
	do(root, gw.Req{Method: "PUT", Path: b + "/k1", Body: []byte("first version")})
	v := do(root, gw.Req{Method: "PUT", Path: b + "/k1", Body: []byte("second version")})
	vid := v.Headers.Get("x-amz-version-id")
	up := do(root, gw.Req{Method: "POST", Path: b + "/mp", Query: "uploads"})
	upid := ""
	if i := strings.Index(string(up.Body), "<UploadId>"); i >= 0 {
		upid = string(up.Body)[i+10:]
		upid = upid[:strings.Index(upid, "<")]
	}
	part := do(root, gw.Req{Method: "PUT", Path: b + "/mp", Query: "uploadId=" + upid + "&partNumber=1", Body: []byte("part one")})
	etag := part.Headers.Get("ETag")
	if vid == "" || upid == "" || etag == "" {
		g.Kill()
		return fmt.Errorf("c15 raw: fixture incomplete (vid=%q upload=%q etag=%q)", vid, upid, etag)
	}
	g.Kill()
	cfg.Readonly = true
	if g, err = gw.Start(cfg); err != nil {
		return err
	}
	defer func() { g.Kill() }()

	subs := []string{"uploads=", "uploadId=" + upid, "uploadId=" + upid + "&partNumber=2", "tagging=", "acl=", "policy=", "versioning=", "retention=", "legal-hold=",
		"restore=", "select=", "select=&select-type=2", "delete=", "versionId=" + vid, "object-lock=", "ownershipControls=", "cors=", "attributes=", "versions=", "list-type=2"}
	var queries []string
	queries = append(queries, "")
	queries = append(queries, subs...)
	for _, x := range subs {
		for _, y := range subs {
			if x != y {
				queries = append(queries, x+"&"+y)
			}
		}
	}
	type shape struct{ method, path, query string }
	var all []shape
	for _, m := range []string{"PUT", "POST", "DELETE"} {
		for _, p := range []string{b, b + "/k1", b + "/new", b + "/mp"} {
			for _, q := range queries {
				all = append(all, shape{m, p, q})
			}
		}
	}
	r := lib.NewRand(a.Seed + 1515)
	n := 700
	if a.Thorough() {
		n = len(all)
	}
	r.Shuffle(len(all), func(i, j int) { all[i], all[j] = all[j], all[i] })
	// the combinations that name an upload next to another subresource go first
	sort.SliceStable(all, func(i, j int) bool {
		return strings.Contains(all[i].query, "upload") && strings.Contains(all[i].query, "&") && !(strings.Contains(all[j].query, "upload") && strings.Contains(all[j].query, "&"))
	})
	if n > len(all) {
		n = len(all)
	}
	snap := lib.TakeSnapshot(cfg.Root, cfg.VersioningDir, cfg.Sidecar)
	complete := `<CompleteMultipartUpload><Part><PartNumber>1</PartNumber><ETag>` + etag + `</ETag></Part></CompleteMultipartUpload>`
	for i, s := range all[:n] {
		body := []byte("x")
		switch {
		case s.method == "POST" && strings.Contains(s.query, "uploadId="):
			body = []byte(complete)
		case strings.Contains(s.query, "delete="):
			body = []byte(`<Delete><Object><Key>k1</Key></Object><Object><Key>k1</Key><VersionId>` + vid + `</VersionId></Object></Delete>`)
		case strings.Contains(s.query, "tagging="):
			body = []byte(`<Tagging><TagSet><Tag><Key>ro</Key><Value>x</Value></Tag></TagSet></Tagging>`)
		case strings.Contains(s.query, "versioning="):
			body = []byte(`<VersioningConfiguration><Status>Suspended</Status></VersioningConfiguration>`)
		case strings.Contains(s.query, "legal-hold="):
			body = []byte(`<LegalHold><Status>ON</Status></LegalHold>`)
		case strings.Contains(s.query, "restore="):
			body = []byte(`<RestoreRequest><Days>1</Days></RestoreRequest>`)
		case strings.Contains(s.query, "policy="):
			body = []byte(`{"Version":"2012-10-17","Statement":[{"Effect":"Allow","Principal":"*","Action":"s3:GetObject","Resource":"arn:aws:s3:::rob/*"}]}`)
		}
		if s.method == "DELETE" {
			body = nil
		}
		caller, cname := root, "root"
		if i%3 == 2 {
			caller, cname = usr, "user-with-policy"
		}
		req := gw.Req{Method: s.method, Path: s.path, Query: s.query, Body: body}
		if strings.Contains(s.query, "partNumber=") && i%2 == 0 {
			req.Set("x-amz-copy-source", "rob/k1")
		}
		rsp := do(caller, req)
		names := regexpQueryNames(s.query)
		res.Count(fmt.Sprintf("raw|%s|%s|%s|%s", s.method, s.path, s.query, cname), true, "raw:method:"+s.method, fmt.Sprintf("raw:status:%dxx", rsp.Status/100), "raw:params:"+fmt.Sprint(strings.Count(names, "+")+1))
		if !g.Alive() {
			res.Fail(lib.Failure{Kind: "property", Signature: "readonly:raw:gateway-died", What: "the read-only gateway died", Input: map[string]interface{}{"stage": "raw-shapes", "method": s.method, "path": s.path, "query": s.query}, Impl: g.Log.String()})
			return nil
		}
		after := lib.TakeSnapshot(cfg.Root, cfg.VersioningDir, cfg.Sidecar)
		if d := snap.Diff(after); len(d) > 0 {
			shapeOf := "bucket"
			if strings.Count(s.path, "/") > 1 {
				shapeOf = "object"
			}
			res.Fail(lib.Failure{Kind: "property", Signature: "readonly:raw:" + s.method + ":" + shapeOf + "?" + names + ":storage-changed",
				What:  fmt.Sprintf("under --readonly the request %s %s?%s by %s (answered %d %s) changed the storage: %s", s.method, s.path, s.query, cname, rsp.Status, rsp.ErrCode(), strings.Join(d, "; ")),
				Input: map[string]interface{}{"stage": "raw-shapes", "method": s.method, "path": s.path, "query": s.query, "caller": cname}, Impl: fmt.Sprintf("%d %s", rsp.Status, rsp.ErrCode())})
			snap = after
		}
	}
	return nil
}

// regexpQueryNames: the parameter names of a query, joined with '+', ids dropped
func regexpQueryNames(q string) string {
	if q == "" {
		return "-"
	}
	var n []string
	for _, kv := range strings.Split(q, "&") {
		n = append(n, strings.SplitN(kv, "=", 2)[0])
	}
	return strings.Join(n, "+")
}
