package main

import (
	"bytes"
	"crypto/md5"
	"encoding/base64"
	"encoding/xml"
	"fmt"
	"strings"

	"verif/harness/gw"
	"verif/harness/lib"
)

type c06Case struct {
	mode      string // header | unsigned | stream-signed | stream-signed-trailer | stream-unsigned-trailer
	target    string // putObject | uploadPart
	existing  bool   // the key (part) already holds content
	corrupt   string // "" = valid upload
	algo      string
	size      int
	chunks    []int
	versioned bool
}

func (c c06Case) String() string {
	return fmt.Sprintf("%s %s existing=%v corrupt=%q algo=%s size=%d chunks=%v versioned=%v", c.target, c.mode, c.existing, c.corrupt, c.algo, c.size, c.chunks, c.versioned)
}

// corruptions that make sense for a zero-length upload (declared length 0)
var c06ZeroOK = map[string]bool{"content-md5-wrong": true, "checksum-header-wrong": true, "sha256-header-of-other-data": true, "chunk-sig-final": true,
	"trailer-checksum-wrong": true, "trailer-signature-wrong": true, "zero-declared-with-payload": true}

var c06Algos = []string{"crc32", "crc32c", "sha1", "sha256", "crc64nvme"}

// corruptions applicable to a mode
func c06Corruptions(mode string) []string {
	common := []string{"content-md5-wrong", "checksum-header-wrong"}
	switch mode {
	case "header":
		return append(common, "sha256-header-of-other-data", "body-bit-flip")
	case "unsigned":
		return common
	case "stream-signed":
		return append(common, "chunk-without-signature", "chunk-sig-first", "chunk-sig-middle", "chunk-sig-final", "chunk-data-bit-flip", "truncate-after-chunk", "truncate-mid-chunk",
			"truncate-before-final", "declared-length-larger", "declared-length-smaller", "extra-bytes-after-final", "chunk-size-larger-than-data",
			"cut-at-chunk-boundary-length-adjusted", "cut-at-chunk-boundary-length-adjusted+bit-flip", "cut-at-chunk-boundary-length-adjusted+sig-wrong",
			"cut-at-chunk-data-end-length-adjusted", "cut-at-chunk-data-end-length-adjusted+bit-flip", "cut-at-chunk-data-end-length-adjusted+sig-wrong",
			"zero-declared-with-payload")
	case "stream-signed-trailer":
		return []string{"trailer-checksum-wrong", "trailer-signature-wrong", "chunk-without-signature", "chunk-sig-first", "chunk-sig-final", "chunk-data-bit-flip", "truncate-after-chunk",
			"truncate-before-final", "truncate-in-trailer", "declared-length-larger", "declared-length-smaller",
			"cut-at-chunk-boundary-length-adjusted", "cut-at-chunk-boundary-length-adjusted+bit-flip",
			"cut-at-chunk-data-end-length-adjusted", "cut-at-chunk-data-end-length-adjusted+bit-flip"}
	case "stream-unsigned-trailer":
		return []string{"trailer-checksum-wrong", "chunk-data-bit-flip", "truncate-after-chunk", "truncate-after-size-line", "truncate-mid-chunk", "truncate-before-final",
			"truncate-in-trailer", "declared-length-larger", "declared-length-smaller", "chunk-size-larger-than-data", "missing-trailer"}
	}
	return nil
}

func flipHexAt(b []byte, i int) {
	if b[i] == '0' {
		b[i] = '1'
	} else {
		b[i] = '0'
	}
}

// apply builds the request for one case on top of a valid request.
func (c c06Case) apply(req *gw.Req, body []byte) {
	req.Auth, req.Body, req.Chunks, req.Trailer = c.mode, body, c.chunks, c.algo
	indices := func(w []byte, pat string) []int {
		var out []int
		for off := 0; ; {
			i := bytes.Index(w[off:], []byte(pat))
			if i < 0 {
				return out
			}
			out = append(out, off+i+len(pat))
			off += i + len(pat)
		}
	}
	mut := func(f func(w []byte) []byte) { req.WireMut = f }
	switch c.corrupt {
	case "":
	case "chunk-without-signature":
		// one data chunk carries an empty chunk-signature and is outside the chain; everything else is consistent
		n := len(body) / 3
		if n == 0 {
			n = len(body)
		}
		req.UnsignedTail = n
	case "content-md5-wrong":
		s := md5.Sum(append([]byte("x"), body...))
		req.Set("Content-MD5", base64.StdEncoding.EncodeToString(s[:]))
	case "checksum-header-wrong":
		req.Set("x-amz-checksum-"+c.algo, gw.ChecksumB64(c.algo, append([]byte("x"), body...)))
	case "sha256-header-of-other-data":
		req.PayloadHashOf = append([]byte("other"), body...)
	case "body-bit-flip":
		req.PayloadHashOf = append([]byte{}, body...)
		b := append([]byte{}, body...)
		if len(b) > 0 {
			b[len(b)/2] ^= 0x10
		} else {
			b = []byte("x")
		}
		req.Body = b
	case "chunk-sig-first", "chunk-sig-middle", "chunk-sig-final":
		mut(func(w []byte) []byte {
			w = append([]byte{}, w...)
			idx := indices(w, "chunk-signature=")
			if len(idx) == 0 {
				return w
			}
			k := 0
			if c.corrupt == "chunk-sig-final" {
				k = len(idx) - 1
			} else if c.corrupt == "chunk-sig-middle" {
				k = len(idx) / 2
			}
			flipHexAt(w, idx[k]+5)
			return w
		})
	case "chunk-data-bit-flip":
		mut(func(w []byte) []byte {
			w = append([]byte{}, w...)
			i := bytes.Index(w, []byte("\r\n"))
			if i >= 0 && i+2 < len(w) && len(body) > 0 {
				w[i+2] ^= 0x20
			}
			return w
		})
	case "truncate-after-chunk", "truncate-before-final":
		mut(func(w []byte) []byte {
			// cut at a chunk boundary: after the CRLF that ends the first (resp. last) data chunk
			var cuts []int
			for off := 0; ; {
				i := bytes.Index(w[off:], []byte("\r\n"))
				if i < 0 {
					break
				}
				cuts = append(cuts, off+i+2)
				off += i + 2
			}
			// chunk i occupies cuts[2i] (end of header line) .. cuts[2i+1] (end of data CRLF)
			if len(cuts) < 3 {
				return w[:len(w)/2]
			}
			if c.corrupt == "truncate-after-chunk" {
				return w[:cuts[1]]
			}
			last := bytes.LastIndex(w, []byte("\r\n0"))
			if last < 0 {
				return w[:cuts[1]]
			}
			return w[:last+2]
		})
	case "cut-at-chunk-boundary-length-adjusted", "cut-at-chunk-boundary-length-adjusted+bit-flip", "cut-at-chunk-boundary-length-adjusted+sig-wrong",
		"cut-at-chunk-data-end-length-adjusted", "cut-at-chunk-data-end-length-adjusted+bit-flip", "cut-at-chunk-data-end-length-adjusted+sig-wrong":
		// the stream stops right after the data of its first chunk (no final chunk, no trailer) and the declared
		// decoded length says exactly that many bytes: only the missing end of the signature chain (and, in the
		// variants, the flipped bit / altered signature of that last chunk) tells that the upload is not intact
		first := len(body)
		if len(c.chunks) > 0 && c.chunks[0] < first {
			first = c.chunks[0]
		}
		n := int64(first)
		req.DeclLen = &n
		variant := c.corrupt
		mut(func(w []byte) []byte {
			w = append([]byte{}, w...)
			i := bytes.Index(w, []byte("\r\n"))
			if i < 0 || i+2+first+2 > len(w) {
				return w[:len(w)/2]
			}
			if strings.HasSuffix(variant, "+bit-flip") && first > 0 {
				w[i+2+first/2] ^= 0x04
			}
			if strings.HasSuffix(variant, "+sig-wrong") {
				if idx := indices(w[:i], "chunk-signature="); len(idx) > 0 {
					flipHexAt(w, idx[0]+5)
				}
			}
			if strings.HasPrefix(variant, "cut-at-chunk-data-end") {
				return w[:i+2+first] // not even the CRLF that closes the chunk
			}
			return w[:i+2+first+2]
		})
	case "truncate-after-size-line":
		mut(func(w []byte) []byte {
			i := bytes.Index(w, []byte("\r\n"))
			return w[:i+2]
		})
	case "truncate-mid-chunk":
		mut(func(w []byte) []byte {
			i := bytes.Index(w, []byte("\r\n"))
			cut := i + 2 + c.size/3
			if cut >= len(w) {
				cut = len(w) - 1
			}
			return w[:cut]
		})
	case "truncate-in-trailer":
		mut(func(w []byte) []byte {
			i := bytes.LastIndex(w, []byte("x-amz-checksum-"))
			if i < 0 {
				return w[:len(w)-3]
			}
			return w[:i+20]
		})
	case "missing-trailer":
		mut(func(w []byte) []byte {
			i := bytes.LastIndex(w, []byte("x-amz-checksum-"))
			if i < 0 {
				return w
			}
			return append(append([]byte{}, w[:i]...), '\r', '\n')
		})
	case "extra-bytes-after-final":
		mut(func(w []byte) []byte { return append(append([]byte{}, w...), []byte("EXTRA-BYTES")...) })
	case "declared-length-larger":
		n := int64(len(body) + 1 + len(body)/2)
		req.DeclLen = &n
	case "zero-declared-with-payload":
		n := int64(0)
		req.DeclLen = &n
		if len(body) == 0 {
			req.Body = []byte("unexpected-payload")
		}
	case "declared-length-smaller":
		n := int64(len(body) / 2)
		req.DeclLen = &n
	case "chunk-size-larger-than-data":
		mut(func(w []byte) []byte {
			// raise the first chunk size field by one
			i := bytes.IndexAny(w, ";\r")
			if i <= 0 {
				return w
			}
			var n int
			fmt.Sscanf(string(w[:i]), "%x", &n)
			return append([]byte(fmt.Sprintf("%x", n+1)), w[i:]...)
		})
	case "trailer-checksum-wrong":
		mut(func(w []byte) []byte {
			w = append([]byte{}, w...)
			i := bytes.LastIndex(w, []byte("x-amz-checksum-"+c.algo+":"))
			if i >= 0 {
				j := i + len("x-amz-checksum-"+c.algo+":")
				if w[j] == 'A' {
					w[j] = 'B'
				} else {
					w[j] = 'A'
				}
			}
			return w
		})
	case "trailer-signature-wrong":
		mut(func(w []byte) []byte {
			w = append([]byte{}, w...)
			i := bytes.LastIndex(w, []byte("x-amz-trailer-signature:"))
			if i >= 0 {
				flipHexAt(w, i+len("x-amz-trailer-signature:")+7)
			}
			return w
		})
	}
}

// c06Matrix: every upload mode × integrity field × corruption, for PutObject and UploadPart, on new
// and existing keys. Oracle = the property itself: a corrupted upload is answered with an error and
// the key (part) keeps exactly its previous state, incl. its version list; a valid upload stores
// exactly the declared bytes.
func c06Matrix(a lib.Args, res *lib.Result) error {
	r := lib.NewRand(a.Seed).Fork()
	for ci, conf := range [][2]bool{{false, false}, {true, false}, {false, true}} {
		versioned, sidecar := conf[0], conf[1]
		cfg, err := mustStorage(a, fmt.Sprintf("c06-%d", ci), versioned, sidecar, nil)
		if err != nil {
			return err
		}
		g, err := gw.Start(cfg)
		if err != nil {
			return err
		}
		cr := rootCreds(cfg)
		do := func(q gw.Req) gw.Resp {
			q.Creds = cr
			if q.Auth == "" {
				q.Auth = "header"
			}
			return gw.Do(g.Addr(), q)
		}
		if rsp := do(gw.Req{Method: "PUT", Path: "/ibk"}); rsp.Status != 200 {
			g.Kill()
			return fmt.Errorf("create bucket: %d %s", rsp.Status, rsp.Body)
		}
		if versioned {
			do(gw.Req{Method: "PUT", Path: "/ibk", Query: "versioning", Body: []byte(`<VersioningConfiguration><Status>Enabled</Status></VersioningConfiguration>`)})
		}
		up := do(gw.Req{Method: "POST", Path: "/ibk/mpkey", Query: "uploads"})
		var cu struct {
			UploadId string `xml:"UploadId"`
		}
		xml.Unmarshal(up.Body, &cu)

		var cases []c06Case
		reps := 1
		if a.Thorough() {
			reps = 6
			if sidecar {
				reps = 2
			}
		}
		for rep := 0; rep < reps; rep++ {
			for _, mode := range []string{"header", "unsigned", "stream-signed", "stream-signed-trailer", "stream-unsigned-trailer"} {
				for _, target := range []string{"putObject", "uploadPart"} {
					for _, existing := range []bool{false, true} {
						for _, cor := range append([]string{""}, c06Corruptions(mode)...) {
							size := []int{0, 1, 20, 257, 5000, 70000}[r.Intn(6)]
							if cor != "" && size < 20 {
								size = 20 + r.Intn(300)
							}
							// the assertions that can be violated with an EMPTY payload: every third such case
							if c06ZeroOK[cor] && r.Intn(3) == 0 {
								size = 0
							}
							nch := 1 + r.Intn(3)
							var chunks []int
							for i := 0; i < nch; i++ {
								chunks = append(chunks, 1+r.Intn(size/nch+1))
							}
							cases = append(cases, c06Case{mode, target, existing, cor, c06Algos[r.Intn(len(c06Algos))], size, chunks, versioned})
						}
					}
				}
			}
		}
		for i, c := range cases {
			key := fmt.Sprintf("obj-%d", i)
			path, query := "/ibk/"+key, ""
			listPath, listQuery := "/ibk", "versions&prefix="+key
			if c.target == "uploadPart" {
				path, query = "/ibk/mpkey", fmt.Sprintf("uploadId=%s&partNumber=%d", cu.UploadId, 1+i%9000)
				listPath, listQuery = "/ibk/mpkey", "uploadId="+cu.UploadId
			}
			old := r.Bytes(33 + r.Intn(100))
			if c.existing {
				seedReq := gw.Req{Method: "PUT", Path: path, Query: query, Body: old}
				if c.target == "putObject" {
					seedReq.Set("Content-Type", "text/x-old")
					seedReq.Set("x-amz-meta-gen", "old")
					seedReq.Set("Cache-Control", "max-age=7")
				}
				if rsp := do(seedReq); rsp.Status != 200 {
					g.Kill()
					return fmt.Errorf("seed %s: %d %s", c, rsp.Status, rsp.Body)
				}
			}
			stateOf := func() string {
				var parts []string
				if c.target == "putObject" {
					gr := do(gw.Req{Method: "GET", Path: path})
					parts = append(parts, fmt.Sprintf("GET %d %x etag=%s ctype=%s meta=%s cc=%s", gr.Status, md5.Sum(gr.Body), gr.Headers.Get("ETag"),
						gr.Headers.Get("Content-Type"), gr.Headers.Get("X-Amz-Meta-Gen"), gr.Headers.Get("Cache-Control")))
				}
				lr := do(gw.Req{Method: "GET", Path: listPath, Query: listQuery})
				// keep only what identifies versions / parts: ids, etags, sizes, part numbers
				var keep []string
				for _, tag := range []string{"VersionId", "ETag", "Size", "PartNumber", "IsLatest"} {
					for _, seg := range strings.Split(string(lr.Body), "<"+tag+">")[1:] {
						keep = append(keep, tag+"="+strings.SplitN(seg, "<", 2)[0])
					}
				}
				if c.target == "uploadPart" {
					n := fmt.Sprintf("PartNumber=%d", 1+i%9000)
					var mine []string
					for j, k := range keep {
						if k == n {
							mine = append(mine, keep[j:min(j+1, len(keep))]...)
						}
					}
					// parts of other cases change as the run goes on: compare this part's line only
					body := string(lr.Body)
					idx := strings.Index(body, fmt.Sprintf("<PartNumber>%d</PartNumber>", 1+i%9000))
					if idx < 0 {
						return "part absent"
					}
					end := strings.Index(body[idx:], "</Part>")
					seg := body[idx : idx+end]
					// drop LastModified
					if lm := strings.Index(seg, "<LastModified>"); lm >= 0 {
						le := strings.Index(seg, "</LastModified>")
						seg = seg[:lm] + seg[le+15:]
					}
					_ = mine
					return seg
				}
				return strings.Join(append(parts, keep...), " ")
			}
			before := stateOf()
			body := r.Bytes(c.size)
			req := gw.Req{Method: "PUT", Path: path, Query: query}
			c.apply(&req, body)
			rsp := do(req)
			after := stateOf()
			cls := "valid"
			if c.corrupt != "" {
				cls = "corrupt:" + c.corrupt
			}
			res.Count(c.String(), true, "mode:"+c.mode, "target:"+c.target, cls, fmt.Sprintf("status:%dxx", rsp.Status/100))
			if i < 2 {
				res.Sample(map[string]interface{}{"case": c.String(), "status": rsp.Status, "code": rsp.ErrCode()})
			}
			in := map[string]interface{}{"case": c.String(), "mode": c.mode, "target": c.target, "existing": c.existing, "corrupt": c.corrupt, "algo": c.algo, "size": c.size, "chunks": c.chunks, "versioned": c.versioned}
			sig := fmt.Sprintf("integrity:%s:%s:%s", c.target, c.mode, c.corrupt)
			if sidecar {
				sig = "sidecar:" + sig
			}
			if !g.Alive() {
				res.Fail(lib.Failure{Kind: "property", Signature: sig + ":gateway-died", What: "gateway process died", Input: in, Impl: g.Log.String()})
				break
			}
			if c.corrupt == "" {
				if rsp.Status != 200 {
					res.Fail(lib.Failure{Kind: "property", Signature: sig + "valid-upload-refused", What: fmt.Sprintf("a valid upload was refused: %d %s %v", rsp.Status, rsp.ErrCode(), rsp.Err), Input: in, Impl: string(rsp.Body)})
					continue
				}
				if c.target == "putObject" {
					gr := do(gw.Req{Method: "GET", Path: path})
					if gr.Status != 200 || !bytes.Equal(gr.Body, body) {
						res.Fail(lib.Failure{Kind: "property", Signature: sig + "stored-differs", What: fmt.Sprintf("stored object differs from the bytes sent: status %d, %d bytes stored for %d sent", gr.Status, len(gr.Body), len(body)), Input: in})
					}
				}
				continue
			}
			if rsp.Status/100 == 2 {
				res.Fail(lib.Failure{Kind: "property", Signature: sig + ":accepted", What: fmt.Sprintf("upload with a violated integrity assertion was acknowledged with %d", rsp.Status), Input: in, Impl: after})
			}
			if before != after {
				res.Fail(lib.Failure{Kind: "property", Signature: sig + ":state-changed", What: "a refused / corrupted upload changed the state of the key: before {" + before + "} after {" + after + "}", Input: in, Impl: fmt.Sprintf("%d %s", rsp.Status, rsp.ErrCode())})
			}
		}
		g.Kill()
	}
	return nil
}

func init() {
	checks["c06"] = checkDef{"C06",
		"matrix: upload mode (signed payload, UNSIGNED-PAYLOAD, signed / signed+trailer / unsigned+trailer aws-chunked) × target (PutObject, UploadPart) × key state (new, existing) × integrity field/corruption (Content-MD5, x-amz-content-sha256, x-amz-checksum-* header in five algorithms, chunk signature first/middle/final, trailer checksum, trailer signature, bit flip in chunk data, truncation after a chunk / after a size line / mid chunk / before the final chunk / inside the trailer, missing trailer, extra bytes, declared decoded length larger/smaller, chunk size larger than its data) plus the valid upload of each mode, on an unversioned and a versioned bucket; refused uploads onto keys of a bucket with versioning Suspended (null version archived / null version current); valid uploads of every mode sent concurrently by 8 clients with chunks larger than the copy buffer. Oracle: corrupted ⇒ non-2xx and GET/ETag/version list (resp. the part's ListParts entry) byte-identical to before; valid ⇒ 200 and stored bytes = sent bytes. All cases non-trivial; distinct by case description.",
		[]checkFn{c06Matrix, c06Suspended, c06Concurrent}}
}
