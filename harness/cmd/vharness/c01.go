package main

import (
	"strings"

	"verif/harness/lib"
	"verif/harness/prog"
)

var c01Encodings = []string{"header", "unsigned", "stream-signed", "stream-signed-trailer", "stream-unsigned-trailer", "presign"}

// c01Program: uploads in every payload encoding, copies with COPY/REPLACE, then reads of every
// kind; all by callers that are allowed (the point is the data path, not access control).
func c01Program(g *prog.Gen, idx int) []*prog.Op {
	g.Encodings = c01Encodings
	b := g.Buckets[0]
	ops := []*prog.Op{{Kind: "createBucket", Caller: "root", B: b, Valid: true}}
	keys := []string{"k1", "dir/k2", "deep/er/and/deeper/k3", "a b+c%&=d", "ünï/cødé", "semi;colon,comma", "q?mark#hash", "tilde~!@$^(){}[]'"}
	long := ""
	for i := 0; i < 255; i++ {
		long += string(rune('a' + i%26))
	}
	keys = append(keys, long, "p/"+long)
	// each program works on a few keys only, so that overwrites, copies onto existing objects and copies of
	// an object onto itself (metadata rewritten in place) are frequent
	g.R.Shuffle(len(keys), func(i, j int) { keys[i], keys[j] = keys[j], keys[i] })
	keys = keys[:3+g.R.Intn(3)]
	n := 6 + g.R.Intn(10)
	mpDone := map[string]bool{}
	isMP := map[string]bool{} // the key (probably) holds an object assembled from parts
	for i := 0; i < n; i++ {
		k := keys[g.R.Intn(len(keys))]
		caller := []string{"root", "u:adm1"}[g.R.Intn(2)]
		switch g.R.Intn(10) {
		case 0, 1, 2, 3, 4:
			ops = append(ops, &prog.Op{Kind: "putObject", Caller: caller, B: b, K: k, Put: g.PutSpec(), Valid: true})
			isMP[k] = false
		case 5, 6:
			o := &prog.Op{Kind: "copyObject", Caller: caller, SB: b, SK: keys[g.R.Intn(len(keys))], B: b, K: k, Valid: true}
			self := g.R.Chance(35)
			if self {
				o.SK = k
			}
			if isMP[o.SK] {
				// a copy of a multipart object gets the MD5 of its content as ETag (as S3 does), which the model
				// cannot compute: such copies are left out of the comparison
				ops = append(ops, &prog.Op{Kind: "headObject", Caller: caller, B: b, K: o.SK})
				break
			}
			if self || g.R.Chance(50) {
				o.Put = g.PutSpec()
				o.Put.Data = nil
				o.Put.Encoding = ""
			}
			ops = append(ops, o)
		case 7:
			ops = append(ops, &prog.Op{Kind: "putObjectTagging", Caller: caller, B: b, K: k, Tags: g.KVs([]string{"t1", "t2", "env"}, 3)})
		default:
			ops = append(ops, &prog.Op{Kind: "deleteObject", Caller: caller, B: b, K: k})
		}
		// now and then the object arrives as a multipart upload: its content headers, user metadata and tags are
		// given at the initiation and must come back with the assembled bytes (one upload per key and program:
		// upload ids are resolved by key); some are created with a FULL_OBJECT checksum, some have two parts
		if !mpDone[k] && g.R.Chance(22) {
			mpDone[k] = true
			isMP[k] = true
			ps := g.PutSpec()
			ps.Data, ps.Encoding = nil, ""
			if g.R.Chance(40) {
				ps.Ck = []string{"crc32", "crc32c", "crc64nvme"}[g.R.Intn(3)]
			}
			ops = append(ops, &prog.Op{Kind: "createUpload", Caller: caller, B: b, K: k, Put: ps, Valid: true})
			var refs []prog.PartRef
			sizes := []int{1 + g.R.Intn(3000)}
			if idx%5 == 0 {
				sizes = []int{5*1024*1024 + g.R.Intn(3), 1 + g.R.Intn(3000)}
			}
			for pn, sz := range sizes {
				d := []prog.Seg{{Seed: 4000 + 10*idx + pn, Off: g.R.Intn(9), Len: sz}}
				ops = append(ops, &prog.Op{Kind: "uploadPart", Caller: caller, B: b, K: k, UpRef: true, Num: pn + 1, Data: d})
				// a part's ETag is answered (and expected back) without quotes
				refs = append(refs, prog.PartRef{Num: pn + 1, ETag: strings.Trim((&prog.PutSpec{Data: d}).ETag(), "\"")})
			}
			ops = append(ops, &prog.Op{Kind: "completeUpload", Caller: caller, B: b, K: k, UpRef: true, Parts: refs})
			ops = append(ops, &prog.Op{Kind: "getObjectTagging", Caller: caller, B: b, K: k})
		}
		k2 := keys[g.R.Intn(len(keys))]
		follow := []string{"getObject", "headObject", "getObjectTagging"}[g.R.Intn(3)]
		if ops[len(ops)-1].Kind == "copyObject" && g.R.Chance(50) {
			follow = "getObjectTagging" // the tags travel with a copy (or are replaced): read them back
		}
		ops = append(ops, &prog.Op{Kind: follow, Caller: caller, B: b, K: k})
		ops = append(ops, &prog.Op{Kind: []string{"getObject", "headObject"}[g.R.Intn(2)], Caller: caller, B: b, K: k2})
	}
	for _, k := range keys {
		ops = append(ops, &prog.Op{Kind: "getObject", Caller: "root", B: b, K: k})
	}
	return ops
}

func c01Classify(s *prog.Step, class string) (string, string) {
	if class == "fine" {
		return "correspondence", s.Op.Kind + ":error-code"
	}
	enc := ""
	if s.Op.Put != nil && s.Op.Kind == "putObject" {
		enc = ":" + s.Op.Put.Encoding
	}
	return "property", "readback:" + s.Op.Kind + enc + ":" + class
}

// sidecar families: same, with the metadata store named in the signature
func c01ClassifySidecar(s *prog.Step, class string) (string, string) {
	k, sig := c01Classify(s, class)
	return k, "sidecar:" + sig
}

func init() {
	fam := func(name string, versioning, sidecar, noOTmp bool, nGw int, off int64, q, t int) checkFn {
		return func(a lib.Args, res *lib.Result) error {
			return runPrograms(a, res, progOpts{name: name, prop: "C01", programs: tierN(a, q, t), gen: c01Program, versioning: versioning,
				sidecar: sidecar, noOTmp: noOTmp, nGateways: nGw, seedOff: off,
				classify: map[bool]func(*prog.Step, string) (string, string){false: c01Classify, true: c01ClassifySidecar}[sidecar]})
		}
	}
	checks["c01"] = checkDef{"C01",
		"programs of PutObject in six payload encodings (signed payload, UNSIGNED-PAYLOAD, signed / signed+trailer / unsigned+trailer aws-chunked with five checksum algorithms, presigned PUT) with random bodies (sizes 0…70000 incl. 32 KiB±1), content headers, user metadata and tags; CopyObject COPY/REPLACE; multipart uploads (headers, metadata and tags given at the initiation; one or two parts; with and without a FULL_OBJECT checksum); tagging; deletes; each followed by GET/HEAD/GetObjectTagging; keys with spaces, URL-reserved characters, UTF-8, 255-byte segments, deep nesting; requests spread round-robin over 3 gateway processes on one storage; storage configurations xattr/sidecar × O_TMPFILE/named temp × versioning dir on/off. Every answer compared with Model.Gw.step. Non-trivial = program reaches an existing bucket; distinct by op list.",
		[]checkFn{
			fam("xattr-otmp", false, false, false, 3, 101, 80, 2500),
			fam("xattr-namedtmp", false, false, true, 2, 102, 30, 1000),
			fam("sidecar-otmp", false, true, false, 2, 103, 30, 1000),
			fam("sidecar-namedtmp-vdir", true, true, true, 2, 104, 25, 1000),
			fam("xattr-otmp-vdir", true, false, false, 3, 105, 30, 1000),
		}}
}
