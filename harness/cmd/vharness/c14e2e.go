package main

// C14 end to end: "documents that are not valid policies are refused when put and leave the
// previous policy in force" — PUT ?policy / GET ?policy against a real gateway process.

import (
	"bytes"
	"fmt"
	"strings"

	"verif/harness/gw"
	"verif/harness/lib"
)

func c14E2E(a lib.Args, res *lib.Result) error {
	if a.ReplayInput() != nil && a.ReplayInput()["check"] != "put" {
		return nil
	}
	n := 150
	if a.Thorough() {
		n = 2500
	}
	cfg, err := mustStorage(a, "c14", false, false, nil)
	if err != nil {
		return err
	}
	g, err := gw.Start(cfg)
	if err != nil {
		return err
	}
	defer g.Kill()
	cr := rootCreds(cfg)
	buckets := []string{"bucket", "my-bucket"}
	for _, b := range buckets {
		if rsp := gw.Do(g.Addr(), gw.Req{Method: "PUT", Path: "/" + b, Auth: "header", Creds: cr}); rsp.Status != 200 {
			return fmt.Errorf("create bucket: %d %s %v", rsp.Status, rsp.Body, rsp.Err)
		}
	}
	prev := map[string][]byte{}
	put := func(b string, doc []byte) gw.Resp {
		return gw.Do(g.Addr(), gw.Req{Method: "PUT", Path: "/" + b, Query: "policy=", Body: doc, Auth: "header", Creds: cr})
	}
	get := func(b string) gw.Resp {
		return gw.Do(g.Addr(), gw.Req{Method: "GET", Path: "/" + b, Query: "policy=", Auth: "header", Creds: cr})
	}
	for _, b := range buckets {
		p1 := []byte(`{"Statement":[{"Effect":"Allow","Principal":"*","Action":"s3:GetObject","Resource":"arn:aws:s3:::` + b + `/*"}]}`)
		if rsp := put(b, p1); rsp.Status/100 != 2 {
			return fmt.Errorf("put baseline policy: %d %s %v", rsp.Status, rsp.Body, rsp.Err)
		}
		if rsp := get(b); rsp.Status != 200 || !bytes.Equal(rsp.Body, p1) {
			return fmt.Errorf("baseline policy does not read back: %d %q", rsp.Status, rsp.Body)
		}
		prev[b] = p1
	}
	r := lib.NewRandStream(a.Seed, 514)
	accts := []string{cfg.Access}
	type obs struct {
		g      c14GenDoc
		text   string
		status int
		code   string
		after  []byte
		getSt  int
		before []byte
	}
	var all []obs
	var lines []string
	var gens []c14GenDoc
	if in := a.ReplayInput(); in != nil {
		gd, err := c14GenFromReplay(in)
		if err != nil {
			return err
		}
		gens = append(gens, gd)
	} else {
		for _, c := range c14Corpus() {
			gens = append(gens, c)
		}
		for i := 0; i < n; i++ {
			gens = append(gens, c14Gen(r, buckets, accts))
		}
	}
	for _, gd := range gens {
		text := gd.doc.json()
		o := obs{g: gd, text: text, before: prev[gd.bucket]}
		rsp := put(gd.bucket, []byte(text))
		if rsp.Err != nil {
			return fmt.Errorf("put policy: %v", rsp.Err)
		}
		o.status, o.code = rsp.Status, rsp.ErrCode()
		gr := get(gd.bucket)
		o.getSt, o.after = gr.Status, gr.Body
		if gr.Status == 200 {
			prev[gd.bucket] = gr.Body
		}
		all = append(all, o)
		lines = append(lines, fmt.Sprintf("policy validate %s %s %s", lib.HexS(gd.bucket), c14List(accts), gd.doc.enc()))
		res.Count("p|"+gd.bucket+"|"+text, true, "put:"+gd.class, fmt.Sprintf("put:status=%dxx", rsp.Status/100))
	}
	out, err := a.Driver.Ask(lines)
	if err != nil {
		return err
	}
	for i, o := range all {
		f := strings.Fields(out[i])
		if len(f) != 2 {
			return fmt.Errorf("policy validate: bad answer %q", out[i])
		}
		mres, verdict := f[0], f[1]
		in := map[string]interface{}{"check": "put", "document": o.text, "bucket": o.g.bucket, "previous": string(o.before),
			"gen": map[string]interface{}{"Doc": o.g.doc, "Bucket": o.g.bucket, "Class": o.g.class, "NF": o.g.nfaults, "Judge": o.g.judge}}
		impl := fmt.Sprintf("PUT ?policy -> %d %s; GET ?policy -> %d %q", o.status, o.code, o.getSt, o.after)
		model := "model=" + mres + " spec=" + verdict
		if i < 2 {
			res.Sample(map[string]interface{}{"document": o.text, "impl": impl, "model": model})
		}
		switch {
		case o.status/100 == 5 || o.getSt/100 == 5:
			res.Fail(lib.Failure{Kind: "property", Signature: "put:5xx", What: "PUT/GET ?policy answered 5xx", Input: in, Impl: impl, Model: model})
		case o.status/100 == 4:
			// refused: the previous policy must still be in force, byte for byte
			if o.getSt != 200 || !bytes.Equal(o.after, o.before) {
				res.Fail(lib.Failure{Kind: "property", Signature: "put:refused-put-changed-policy", What: "a refused PUT ?policy changed the stored policy", Input: in, Impl: impl, Model: model})
			}
			if o.g.judge && verdict == "accept" {
				res.Fail(lib.Failure{Kind: "property", Signature: "validate:refuses-wellformed", What: "a well-formed policy for the bucket is refused", Input: in, Impl: impl, Model: model})
			}
			if o.g.doc.Kind == "d" && mres == "ok" {
				res.Fail(lib.Failure{Kind: "correspondence", Signature: "PutBucketPolicy", What: "PUT ?policy refused a document Model.Policy.validateDocument accepts", Input: in, Impl: impl, Model: model})
			}
		case o.status/100 == 2:
			if o.getSt != 200 || !bytes.Equal(o.after, []byte(o.text)) {
				res.Fail(lib.Failure{Kind: "property", Signature: "put:accepted-put-not-stored", What: "an accepted PUT ?policy does not read back", Input: in, Impl: impl, Model: model})
			}
			if o.g.judge && verdict == "refuse" {
				sig, what := "validate:accepts-illformed", "a document that is not a valid policy for the bucket is accepted and stored"
				switch {
				case o.g.hasMissing():
					sig, what = "validate:missing-field", "a statement without Principal, Action or Resource is accepted and stored"
				case o.g.hasPrefixFault():
					sig, what = "validate:resource-prefix-of-other-bucket", "a resource whose bucket component merely starts with the bucket name is accepted and stored"
				}
				res.Fail(lib.Failure{Kind: "property", Signature: sig, What: what, Input: in, Impl: impl, Model: model})
			}
			if o.g.doc.Kind == "d" && mres != "ok" {
				res.Fail(lib.Failure{Kind: "correspondence", Signature: "PutBucketPolicy", What: "PUT ?policy accepted a document Model.Policy.validateDocument refuses", Input: in, Impl: impl, Model: model})
			}
		}
	}
	return nil
}
