package main

import (
	"bytes"
	"fmt"
	"os"
	"path/filepath"
	"strconv"
	"strings"

	"verif/harness/gw"
	"verif/harness/lib"
)

func mustStorage(a lib.Args, name string, versioning, sidecar bool, mod func(*gw.Config)) (gw.Config, error) {
	cfg := gw.Config{Bin: a.GwBin, Work: filepath.Join(a.Work, name)}
	if mod != nil {
		mod(&cfg)
	}
	os.MkdirAll(cfg.Work, 0o755)
	return gw.NewStorage(cfg, versioning, sidecar)
}

func rootCreds(cfg gw.Config) gw.Creds { return gw.Creds{Access: cfg.Access, Secret: cfg.Secret} }

// c13E2E: GET with generated Range headers against a real gateway; the observation (status,
// body bytes, Content-Length, Content-Range) is compared with Model.Range.respond and judged by
// the executable oracle Spec.Range.admissibleB.
func c13E2E(a lib.Args, res *lib.Result) error {
	n := 300
	if a.Thorough() {
		n = 5000
	}
	cfg, err := mustStorage(a, "c13", false, false, nil)
	if err != nil {
		return err
	}
	g, err := gw.Start(cfg)
	if err != nil {
		return err
	}
	defer g.Kill()
	cr := rootCreds(cfg)
	r := lib.NewRand(a.Seed + 13)
	if rsp := gw.Do(g.Addr(), gw.Req{Method: "PUT", Path: "/rng", Auth: "header", Creds: cr}); rsp.Status != 200 {
		return fmt.Errorf("create bucket: %d %s %v", rsp.Status, rsp.Body, rsp.Err)
	}
	sizes := []int{0, 1, 2, 10, 1000}
	objs := map[int][]byte{}
	for _, s := range sizes {
		objs[s] = r.Bytes(s)
		rsp := gw.Do(g.Addr(), gw.Req{Method: "PUT", Path: "/rng/o" + strconv.Itoa(s), Body: objs[s], Auth: "header", Creds: cr})
		if rsp.Status != 200 {
			return fmt.Errorf("put object: %d %s %v", rsp.Status, rsp.Body, rsp.Err)
		}
	}
	type cs struct {
		size int
		hdr  string
		obs  string
		body []byte
		st   int
	}
	var cases []cs
	var lines []string
	corpus := [][2]string{{"10", "bytes=2-4"}, {"10", "garbage"}, {"10", "bytes=-3"}, {"10", "bytes=5-2"}, {"10", "bytes=1-2,4-5"}, {"10", "bytes=10-"}, {"0", "bytes=0-"}, {"10", ""}}
	type inp struct {
		size       int
		hdr, class string
	}
	var inputs []inp
	if in := a.ReplayInput(); in != nil {
		sz, _ := in["size"].(float64)
		hdr, _ := in["range"].(string)
		if _, ok := objs[int(sz)]; !ok {
			return fmt.Errorf("replay: no e2e object of size %v", sz)
		}
		inputs = []inp{{int(sz), hdr, "replay"}}
	} else {
		for _, c := range corpus {
			sz, _ := strconv.Atoi(c[0])
			inputs = append(inputs, inp{sz, c[1], "corpus"})
		}
		for i := 0; i < n; i++ {
			size := sizes[r.Intn(len(sizes))]
			hdr, class := c13Header(r, int64(size))
			inputs = append(inputs, inp{size, hdr, class})
		}
	}
	for _, in := range inputs {
		size, hdr, class := in.size, in.hdr, in.class
		if !httpHeaderValue(hdr) {
			// not expressible as an HTTP header value (control bytes, non-ASCII, outer whitespace):
			// fasthttp answers 400 before any S3 code runs
			continue
		}
		req := gw.Req{Method: "GET", Path: "/rng/o" + strconv.Itoa(size), Auth: "header", Creds: cr}
		if hdr != "" {
			req.Headers = append(req.Headers, gw.Header{K: "Range", V: hdr})
		}
		rsp := gw.Do(g.Addr(), req)
		if rsp.Err != nil {
			// no complete HTTP answer (connection dropped, body shorter than its Content-Length): the
			// property demands a well-formed answer whose body matches its headers
			res.Fail(lib.Failure{Kind: "property", Signature: "GetObject-range:" + c13Class(hdr, size) + ":incomplete-answer",
				What:  fmt.Sprintf("GET did not return a complete HTTP answer: %v (status %d, %d body bytes, Content-Length %q, Content-Range %q)", rsp.Err, rsp.Status, len(rsp.Body), rsp.Headers.Get("Content-Length"), rsp.Headers.Get("Content-Range")),
				Input: map[string]interface{}{"size": size, "range": hdr, "request": "GET /rng/o" + strconv.Itoa(size)}, Impl: fmt.Sprintf("%d err=%v", rsp.Status, rsp.Err)})
			if !g.Alive() {
				return fmt.Errorf("gateway died on GET %q", hdr)
			}
			continue
		}
		obj := objs[size]
		off, blen := 0, len(rsp.Body)
		if rsp.Status == 416 {
			blen = 0
		} else if blen > 0 {
			off = bytes.Index(obj, rsp.Body)
		}
		clen := rsp.Headers.Get("Content-Length")
		if rsp.Status == 416 {
			clen = "0"
		}
		crs := "-"
		if v := rsp.Headers.Get("Content-Range"); v != "" {
			var x, y, z int64
			if _, err := fmt.Sscanf(v, "bytes %d-%d/%d", &x, &y, &z); err == nil {
				crs = fmt.Sprintf("%d:%d:%d", x, y, z)
				// a short body may occur at several offsets of the object: prefer the offset the
				// response itself claims, if the bytes there are the body
				if rsp.Status != 416 && x >= 0 && int(x)+blen <= len(obj) && bytes.Equal(obj[x:int(x)+blen], rsp.Body) {
					off = int(x)
				}
			} else {
				crs = "unparsable:" + strings.ReplaceAll(v, " ", "_")
			}
		}
		obs := fmt.Sprintf("%d %d %d %s %s", rsp.Status, off, blen, clen, crs)
		cases = append(cases, cs{size, hdr, obs, rsp.Body, rsp.Status})
		lines = append(lines, fmt.Sprintf("range model %d %s", size, lib.HexS(hdr)))
		lines = append(lines, fmt.Sprintf("range oracle %d %s %s", size, lib.HexS(hdr), obs))
		res.Count(fmt.Sprintf("e2e|%d|%s", size, hdr), strings.HasPrefix(hdr, "bytes="), "e2e:"+class, fmt.Sprintf("e2e:status=%d", rsp.Status))
	}
	out, err := a.Driver.Ask(lines)
	if err != nil {
		return err
	}
	for i, c := range cases {
		model, verdict := out[2*i], out[2*i+1]
		if i < 3 {
			res.Sample(map[string]interface{}{"e2e": true, "size": c.size, "range": c.hdr, "impl(status,off,len,clen,cr)": c.obs, "model": model})
		}
		in := map[string]interface{}{"size": c.size, "range": c.hdr, "request": "GET /rng/o" + strconv.Itoa(c.size)}
		if verdict != "ok" {
			res.Fail(lib.Failure{Kind: "property", Signature: "GetObject-range:" + c13Class(c.hdr, c.size), What: "GET answer not admitted by Spec.Range (status/body/Content-Length/Content-Range)",
				Input: in, Impl: c.obs, Model: model})
		} else if model != c.obs {
			res.Fail(lib.Failure{Kind: "correspondence", Signature: "GetObject-range", What: "GET answer differs from Model.Range.respond (oracle still admits it)",
				Input: in, Impl: c.obs, Model: model})
		}
	}
	return nil
}

// c13Class names the input class of a failing header (signature of a finding).
func c13Class(hdr string, size int) string {
	switch {
	case hdr == "":
		return "absent"
	case !strings.HasPrefix(hdr, "bytes="):
		return "other-unit-or-garbage"
	case strings.Contains(hdr, ","):
		return "multi-range"
	case strings.HasPrefix(hdr, "bytes=-"):
		return "suffix"
	}
	var x, y int64
	if n, _ := fmt.Sscanf(hdr, "bytes=%d-%d", &x, &y); n == 2 && y < x {
		return "reversed"
	}
	return "other"
}

func httpHeaderValue(v string) bool {
	if strings.TrimSpace(v) != v {
		return false
	}
	for i := 0; i < len(v); i++ {
		if (v[i] < 0x20 && v[i] != '\t') || v[i] >= 0x7f {
			return false
		}
	}
	return true
}
