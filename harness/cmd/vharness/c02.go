package main

import (
	"bytes"
	"fmt"
	"strings"

	"verif/harness/gw"
	"verif/harness/lib"
	"verif/harness/prog"
)

const c02Canary = "CANARY-7f3a9b-STORED-OBJECT-DATA-must-never-leave-without-a-signature"

var c02Bodies = map[string]string{
	"policy":            `{"Version":"2012-10-17","Statement":[{"Effect":"Allow","Principal":"*","Action":"s3:*","Resource":["arn:aws:s3:::cbk","arn:aws:s3:::cbk/*"]}]}`,
	"tagging":           `<Tagging><TagSet><Tag><Key>inj</Key><Value>ected</Value></Tag></TagSet></Tagging>`,
	"versioning":        `<VersioningConfiguration><Status>Enabled</Status></VersioningConfiguration>`,
	"ownershipControls": `<OwnershipControls><Rule><ObjectOwnership>ObjectWriter</ObjectOwnership></Rule></OwnershipControls>`,
	"object-lock":       `<ObjectLockConfiguration><ObjectLockEnabled>Enabled</ObjectLockEnabled></ObjectLockConfiguration>`,
	"legal-hold":        `<LegalHold><Status>ON</Status></LegalHold>`,
	"retention":         `<Retention><Mode>GOVERNANCE</Mode><RetainUntilDate>2099-01-01T00:00:00Z</RetainUntilDate></Retention>`,
	"delete":            `<Delete><Object><Key>k</Key></Object></Delete>`,
	"acl":               ``,
	"cors":              ``,
	"":                  `injected-object-body`,
}

var c02Subresources = []string{"", "acl", "policy", "tagging", "versioning", "object-lock", "ownershipControls", "cors", "uploads",
	"uploadId=UPID", "uploadId=UPID&partNumber=1", "retention", "legal-hold", "versions", "delete", "restore", "attributes", "versionId=null", "list-type=2"}

var c02Paths = []string{"/", "/cbk", "/cbk/", "/cbk/k", "/cbk/k/", "/cbk/k/x", "/cbk//k", "/newb", "/newb/", "/cbk/dir/", "/cbk/newkey"}
var c02AdminPaths = []string{"/create-user", "/delete-user?access=usr1", "/update-user?access=usr1", "/change-bucket-owner?bucket=cbk&owner=usr1", "/list-users", "/list-buckets"}
var c02Methods = []string{"GET", "PUT", "POST", "DELETE", "HEAD"}
var c02Defects = append(append([]string{}, prog.Defects...), "expired-presign", "modified-presign", "dup-query-first-presign")

type c02Case struct {
	method, path, sub, defect, body string
	admin                           bool
}

func (c c02Case) String() string {
	return fmt.Sprintf("%s %s?%s defect=%s body=%s admin=%v", c.method, c.path, c.sub, c.defect, c.body, c.admin)
}

// c02Shapes: every endpoint shape with every kind of credential defect. Oracle (the property
// itself, no model needed): the answer is 4xx, nothing on disk changed (byte-exact snapshot of
// the storage, versioning, sidecar and IAM directories), and no stored data is in the answer.
func c02Shapes(a lib.Args, res *lib.Result) error {
	cfg, err := mustStorage(a, "c02", true, false, nil)
	if err != nil {
		return err
	}
	g, err := gw.Start(cfg)
	if err != nil {
		return err
	}
	defer g.Kill()
	w := &prog.World{Gws: []*gw.Gateway{g}, Root: rootCreds(cfg)}
	for _, acc := range prog.DefaultAccts {
		if err := w.AdminCreateUser(acc); err != nil {
			return err
		}
	}
	root := rootCreds(cfg)
	must := func(r gw.Resp, what string) error {
		if r.Status/100 != 2 {
			return fmt.Errorf("setup %s: %d %s %v", what, r.Status, r.Body, r.Err)
		}
		return nil
	}
	if err := must(gw.Do(g.Addr(), gw.Req{Method: "PUT", Path: "/cbk", Auth: "header", Creds: root, Headers: []gw.Header{{K: "x-amz-object-ownership", V: "BucketOwnerPreferred"}}}), "bucket"); err != nil {
		return err
	}
	for _, k := range []string{"k", "dir/inner"} {
		if err := must(gw.Do(g.Addr(), gw.Req{Method: "PUT", Path: "/cbk/" + k, Body: []byte(c02Canary), Auth: "header", Creds: root}), "object"); err != nil {
			return err
		}
	}
	if err := must(gw.Do(g.Addr(), gw.Req{Method: "PUT", Path: "/cbk/dir/", Auth: "header", Creds: root}), "dir object"); err != nil {
		return err
	}
	up := gw.Do(g.Addr(), gw.Req{Method: "POST", Path: "/cbk/mp", Query: "uploads", Auth: "header", Creds: root})
	if err := must(up, "create upload"); err != nil {
		return err
	}
	upid := ""
	if i := bytes.Index(up.Body, []byte("<UploadId>")); i >= 0 {
		j := bytes.Index(up.Body, []byte("</UploadId>"))
		upid = string(up.Body[i+10 : j])
	}
	if err := must(gw.Do(g.Addr(), gw.Req{Method: "PUT", Path: "/cbk/mp", Query: "uploadId=" + upid + "&partNumber=1", Body: []byte(c02Canary), Auth: "header", Creds: root}), "part"); err != nil {
		return err
	}

	r := lib.NewRand(a.Seed + 2)
	var cases []c02Case
	bodies := []string{"none", "small", "chunked"}
	for _, m := range c02Methods {
		for _, p := range c02Paths {
			for _, sub := range c02Subresources {
				if a.Thorough() {
					for _, d := range c02Defects {
						cases = append(cases, c02Case{m, p, sub, d, bodies[r.Intn(3)], false})
					}
					continue
				}
				n := 1
				if m == "PUT" || m == "POST" || m == "DELETE" {
					n = 3
				}
				for ; n > 0; n-- {
					cases = append(cases, c02Case{m, p, sub, c02Defects[r.Intn(len(c02Defects))], bodies[r.Intn(3)], false})
				}
			}
		}
	}
	for _, p := range c02AdminPaths {
		for _, m := range []string{"PATCH", "GET", "PUT", "POST", "DELETE"} {
			for _, d := range c02Defects {
				cases = append(cases, c02Case{m, p, "", d, "small", true})
				if m == "PATCH" {
					cases = append(cases, c02Case{m, p, "", d, "small", false}) // admin route on the S3 port
				}
			}
		}
	}
	// corpus: shapes that executed with a bogus signature on the tree as first examined
	corpus := []c02Case{{"PUT", "/cbk/", "policy", "bad-signature", "small", false}, {"PUT", "/newb/", "", "bad-signature", "none", false},
		{"PUT", "/cbk/dir2/", "", "bad-signature", "none", false}, {"PUT", "/cbk/k", "legal-hold", "bad-signature", "small", false},
		{"PUT", "/cbk/k", "retention", "wrong-secret", "small", false}, {"PUT", "/cbk/", "tagging", "bad-signature", "small", false}}
	cases = append(corpus, cases...)

	dirs := []string{cfg.Root, cfg.VersioningDir, cfg.IAMDir}
	snap := lib.TakeSnapshot(dirs...)
	for i, c := range cases {
		req := gw.Req{Method: c.method, Path: c.path, Auth: "header", Creds: root}
		sub := strings.ReplaceAll(c.sub, "UPID", upid)
		if j := strings.Index(c.path, "?"); j >= 0 {
			req.Path, req.Query = c.path[:j], c.path[j+1:]
		} else {
			req.Query = sub
		}
		key := strings.SplitN(sub, "=", 2)[0]
		body := c02Bodies[key]
		if _, ok := c02Bodies[key]; !ok {
			body = c02Bodies[""]
		}
		if c.admin || strings.HasPrefix(c.path, "/create-user") {
			body = "<Account><Access>evil</Access><Secret>evilsecret</Secret><Role>admin</Role></Account>"
		}
		if (c.defect == "altered-payload" || c.defect == "te-chunked-altered-payload") && c.body == "chunked" {
			// only a payload whose hash is declared in a signed header is covered by the
			// signature of a request whose handler ignores the body
			c.body = "small"
		}
		switch c.body {
		case "small":
			req.Body = []byte(body)
		case "chunked":
			req.Body = []byte(body)
			req.Auth = []string{"stream-signed", "stream-unsigned-trailer", "stream-signed-trailer", "unsigned"}[r.Intn(4)]
			req.Trailer = "crc32"
			req.Chunks = []int{7}
		}
		if key == "acl" {
			req.Set("x-amz-acl", "public-read-write")
		}
		if c.method == "PUT" && key == "" && r.Chance(20) {
			req.Set("x-amz-copy-source", "cbk/k")
		}
		switch c.defect {
		case "wrong-secret":
			req.Creds.Secret += "x"
		case "unknown-key":
			req.Creds.Access = "nosuchaccesskey"
		case "old-date":
			req.TimeOffset = -3600
		case "future-date":
			req.TimeOffset = 3600
		case "wrong-region":
			req.Region = "eu-west-7"
		case "expired-presign":
			req.Auth, req.Expires, req.TimeOffset = "presign", 60, -600
		case "modified-presign":
			req.Auth, req.Expires, req.Defect = "presign", 300, "bad-signature"
		case "dup-query-first-presign":
			req.Auth, req.Expires, req.Defect = "presign", 300, "dup-query-first"
		default:
			req.Defect = c.defect
		}
		if c.defect == "missing-auth" {
			req.Auth = "none"
		}
		addr := g.Addr()
		if c.admin {
			addr = g.AdminAddr()
		}
		rsp := gw.Do(addr, req)
		cls := fmt.Sprintf("status:%dxx", rsp.Status/100)
		if rsp.Err != nil && rsp.Status == 0 {
			cls = "status:transport-error"
		}
		res.Count(c.String(), true, "method:"+c.method, "defect:"+c.defect, "body:"+c.body, cls)
		if i < 3 {
			res.Sample(map[string]interface{}{"request": c.String(), "status": rsp.Status, "code": rsp.ErrCode()})
		}
		in := map[string]interface{}{"request": c.String(), "method": c.method, "path": req.Path, "query": req.Query, "defect": c.defect, "body": c.body, "admin": c.admin}
		sig := fmt.Sprintf("unauth:%s %s?%s", c.method, c02PathClass(c.path), key)
		if !g.Alive() {
			res.Fail(lib.Failure{Kind: "property", Signature: sig + ":gateway-died", What: "gateway process died on an unauthenticated request", Input: in, Impl: g.Log.String()})
			return nil
		}
		if rsp.Status/100 != 4 {
			what := fmt.Sprintf("request without a valid signature answered %d (%s), not 4xx", rsp.Status, rsp.ErrCode())
			if rsp.Err != nil && rsp.Status == 0 {
				what = "no HTTP answer: " + rsp.Err.Error()
			}
			res.Fail(lib.Failure{Kind: "property", Signature: sig + ":not-4xx", What: what, Input: in, Impl: fmt.Sprintf("%d %s", rsp.Status, rsp.ErrCode())})
		}
		if bytes.Contains(rsp.Body, []byte("CANARY-7f3a9b")) {
			res.Fail(lib.Failure{Kind: "property", Signature: sig + ":disclosure", What: "stored object data returned without a valid signature", Input: in, Impl: fmt.Sprintf("%d", rsp.Status)})
		}
		after := lib.TakeSnapshot(dirs...)
		if d := snap.Diff(after); len(d) > 0 {
			res.Fail(lib.Failure{Kind: "property", Signature: sig + ":effect", What: "request without a valid signature changed stored state: " + strings.Join(d, "; "), Input: in, Impl: fmt.Sprintf("%d %s", rsp.Status, rsp.ErrCode())})
			snap = after
		}
	}
	res.Exhaustive = a.Thorough()
	return nil
}

func c02PathClass(p string) string {
	switch {
	case p == "/":
		return "/"
	case strings.HasPrefix(p, "/newb"):
		return strings.Replace(p, "newb", ":newbucket", 1)
	case strings.HasPrefix(p, "/cbk//"):
		return "/:bucket//:key"
	case p == "/cbk" || p == "/cbk/":
		return strings.Replace(p, "cbk", ":bucket", 1)
	case strings.HasSuffix(p, "/") && strings.HasPrefix(p, "/cbk/"):
		return "/:bucket/:key/"
	case strings.HasPrefix(p, "/cbk/"):
		return "/:bucket/:key"
	}
	if i := strings.Index(p, "?"); i >= 0 {
		return p[:i]
	}
	return p
}

func init() {
	checks["c02"] = checkDef{"C02",
		"(1) shape probe: method × path shape (/, /b, /b/, /b/k, /b/k/, /b/k/x, /b//k, new bucket, directory object, admin routes on both ports) × subresource × credential defect (13 header-auth defects, 3 presign defects) × body kind (none, small valid document for that subresource, aws-chunked/unsigned); quick = one to three random defects per endpoint shape, thorough = every defect (exhaustive). Oracle: 4xx ∧ byte-exact snapshot of storage/versioning/IAM dirs unchanged ∧ no stored data in the answer. (1b) rotation: a request signed with the secret an account had before an acknowledged update-user (self-rotation by an admin account; rotation through another gateway process on the same IAM directory), header and presigned. (2) random programs with 25% unauthenticated requests compared with Model.Gw.step. Distinct by request; all are non-trivial (each carries exactly one defect).",
		[]checkFn{c02Shapes, c02Rotation, func(a lib.Args, res *lib.Result) error {
			return runPrograms(a, res, progOpts{name: "anon-mix", prop: "C02", programs: tierN(a, 200, 3000), maxOps: 40, seedOff: 22,
				tune: func(g *prog.Gen) { g.Anon = 25 },
				classify: func(s *prog.Step, class string) (string, string) {
					if class == "fine" {
						return "correspondence", s.Op.Kind + ":error-code"
					}
					if strings.HasPrefix(s.Op.Caller, "anon") {
						return "property", "unauth-program:" + s.Op.Kind + ":" + class
					}
					return "property", "program:" + s.Op.Kind + ":" + class
				}})
		}}}
}
