package main

// c11trace.go — a small ptrace tracer (linux/amd64) used by the C11 crash check instead of
// `strace -e inject=…:when=N`: strace keeps its injection counters per *thread*, and the Go runtime
// moves a request's goroutine between threads, so "the N-th linkat" is not addressable with it.
// This tracer sees every syscall-entry stop of every thread of the gateway serially, so
// "the N-th mutating filesystem syscall below the storage directories" is a deterministic crash
// point: the process is SIGKILLed while stopped on ENTRY to that call (the call is skipped).
//
// The tracer runs as a child process of the harness (`vharness c11-tracer -replay spec.json`):
// it waits with wait4(-1), which must not steal the harness's other children.

import (
	"encoding/binary"
	"encoding/hex"
	"encoding/json"
	"fmt"
	"os"
	"os/exec"
	"os/signal"
	"path/filepath"
	"runtime"
	"strconv"
	"strings"
	"syscall"
	"unsafe"

	"verif/harness/lib"
)

// TraceSpec is the job description handed to the tracer process.
type TraceSpec struct {
	Argv    []string `json:"argv"`     // gateway binary + arguments
	Dir     string   `json:"dir"`      // working directory of the gateway
	GwLog   string   `json:"gw_log"`   // stdout+stderr of the gateway
	Roots   []string `json:"roots"`    // absolute directories whose mutations are steps
	ArmFile string   `json:"arm_file"` // steps are counted once this file exists
	KillAt  int      `json:"kill_at"`  // 1-based index of the step on whose ENTRY the gateway is killed; 0 = never
	Log     string   `json:"log"`      // JSON lines, one TraceRec per step (written unbuffered)
	All     bool     `json:"all"`      // also log non-mutating path syscalls below the roots (debugging)
}

// TraceRec is one mutating syscall below the roots.
type TraceRec struct {
	Seq    int    `json:"seq"` // 1-based among the counted steps (0 = before arming / not counted)
	Tid    int    `json:"tid"`
	Sys    string `json:"sys"`
	Path   string `json:"path,omitempty"`  // resolved absolute path (or the file behind the fd)
	Path2  string `json:"path2,omitempty"` // second path (rename/link target)
	Flags  int64  `json:"flags,omitempty"`
	Attr   string `json:"attr,omitempty"`
	Len    int64  `json:"len,omitempty"`
	Val    string `json:"val,omitempty"` // first bytes of an xattr value / written buffer, hex
	Ret    *int64 `json:"ret,omitempty"` // filled in a second record {"seq":n,"ret":r} — see below
	Killed bool   `json:"killed,omitempty"`
	Mut    bool   `json:"mut"`
}

const (
	ptraceOTraceSysGood  = 0x1
	ptraceOTraceFork     = 0x2
	ptraceOTraceVFork    = 0x4
	ptraceOTraceClone    = 0x8
	ptraceOExitKill      = 0x100000
	ptraceGetSyscallInfo = 0x420e
	atFdCwd              = -100
	oCreat               = 0x40
	oTrunc               = 0x200
	oTmpfile             = 0x410000
	oWronly              = 0x1
	oRdwr                = 0x2
)

var sysNames = map[uint64]string{
	1: "write", 18: "pwrite64", 20: "writev", 40: "sendfile", 77: "ftruncate", 82: "rename", 83: "mkdir", 84: "rmdir", 85: "creat",
	86: "link", 87: "unlink", 88: "symlink", 90: "chmod", 91: "fchmod", 92: "chown", 93: "fchown", 2: "open",
	188: "setxattr", 189: "lsetxattr", 190: "fsetxattr", 197: "removexattr", 198: "lremovexattr", 199: "fremovexattr",
	257: "openat", 258: "mkdirat", 260: "fchownat", 263: "unlinkat", 264: "renameat", 265: "linkat", 266: "symlinkat",
	268: "fchmodat", 285: "fallocate", 316: "renameat2", 326: "copy_file_range", 437: "openat2",
}

type tracer struct {
	spec    TraceSpec
	pid     int
	log     *os.File
	armed   bool
	count   int
	pending map[int]int // tid -> seq of the record waiting for its return value
	killed  bool
}

// syscallOp asks the kernel whether the current syscall-stop is an entry (1) or an exit (2) stop
// (PTRACE_GET_SYSCALL_INFO); 0 = unknown. Bookkeeping by alternation alone goes wrong for threads whose
// first reported stop is the exit of the clone that created them.
func syscallOp(tid int) (op byte, rval int64) {
	var buf [88]byte
	n, _, e := syscall.Syscall6(syscall.SYS_PTRACE, ptraceGetSyscallInfo, uintptr(tid), uintptr(len(buf)), uintptr(unsafe.Pointer(&buf[0])), 0, 0)
	if e != 0 || n < 24 {
		return 0, 0
	}
	op = buf[0]
	if op == 2 && n >= 32 {
		rval = int64(binary.LittleEndian.Uint64(buf[24:32]))
	}
	return op, rval
}

func (t *tracer) peekString(tid int, addr uintptr) string {
	if addr == 0 {
		return ""
	}
	var out []byte
	buf := make([]byte, 8)
	for len(out) < 4096 {
		n, err := syscall.PtracePeekData(tid, addr, buf)
		if err != nil || n == 0 {
			break
		}
		for i := 0; i < n; i++ {
			if buf[i] == 0 {
				return string(append(out, buf[:i]...))
			}
		}
		out = append(out, buf[:n]...)
		addr += uintptr(n)
	}
	return string(out)
}

func (t *tracer) peekBytes(tid int, addr uintptr, n int) []byte {
	if addr == 0 || n <= 0 {
		return nil
	}
	buf := make([]byte, (n+7)/8*8)
	m, err := syscall.PtracePeekData(tid, addr, buf)
	if err != nil {
		return nil
	}
	if m > n {
		m = n
	}
	return buf[:m]
}

func (t *tracer) fdPath(fd int64) string {
	p, err := os.Readlink(fmt.Sprintf("/proc/%d/fd/%d", t.pid, fd))
	if err != nil {
		return ""
	}
	return p
}

func (t *tracer) resolve(dirfd int64, p string) string {
	if p == "" {
		if int32(dirfd) == atFdCwd {
			return ""
		}
		return t.fdPath(int64(int32(dirfd)))
	}
	if strings.HasPrefix(p, "/proc/self/fd/") {
		if n, err := strconv.Atoi(p[len("/proc/self/fd/"):]); err == nil {
			return t.fdPath(int64(n))
		}
	}
	if filepath.IsAbs(p) {
		return filepath.Clean(p)
	}
	var base string
	if int32(dirfd) == atFdCwd {
		base, _ = os.Readlink(fmt.Sprintf("/proc/%d/cwd", t.pid))
	} else {
		base = t.fdPath(int64(int32(dirfd)))
	}
	if base == "/proc/"+strconv.Itoa(t.pid)+"/fd" || strings.HasSuffix(base, "/fd") && strings.HasPrefix(base, "/proc/") {
		if n, err := strconv.Atoi(p); err == nil {
			return t.fdPath(int64(n))
		}
	}
	return filepath.Join(base, p)
}

func (t *tracer) below(p string) bool {
	if p == "" {
		return false
	}
	for _, r := range t.spec.Roots {
		if p == r || strings.HasPrefix(p, r+"/") {
			return true
		}
	}
	return false
}

// onEntry decodes one syscall-entry stop; returns true when the gateway was killed.
func (t *tracer) onEntry(tid int, regs *syscall.PtraceRegs) bool {
	name, ok := sysNames[regs.Orig_rax]
	if !ok {
		return false
	}
	a := [6]uint64{regs.Rdi, regs.Rsi, regs.Rdx, regs.R10, regs.R8, regs.R9}
	rec := TraceRec{Tid: tid, Sys: name}
	mut := true
	switch name {
	case "open", "creat":
		rec.Path = t.resolve(atFdCwd, t.peekString(tid, uintptr(a[0])))
		rec.Flags = int64(a[1])
		if name == "creat" {
			rec.Flags = oCreat | oTrunc | oWronly
		}
		mut = rec.Flags&(oCreat|oTrunc) != 0 || rec.Flags&oTmpfile == oTmpfile
	case "openat", "openat2":
		rec.Path = t.resolve(int64(a[0]), t.peekString(tid, uintptr(a[1])))
		if name == "openat" {
			rec.Flags = int64(a[2])
		} else {
			if b := t.peekBytes(tid, uintptr(a[2]), 8); len(b) == 8 {
				for i := 7; i >= 0; i-- {
					rec.Flags = rec.Flags<<8 | int64(b[i])
				}
			}
		}
		mut = rec.Flags&(oCreat|oTrunc) != 0 || rec.Flags&oTmpfile == oTmpfile
	case "mkdir", "rmdir", "unlink", "chmod", "chown":
		rec.Path = t.resolve(atFdCwd, t.peekString(tid, uintptr(a[0])))
	case "mkdirat", "fchmodat", "fchownat":
		rec.Path = t.resolve(int64(a[0]), t.peekString(tid, uintptr(a[1])))
	case "unlinkat":
		rec.Path = t.resolve(int64(a[0]), t.peekString(tid, uintptr(a[1])))
		rec.Flags = int64(a[2])
	case "rename", "link", "symlink":
		rec.Path = t.resolve(atFdCwd, t.peekString(tid, uintptr(a[0])))
		rec.Path2 = t.resolve(atFdCwd, t.peekString(tid, uintptr(a[1])))
	case "renameat", "renameat2", "linkat":
		rec.Path = t.resolve(int64(a[0]), t.peekString(tid, uintptr(a[1])))
		rec.Path2 = t.resolve(int64(a[2]), t.peekString(tid, uintptr(a[3])))
	case "symlinkat":
		rec.Path = t.peekString(tid, uintptr(a[0]))
		rec.Path2 = t.resolve(int64(a[1]), t.peekString(tid, uintptr(a[2])))
	case "setxattr", "lsetxattr":
		rec.Path = t.resolve(atFdCwd, t.peekString(tid, uintptr(a[0])))
		rec.Attr = t.peekString(tid, uintptr(a[1]))
		rec.Len = int64(a[3])
		rec.Val = hex.EncodeToString(t.peekBytes(tid, uintptr(a[2]), minInt(int(a[3]), 64)))
	case "fsetxattr":
		rec.Path = t.fdPath(int64(a[0]))
		rec.Attr = t.peekString(tid, uintptr(a[1]))
		rec.Len = int64(a[3])
		rec.Val = hex.EncodeToString(t.peekBytes(tid, uintptr(a[2]), minInt(int(a[3]), 64)))
	case "removexattr", "lremovexattr":
		rec.Path = t.resolve(atFdCwd, t.peekString(tid, uintptr(a[0])))
		rec.Attr = t.peekString(tid, uintptr(a[1]))
	case "fremovexattr":
		rec.Path = t.fdPath(int64(a[0]))
		rec.Attr = t.peekString(tid, uintptr(a[1]))
	case "write", "pwrite64", "writev":
		rec.Path = t.fdPath(int64(a[0]))
		rec.Len = int64(a[2])
		if name == "write" && t.below(rec.Path) {
			rec.Val = hex.EncodeToString(t.peekBytes(tid, uintptr(a[1]), minInt(int(a[2]), 32)))
		}
	case "ftruncate", "fchmod", "fchown":
		rec.Path = t.fdPath(int64(a[0]))
		rec.Len = int64(a[1])
	case "fallocate":
		rec.Path = t.fdPath(int64(a[0]))
		rec.Flags = int64(a[1])
		rec.Len = int64(a[3])
	case "sendfile":
		rec.Path = t.fdPath(int64(a[0])) // out fd
		rec.Path2 = t.fdPath(int64(a[1]))
		rec.Len = int64(a[3])
	case "copy_file_range":
		rec.Path = t.fdPath(int64(a[2])) // out fd
		rec.Path2 = t.fdPath(int64(a[0]))
		rec.Len = int64(a[4])
	}
	target := rec.Path
	if name == "rename" || name == "renameat" || name == "renameat2" || name == "link" || name == "linkat" || name == "symlink" || name == "symlinkat" {
		if !t.below(rec.Path2) && !t.below(rec.Path) {
			return false
		}
	} else if !t.below(target) {
		return false
	}
	rec.Mut = mut
	if !mut && !t.spec.All {
		return false
	}
	if !t.armed && t.spec.ArmFile != "" {
		if _, err := os.Stat(t.spec.ArmFile); err == nil {
			t.armed = true
		}
	}
	if mut && (t.armed || t.spec.ArmFile == "") {
		t.count++
		rec.Seq = t.count
		if t.spec.KillAt > 0 && t.count == t.spec.KillAt {
			// skip the call (belt) and kill the whole process while it is stopped on entry (braces)
			regs.Orig_rax = ^uint64(0)
			syscall.PtraceSetRegs(tid, regs)
			rec.Killed = true
			t.write(rec)
			syscall.Kill(t.pid, syscall.SIGKILL)
			t.killed = true
			return true
		}
		t.pending[tid] = rec.Seq
	}
	t.write(rec)
	return false
}

func (t *tracer) write(v interface{}) {
	b, _ := json.Marshal(v)
	t.log.Write(append(b, '\n'))
}

func minInt(a, b int) int {
	if a < b {
		return a
	}
	return b
}

func c11Tracer(a lib.Args, res *lib.Result) error {
	b, err := os.ReadFile(a.Replay)
	if err != nil {
		return err
	}
	var spec TraceSpec
	if err := json.Unmarshal(b, &spec); err != nil {
		return err
	}
	return runTracer(spec)
}

func runTracer(spec TraceSpec) error {
	runtime.LockOSThread()
	defer runtime.UnlockOSThread()
	logf, err := os.OpenFile(spec.Log, os.O_CREATE|os.O_TRUNC|os.O_WRONLY, 0o644)
	if err != nil {
		return err
	}
	defer logf.Close()
	gwlog, err := os.OpenFile(spec.GwLog, os.O_CREATE|os.O_TRUNC|os.O_WRONLY, 0o644)
	if err != nil {
		return err
	}
	defer gwlog.Close()
	cmd := exec.Command(spec.Argv[0], spec.Argv[1:]...)
	cmd.Dir = spec.Dir
	cmd.Stdout = gwlog
	cmd.Stderr = gwlog
	cmd.SysProcAttr = &syscall.SysProcAttr{Ptrace: true, Pdeathsig: syscall.SIGKILL}
	if err := cmd.Start(); err != nil {
		return err
	}
	t := &tracer{spec: spec, pid: cmd.Process.Pid, log: logf, pending: map[int]int{}}
	// a SIGTERM/SIGINT from the harness ends the session: kill the gateway, the wait loop then sees it exit
	sigc := make(chan os.Signal, 2)
	signal.Notify(sigc, syscall.SIGTERM, syscall.SIGINT)
	go func() {
		<-sigc
		syscall.Kill(t.pid, syscall.SIGKILL)
	}()
	var ws syscall.WaitStatus
	if _, err := syscall.Wait4(t.pid, &ws, 0, nil); err != nil {
		return fmt.Errorf("wait for exec stop: %v", err)
	}
	if !ws.Stopped() {
		return fmt.Errorf("gateway did not stop after exec: %v", ws)
	}
	if err := syscall.PtraceSetOptions(t.pid, ptraceOTraceSysGood|ptraceOTraceClone|ptraceOTraceFork|ptraceOTraceVFork|ptraceOExitKill); err != nil {
		return fmt.Errorf("ptrace setoptions: %v", err)
	}
	inSys := map[int]bool{}
	known := map[int]bool{t.pid: true}
	if err := syscall.PtraceSyscall(t.pid, 0); err != nil {
		return err
	}
	for {
		wpid, err := syscall.Wait4(-1, &ws, syscall.WALL, nil)
		if err == syscall.EINTR {
			continue
		}
		if err != nil {
			break // ECHILD: everything is gone
		}
		if ws.Exited() || ws.Signaled() {
			delete(known, wpid)
			delete(inSys, wpid)
			if wpid == t.pid {
				break
			}
			continue
		}
		if !ws.Stopped() {
			continue
		}
		sig := ws.StopSignal()
		switch {
		case sig == syscall.SIGTRAP|0x80:
			known[wpid] = true
			op, rval := syscallOp(wpid)
			if op == 0 { // kernel without PTRACE_GET_SYSCALL_INFO: alternate
				if inSys[wpid] {
					op = 2
				} else {
					op = 1
				}
			}
			if op == 1 {
				inSys[wpid] = true
				var regs syscall.PtraceRegs
				if err := syscall.PtraceGetRegs(wpid, &regs); err == nil {
					if t.onEntry(wpid, &regs) {
						continue // killed: do not resume, the exit notifications follow
					}
				}
			} else if op == 2 {
				inSys[wpid] = false
				if seq, ok := t.pending[wpid]; ok {
					delete(t.pending, wpid)
					r := rval
					if r == 0 {
						var regs syscall.PtraceRegs
						if err := syscall.PtraceGetRegs(wpid, &regs); err == nil {
							r = int64(regs.Rax)
						}
					}
					t.write(TraceRec{Seq: seq, Tid: wpid, Sys: "=", Ret: &r})
				}
			}
			syscall.PtraceSyscall(wpid, 0)
		case sig == syscall.SIGTRAP && ws.TrapCause() > 0:
			// clone/fork event of a traced thread: the new thread is attached automatically
			known[wpid] = true
			syscall.PtraceSyscall(wpid, 0)
		case sig == syscall.SIGSTOP && !known[wpid]:
			// first stop of an automatically attached thread
			known[wpid] = true
			syscall.PtraceSyscall(wpid, 0)
		default:
			known[wpid] = true
			syscall.PtraceSyscall(wpid, int(sig))
		}
	}
	if t.killed {
		t.write(map[string]interface{}{"end": "killed", "steps": t.count})
	} else {
		t.write(map[string]interface{}{"end": "exit", "steps": t.count})
	}
	return nil
}

func init() {
	checks["c11-tracer"] = checkDef{"C11", "helper process: ptrace tracer of one gateway (not a check)", []checkFn{c11Tracer}}
}
