package main

import (
	"fmt"
	"strings"
	"sync"
	"time"

	"verif/harness/gw"
	"verif/harness/lib"
)

// c16Race: the race clause of C16 — no acknowledged upload is lost to a concurrent DeleteBucket: either
// the delete fails as not empty or the upload fails as no such bucket.
//
// Two gateway processes share one storage (the documented cluster deployment; the posix backend keeps no
// lock or cache for buckets). The process that serves one of the two racing requests runs under strace
// with a delay injected at the syscall that opens the window (no source hook needed):
//
//	window D  DeleteBucket, between the emptiness check (getdents64 of the bucket directory) and the removal
//	window U  the upload, anywhere between its bucket check and the publication of the object: every path
//	          syscall of the uploading process (stat, open, mkdir, link, rename, unlink) is delayed, so the
//	          DeleteBucket sent at the different offsets lands between each pair of its steps
//
// The other request is sent at several offsets into the window. Oracle (model-independent): the two
// answers of one round are never both successes — unless the bucket and the object are both still there
// and intact afterwards (delete answered success for nothing), which cannot happen either.
func c16Race(a lib.Args, res *lib.Result) error {
	type variant struct {
		name, window string
		strace       []string
		upload       string // putObject | completeUpload | createUpload
		versioned    bool   // bucket with versioning Enabled; the upload is TWO successive PUTs of the key (the second archives the first)
	}
	vs := []variant{
		{"delete-window:putObject", "D", []string{"-f", "-qq", "-o", "/dev/null", "-e", "trace=getdents64", "-e", "inject=getdents64:delay_exit=250000"}, "putObject", false},
		{"upload-window:putObject", "U", []string{"-f", "-qq", "-o", "/dev/null", "-e", "trace=newfstatat,openat,mkdirat,linkat,renameat2,unlinkat", "-e", "inject=newfstatat,openat,mkdirat,linkat,renameat2,unlinkat:delay_enter=120000"}, "putObject", false},
		{"delete-window:completeUpload", "D", []string{"-f", "-qq", "-o", "/dev/null", "-e", "trace=getdents64", "-e", "inject=getdents64:delay_exit=250000"}, "completeUpload", false},
		{"upload-window:completeUpload", "U", []string{"-f", "-qq", "-o", "/dev/null", "-e", "trace=newfstatat,openat,mkdirat,linkat,renameat2,unlinkat", "-e", "inject=newfstatat,openat,mkdirat,linkat,renameat2,unlinkat:delay_enter=120000"}, "completeUpload", false},
		{"delete-window:putObject-twice@versioned", "D", []string{"-f", "-qq", "-o", "/dev/null", "-e", "trace=getdents64", "-e", "inject=getdents64:delay_exit=250000"}, "putObject", true},
	}
	// the outcome pairs the model (Model.BucketRace, the code as it is now) reaches over all schedules
	mo, err := a.Driver.Ask([]string{"race outcomes"})
	if err != nil {
		return err
	}
	modelPairs := map[string]bool{}
	for _, p := range strings.Fields(mo[0]) {
		modelPairs[p] = true
	}
	offsets := []int{100, 300, 500, 800}
	if a.Thorough() {
		offsets = []int{0, 50, 100, 200, 300, 400, 500, 650, 800, 1000, 1300}
	}
	for vi, v := range vs {
		cfg, err := mustStorage(a, fmt.Sprintf("c16race-%d", vi), v.versioned, false, nil)
		if err != nil {
			return err
		}
		plain, err := gw.Start(cfg)
		if err != nil {
			return err
		}
		slowCfg := cfg
		slowCfg.Strace = v.strace
		slow, err := gw.Start(slowCfg)
		if err != nil {
			plain.Kill()
			return err
		}
		cr := rootCreds(cfg)
		do := func(g *gw.Gateway, q gw.Req) gw.Resp {
			q.Creds, q.Auth, q.Timeout = cr, "header", 30*time.Second
			return gw.Do(g.Addr(), q)
		}
		delGw, upGw := slow, plain
		if v.window == "U" {
			delGw, upGw = plain, slow
		}
		for ri, off := range offsets {
			b := fmt.Sprintf("race-%d-%d", vi, ri)
			body := []byte(fmt.Sprintf("acknowledged-content-%d-%d", vi, ri))
			if r := do(plain, gw.Req{Method: "PUT", Path: "/" + b}); r.Status != 200 {
				plain.Kill()
				slow.Kill()
				return fmt.Errorf("create bucket %s: %d %s %v", b, r.Status, r.Body, r.Err)
			}
			if v.versioned {
				do(plain, gw.Req{Method: "PUT", Path: "/" + b, Query: "versioning", Body: []byte(`<VersioningConfiguration><Status>Enabled</Status></VersioningConfiguration>`)})
			}
			var firstPut gw.Resp
			firstBody := []byte(fmt.Sprintf("first-acknowledged-content-%d-%d", vi, ri))
			upReq := gw.Req{Method: "PUT", Path: "/" + b + "/obj", Body: body}
			if v.upload == "completeUpload" {
				cu := do(plain, gw.Req{Method: "POST", Path: "/" + b + "/obj", Query: "uploads"})
				id := between(string(cu.Body), "<UploadId>", "</UploadId>")
				pr := do(plain, gw.Req{Method: "PUT", Path: "/" + b + "/obj", Query: "partNumber=1&uploadId=" + id, Body: body})
				et := pr.Headers.Get("ETag")
				upReq = gw.Req{Method: "POST", Path: "/" + b + "/obj", Query: "uploadId=" + id,
					Body: []byte("<CompleteMultipartUpload><Part><PartNumber>1</PartNumber><ETag>" + et + "</ETag></Part></CompleteMultipartUpload>")}
			}
			delReq := gw.Req{Method: "DELETE", Path: "/" + b}
			var upRsp, delRsp gw.Resp
			var wg sync.WaitGroup
			first, second := delReq, upReq
			firstGw, secondGw := delGw, upGw
			if v.window == "U" {
				first, second, firstGw, secondGw = upReq, delReq, upGw, delGw
			}
			wg.Add(2)
			go func() {
				defer wg.Done()
				r := do(firstGw, first)
				if v.window == "U" {
					upRsp = r
				} else {
					delRsp = r
				}
			}()
			go func() {
				defer wg.Done()
				time.Sleep(time.Duration(off) * time.Millisecond)
				if v.versioned {
					firstPut = do(secondGw, gw.Req{Method: "PUT", Path: "/" + b + "/obj", Body: firstBody})
				}
				r := do(secondGw, second)
				if v.window == "U" {
					delRsp = r
				} else {
					upRsp = r
				}
			}()
			wg.Wait()
			upOK, delOK := upRsp.Status/100 == 2 && !strings.Contains(string(upRsp.Body), "<Error>"), delRsp.Status/100 == 2
			get := do(plain, gw.Req{Method: "GET", Path: "/" + b + "/obj"})
			head := do(plain, gw.Req{Method: "HEAD", Path: "/" + b})
			outcome := fmt.Sprintf("upload=%d(%s) delete=%d(%s) then GET=%d HEAD-bucket=%d", upRsp.Status, upRsp.ErrCode(), delRsp.Status, delRsp.ErrCode(), get.Status, head.Status)
			res.Count(fmt.Sprintf("%s|%d", v.name, off), true, "race:"+v.name, fmt.Sprintf("race-outcome:up=%v,del=%v", upOK, delOK))
			if ri == 0 {
				res.Sample(map[string]interface{}{"race": v.name, "offset_ms": off, "outcome": outcome})
			}
			in := map[string]interface{}{"variant": v.name, "offset_ms": off, "bucket": b, "strace": strings.Join(v.strace, " ")}
			if !plain.Alive() || !slow.Alive() {
				res.Fail(lib.Failure{Kind: "property", Signature: "race:" + v.name + ":gateway-died", What: "a gateway process died", Input: in, Impl: plain.Log.String() + slow.Log.String()})
				break
			}
			// correspondence: the observed pair is one the model reaches (an upload that fails for any reason
			// counts as "nosuchbucket": the model has no other way to fail; both failing is possible in the real
			// code when the delete removed a named temp file and is not a loss)
			pair := map[bool]string{true: "ok", false: "nosuchbucket"}[upOK] + "/" + map[bool]string{true: "ok", false: "notempty"}[delOK]
			if !modelPairs[pair] && (upOK || delOK) && !(upOK && delOK) {
				res.Fail(lib.Failure{Kind: "correspondence", Signature: "race:" + v.name + ":outcome-not-reachable-in-model", What: "observed outcome pair " + pair + " is not reachable in Model.BucketRace: " + outcome, Input: in, Impl: pair, Model: mo[0]})
			}
			switch {
			case upOK && delOK:
				res.Fail(lib.Failure{Kind: "property", Signature: "race:" + v.name + ":upload-acknowledged-and-bucket-deleted",
					What: "an upload was acknowledged and the concurrent DeleteBucket succeeded too: " + outcome, Input: in, Impl: outcome})
			case upOK && (get.Status != 200 || string(get.Body) != string(body)):
				res.Fail(lib.Failure{Kind: "property", Signature: "race:" + v.name + ":acknowledged-upload-not-readable",
					What: "an acknowledged upload cannot be read back after the race: " + outcome, Input: in, Impl: outcome})
			case v.versioned && firstPut.Status == 200 && !delOK:
				// the version the second PUT archived was acknowledged too and nothing deleted it
				vid := firstPut.Headers.Get("x-amz-version-id")
				if gv := do(plain, gw.Req{Method: "GET", Path: "/" + b + "/obj", Query: "versionId=" + vid}); gv.Status != 200 || string(gv.Body) != string(firstBody) {
					res.Fail(lib.Failure{Kind: "property", Signature: "race:" + v.name + ":acknowledged-version-not-readable",
						What: fmt.Sprintf("DeleteBucket failed (%d %s), yet the version of an acknowledged upload that was archived during the race cannot be read back: GET ?versionId=%s -> %d %s; %s", delRsp.Status, delRsp.ErrCode(), vid, gv.Status, gv.ErrCode(), outcome), Input: in, Impl: outcome})
				}
			case !upOK && !delOK && upRsp.Status/100 == 5:
				// both refused: nothing is lost; a 5xx for the upload is tolerated only as "the bucket went away under it"
			}
			// clean up for the next round
			if v.versioned {
				lv := do(plain, gw.Req{Method: "GET", Path: "/" + b, Query: "versions"})
				for _, seg := range strings.Split(string(lv.Body), "<VersionId>")[1:] {
					do(plain, gw.Req{Method: "DELETE", Path: "/" + b + "/obj", Query: "versionId=" + strings.SplitN(seg, "<", 2)[0]})
				}
			}
			do(plain, gw.Req{Method: "DELETE", Path: "/" + b + "/obj"})
			do(plain, gw.Req{Method: "DELETE", Path: "/" + b})
		}
		plain.Kill()
		slow.Kill()
	}
	return nil
}

func between(s, a, b string) string {
	i := strings.Index(s, a)
	if i < 0 {
		return ""
	}
	j := strings.Index(s[i+len(a):], b)
	if j < 0 {
		return ""
	}
	return s[i+len(a) : i+len(a)+j]
}
