package main

// C17, concurrent part: real goroutines calling the real IAMCache over the real file service, with
// the interleaving chosen by the harness.  The yield points sit at the interface between the two
// (an auth.IAMService that forwards to auth.IAMServiceInternal): `enter` = after IAMCache's own
// lookup and before the service takes its lock, `exit` = after the service released its lock and
// before IAMCache touches the cache — for GetUserAccount exactly the point between the fetch and
// cache.set.  Between two yield points a call runs alone, so a schedule is a sequence of "call j
// proceeds to its next yield point"; the segment inside the service is atomic anyway (store mutex).
// The same schedule is executed by Model.IAM (`iam invoke` / `iam seg`), every observation is
// compared, and the complete history (with invocation / return instants) goes to the Spec oracle.

import (
	"encoding/json"
	"fmt"
	"os"
	"path/filepath"
	"strconv"
	"strings"
	"sync"
	"sync/atomic"
	"time"

	"github.com/versity/versitygw/auth"
	"verif/harness/lib"
)

// ------------------------------------------------------------------ yield points

type c17Gate struct {
	inner auth.IAMService
	s     *c17Sched
}

func (g *c17Gate) yield(p string, err error) {
	if g.s != nil {
		if err != nil {
			p += "-err"
		}
		g.s.yield(p)
	}
}
func (g *c17Gate) CreateAccount(a auth.Account) error {
	g.yield("enter", nil)
	err := g.inner.CreateAccount(a)
	g.yield("exit", err)
	return err
}
func (g *c17Gate) GetUserAccount(k string) (auth.Account, error) {
	g.yield("enter", nil)
	a, err := g.inner.GetUserAccount(k)
	g.yield("exit", err)
	return a, err
}
func (g *c17Gate) UpdateUserAccount(k string, p auth.MutableProps) error {
	g.yield("enter", nil)
	err := g.inner.UpdateUserAccount(k, p)
	g.yield("exit", err)
	return err
}
func (g *c17Gate) DeleteUserAccount(k string) error {
	g.yield("enter", nil)
	err := g.inner.DeleteUserAccount(k)
	g.yield("exit", err)
	return err
}
func (g *c17Gate) ListUserAccounts() ([]auth.Account, error) {
	g.yield("enter", nil)
	l, err := g.inner.ListUserAccounts()
	g.yield("exit", err)
	return l, err
}
func (g *c17Gate) Shutdown() error { return g.inner.Shutdown() }

type c17Event struct {
	Parked string // "enter" | "exit" | "exit-err"
	Res    string // answer, when the call returned
	Stuck  bool
}

func (e c17Event) String() string {
	switch {
	case e.Stuck:
		return "stuck"
	case e.Parked != "":
		return "park:" + e.Parked
	}
	return "ret:" + e.Res
}

type c17Task struct {
	id      int
	op      c17Op
	resume  chan struct{}
	ev      chan c17Event
	started bool
	done    bool
	at      string
	res     string
	inv     int
	ret     int
}

type c17Sched struct {
	sys   *c17Sys
	cur   *c17Task // the one call that is running (nil: calls made by the controller itself pass through)
	tasks []*c17Task
}

func newC17Sched(sys *c17Sys) *c17Sched {
	s := &c17Sched{sys: sys}
	sys.gate.s = s
	return s
}

func (s *c17Sched) yield(p string) {
	t := s.cur
	if t == nil {
		return
	}
	t.ev <- c17Event{Parked: p}
	<-t.resume
}

func (s *c17Sched) task(op c17Op) *c17Task {
	t := &c17Task{id: len(s.tasks), op: op, resume: make(chan struct{}), ev: make(chan c17Event, 1)}
	s.tasks = append(s.tasks, t)
	return t
}

// advance lets t run up to its next yield point or its return.
func (s *c17Sched) advance(t *c17Task) c17Event {
	if t.done {
		return c17Event{Res: t.res}
	}
	s.cur = t
	if !t.started {
		t.started = true
		go func() {
			r := t.op.apply(s.sys.svc)
			t.ev <- c17Event{Res: r}
		}()
	} else {
		t.resume <- struct{}{}
	}
	var e c17Event
	select {
	case e = <-t.ev:
	case <-time.After(10 * time.Second):
		e = c17Event{Stuck: true}
	}
	s.cur = nil
	if e.Parked != "" {
		t.at = e.Parked
	} else if !e.Stuck {
		t.done, t.res = true, e.Res
	}
	return e
}

func (s *c17Sched) drain() {
	for _, t := range s.tasks {
		for t.started && !t.done {
			if s.advance(t).Stuck {
				break
			}
		}
	}
}

// ------------------------------------------------------------------ scenarios

type c17Scn struct {
	Stage  string     `json:"stage"` // "conc"
	Mode   c17Mode    `json:"mode"`
	Init   []c17Acct  `json:"init"`
	Prefix []c17Op    `json:"prefix"`
	Calls  []c17Op    `json:"calls"`
	Sched  []int      `json:"sched"` // call index, or -1 = the clock advances by 0.6 TTL
	Late   bool       `json:"late"`  // probe again after the TTL has passed
	Var    c17Variant `json:"variant"`
}

func c17Probes(late bool) []c17Op {
	p := []c17Op{{Kind: "get", Key: "a"}, {Kind: "get", Key: "b"}, {Kind: "list"}}
	if late {
		p = append(p, c17Op{Kind: "adv"}, c17Op{Kind: "adv"}, c17Op{Kind: "get", Key: "a"}, c17Op{Kind: "get", Key: "b"})
	}
	return p
}

type c17ScnRun struct {
	Obs    []string // one observation per executed schedule element, then the probes' answers
	Eff    []int    // the schedule as executed (elements naming finished calls are skipped)
	Lines  []string // the same for the model
	Recs   []c17Rec
	Segs   []c17Seg
	Unsafe bool
	IOErr  bool
	Left   []string
	Stuck  bool
}

// c17RunScn executes a scenario on a fresh real service and writes down the model's script.
func c17RunScn(dir string, sc c17Scn) (c17ScnRun, error) {
	var run c17ScnRun
	sys, err := c17New(dir, sc.Mode, sc.Init, true)
	if err != nil {
		return run, err
	}
	defer sys.close()
	sched := newC17Sched(sys)
	defer sched.drain()
	run.Lines = []string{fmt.Sprintf("iam reset %s %d 0 %s %s", sc.Var.bits(sc.Mode.Cache), sc.Mode.ttlUnits(), c17Root.enc(), c17EncAccts(sc.Init))}
	clock := 0
	slack := time.Duration(c17TTLUnits-c17AdvUnits)*c17Unit - 5*time.Millisecond
	segStart := time.Now()
	adv := func() {
		if time.Since(segStart) > slack/2 {
			run.Unsafe = true
		}
		t0 := time.Now()
		time.Sleep(c17AdvUnits * c17Unit)
		if time.Since(t0) > c17AdvUnits*c17Unit+slack/2 {
			run.Unsafe = true
		}
		run.Lines = append(run.Lines, fmt.Sprintf("iam tick %d", c17AdvUnits))
		if sc.Mode.GC {
			run.Lines = append(run.Lines, "iam gc")
			run.Obs = append(run.Obs, "ok")
		}
		run.Obs = append(run.Obs, "ok")
		segStart = time.Now()
	}
	seq := func(o c17Op) {
		if o.Kind == "adv" {
			adv()
			return
		}
		r := o.apply(sys.svc)
		if c17EnvError(r) {
			run.IOErr = true
		}
		run.Lines = append(run.Lines, "iam call "+o.enc())
		run.Obs = append(run.Obs, r)
		run.Recs = append(run.Recs, c17Rec{clock, clock + 1, o, r, len(run.Lines) - 1})
		clock += 2
	}
	for _, o := range sc.Prefix {
		seq(o)
	}
	nPrefixCalls := 0
	for _, o := range sc.Prefix {
		if o.Kind != "adv" {
			nPrefixCalls++
		}
	}
	tasks := make([]*c17Task, len(sc.Calls))
	for i, o := range sc.Calls {
		tasks[i] = sched.task(o)
	}
	modelID := map[int]int{}
	nextID := nPrefixCalls
	nsegs := map[int]int{}
	finish := func(t *c17Task, e c17Event) {
		// which part of the call was this?
		phase := "cache"
		switch n := nsegs[t.id]; {
		case t.op.Kind == "get" && n == 0:
			phase = "lookup"
		case t.op.Kind == "get" && n == 1, t.op.Kind != "get" && n == 0:
			phase = "store"
		}
		nsegs[t.id]++
		run.Segs = append(run.Segs, c17Seg{t.id, t.op.Kind, t.op.key(), phase, e.String()})
		if t.done {
			t.ret = clock
			clock++
			if c17EnvError(t.res) {
				run.IOErr = true
			}
			run.Recs = append(run.Recs, c17Rec{t.inv, t.ret, t.op, t.res, len(run.Lines) - 1})
		}
		run.Obs = append(run.Obs, e.String())
		if e.Stuck {
			run.Stuck = true
		}
	}
	step := func(j int) {
		t := tasks[j]
		if t.done || run.Stuck {
			return
		}
		run.Eff = append(run.Eff, j)
		if !t.started {
			t.inv = clock
			clock++
			modelID[j] = nextID
			nextID++
			e := sched.advance(t)
			if t.op.Kind == "get" {
				// model: invocation + the cache lookup
				run.Lines = append(run.Lines, "iam invoke "+t.op.enc())
				run.Obs = append(run.Obs, "id="+strconv.Itoa(modelID[j]))
				run.Lines = append(run.Lines, "iam seg "+strconv.Itoa(modelID[j]))
				finish(t, e)
			} else {
				// a mutation / listing goes straight to the service: parked at its door
				run.Lines = append(run.Lines, "iam invoke "+t.op.enc())
				run.Obs = append(run.Obs, "id="+strconv.Itoa(modelID[j]))
				if e.String() != "park:enter" {
					run.Lines = append(run.Lines, "iam seg "+strconv.Itoa(modelID[j]))
					finish(t, e)
				}
			}
			return
		}
		prev := t.at
		e := sched.advance(t)
		if prev == "enter" && !t.done && !e.Stuck {
			// now parked behind the service call; when nothing is left to do for IAMCache (error,
			// or a listing, which is passed through) the call returns without touching shared state
			if e.Parked == "exit-err" || t.op.Kind == "list" {
				e = sched.advance(t)
			}
		}
		run.Lines = append(run.Lines, "iam seg "+strconv.Itoa(modelID[j]))
		finish(t, e)
	}
	for _, j := range sc.Sched {
		if j < 0 {
			adv()
			continue
		}
		if j < len(tasks) {
			step(j)
		}
	}
	for j, t := range tasks {
		for !t.done && !run.Stuck {
			step(j)
		}
	}
	if !run.Stuck {
		for _, o := range c17Probes(sc.Late) {
			seq(o)
		}
	}
	if time.Since(segStart) > slack/2 {
		run.Unsafe = true
	}
	run.Left = sys.leftovers()
	return run, nil
}

// what the model prints for an impl observation
func c17ObsOfModel(m string) string {
	switch {
	case strings.HasPrefix(m, "done:"):
		return "ret:" + strings.TrimPrefix(m, "done:")
	case m == "gMiss":
		return "park:enter"
	case m == "gFetched" || m == "mCache":
		return "park:exit"
	}
	return m
}

// ------------------------------------------------------------------ enumeration

func c17Templates() []c17Op {
	s2, s3 := "s2", "s3"
	seven, nine := 7, 9
	return []c17Op{
		{Kind: "get", Key: "a"},
		{Kind: "create", Acct: &c17Acct{"a", "s1", "userplus", 5, 1000}},
		{Kind: "create", Acct: &c17Acct{"a", "s2", "admin", 0, 0}},
		{Kind: "update", Key: "a", Secret: &s2},
		{Kind: "update", Key: "a", Secret: &s3, GID: &nine},
		{Kind: "update", Key: "a", UID: &seven},
		{Kind: "delete", Key: "a"},
		{Kind: "list"},
		{Kind: "get", Key: "b"},
		{Kind: "create", Acct: &c17Acct{"b", "s1", "user", 0, 0}},
		{Kind: "delete", Key: "b"},
	}
}

type c17Situation struct {
	name   string
	mode   c17Mode
	init   []c17Acct
	prefix []c17Op
}

func c17Situations() []c17Situation {
	acc := c17Acct{"a", "s1", "user", 5, 1000}
	accb := c17Acct{"b", "s3", "admin", 0, 5}
	cache := c17Mode{Cache: true}
	gc := c17Mode{Cache: true, GC: true}
	get := c17Op{Kind: "get", Key: "a"}
	adv := c17Op{Kind: "adv"}
	return []c17Situation{
		{"absent-cold", cache, nil, nil},
		{"present-cold", cache, []c17Acct{acc, accb}, nil},
		{"present-warm", cache, []c17Acct{acc, accb}, []c17Op{get, {Kind: "get", Key: "b"}}},
		{"present-created", cache, nil, []c17Op{{Kind: "create", Acct: &acc}}},
		{"present-expired", cache, []c17Acct{acc}, []c17Op{get, adv, adv}},
		{"present-pruned", gc, []c17Acct{acc}, []c17Op{get, adv, adv}},
		{"deleted-warm", cache, []c17Acct{acc}, []c17Op{get, {Kind: "delete", Key: "a"}}},
		{"nocache-present", c17Mode{Cache: false}, []c17Acct{acc, accb}, nil},
		{"ttl0-present", c17Mode{Cache: true, TTL0: true}, []c17Acct{acc}, []c17Op{get}},
	}
}

// all sequences with `n[j]` occurrences of j
func c17Interleavings(n []int) [][]int {
	var out [][]int
	var rec func(cur []int, left []int)
	rec = func(cur []int, left []int) {
		done := true
		for j := range left {
			if left[j] > 0 {
				done = false
				left[j]--
				rec(append(append([]int{}, cur...), j), left)
				left[j]++
			}
		}
		if done {
			out = append(out, cur)
		}
	}
	rec(nil, append([]int{}, n...))
	return out
}

func c17ScnCorpus(v c17Variant) []c17Scn {
	acc := c17Acct{"a", "s1", "user", 5, 1000}
	s2 := "s2"
	cache := c17Mode{Cache: true}
	get := c17Op{Kind: "get", Key: "a"}
	mk := func(init []c17Acct, prefix []c17Op, calls []c17Op, sched ...int) c17Scn {
		return c17Scn{Stage: "conc", Mode: cache, Init: init, Prefix: prefix, Calls: calls, Sched: sched, Late: true, Var: v}
	}
	return []c17Scn{
		// the lookup has fetched, the account is deleted / its secret changed, the lookup stores what it fetched
		mk([]c17Acct{acc}, nil, []c17Op{get, {Kind: "delete", Key: "a"}}, 0, 0, 1, 1, 1, 0),
		mk([]c17Acct{acc}, nil, []c17Op{get, {Kind: "update", Key: "a", Secret: &s2}}, 0, 0, 1, 1, 1, 0),
		// the same with the clock moving while the lookup is parked
		mk([]c17Acct{acc}, nil, []c17Op{get, {Kind: "delete", Key: "a"}}, 0, 0, -1, 1, 1, 1, -1, 0),
		// create acknowledged by the store, delete runs completely, create writes its cache entry
		mk(nil, nil, []c17Op{{Kind: "create", Acct: &acc}, {Kind: "delete", Key: "a"}}, 0, 0, 1, 1, 1, 0),
		// two updates whose cache steps run in the opposite order of their store steps
		mk([]c17Acct{acc}, []c17Op{get}, []c17Op{{Kind: "update", Key: "a", Secret: &s2}, {Kind: "update", Key: "a", Secret: &acc.Secret}}, 0, 1, 0, 1, 1, 0),
		// harmless orders of the same calls
		mk([]c17Acct{acc}, nil, []c17Op{get, {Kind: "delete", Key: "a"}}, 1, 1, 0, 0, 1, 0),
		mk([]c17Acct{acc}, nil, []c17Op{get, {Kind: "delete", Key: "a"}}, 0, 1, 1, 1, 0, 0),
	}
}

func c17GenScns(a lib.Args, v c17Variant) []c17Scn {
	scns := c17ScnCorpus(v)
	tpl := c17Templates()
	sits := c17Situations()
	r := lib.NewRandStream(a.Seed, 1702)
	// every pair of calls in every situation under every schedule of the (up to) 3+3 segments
	var all []c17Scn
	for _, st := range sits {
		for i := range tpl {
			for j := i; j < len(tpl); j++ {
				// pairs on unrelated keys only in two situations
				ki, kj := tpl[i].key(), tpl[j].key()
				if (ki == "b" || kj == "b") && st.name != "present-warm" && st.name != "absent-cold" {
					continue
				}
				for _, sch := range c17Interleavings([]int{3, 3}) {
					all = append(all, c17Scn{Stage: "conc", Mode: st.mode, Init: st.init, Prefix: st.prefix,
						Calls: []c17Op{tpl[i], tpl[j]}, Sched: sch, Late: tpl[i].Kind == "update" || tpl[j].Kind == "update" || st.name == "present-expired", Var: v})
				}
			}
		}
	}
	if a.Thorough() {
		scns = append(scns, all...)
	} else {
		for i := 0; i < 250; i++ {
			sc := all[r.Intn(len(all))]
			sc.Late = sc.Late && r.Chance(30)
			scns = append(scns, sc)
		}
	}
	// three concurrent calls, random schedule with clock advances in it
	n3 := 120
	if a.Thorough() {
		n3 = 6000
	}
	for i := 0; i < n3; i++ {
		st := sits[r.Intn(len(sits))]
		sc := c17Scn{Stage: "conc", Mode: st.mode, Init: st.init, Prefix: st.prefix, Var: v, Late: r.Chance(20)}
		for k := 0; k < 3; k++ {
			sc.Calls = append(sc.Calls, c17GenOp(r, false))
		}
		il := []int{0, 0, 0, 1, 1, 1, 2, 2, 2}
		for k := len(il) - 1; k > 0; k-- {
			m := r.Intn(k + 1)
			il[k], il[m] = il[m], il[k]
		}
		for _, j := range il {
			if sc.Mode.Cache && !sc.Mode.TTL0 && r.Chance(6) {
				sc.Sched = append(sc.Sched, -1)
			}
			sc.Sched = append(sc.Sched, j)
		}
		scns = append(scns, sc)
	}
	return scns
}

func c17ScnClass(sc c17Scn) string {
	k := make([]string, len(sc.Calls))
	for i, o := range sc.Calls {
		k[i] = o.Kind
	}
	return strings.Join(k, "+")
}

func c17Conc(a lib.Args, res *lib.Result) error {
	v, err := c17Detect(a)
	if err != nil {
		return err
	}
	var scns []c17Scn
	if in := a.ReplayInput(); in != nil {
		if in["stage"] != "conc" {
			return nil
		}
		b, _ := json.Marshal(in)
		var sc c17Scn
		if err := json.Unmarshal(b, &sc); err != nil {
			return err
		}
		sc.Var = v
		scns = []c17Scn{sc}
	} else {
		scns = c17GenScns(a, v)
	}
	runs := make([]c17ScnRun, len(scns))
	errs := make([]error, len(scns))
	var wg sync.WaitGroup
	sem := make(chan struct{}, 8)
	for i := range scns {
		wg.Add(1)
		sem <- struct{}{}
		go func(i int) {
			defer wg.Done()
			defer func() { <-sem }()
			for try := 0; try < 4; try++ {
				runs[i], errs[i] = c17RunScn(filepath.Join(a.Work, "c17-conc", strconv.Itoa(i)), scns[i])
				if errs[i] != nil || !(runs[i].Unsafe || runs[i].IOErr) {
					return
				}
				if runs[i].IOErr {
					c17RetryPause(try)
				}
			}
		}(i)
	}
	wg.Wait()
	for _, e := range errs {
		if e != nil {
			return e
		}
	}
	var lines []string
	at := make([]int, len(scns))
	for i, sc := range scns {
		at[i] = len(lines)
		lines = append(lines, runs[i].Lines...)
		lines = append(lines, "iam quiet")
		lines = append(lines, c17LinLine(sc.Init, runs[i].Recs))
	}
	out, err := a.Driver.AskParallel(lines, 1) // stateful: one driver
	if err != nil {
		return err
	}
	seen := map[string]bool{}
	var pending []c17ClassifyItem
	var pendingFail []lib.Failure
	for i, sc := range scns {
		run := runs[i]
		eff, _ := json.Marshal(run.Eff)
		key := struct {
			S c17Scn
			E string
		}{sc, string(eff)}
		key.S.Sched = nil
		canon, _ := json.Marshal(key)
		if run.Unsafe {
			res.Count(string(canon), false, "conc:skipped:timing-unsafe")
			continue
		}
		if seen[string(canon)] && !hasAdv(sc.Sched) {
			res.Histogram["conc:duplicate-effective-schedule"]++
			continue
		}
		seen[string(canon)] = true
		res.Count(string(canon), true, "conc:mode:"+sc.Mode.String(), "conc:calls:"+c17ScnClass(sc), fmt.Sprintf("conc:ncalls:%d", len(sc.Calls)))
		if i == len(c17ScnCorpus(v)) {
			res.Sample(sc)
		}
		if run.Stuck {
			res.Fail(lib.Failure{Kind: "property", Signature: "iam:deadlock", What: "a call did not reach its next yield point within 10 s", Input: sc, Impl: strings.Join(run.Obs, " ")})
			continue
		}
		if len(run.Left) > 0 {
			res.Fail(lib.Failure{Kind: "property", Signature: "iam:store:leftover-files", What: "files besides users.json and its backup remain in the IAM directory: " + strings.Join(run.Left, ","), Input: sc})
		}
		mout := out[at[i] : at[i]+len(run.Lines)]
		quiet := out[at[i]+len(run.Lines)] == "1"
		verdict := out[at[i]+len(run.Lines)+1]
		if quiet {
			res.Histogram["conc:quiet-for-the-old-write-through-model:holds"]++
		} else {
			res.Histogram["conc:quiet-for-the-old-write-through-model:violated"]++
		}
		if quiet && verdict != "ok" {
			res.Fail(lib.Failure{Kind: "property", Signature: "iam:violation-on-quiet-schedule", What: "the schedule is quiet even by the standard of the old write-through model (quietRunB) and is still rejected by the oracle", Input: sc,
				Impl: strings.Join(run.Obs, " "), Model: strings.Join(mout[1:], " ")})
		}
		if verdict != "ok" {
			pending = append(pending, c17ClassifyItem{sc.Init, run.Recs, c17Evidence{V: v, Script: run.Lines, Segs: run.Segs}})
			pendingFail = append(pendingFail, lib.Failure{Kind: "property", What: "the observed history is not linearizable w.r.t. the plain account map: ", Input: sc,
				Impl: strings.Join(run.Obs, " "), Model: strings.Join(mout[1:], " ")})
		}
		// observation by observation (line 0 is the reset)
		for j := 1; j < len(run.Lines); j++ {
			if c17ObsOfModel(mout[j]) != run.Obs[j-1] {
				res.Fail(lib.Failure{Kind: "correspondence", Signature: "iam:conc:" + sc.Mode.String() + ":" + c17ScnClass(sc),
					What: fmt.Sprintf("step %d (%s): real service and model differ", j, run.Lines[j]), Input: sc, Impl: run.Obs[j-1], Model: mout[j]})
				break
			}
		}
	}
	for i, c := range c17ClassifyAll(a.Driver, pending) {
		f := pendingFail[i]
		f.Signature, f.What = c[0], f.What+c[1]
		res.Fail(f)
	}
	os.RemoveAll(filepath.Join(a.Work, "c17-conc"))
	return nil
}

func hasAdv(s []int) bool {
	for _, j := range s {
		if j < 0 {
			return true
		}
	}
	return false
}

// ------------------------------------------------------------------ free-running goroutines

// c17Free: no steering at all — goroutines hammer the real service on two keys; only the Spec
// oracle judges (the schedule is unknown, so there is nothing to compare with the model step by
// step).  Also the place where the store file is checked after real lock contention.
func c17Free(a lib.Args, res *lib.Result) error {
	if a.ReplayInput() != nil {
		return nil
	}
	v, err := c17Detect(a)
	if err != nil {
		return err
	}
	n := 60
	if a.Thorough() {
		n = 1500
	}
	r := lib.NewRandStream(a.Seed, 1703)
	var lines []string
	type fr struct {
		init []c17Acct
		recs []c17Rec
		mode c17Mode
	}
	var frs []fr
	retries := 0
	for i := 0; i < n; i++ {
		mode := c17Mode{Cache: r.Chance(80)}
		init := c17GenInit(r)
		sys, err := c17New(filepath.Join(a.Work, "c17-free", strconv.Itoa(i)), mode, init, false)
		if err != nil {
			return err
		}
		var clock int64
		var mu sync.Mutex
		var recs []c17Rec
		var wg sync.WaitGroup
		for g := 0; g < 3; g++ {
			ops := make([]c17Op, 3)
			for k := range ops {
				ops[k] = c17GenOp(r, false)
				if ops[k].Kind == "create" && !v.CopyIds && !v.Invalidate {
					// without a schedule a wrong uid/gid cannot be told from a race: leave that
					// defect to the steered runs
					ops[k].Acct.UID, ops[k].Acct.GID = 0, 0
				}
			}
			wg.Add(1)
			go func(ops []c17Op) {
				defer wg.Done()
				for _, o := range ops {
					inv := int(atomic.AddInt64(&clock, 1))
					x := o.apply(sys.svc)
					ret := int(atomic.AddInt64(&clock, 1))
					mu.Lock()
					recs = append(recs, c17Rec{inv, ret, o, x, -1})
					mu.Unlock()
				}
			}(ops)
		}
		wg.Wait()
		// everything has returned: what do the store and the cache say now?
		for _, o := range c17Probes(false) {
			inv := int(atomic.AddInt64(&clock, 1))
			x := o.apply(sys.svc)
			recs = append(recs, c17Rec{inv, int(atomic.AddInt64(&clock, 1)), o, x, -1})
		}
		if left := sys.leftovers(); len(left) > 0 {
			res.Fail(lib.Failure{Kind: "property", Signature: "iam:store:leftover-files", What: "files besides users.json and its backup remain: " + strings.Join(left, ","), Input: map[string]interface{}{"stage": "free", "records": recs}})
		}
		sys.close()
		ioerr := false
		for _, rc := range recs {
			ioerr = ioerr || c17EnvError(rc.Res)
		}
		if ioerr && retries < 3 {
			c17RetryPause(retries)
			retries++
			i--
			res.Histogram["free:repeated:io-error"]++
			continue
		}
		retries = 0
		frs = append(frs, fr{init, recs, mode})
		lines = append(lines, c17LinLine(init, recs))
	}
	out, err := a.Driver.Ask(lines)
	if err != nil {
		return err
	}
	for i, f := range frs {
		canon, _ := json.Marshal(f.recs)
		res.Count(string(canon), true, "free:mode:"+f.mode.String())
		if out[i] != "ok" {
			sig, what := c17Classify(a.Driver, f.init, f.recs, c17Evidence{V: v})
			res.Fail(lib.Failure{Kind: "property", Signature: sig, What: "free-running goroutines: the observed history is not linearizable: " + what,
				Input: map[string]interface{}{"stage": "free", "init": f.init, "records": f.recs, "note": "not replayable: the schedule was chosen by the Go runtime"}})
		}
	}
	os.RemoveAll(filepath.Join(a.Work, "c17-free"))
	return nil
}
