package main

// C20 targeted end-to-end differential for the modelled sites that live inside middlewares, handlers
// and posix methods: for generated inputs of each site the Lean model (in the variant this tree
// corresponds to) predicts panic / no panic and the answer class; the request is sent to a child
// gateway; "child exited" must coincide with the model's `panic`, and the answer with the model's.

import (
	"bytes"
	"crypto/sha256"
	"encoding/hex"
	"encoding/xml"
	"fmt"
	"net/url"
	"regexp"
	"sort"
	"strconv"
	"strings"
	"time"

	"github.com/versity/versitygw/s3err"
	"verif/harness/gw"
	"verif/harness/lib"
)

type c20Obs struct {
	Exited  bool
	Site    string // crash site when exited
	Reason  string
	Status  int
	Code    string
	Message string
	Body    []byte
	HWMKB   int64
	Timeout bool
}

func (w *c20World) tieSend(addr string, r gw.Req, patch func([]byte) []byte) (c20Obs, error) {
	if r.Creds.Access == "" && r.Auth != "none" {
		r.Creds = w.fix.Root
	}
	if r.Auth == "" {
		r.Auth = "header"
	}
	wire := gw.BuildWire(addr, r)
	if patch != nil {
		wire = patch(wire)
	}
	w.sent++
	ex := gw.Exchange(addr, wire, r.Method, c20Watchdog, true)
	o := c20Obs{Status: ex.Status, Body: ex.Body, Timeout: ex.TimedOut}
	var doc struct {
		Code    string `xml:"Code"`
		Message string `xml:"Message"`
	}
	if bytes.Contains(ex.Body, []byte("<Error>")) && xml.Unmarshal(ex.Body, &doc) == nil {
		o.Code, o.Message = doc.Code, doc.Message
	}
	alive := w.g.Alive()
	if alive && !w.probe() {
		alive = !w.g.WaitExit(3 * time.Second)
	}
	if !alive {
		w.g.WaitExit(2 * time.Second)
		o.Exited = true
		o.Reason, o.Site, _ = c20CrashSite(w.g.LogText())
		if err := w.g.Restart(); err != nil {
			return o, err
		}
		return o, nil
	}
	_, o.HWMKB = w.g.ProcStatus()
	return o, nil
}

func c20IsErr(o c20Obs, code s3err.ErrorCode) bool {
	e := s3err.GetAPIError(code)
	return o.Code == e.Code && o.Message == e.Description
}

type c20TieCase struct {
	Site    string            `json:"tie_site"`
	Args    map[string]string `json:"args"`
	Line    string            `json:"driver_line"` // model query ("" = expectation computed by the harness, see Expect)
	Expect  string            `json:"expect,omitempty"`
	Request string            `json:"request"`
}

// c20Tie runs the targeted differential. Variants of the seven repaired sites are probed first with the
// witness inputs of Open/C20.lean; a site still in its "as it is" variant is reported as a property
// failure (known finding) once, and compared with the `fixed = false` model from then on.
func c20Tie(a lib.Args, res *lib.Result) error {
	replay := a.ReplayInput()
	if replay != nil {
		if _, ok := replay["tie_site"]; !ok {
			return nil
		}
	}
	c20LoadInventory(a)
	w, err := c20Start(a, res, 90)
	if err != nil {
		return err
	}
	defer func() { w.g.Kill() }()
	addr := func() string { return w.g.Addr() }
	r := lib.NewRandStream(a.Seed, 2200)
	v := c20Variants{}
	budget := func(quick, thorough int) int {
		if a.Thorough() {
			return thorough
		}
		return quick
	}
	xmlDoc := func(root string, inner string) []byte { return []byte("<" + root + ">" + inner + "</" + root + ">") }
	grantsXML := func(gs string) string {
		var b strings.Builder
		b.WriteString("<AccessControlList>")
		if gs != "." {
			for _, g := range strings.Split(gs, ",") {
				p := strings.Split(g, ":")
				b.WriteString("<Grant>")
				if len(p) == 3 {
					fmt.Fprintf(&b, `<Grantee xmlns:xsi="http://www.w3.org/2001/XMLSchema-instance" xsi:type="%s"><ID>%s</ID></Grantee>`, unhex(p[1]), unhex(p[2]))
				}
				fmt.Fprintf(&b, "<Permission>%s</Permission></Grant>", unhex(p[0]))
			}
		}
		b.WriteString("</AccessControlList>")
		return b.String()
	}
	// ---- the requests of each site
	type sent struct {
		c   c20TieCase
		obs string
	}
	var all []sent
	record := func(c c20TieCase, obs string) { all = append(all, sent{c, obs}) }
	finding := func(n, endpoint string, o c20Obs, what, witness string) {
		sig := "crash:" + endpoint + ":" + o.Site
		res.Fail(lib.Failure{Kind: "property", Signature: sig, What: what + " — the gateway process exited (" + o.Reason + ")",
			Input: map[string]interface{}{"tie_site": "witness-" + n, "args": map[string]string{}, "request": witness}, Impl: "child exit: " + o.Reason, Model: "Open.C20: the code as it is panics on this input; Props.C20: with docs/C20-fix-" + n + ".diff it does not"})
	}

	send := func(site string, args map[string]string, line, expect string, req gw.Req, patch func([]byte) []byte, classify func(o c20Obs) string) (c20Obs, error) {
		o, err := w.tieSend(addr(), req, patch)
		if err != nil {
			return o, err
		}
		obs := "panic"
		if !o.Exited {
			obs = classify(o)
		}
		t := req.Path
		if req.Query != "" {
			t += "?" + req.Query
		}
		record(c20TieCase{Site: site, Args: args, Line: line, Expect: expect, Request: fmt.Sprintf("%s %s body=%q", req.Method, t, c20Clip(req.Body, 300))}, obs)
		res.Count(site+"|"+fmt.Sprint(args), true, "tie:site:"+site, "tie:obs:"+site+":"+strings.Fields(obs + " ?")[0])
		return o, nil
	}

	// ---------------- site builders (also used by replay)
	ownership := func(fixed bool, rules string) (c20Obs, error) {
		var in strings.Builder
		if rules != "." {
			for _, ru := range strings.Split(rules, ",") {
				in.WriteString("<Rule><ObjectOwnership>" + unhex(ru) + "</ObjectOwnership></Rule>")
			}
		}
		return send("ownership", map[string]string{"rules": rules}, "robust ownership "+c20Variants{"2": fixed}.flag("2")+" "+rules, "",
			gw.Req{Method: "PUT", Path: "/fzb", Query: "ownershipControls", Body: xmlDoc("OwnershipControls", in.String())}, nil,
			func(o c20Obs) string {
				if c20IsErr(o, s3err.ErrMalformedXML) {
					return "false"
				}
				return "true"
			})
	}
	objacl := func(fixed bool, grants string) (c20Obs, error) {
		body := xmlDoc("AccessControlPolicy", "<Owner><ID>rootaccess</ID></Owner>"+grantsXML(grants))
		return send("objacl", map[string]string{"grants": grants}, "robust objacl "+c20Variants{"5": fixed}.flag("5")+" "+grants, "",
			gw.Req{Method: "PUT", Path: "/fzb/o1", Query: "acl", Body: body}, nil,
			func(o c20Obs) string {
				if c20IsErr(o, s3err.ErrMalformedACL) {
					return "refused"
				}
				n := 0
				if grants != "." {
					n = len(strings.Split(grants, ","))
				}
				return fmt.Sprintf("converted %d", n)
			})
	}
	bucketacl := func(fixed bool, grants, owner string) (c20Obs, error) {
		own := ""
		switch owner {
		case "nil":
		case "noid":
			own = "<Owner></Owner>"
		default:
			own = "<Owner><ID>" + unhex(owner) + "</ID></Owner>"
		}
		body := xmlDoc("AccessControlPolicy", own+grantsXML(grants))
		return send("acp", map[string]string{"grants": grants, "owner": owner}, "robust acp "+c20Variants{"4": fixed}.flag("4")+" "+grants+" "+owner, "",
			gw.Req{Method: "PUT", Path: "/fza", Query: "acl", Body: body}, nil,
			func(o c20Obs) string {
				if c20IsErr(o, s3err.ErrMalformedACL) {
					return "false"
				}
				return "true"
			})
	}
	selectReq := func(fixed bool, p string) (c20Obs, error) {
		prog := map[string]string{"nil": "", "noenabled": "<RequestProgress></RequestProgress>", "true": "<RequestProgress><Enabled>true</Enabled></RequestProgress>", "false": "<RequestProgress><Enabled>false</Enabled></RequestProgress>"}[p]
		body := xmlDoc("SelectObjectContentRequest", "<Expression>select * from s3object</Expression><ExpressionType>SQL</ExpressionType>"+prog+
			"<InputSerialization><CSV></CSV></InputSerialization><OutputSerialization><CSV></CSV></OutputSerialization>")
		return send("select", map[string]string{"progress": p}, "robust select "+c20Variants{"6": fixed}.flag("6")+" "+p, "",
			gw.Req{Method: "POST", Path: "/fzb/o1", Query: "select&select-type=2", Body: body}, nil,
			func(o c20Obs) string { return "nopanic" })
	}
	aclparser := func(fixed bool, target string) (c20Obs, error) {
		unesc, uerr := url.QueryUnescape(target)
		line, expect := "robust aclparser "+c20Variants{"1": fixed}.flag("1")+" "+hexArg(unesc), ""
		if uerr != nil {
			line, expect = "", "refused"
		}
		return send("aclparser", map[string]string{"target": hexArg(target)}, line, expect,
			gw.Req{Method: "GET", Path: target}, nil,
			func(o c20Obs) string {
				if c20IsErr(o, s3err.ErrInvalidURI) {
					return "refused"
				}
				if o.Status == 403 && o.Code == "SignatureDoesNotMatch" {
					return "not-reached" // the server canonicalised the odd target differently from the client: authentication stopped the request before AclParser
				}
				return "bucket"
			})
	}

	// ---------------- replay of one tie case
	if replay != nil {
		site, _ := replay["tie_site"].(string)
		args := map[string]string{}
		if m, ok := replay["args"].(map[string]interface{}); ok {
			for k, x := range m {
				args[k] = fmt.Sprint(x)
			}
		}
		var o c20Obs
		switch site {
		case "witness-1":
			o, err = aclparser(false, "fzb")
		case "witness-2":
			o, err = ownership(false, ".")
		case "witness-4":
			o, err = bucketacl(false, hexArg("READ")+":nil", hexArg("rootaccess"))
		case "witness-5":
			o, err = objacl(false, hexArg("READ")+":nil")
		case "witness-6":
			o, err = selectReq(false, "noenabled")
		case "ownership":
			o, err = ownership(false, args["rules"])
		case "objacl":
			o, err = objacl(false, args["grants"])
		case "acp":
			o, err = bucketacl(false, args["grants"], args["owner"])
		case "select":
			o, err = selectReq(false, args["progress"])
		case "aclparser":
			o, err = aclparser(false, unhex(args["target"]))
		default:
			res.Note("replay of tie site %q: re-run the whole tie (./check C20) — the case depends on the listing state built by the run", site)
			return nil
		}
		if err != nil {
			return err
		}
		if o.Exited {
			res.Fail(lib.Failure{Kind: "property", Signature: "crash:replay:" + o.Site, What: "the gateway process exited while serving the replayed request (" + o.Reason + ")",
				Input: replay, Impl: "child exit: " + o.Reason, Model: "every request is answered and the process keeps serving"})
		}
		return nil
	}

	// ---------------- variant probes (witnesses of Open/C20.lean)
	probe := func(n, endpoint, what, witness string, f func() (c20Obs, error)) error {
		o, err := f()
		if err != nil {
			return err
		}
		all = all[:len(all)-1] // the probe itself is not a differential case
		v[n] = !o.Exited
		res.Note("variant of fix %s on this tree (witness probe): fixed=%v", n, v[n])
		if o.Exited {
			finding(n, endpoint, o, what, witness)
		}
		return nil
	}
	if err := probe("1", "AnyOperation", "a signed request whose target has no leading \"/\" passes DecodeURL; AclParser indexes pathParts[1] of a one-element split", "GET fzb HTTP/1.1 (signed as root)",
		func() (c20Obs, error) { return aclparser(false, "fzb") }); err != nil {
		return err
	}
	if err := probe("2", "PutBucketOwnershipControls", "PutBucketOwnershipControls reads Rules[0] before it tests the number of rules", "PUT /fzb?ownershipControls body <OwnershipControls></OwnershipControls>",
		func() (c20Obs, error) { return ownership(false, ".") }); err != nil {
		return err
	}
	if err := probe("4", "PutBucketAcl", "PutBucketAcl: AccessControlPolicy.Validate calls isValid on the nil Grantee of a Grant with a valid Permission", "PUT /fza?acl body with <Grant><Permission>READ</Permission></Grant>",
		func() (c20Obs, error) { return bucketacl(false, hexArg("READ")+":nil", hexArg("rootaccess")) }); err != nil {
		return err
	}
	if err := probe("5", "PutObjectAcl", "PutObjectAcl takes &grt.Grantee.ID of a Grant without Grantee", "PUT /fzb/o1?acl body with <Grant><Permission>READ</Permission></Grant>",
		func() (c20Obs, error) { return objacl(false, hexArg("READ")+":nil") }); err != nil {
		return err
	}
	if err := probe("6", "SelectObjectContent", "SelectObjectContent dereferences RequestProgress.Enabled of a <RequestProgress> without <Enabled>", "POST /fzb/o1?select&select-type=2 body with <RequestProgress></RequestProgress>",
		func() (c20Obs, error) { return selectReq(false, "noenabled") }); err != nil {
		return err
	}

	// ---------------- generated cases
	ownVals := []string{"BucketOwnerEnforced", "BucketOwnerPreferred", "ObjectWriter", "Bogus", ""}
	for i := 0; i < budget(30, 300); i++ {
		n := r.Intn(4)
		rules := "."
		if n > 0 {
			var rs []string
			for j := 0; j < n; j++ {
				rs = append(rs, hexArg(r.Pick(ownVals)))
			}
			rules = strings.Join(rs, ",")
		}
		if _, err := ownership(v["2"], rules); err != nil {
			return err
		}
	}
	w.do(gw.Req{Method: "PUT", Path: "/fzb", Query: "ownershipControls", Body: []byte(c20Bodies["ownership"])})
	for i := 0; i < budget(30, 300); i++ {
		if _, err := objacl(v["5"], c20GenGrants(r)); err != nil {
			return err
		}
	}
	for i := 0; i < budget(30, 300); i++ {
		if _, err := bucketacl(v["4"], c20GenGrants(r), r.Pick([]string{"nil", "noid", hexArg("rootaccess"), hexArg("x"), "-"})); err != nil {
			return err
		}
	}
	for _, p := range []string{"nil", "noenabled", "true", "false"} {
		if _, err := selectReq(v["6"], p); err != nil {
			return err
		}
	}
	targets := append([]string{}, c20PathPool...)
	for i := 0; i < budget(40, 400); i++ {
		targets = append(targets, c20Mutated(r, r.Pick([]string{"/fzb/o1", "fzb", "fzb/o1", "/fzb", "a", "%2Ffzb", "%2ffzb%2fo1", "fzb%2Fo1", ".", "fz%b"}), "/fzbo1%2F.~"))
	}
	for _, t := range targets {
		if t == "" || strings.ContainsAny(t, " ?#\r\n") || strings.Contains(t, "://") || t == "*" || len(t) > 2000 || !httpHeaderValue(t) {
			continue // not a request target the HTTP layer hands through as a path
		}
		if _, err := aclparser(v["1"], t); err != nil {
			return err
		}
	}

	// ---------------- ListMultipartUploads paging (fix 3)
	put := func(path, query string, body []byte) gw.Resp {
		return w.do(gw.Req{Method: "PUT", Path: path, Query: query, Body: body})
	}
	put("/fzm", "", nil)
	type upl struct{ key, id string }
	var ups []upl
	for _, k := range []string{"ka", "kb", "kb", "kc", "kd", "ke"} {
		rsp := w.do(gw.Req{Method: "POST", Path: "/fzm/" + k, Query: "uploads"})
		m := regexp.MustCompile(`<UploadId>([^<]+)</UploadId>`).FindSubmatch(rsp.Body)
		if m == nil {
			return fmt.Errorf("tie: create upload: %d %s", rsp.Status, rsp.Body)
		}
		ups = append(ups, upl{k, string(m[1])})
	}
	// the order in which posix.ListMultipartUploads collects them: directories named sha256(key) in
	// name order (os.ReadDir sorts), upload ids in name order inside; then a stable sort by key
	hexsum := func(k string) string { s := sha256.Sum256([]byte(k)); return hex.EncodeToString(s[:]) }
	pre := append([]upl{}, ups...)
	sort.SliceStable(pre, func(i, j int) bool {
		if hexsum(pre[i].key) != hexsum(pre[j].key) {
			return hexsum(pre[i].key) < hexsum(pre[j].key)
		}
		return pre[i].id < pre[j].id
	})
	sorted := append([]upl{}, pre...)
	sort.SliceStable(sorted, func(i, j int) bool { return sorted[i].key < sorted[j].key })
	var enc []string
	for _, u := range sorted {
		enc = append(enc, hexArg(u.key)+":"+hexArg(u.id))
	}
	lmu := func(fixed bool, km, um, mx string) (c20Obs, error) {
		kmi, found := -1, false
		for i, u := range pre {
			if um == u.id {
				found = true
			}
			if kmi == -1 && u.key == km {
				kmi = i
			}
		}
		line, expect := "", ""
		maxN, perr := strconv.ParseInt(mx, 10, 32)
		switch {
		case mx != "" && (perr != nil || maxN < 0):
			expect = "invalid-max"
		case (um != "" && !found) || (km != "" && kmi == -1):
			expect = "ok . false - -"
		default:
			if mx == "" || maxN > 1000 {
				maxN = 1000
			}
			line = fmt.Sprintf("robust lmu %s %s %d %d %s %s", c20Variants{"3": fixed}.flag("3"), strings.Join(enc, ","), kmi, maxN, hexArg(km), hexArg(um))
		}
		q := "uploads"
		for _, kv := range [][2]string{{"key-marker", km}, {"upload-id-marker", um}, {"max-uploads", mx}} {
			if kv[1] != "" {
				q += "&" + kv[0] + "=" + gw.EncodeQueryValue(kv[1])
			}
		}
		return send("lmu", map[string]string{"key-marker": km, "upload-id-marker": um, "max-uploads": mx}, line, expect,
			gw.Req{Method: "GET", Path: "/fzm", Query: q}, nil,
			func(o c20Obs) string {
				if c20IsErr(o, s3err.ErrInvalidMaxUploads) {
					return "invalid-max"
				}
				if o.Status != 200 {
					return fmt.Sprintf("status %d %s", o.Status, o.Code)
				}
				var ids []string
				for _, m := range regexp.MustCompile(`<UploadId>([^<]+)</UploadId>`).FindAllSubmatch(o.Body, -1) {
					ids = append(ids, hexArg(string(m[1])))
				}
				raw := func(tag string) string {
					if m := regexp.MustCompile("<" + tag + ">([^<]*)</" + tag + ">").FindSubmatch(o.Body); m != nil {
						return string(m[1])
					}
					return ""
				}
				l := "."
				if len(ids) > 0 {
					l = strings.Join(ids, ",")
				}
				return fmt.Sprintf("ok %s %s %s %s", l, raw("IsTruncated"), hexArg(raw("NextKeyMarker")), hexArg(raw("NextUploadIdMarker")))
			})
	}
	// variant of fix 3: the witness of Open/C20.lean (key-marker = first key in collection order, max-uploads 1)
	{
		o, err := lmu(false, pre[0].key, "", "1")
		if err != nil {
			return err
		}
		all = all[:len(all)-1]
		v["3"] = !o.Exited
		res.Note("variant of fix 3 on this tree (witness probe): fixed=%v", v["3"])
		if o.Exited {
			finding("3", "ListMultipartUploads", o, "ListMultipartUploads with a key-marker that names an upload and more uploads than max-uploads after it: NextKeyMarker is read from resultUpds[i-1], an index into the full list applied to the page",
				fmt.Sprintf("six uploads in /fzm; GET /fzm?uploads&key-marker=%s&max-uploads=1", pre[0].key))
		}
	}
	kms := []string{"", "", "ka", "kb", "kc", "kd", "ke", "zz", "k"}
	umsPool := []string{"", "", "", "zz"}
	for _, u := range ups {
		umsPool = append(umsPool, u.id)
	}
	mxs := []string{"", "0", "1", "2", "3", "5", "6", "7", "1000", "1001", "-1", "abc", "2147483647", "2147483648"}
	for i := 0; i < budget(120, 2000); i++ {
		if _, err := lmu(v["3"], r.Pick(kms), r.Pick(umsPool), r.Pick(mxs)); err != nil {
			return err
		}
	}

	// ---------------- ListBuckets: max-buckets guard + paging
	rsp := w.do(gw.Req{Method: "GET", Path: "/"})
	var names []string
	for _, m := range regexp.MustCompile(`<Name>([^<]+)</Name>`).FindAllSubmatch(rsp.Body, -1) {
		names = append(names, string(m[1]))
	}
	sort.Strings(names)
	var nameHex []string
	for _, n := range names {
		nameHex = append(nameHex, hexArg(n))
	}
	for i := 0; i < budget(60, 600); i++ {
		q := r.Pick(c20Pools["num"])
		if r.Chance(50) {
			q = strconv.Itoa(r.Intn(len(names) + 3))
		}
		if len(q) > 100 {
			continue
		}
		tok := r.Pick(append([]string{"", "", "a", "fzb", "zzz", "fz"}, names...))
		query := "continuation-token=" + gw.EncodeQueryValue(tok)
		if q != "" {
			query += "&max-buckets=" + gw.EncodeQueryValue(q)
		}
		// two driver questions: the guard, then the paging with the admitted value
		line := fmt.Sprintf("robust maxbuckets %s", hexArg(q))
		o, err := w.tieSend(addr(), gw.Req{Method: "GET", Path: "/", Query: query}, nil)
		if err != nil {
			return err
		}
		obs := "panic"
		if !o.Exited {
			if c20IsErr(o, s3err.ErrInvalidMaxBuckets) {
				obs = "invalid"
			} else {
				var got []string
				for _, m := range regexp.MustCompile(`<Name>([^<]+)</Name>`).FindAllSubmatch(o.Body, -1) {
					got = append(got, hexArg(string(m[1])))
				}
				ct := "-"
				if m := regexp.MustCompile(`<ContinuationToken>([^<]*)</ContinuationToken>`).FindSubmatch(o.Body); m != nil {
					ct = hexArg(string(m[1]))
				}
				l := "."
				if len(got) > 0 {
					l = strings.Join(got, ",")
				}
				obs = fmt.Sprintf("ok %s %s", l, ct)
			}
		}
		record(c20TieCase{Site: "listbuckets", Args: map[string]string{"max-buckets": q, "continuation-token": tok, "names": strings.Join(nameHex, ",")}, Line: line, Request: "GET /?" + query}, obs)
		res.Count("listbuckets|"+q+"|"+tok, true, "tie:site:listbuckets", "tie:obs:listbuckets:"+strings.Fields(obs)[0])
	}

	// ---------------- X-Amz-Date of a signed request (time.Parse, then date[:8])
	for i := 0; i < budget(80, 1500); i++ {
		d := c20GenDate(r)
		if r.Chance(35) { // around now: the parse succeeds and `date[:8]` is compared with the credential date
			t := time.Now().UTC().Add(time.Duration(c20PickInt(r, []int{0, 0, -86400, 86400, -3600, 100000000})) * time.Second)
			d = t.Format(r.Pick([]string{"20060102T150405Z", "20060102T150405Z", "20060102T150405.000Z", "20060102T150405,5Z", "20060102T150405z", "20060102T150405", "20060102T1504059Z", "2006-01-02T15:04:05Z"}))
		}
		if !httpHeaderValue(d) && d != "" {
			continue
		}
		req := gw.Req{Method: "HEAD", Path: "/fzb", Auth: "header", Creds: w.fix.Root}
		today := time.Now().UTC().Format("20060102")
		patch := func(wire []byte) []byte {
			return regexp.MustCompile(`(?m)^X-Amz-Date: [^\r]*\r\n`).ReplaceAll(wire, []byte("X-Amz-Date: "+d+"\r\n"))
		}
		if d == "" {
			patch = func(wire []byte) []byte {
				return regexp.MustCompile(`(?m)^X-Amz-Date: [^\r]*\r\n`).ReplaceAll(wire, nil)
			}
		}
		req.Method = "GET" // error documents carry a body only for GET
		if _, err := send("v4date", map[string]string{"date": hexArg(d)}, "robust v4date "+hexArg(strings.TrimSpace(d))+" "+hexArg(today), "", req, patch,
			func(o c20Obs) string {
				switch {
				case c20IsErr(o, s3err.ErrMissingDateHeader):
					return "missing"
				case c20IsErr(o, s3err.ErrMalformedDate):
					return "malformed"
				case c20IsErr(o, s3err.ErrSignatureDateDoesNotMatch):
					return "mismatch"
				}
				return "proceed"
			}); err != nil {
			return err
		}
	}

	// ---------------- PutBucketVersioning / GetBucketVersioning: the one-byte attribute
	for _, st := range []string{"Enabled", "Suspended", "", "enabled", "Bogus", "Enabled ", "Suspended", "Enabled"} {
		body := xmlDoc("VersioningConfiguration", "<Status>"+st+"</Status>")
		p := w.do(gw.Req{Method: "PUT", Path: "/fzv", Query: "versioning", Body: body})
		if _, err := send("versioning", map[string]string{"status": hexArg(st)}, "robust verattr "+hexArg(st), "",
			gw.Req{Method: "GET", Path: "/fzv", Query: "versioning"}, nil,
			func(o c20Obs) string {
				if p.Status != 200 {
					return "refused"
				}
				if m := regexp.MustCompile(`<Status>([^<]*)</Status>`).FindSubmatch(o.Body); m != nil {
					return string(m[1])
				}
				return "none"
			}); err != nil {
			return err
		}
	}
	put("/fzv", "versioning", xmlDoc("VersioningConfiguration", "<Status>Enabled</Status>"))

	// ---------------- unsigned chunk size → allocation (fix 7)
	chunk := func(line string) (c20Obs, error) {
		name := "size:" + line
		req := gw.Req{Method: "PUT", Path: "/fzb/chunked", Body: c20Data(16), Auth: "stream-unsigned-trailer", Creds: w.fix.Root, Trailer: "crc32",
			WireMut: func(wire []byte) []byte { return c20ApplyWireMut(name, wire) }}
		return w.tieSend(addr(), req, nil)
	}
	{
		// the witness of Open/C20.lean: `140000000` (5 GiB) with 16 bytes behind it — repeated: a fresh heap
		// hands out untouched pages the first time, the cost shows once the span is reused. What the source
		// says (is `make([]byte, chunkSize)` still there?) decides when the probe stays inconclusive.
		srcAsIs := false
		for _, s := range c20Inv {
			if s.File == "s3api/utils/unsigned-chunk-reader.go" && s.Func == "UnsignedChunkReader.Read" && s.Kind == "make" && s.Note == "" {
				srcAsIs = true
			}
		}
		var o c20Obs
		ballooned := false
		for i := 0; i < 5 && !ballooned; i++ {
			if o, err = chunk("140000000"); err != nil {
				return err
			}
			ballooned = o.Exited || o.HWMKB > c20RSSLimitKB || o.Timeout
			time.Sleep(150 * time.Millisecond)
		}
		v["7"] = !(ballooned || srcAsIs)
		res.Note("variant of fix 7 on this tree: fixed=%v (witness probe: ballooned=%v, peak RSS %d MiB, timed out %v, exited %v; source still allocates make([]byte, chunkSize): %v)", v["7"], ballooned, o.HWMKB/1024, o.Timeout, o.Exited, srcAsIs)
		if !v["7"] {
			res.Fail(lib.Failure{Kind: "property", Signature: "memory:PutObject:stream-unsigned-trailer:chunk-size-line",
				What:  fmt.Sprintf("a chunk-size line of an unsigned aws-chunked upload sizes an allocation of up to 5 GiB (make([]byte, chunkSize)) whatever arrives behind it: peak RSS %d MiB, answer within the watchdog: %v, child exited: %v", o.HWMKB/1024, !o.Timeout, o.Exited),
				Input: map[string]interface{}{"tie_site": "witness-7", "args": map[string]string{}, "request": "PUT /fzb/chunked, x-amz-content-sha256: STREAMING-UNSIGNED-PAYLOAD-TRAILER, body `140000000\\r\\n` + 16 bytes (sent twice)"},
				Impl:  fmt.Sprintf("peak RSS %d MiB", o.HWMKB/1024), Model: "Open.C20.chunkAlloc_asis_witness: 5368709120 bytes allocated for 0 arrived; Props.C20.alloc_bounded_unsignedChunk_fixed: ≤ 2·arrived + 512"})
			if !o.Exited {
				if err := w.g.Restart(); err != nil {
					return err
				}
			}
		}
	}
	for _, line := range []string{"0", "1", "10", "11", "ff", "FF", "+10", "-1", "", " 10 ", "10 ", "zz", "1000", "100000", "10000000", "0x10", "1_0", "140000001", "7fffffffffffffff", "8000000000000000", "ffffffffffffffff", "-8000000000000000", "00000000000000000010"} {
		_, hwm0 := w.g.ProcStatus()
		o, err := chunk(line)
		if err != nil {
			return err
		}
		// model: accepted size and the allocation bound for the 16+… bytes that arrive
		arrived := 64
		obs := "panic"
		if !o.Exited {
			obs = fmt.Sprintf("status=%d grown-kB=%d", o.Status, o.HWMKB-hwm0)
		}
		record(c20TieCase{Site: "chunksize", Args: map[string]string{"line": hexArg(line), "arrived": strconv.Itoa(arrived), "fixed": v.flag("7")}, Line: "robust chunksize " + hexArg(line),
			Request: "PUT /fzb/chunked STREAMING-UNSIGNED-PAYLOAD-TRAILER first chunk-size line " + strconv.Quote(line)}, obs)
		res.Count("chunksize|"+line, true, "tie:site:chunksize")
	}

	// ---------------- ask the model, compare
	var lines []string
	idx := make([]int, len(all))
	for i, s := range all {
		idx[i] = -1
		if s.c.Line != "" {
			idx[i] = len(lines)
			lines = append(lines, s.c.Line)
		}
	}
	out, err := a.Driver.Ask(lines)
	if err != nil {
		return err
	}
	// second round: questions that depend on the first answer (listbuckets paging, chunk allocation)
	var lines2 []string
	idx2 := make([]int, len(all))
	for i, s := range all {
		idx2[i] = -1
		if idx[i] < 0 {
			continue
		}
		m := out[idx[i]]
		switch s.c.Site {
		case "listbuckets":
			if m != "invalid" {
				nm := s.c.Args["names"]
				if nm == "" {
					nm = "."
				}
				idx2[i] = len(lines2)
				lines2 = append(lines2, fmt.Sprintf("robust listbuckets %s %s %s", m, hexArg(s.c.Args["continuation-token"]), nm))
			}
		case "chunksize":
			if m != "malformed" {
				idx2[i] = len(lines2)
				lines2 = append(lines2, fmt.Sprintf("robust chunkalloc %s %s %s", s.c.Args["fixed"], m, s.c.Args["arrived"]))
			}
		}
	}
	out2, err := a.Driver.Ask(lines2)
	if err != nil {
		return err
	}
	for i, s := range all {
		model := s.c.Expect
		if idx[i] >= 0 {
			model = out[idx[i]]
		}
		if idx2[i] >= 0 {
			model = out2[idx2[i]]
		}
		obs := s.obs
		ok := true
		switch s.c.Site {
		case "select":
			if model == "true" || model == "false" {
				model = "nopanic"
			}
			ok = model == obs
		case "aclparser":
			// compared: panic / refused / handed on (the bucket value itself is not observable)
			if strings.HasPrefix(model, "bucket") {
				model = "bucket"
			}
			ok = model == obs || (obs == "not-reached" && model != "refused")
		case "acp":
			// a document Validate accepts can still be refused later (unknown grantee account, owner mismatch):
			// compared are panic, and "Validate refuses ⇒ MalformedACL"
			ok = model == obs || (model == "true" && obs == "false") || (model == "true" && obs != "panic")
			if model == "false" {
				ok = obs == "false"
			}
		case "objacl":
			ok = model == obs
		case "ownership":
			ok = model == obs
		case "chunksize":
			// the implementation must not panic, and must not use more memory than the model allocates (+ slack)
			if obs == "panic" {
				ok = false
			} else if model != "malformed" && model != "panic" {
				var st, grown int64
				fmt.Sscanf(obs, "status=%d grown-kB=%d", &st, &grown)
				bound, _ := strconv.ParseInt(model, 10, 64)
				ok = grown*1024 <= bound+256<<20
			}
		default:
			ok = model == obs
		}
		if i%97 == 0 {
			res.Sample(map[string]interface{}{"tie": s.c.Site, "args": s.c.Args, "impl": obs, "model": model})
		}
		if ok {
			continue
		}
		kind, sig := "correspondence", "tie:"+s.c.Site
		if obs == "panic" {
			kind, sig = "property", "crash:tie:"+s.c.Site
		}
		in := map[string]interface{}{"tie_site": s.c.Site, "args": s.c.Args, "request": s.c.Request, "driver_line": s.c.Line}
		res.Fail(lib.Failure{Kind: kind, Signature: sig, What: "the gateway's answer (child exit = panic) differs from the model of this tree's variant", Input: in, Impl: obs, Model: model})
	}
	var vs []string
	for _, n := range []string{"1", "2", "3", "4", "5", "6", "7"} {
		vs = append(vs, fmt.Sprintf("fix-%s:%v", n, map[bool]string{true: "fixed", false: "as-is"}[v[n]]))
	}
	res.Note("tie: %d targeted requests compared with the models; variants of this tree: %s", len(all), strings.Join(vs, " "))
	return nil
}
