package main

import (
	"encoding/xml"
	"fmt"
	"net/url"
	"strconv"
	"strings"

	"verif/harness/gw"
	"verif/harness/lib"
)

// c07E2E: ListObjects (V1) and ListObjectsV2 through a real gateway process on the posix backend.
// Key sets are PUT into fresh buckets (explicit directory objects as `dir/` with an empty body),
// every listing is followed to its end through NextMarker / NextContinuationToken, and the run is
// judged by the same Lean driver op as the in-process check (`walk judge`, skip list [.sgwtmp]) with
// the TRUE sizes and the ETags the PUTs returned. Internal names (`.sgwtmp…`) must never appear.

type c07ListResult struct {
	IsTruncated           bool   `xml:"IsTruncated"`
	NextMarker            string `xml:"NextMarker"`
	NextContinuationToken string `xml:"NextContinuationToken"`
	Contents              []struct {
		Key  string `xml:"Key"`
		Size int64  `xml:"Size"`
		ETag string `xml:"ETag"`
	} `xml:"Contents"`
	CommonPrefixes []struct {
		Prefix string `xml:"Prefix"`
	} `xml:"CommonPrefixes"`
}

type c07Bucket struct {
	name  string
	dead  []string // files on disk that are not objects (current version is a delete marker)
	keys  []string
	sizes map[string]int
	etags map[string]string
}

func c07Q(kv ...string) string {
	var parts []string
	for i := 0; i+1 < len(kv); i += 2 {
		parts = append(parts, kv[i]+"="+url.QueryEscape(kv[i+1]))
	}
	return strings.Join(parts, "&")
}

func (b *c07Bucket) keysToken() string {
	var o []string
	for _, k := range b.keys {
		o = append(o, fmt.Sprintf("%s:%d:%s", lib.HexS(k), b.sizes[k], lib.HexS(b.etags[k])))
	}
	for _, k := range b.dead {
		o = append(o, lib.HexS(k)+":D:-")
	}
	return c07List(o)
}

// one listing request; v2 selects ListObjectsV2 (marker = start-after, token = continuation token)
func c07ListOnce(addr string, cr gw.Creds, bucket string, v2 bool, prefix, delim, marker, token string, max int) (c07Page, int, string) {
	var q string
	if v2 {
		kv := []string{"list-type", "2", "prefix", prefix, "delimiter", delim, "max-keys", strconv.Itoa(max)}
		if marker != "" {
			kv = append(kv, "start-after", marker)
		}
		if token != "" {
			kv = append(kv, "continuation-token", token)
		}
		q = c07Q(kv...)
	} else {
		m := marker
		if token != "" {
			m = token
		}
		q = c07Q("prefix", prefix, "delimiter", delim, "marker", m, "max-keys", strconv.Itoa(max))
	}
	rsp := gw.Do(addr, gw.Req{Method: "GET", Path: "/" + bucket, Query: q, Auth: "header", Creds: cr})
	if rsp.Err != nil || rsp.Status != 200 {
		return c07Page{}, rsp.Status, fmt.Sprintf("%v %s", rsp.Err, rsp.Body)
	}
	var lr c07ListResult
	if err := xml.Unmarshal(rsp.Body, &lr); err != nil {
		return c07Page{}, rsp.Status, "unparsable XML: " + err.Error()
	}
	var p c07Page
	for _, c := range lr.Contents {
		p.objs = append(p.objs, c.Key)
		p.sizes = append(p.sizes, c.Size)
		p.etags = append(p.etags, strings.Trim(c.ETag, `"`))
	}
	for _, c := range lr.CommonPrefixes {
		p.cps = append(p.cps, c.Prefix)
	}
	p.trunc = lr.IsTruncated
	if v2 {
		p.next = lr.NextContinuationToken
	} else {
		p.next = lr.NextMarker
	}
	return p, 200, ""
}

func c07E2E(a lib.Args, res *lib.Result) error {
	if in := a.ReplayInput(); in != nil {
		if st, _ := in["stage"].(string); st != "e2e" {
			return nil // not a finding of this stage
		}
	}
	cfg, err := mustStorage(a, "c07", false, false, nil)
	if err != nil {
		return err
	}
	g, err := gw.Start(cfg)
	if err != nil {
		return err
	}
	defer g.Kill()
	cr := rootCreds(cfg)
	r := lib.NewRandStream(a.Seed, 72)
	addr := g.Addr()

	sets := [][]string{
		{"sample.jpg", "photos/2006/Jan/a.jpg", "photos/2006/Feb/b.jpg", "photos/2007/c.jpg"},
		{"a/b", "a/c", "ab", "b"},
		{"a/x", "a.b"},              // order-incompatible siblings
		{"a/", "b"},                 // directory object, no children
		{"a/", "a/b", "c"},          // directory object with children
		{"a-b", "a-c", "a", "b"},    // non-'/' delimiter material
		{"x/.sgwtmp", "x/z", "y"},   // a user key named like the bookkeeping directory (C07-fix-1: ordinary key)
		{"u/.sgwtmp/v", "u/w"},      // a user directory so named below the top level
		{"d/e/f/g", "d/e/h", "d/i"}, // deep
	}
	nrand := 4
	if a.Thorough() {
		nrand = 40
	}
	for i := 0; i < nrand; i++ {
		c := c07RandCase(r, false)
		if len(c.Keys) > 0 {
			sets = append(sets, c.Keys)
		}
	}

	var buckets []*c07Bucket
	for i, ks := range sets {
		b := &c07Bucket{name: fmt.Sprintf("lst%d", i), sizes: map[string]int{}, etags: map[string]string{}}
		if rsp := gw.Do(addr, gw.Req{Method: "PUT", Path: "/" + b.name, Auth: "header", Creds: cr}); rsp.Status != 200 {
			return fmt.Errorf("create bucket: %d %s %v", rsp.Status, rsp.Body, rsp.Err)
		}
		for _, k := range ks {
			sz := c07Size(k)*7 + 1
			if strings.HasSuffix(k, "/") {
				sz = 0
			}
			rsp := gw.Do(addr, gw.Req{Method: "PUT", Path: "/" + b.name + "/" + gw.EncodePath(k), Body: r.Bytes(sz), Auth: "header", Creds: cr})
			if rsp.Status != 200 {
				res.Note("e2e: PUT %q into %s answered %d %s (key left out)", k, b.name, rsp.Status, rsp.ErrCode())
				continue
			}
			b.keys = append(b.keys, k)
			b.sizes[k] = sz
			b.etags[k] = strings.Trim(rsp.Headers.Get("ETag"), `"`)
		}
		buckets = append(buckets, b)
	}
	// bookkeeping content: an open multipart upload with one part in the first bucket
	if rsp := gw.Do(addr, gw.Req{Method: "POST", Path: "/" + buckets[0].name + "/mp-object", Query: "uploads", Auth: "header", Creds: cr}); rsp.Status != 200 {
		res.Note("e2e: CreateMultipartUpload answered %d", rsp.Status)
	} else {
		var mp struct {
			UploadId string `xml:"UploadId"`
		}
		xml.Unmarshal(rsp.Body, &mp)
		if rsp := gw.Do(addr, gw.Req{Method: "PUT", Path: "/" + buckets[0].name + "/mp-object", Query: "partNumber=1&uploadId=" + url.QueryEscape(mp.UploadId),
			Body: r.Bytes(10), Auth: "header", Creds: cr}); rsp.Status != 200 {
			res.Note("e2e: UploadPart answered %d", rsp.Status)
		}
	}

	return c07QueryBuckets(a, res, r, addr, cr, buckets, "e2e", true)
}

// c07QueryBuckets lists every bucket with a grid of fixed and random (prefix, delimiter, marker,
// max-keys) requests through V1 and V2, follows the pages and has the Lean driver judge each run.
func c07QueryBuckets(a lib.Args, res *lib.Result, r *lib.Rand, addr string, cr gw.Creds, buckets []*c07Bucket, stage string, probes bool) error {
	type run struct {
		b     *c07Bucket
		v2    bool
		c     c07Case
		pages []c07Page
	}
	var runs []run
	var lines []string
	skip := []string{".sgwtmp"}
	nq := 12
	if a.Thorough() {
		nq = 40
	}
	for _, b := range buckets {
		var queries []c07Case
		// a fixed grid plus derived prefixes/markers
		for _, d := range []string{"", "/"} {
			for _, n := range []int{1, 2, 1000} {
				queries = append(queries, c07Case{Delim: d, Max: n})
			}
		}
		queries = append(queries, c07Case{Delim: "/", Max: 0}, c07Case{Delim: "-", Max: 1})
		if probes {
			queries = append(queries, c07Case{Prefix: "a//", Max: 5}, c07Case{Prefix: "../", Max: 5},
				c07Case{Prefix: ".sgwtmp/", Max: 5}, c07Case{Prefix: ".sgwtmp/multipart/", Max: 50},
				c07Case{Prefix: ".sgwtmp/", Delim: "/", Max: 5}, c07Case{Prefix: ".sgwtmp/multipart/", Delim: "/", Max: 50}, c07Case{Prefix: ".sgwtmp", Delim: "/", Max: 5})
		}
		for i := 0; i < nq; i++ {
			c := c07RandCase(r, false)
			c.Keys = b.keys
			c.Skip = nil
			pick := func() string {
				if len(b.keys) == 0 || r.Chance(25) {
					return c07RandString(r, c07Alphabet, 3)
				}
				k := b.keys[r.Intn(len(b.keys))]
				switch r.Intn(4) {
				case 0:
					return k
				case 1:
					return k[:r.Intn(len(k)+1)]
				case 2:
					if j := strings.LastIndex(k, "/"); j >= 0 {
						return k[:j+1]
					}
					return k
				default:
					return k + "0"
				}
			}
			c.Prefix, c.Marker = "", ""
			if r.Chance(55) {
				c.Prefix = pick()
			}
			if r.Chance(45) {
				c.Marker = pick()
			}
			queries = append(queries, c)
		}
		for _, q := range queries {
			q.Keys, q.Dead, q.Skip, q.Stage, q.Bucket = b.keys, b.dead, skip, stage, b.name
			for _, v2 := range []bool{false, true} {
				var pages []c07Page
				marker, token := q.Marker, ""
				limit := 4*(len(b.keys)+len(b.dead)) + 8
				ok, terminated := true, false
				for i := 0; i < limit; i++ {
					p, st, msg := c07ListOnce(addr, cr, b.name, v2, q.Prefix, q.Delim, marker, token, q.Max)
					if st != 200 {
						ok = false
						// includes prefixes whose root is not a valid io/fs path (`a//`, `../`): the empty
						// listing, not 500 (repaired by C07-fix-3)
						res.Fail(lib.Failure{Kind: "property", Signature: "list:error-status", What: fmt.Sprintf("listing request answered %d instead of a (possibly empty) listing", st),
							Input: map[string]interface{}{"bucket": b.name, "keys": b.keys, "dead": b.dead, "prefix": q.Prefix, "delimiter": q.Delim, "marker": marker, "token": token, "max": q.Max, "v2": v2}, Impl: msg})
						break
					}
					for _, k := range append(append([]string{}, p.objs...), p.cps...) {
						if k == ".sgwtmp" || strings.HasPrefix(k, ".sgwtmp/") {
							res.Fail(lib.Failure{Kind: "property", Signature: "list:internal-name-listed", What: "an internal bookkeeping name appears in a listing (prefix below .sgwtmp: repaired by C07-fix-2)",
								Input: map[string]interface{}{"bucket": b.name, "keys": b.keys, "dead": b.dead, "prefix": q.Prefix, "delimiter": q.Delim, "marker": marker, "max": q.Max, "v2": v2}, Impl: p.String()})
							ok = false
						}
					}
					if p.trunc && p.next == "" {
						// V1 without NextMarker: the client continues after the last name returned
						if len(p.objs) > 0 {
							p.next = p.objs[len(p.objs)-1]
						}
					}
					pages = append(pages, p)
					if !p.trunc {
						terminated = true
						break
					}
					token = p.next
				}
				api := "v1"
				if v2 {
					api = "v2"
				}
				res.Count(fmt.Sprintf("%s|%s|%s|%q|%q|%q|%d", stage, b.name, api, q.Prefix, q.Delim, q.Marker, q.Max), len(b.keys) > 0 && q.Max > 0, stage+":"+api, fmt.Sprintf("%s:pages:%d", stage, len(pages)))
				if !ok {
					continue
				}
				if !terminated {
					pages = append(pages, c07Page{next: "\x00nonterminating"})
				}
				toks := make([]string, 0, len(pages))
				for _, p := range pages {
					if p.next != "\x00nonterminating" {
						toks = append(toks, p.token())
					}
				}
				q.API = api
				runs = append(runs, run{b, v2, q, pages})
				lines = append(lines, fmt.Sprintf("walk judge %s %s %s %s %s %d %s", b.keysToken(), c07HexList(skip),
					lib.HexS(q.Prefix), lib.HexS(q.Delim), lib.HexS(q.Marker), q.Max, strings.Join(toks, " ")))
			}
		}
	}
	out, err := a.Driver.Ask(lines)
	if err != nil {
		return err
	}
	for i, rn := range runs {
		c := rn.c
		c07Evaluate(res, c, rn.pages, out[i])
	}
	return nil
}
