package main

// C20 in-process differential runs: every modelled site that is an exported / pure Go function is
// called under `recover` (a panic is an observable outcome) and compared with the Lean model's
// outcome — panic / no panic AND the value.

import (
	"bufio"
	"bytes"
	"context"
	"encoding/hex"
	"fmt"
	"io"
	"net/url"
	"sort"
	"strconv"
	"strings"
	"time"
	"unicode"

	"github.com/aws/aws-sdk-go-v2/service/s3"
	"github.com/aws/aws-sdk-go-v2/service/s3/types"
	"github.com/gofiber/fiber/v2"
	"github.com/valyala/fasthttp"
	"github.com/versity/versitygw/auth"
	"github.com/versity/versitygw/backend"
	"github.com/versity/versitygw/s3api/utils"
	"github.com/versity/versitygw/s3err"
	"verif/harness/gw"
	"verif/harness/lib"
)

// c20Variant: for the sites with a proposed repair, whether the code under test behaves as it is
// ("asis") or as repaired ("fixed"); decided by probing the witness input of Open/C20.lean.
type c20Variants map[string]bool // fix number -> fixed?

func (v c20Variants) flag(n string) string {
	if v[n] {
		return "1"
	}
	return "0"
}

func c20Recover(f func() string) (out string) {
	defer func() {
		if r := recover(); r != nil {
			out = "panic"
		}
	}()
	return f()
}

type c20DCase struct {
	Site  string   `json:"site"`
	Args  []string `json:"args"` // hex strings / decimal numbers, exactly as passed to the driver
	Class string   `json:"class"`
}

func hexArg(s string) string { return lib.HexS(s) }
func unhex(s string) string {
	if s == "-" {
		return ""
	}
	b, _ := hex.DecodeString(s)
	return string(b)
}

// removeSpace: the unexported helper of s3api/utils/auth-reader.go, verbatim (environment input of
// the model: the theorem holds for any function in its place).
func c20RemoveSpace(str string) string {
	var b strings.Builder
	b.Grow(len(str))
	for _, ch := range str {
		if !unicode.IsSpace(ch) {
			b.WriteRune(ch)
		}
	}
	return b.String()
}

var c20AuthErrs = map[string]s3err.ErrorCode{
	"MissingFields": s3err.ErrMissingFields, "SignatureVersionNotSupported": s3err.ErrSignatureVersionNotSupported,
	"CredMalformed": s3err.ErrCredMalformed, "InvalidQueryParams": s3err.ErrInvalidQueryParams,
	"SignatureIncorrService": s3err.ErrSignatureIncorrService, "SignatureTerminationStr": s3err.ErrSignatureTerminationStr,
	"SignatureDateDoesNotMatch": s3err.ErrSignatureDateDoesNotMatch, "MalformedDate": s3err.ErrMalformedDate,
	"InvalidQuerySignatureAlgo": s3err.ErrInvalidQuerySignatureAlgo, "MalformedExpires": s3err.ErrMalformedExpires,
	"NegativeExpires": s3err.ErrNegativeExpires, "MaximumExpires": s3err.ErrMaximumExpires, "ExpiredPresignRequest": s3err.ErrExpiredPresignRequest,
}

func c20AuthErrName(err error) string {
	ae, ok := err.(s3err.APIError)
	if !ok {
		return "other:" + err.Error()
	}
	var names []string
	for n, c := range c20AuthErrs {
		if s3err.GetAPIError(c) == ae {
			names = append(names, n)
		}
	}
	sort.Strings(names)
	if len(names) > 0 {
		return names[0]
	}
	if ae.Code == "SignatureDoesNotMatch" && strings.HasPrefix(ae.Description, "Credential should be scoped to a valid Region") {
		return "RegionMismatch"
	}
	return "other:" + ae.Code
}

func c20ShowAuth(a utils.AuthData, err error) string {
	if err != nil {
		return "err " + c20AuthErrName(err)
	}
	return fmt.Sprintf("ok %s %s %s %s %s", hexArg(a.Access), hexArg(a.Region), hexArg(a.SignedHeaders), hexArg(a.Signature), hexArg(a.Date))
}

var c20App = fiber.New()

func c20Ctx(method, uri string, f func(c *fiber.Ctx) string) string {
	fctx := &fasthttp.RequestCtx{}
	fctx.Request.Header.SetMethod(method)
	fctx.Request.SetRequestURI(uri)
	c := c20App.AcquireCtx(fctx)
	defer c20App.ReleaseCtx(c)
	return f(c)
}

// c20DirectRun: the implementation's outcome and the driver line of one case.
func c20DirectRun(c c20DCase, v c20Variants) (impl string, line string) {
	a := c.Args
	switch c.Site {
	case "copysource":
		h := unhex(a[0])
		line = "robust copysource " + a[0]
		impl = c20Recover(func() string {
			b, o, vid, err := backend.ParseCopySource(h)
			if err != nil {
				return "invalid"
			}
			return fmt.Sprintf("ok %s %s %s", hexArg(b), hexArg(o), hexArg(vid))
		})
	case "tags":
		line = "robust tags " + a[0]
		impl = c20Recover(func() string {
			m, err := backend.ParseObjectTags(unhex(a[0]))
			if err != nil {
				return "err"
			}
			return "ok " + c20SortPairs(m)
		})
	case "copyrange":
		size, _ := strconv.ParseInt(a[0], 10, 64)
		line = "robust copyrange " + a[0] + " " + a[1]
		impl = c20Recover(func() string {
			st, ln, err := backend.ParseCopySourceRange(size, unhex(a[1]))
			if err != nil {
				if ae, ok := err.(s3err.APIError); ok && ae == s3err.GetAPIError(s3err.ErrInvalidCopySourceRange) {
					return "invalid"
				}
				return "exceeding"
			}
			return fmt.Sprintf("ok %d %d", st, ln)
		})
	case "getrange":
		size, _ := strconv.ParseInt(a[0], 10, 64)
		line = "robust getrange " + a[0] + " " + a[1]
		impl = c20Recover(func() string {
			st, ln, valid, err := backend.ParseGetObjectRange(size, unhex(a[1]))
			return fmt.Sprintf("%d %d %v %v", st, ln, valid, err != nil)
		})
	case "auth":
		s := unhex(a[0])
		rs2 := ""
		if i := strings.Index(s, " "); i >= 0 {
			rs2 = c20RemoveSpace(s[i+1:])
		}
		line = "robust auth " + a[0] + " " + hexArg(rs2)
		impl = c20Recover(func() string { return c20ShowAuth(utils.ParseAuthorization(s)) })
	case "presign":
		// args: algo cred date sig shdrs exp (hex), region (hex); `passed` is computed here
		var q []string
		for i, n := range []string{"X-Amz-Algorithm", "X-Amz-Credential", "X-Amz-Date", "X-Amz-Signature", "X-Amz-SignedHeaders", "X-Amz-Expires"} {
			if a[i] != "-" {
				q = append(q, n+"="+url.QueryEscape(unhex(a[i])))
			}
		}
		passed := 0
		if t, err := time.Parse("20060102T150405Z", unhex(a[2])); err == nil {
			passed = int(time.Since(t).Seconds())
		}
		line = "robust presign " + strings.Join(a[:7], " ") + " " + strconv.Itoa(passed)
		impl = c20Recover(func() string {
			return c20Ctx("GET", "/b/k?"+strings.Join(q, "&"), func(ctx *fiber.Ctx) string {
				ctx.Locals("region", unhex(a[6]))
				return c20ShowAuth(utils.ParsePresignedURIParts(ctx))
			})
		})
	case "timeparse":
		layout := map[string]string{"compact": "20060102T150405Z", "ymd": "20060102"}[a[0]]
		line = "robust timeparse " + a[0] + " " + a[1]
		_, err := time.Parse(layout, unhex(a[1]))
		impl = strconv.FormatBool(err == nil)
	case "queryunescape":
		line = "robust queryunescape " + a[0]
		if u, err := url.QueryUnescape(unhex(a[0])); err != nil {
			impl = "err"
		} else {
			impl = "ok " + hexArg(u)
		}
	case "trimspace":
		line = "robust trimspace " + a[0]
		impl = hexArg(strings.TrimSpace(unhex(a[0])))
	case "acp":
		// args: grants (perm:type:id | perm:nil , …), owner (nil | noid | hex)
		line = "robust acp " + v.flag("4") + " " + a[0] + " " + a[1]
		impl = c20Recover(func() string {
			acp := auth.AccessControlPolicy{}
			if a[0] != "." {
				for _, g := range strings.Split(a[0], ",") {
					p := strings.Split(g, ":")
					gr := auth.Grant{Permission: auth.Permission(unhex(p[0]))}
					if len(p) == 3 {
						gr.Grantee = &auth.Grt{Type: types.Type(unhex(p[1])), ID: unhex(p[2])}
					}
					acp.AccessControlList.Grants = append(acp.AccessControlList.Grants, gr)
				}
			}
			switch a[1] {
			case "nil":
			case "noid":
				acp.Owner = &types.Owner{}
			default:
				id := unhex(a[1])
				acp.Owner = &types.Owner{ID: &id}
			}
			return strconv.FormatBool(acp.Validate() == nil)
		})
	case "select":
		line = "robust select " + v.flag("6") + " " + a[0]
		impl = c20Recover(func() string {
			in := &s3.SelectObjectContentInput{}
			t, f := true, false
			switch a[0] {
			case "noenabled":
				in.RequestProgress = &types.RequestProgress{}
			case "true":
				in.RequestProgress = &types.RequestProgress{Enabled: &t}
			case "false":
				in.RequestProgress = &types.RequestProgress{Enabled: &f}
			}
			backend.BackendUnsupported{}.SelectObjectContent(context.Background(), in)(bufio.NewWriter(io.Discard))
			return "nopanic"
		})
	case "signedread":
		// args: variant (signed | signed-trailer), stream (hex). No model question: Props.C12.signed_never_panics
		// (re-exported as Props.C20.no_panic_signedChunkReader) says the reader never panics on any bytes;
		// here: it must not panic and must come to an end
		line = "robust chunksizeof -"
		impl = c20ReadSigned(a[0], []byte(unhex(a[1])))
	case "globmatch":
		// args: pattern, subject (hex): auth.Resources.Match must answer within 1 s and agree with Model.Glob
		line = "robust chunksizeof -" // long subjects: only the time is judged (the list-indexed Lean model is slow on them)
		if len(a[1]) <= 2*260 {
			line = "robust globmatch " + a[0] + " " + a[1]
		}
		impl = c20GlobMatch(unhex(a[0]), unhex(a[1]))
	case "unsignedread":
		// the whole reader on a finite stream: it must come to an end (value or error) — a reader that
		// neither returns nor consumes is the wedge of the request; the first size line is compared
		// with the model: where the model refuses it, Read must return errMalformedEncoding at once
		line = "robust chunksizeof " + a[0]
		impl = c20ReadUnsigned([]byte(unhex(a[0])))
	case "bigdata":
		// the model gets the path as the handler sees it (ctx.Path())
		var seen string
		impl = c20Recover(func() string {
			return c20Ctx("PUT", unhex(a[0]), func(ctx *fiber.Ctx) string {
				seen = ctx.Path()
				return strconv.FormatBool(utils.IsBigDataAction(ctx))
			})
		})
		line = "robust bigdata " + hexArg(seen)
	}
	return
}

const (
	c20SigSecret = "c20-secret-key"
	c20SigSeed   = "4f232c4386841ef735655705268965c44a0e4690baa4adea153f7db9fa80a0a9"
)

var c20SigDate = time.Date(2024, 1, 2, 3, 4, 5, 0, time.UTC)

// c20SignedStream: a correctly signed aws-chunked body (so that every header up to the mutated one verifies)
func c20SignedStream(body []byte, sizes []int, trailer bool) []byte {
	key := gw.SigningKey(c20SigSecret, "20240102", "us-east-1", "s3", "aws4_request")
	return gw.EncodeSignedChunks(body, sizes, c20SigSeed, key, "20240102T030405Z", "20240102/us-east-1/s3/aws4_request", "crc32", trailer)
}

func c20ReadSigned(variant string, stream []byte) string {
	if c20ReaderSpun {
		return "skipped"
	}
	done := make(chan string, 1)
	go func() {
		done <- c20Recover(func() string {
			var rd io.Reader
			var err error
			ad := utils.AuthData{Signature: c20SigSeed}
			if variant == "signed-trailer" {
				rd, err = utils.NewSignedChunkReader(bytes.NewReader(stream), ad, "us-east-1", c20SigSecret, c20SigDate, "x-amz-checksum-crc32", false)
			} else {
				rd, err = utils.NewSignedChunkReader(bytes.NewReader(stream), ad, "us-east-1", c20SigSecret, c20SigDate, "", false)
			}
			if err != nil {
				return "err-new"
			}
			data, err := io.ReadAll(rd)
			if err != nil {
				return fmt.Sprintf("err %d", len(data))
			}
			return fmt.Sprintf("ok %d", len(data))
		})
	}()
	select {
	case r := <-done:
		return r
	case <-time.After(3 * time.Second):
		c20ReaderSpun = true
		return "spin"
	}
}

var c20GlobSpun bool

func c20GlobMatch(pattern, subject string) string {
	if c20GlobSpun {
		return "skipped"
	}
	done := make(chan string, 1)
	go func() {
		done <- c20Recover(func() string {
			if (auth.Resources{}).Match(pattern, subject) {
				return "t"
			}
			return "f"
		})
	}()
	select {
	case r := <-done:
		return r
	case <-time.After(time.Second):
		c20GlobSpun = true
		return "spin"
	}
}

var c20ReaderSpun bool // a reader goroutine that spins cannot be stopped: no further reader cases after the first

func c20ReadUnsigned(stream []byte) string {
	if c20ReaderSpun {
		return "skipped"
	}
	done := make(chan string, 1)
	go func() {
		done <- c20Recover(func() string {
			rd, err := utils.NewUnsignedChunkReader(bytes.NewReader(stream), "x-amz-checksum-crc32", false)
			if err != nil {
				return "err-new:" + err.Error()
			}
			data, err := io.ReadAll(rd)
			if err != nil {
				return fmt.Sprintf("err %d %s", len(data), err.Error())
			}
			return fmt.Sprintf("ok %d", len(data))
		})
	}()
	select {
	case r := <-done:
		return r
	case <-time.After(3 * time.Second):
		c20ReaderSpun = true
		return "spin"
	}
}

func c20SortPairs(m map[string]string) string {
	if len(m) == 0 {
		return "."
	}
	var p []string
	for k, v := range m {
		p = append(p, hexArg(k)+"="+hexArg(v))
	}
	sort.Strings(p)
	return strings.Join(p, ",")
}

// canonical form of a model answer (order of map entries; select: value → panic / no panic)
func c20CanonModel(site, model string) string {
	switch site {
	case "tags":
		if strings.HasPrefix(model, "ok ") && model != "ok ." {
			p := strings.Split(model[3:], ",")
			sort.Strings(p)
			return "ok " + strings.Join(p, ",")
		}
	case "select":
		if model == "true" || model == "false" {
			return "nopanic"
		}
	}
	return model
}

// c20ReaderAgrees: what the model of the first size line says against what the whole reader did.
func c20ReaderAgrees(model, impl string) bool {
	if impl == "spin" || impl == "panic" {
		return false
	}
	if impl == "skipped" {
		return true
	}
	if model == "malformed" {
		return impl == "err 0 malformed chunk encoding"
	}
	// an accepted first line: the reader went on; it must not report the first line as malformed
	// unless a later line is (not modelled here): only termination is judged
	return true
}

// ---------------------------------------------------------------- generators

func c20Mutated(r *lib.Rand, base string, alphabet string) string {
	h := []byte(base)
	for n := r.Intn(3); n > 0; n-- {
		switch r.Intn(3) {
		case 0:
			if len(h) > 0 {
				i := r.Intn(len(h))
				h = append(h[:i], h[i+1:]...)
			}
		case 1:
			i := r.Intn(len(h) + 1)
			h = append(h[:i], append([]byte{alphabet[r.Intn(len(alphabet))]}, h[i:]...)...)
		default:
			if len(h) > 0 {
				h[r.Intn(len(h))] = alphabet[r.Intn(len(alphabet))]
			}
		}
	}
	return string(h)
}

func c20Plain(s string) string {
	return strings.NewReplacer("{uid}", "U1", "{vid}", "V1", "{vid2}", "V2", "{user}", "fzuser1").Replace(s)
}

var c20Spaces = []string{" ", "\t", "\n", "\v", "\f", "\r", "\u0085", " ", " ", " ", " ", " ", " ", " ", " ", "　", "\xc2", "\xe2\x80", "​", "\xa0", "\x85"}

func c20GenAuth(r *lib.Rand) (string, string) {
	switch k := r.Intn(10); {
	case k < 2:
		return c20Plain(r.Pick(c20Pools["authz"])), "auth:pool"
	case k < 3:
		return c20Mutated(r, c20Plain(r.Pick(c20Pools["authz"])), " ,=/AWS4-HMCSHA256redntialgu\t\xa0"), "auth:pool-mutated"
	}
	sp := func() string {
		if r.Chance(25) {
			return r.Pick(c20Spaces)
		}
		return ""
	}
	cred := func() string {
		n := []int{5, 5, 5, 5, 4, 6, 1, 0}[r.Intn(8)]
		f := []string{r.Pick([]string{"rootaccess", "", "a=b", "a b"}), r.Pick([]string{"20060102", "20061302", "2006010", "200601021", "20060230", "20240229", "20230229", ""}),
			r.Pick([]string{"us-east-1", "", "eu"}), r.Pick([]string{"s3", "s3", "s3", "ec2", ""}), r.Pick([]string{"aws4_request", "aws4_request", "aws4", ""}), "x"}
		if n > len(f) {
			n = len(f)
		}
		return strings.Join(f[:n], "/"+sp())
	}
	var kv []string
	for _, name := range []string{"Credential", "SignedHeaders", "Signature"} {
		if r.Chance(8) {
			continue
		}
		val := map[string]string{"Credential": cred(), "SignedHeaders": r.Pick([]string{"host;x-amz-date", "", "host"}), "Signature": r.Pick([]string{"00ff", "", "zz"})}[name]
		eq := "="
		if r.Chance(6) {
			eq = r.Pick([]string{"", "==", " = "})
		}
		if r.Chance(6) {
			name = r.Pick([]string{"credential", "Credentials", "X", ""})
		}
		kv = append(kv, sp()+name+sp()+eq+sp()+val+sp())
	}
	if r.Chance(10) {
		kv = append(kv, r.Pick([]string{"Extra=1", "Credential=x", "", "a=b=c"}))
	}
	if r.Chance(15) {
		r2 := r.Intn(len(kv) + 1)
		if r2 < len(kv) {
			kv[0], kv[r2] = kv[r2], kv[0]
		}
	}
	algo := r.Pick([]string{"AWS4-HMAC-SHA256", "AWS4-HMAC-SHA256", "AWS4-HMAC-SHA256", "AWS4-HMAC-SHA256", "AWS4-HMAC-SHA1", "", "AWS4-HMAC-SHA256x"})
	sep := r.Pick([]string{" ", " ", " ", "  ", "\t", "", " "})
	return algo + sep + strings.Join(kv, ","+r.Pick([]string{"", "", " "})), "auth:grammar"
}

func c20GenDate(r *lib.Rand) string {
	switch r.Intn(6) {
	case 0:
		return c20Plain(r.Pick(c20Pools["date"]))
	case 1:
		return string(r.Bytes(r.Intn(20)))
	}
	y := r.Pick([]string{"2006", "2024", "2023", "1900", "2000", "0000", "9999", "206", "20060"})
	mo := r.Pick([]string{"01", "02", "04", "12", "13", "00", "1", "2"})
	d := r.Pick([]string{"01", "28", "29", "30", "31", "32", "00", "1"})
	t := r.Pick([]string{"T", "T", "T", "t", " ", ""})
	h := r.Pick([]string{"00", "15", "23", "24", "5", "99"})
	mi := r.Pick([]string{"00", "04", "59", "60", "4"})
	s := r.Pick([]string{"00", "05", "59", "60", "5"})
	fr := r.Pick([]string{"", "", "", ".5", ",5", ".123456789012", ".", ".x", "5"})
	z := r.Pick([]string{"Z", "Z", "Z", "z", "", "ZZ", "+0000", "Z "})
	return c20Mutated(r, y+mo+d+t+h+mi+s+fr+z, "0123456789TZ.,- ")
}

func c20GenGrants(r *lib.Rand) string {
	n := r.Intn(4)
	if n == 0 {
		return "."
	}
	var g []string
	for i := 0; i < n; i++ {
		p := hexArg(r.Pick([]string{"READ", "FULL_CONTROL", "WRITE", "READ_ACP", "WRITE_ACP", "BOGUS", ""}))
		if r.Chance(30) {
			g = append(g, p+":nil")
		} else {
			g = append(g, p+":"+hexArg(r.Pick([]string{"CanonicalUser", "Group", "AmazonCustomerByEmail", ""}))+":"+hexArg(r.Pick([]string{"", "a", "rootaccess"})))
		}
	}
	return strings.Join(g, ",")
}

// c20GenSignedRead: a correctly signed stream with one chunk-size token replaced by a boundary value
// (first or later chunk), cut, or mutated
func c20GenSignedRead(r *lib.Rand) c20DCase {
	variant := r.Pick([]string{"signed", "signed-trailer"})
	body := c20Data(1 + r.Intn(12))
	var sizes []int
	for i := r.Intn(3); i > 0; i-- {
		sizes = append(sizes, 1+r.Intn(6))
	}
	w := c20SignedStream(body, sizes, variant == "signed-trailer")
	switch r.Intn(6) {
	case 0, 1, 2:
		w = c20ApplyWireMut(fmt.Sprintf("size@%d:%s", r.Intn(3), r.Pick(c20BoundarySizes)), w)
	case 3:
		w = c20Cut(w, fmt.Sprintf("%s:%d", r.Pick([]string{"crlf", "mid", "lf"}), r.Intn(8)))
	case 4:
		w = []byte(c20Mutated(r, string(w), "0123456789abcdef\r\n ;=-+x"))
	}
	return c20DCase{"signedread", []string{variant, hexArg(string(w))}, "signedread"}
}

// c20GenUnsignedStream: a valid STREAMING-UNSIGNED-PAYLOAD-TRAILER body, cut at a framing boundary or
// with a mutated line
func c20GenUnsignedStream(r *lib.Rand) string {
	body := c20Data(r.Intn(12))
	var sizes []int
	for i := r.Intn(3); i > 0; i-- {
		sizes = append(sizes, 1+r.Intn(6))
	}
	w := gw.EncodeUnsignedChunks(body, sizes, "crc32")
	switch r.Intn(5) {
	case 0:
		return string(w)
	case 1, 2:
		return string(c20Cut(w, fmt.Sprintf("%s:%d", r.Pick([]string{"crlf", "crlf", "mid", "lf"}), r.Intn(8))))
	case 3:
		return c20Mutated(r, string(w), "0123456789abcdef\r\n ;x")
	}
	return r.Pick([]string{"", "\r\n", "\n", "\r\n\r\n", "0", "0\r\n", "0\r\n\r\n", "5\r\nhello", "5\r\nhello\r\n", "5\r\nhello\r\n\r\n", "5\r\nhello\r\n\n\n", " \r\n", "5\r\nhello\r\n0\r\n", "5\r\nhello\r\n0\r\nx-amz-checksum-crc32:AAAA"})
}

func c20DirectGen(r *lib.Rand) c20DCase {
	switch k := r.Intn(28); {
	case k < 3:
		s := c20Plain(r.Pick(c20Pools["copysrc"]))
		cl := "copysource:pool"
		if r.Chance(50) {
			s, cl = c20Mutated(r, r.Pick([]string{"/b/k?versionId=v", "b/k", "/b/k?versionId=v?versionId=w", "?versionId=", "/"}), "/?versionId=bk%\x00"), "copysource:mutated"
		}
		return c20DCase{"copysource", []string{hexArg(s)}, cl}
	case k < 5:
		s := c20Plain(r.Pick(c20Pools["tagq"]))
		cl := "tags:pool"
		if r.Chance(60) {
			var b strings.Builder
			for n := r.Intn(9); n > 0; n-- {
				b.WriteString(r.Pick([]string{"a", "b", "=", "&", "%", "%20", "%2", "%zz", "%3D", "%26", "%25", "+", "%00", "%ff", "%C3%A9", strings.Repeat("k", 128), strings.Repeat("k", 129), strings.Repeat("v", 256), strings.Repeat("v", 257),
					strings.Repeat("%6b", 128), strings.Repeat("%6b", 129), strings.Repeat("+", 256), strings.Repeat("%76", 257)}))
			}
			s, cl = b.String(), "tags:grammar"
		}
		return c20DCase{"tags", []string{hexArg(s)}, cl}
	case k < 7:
		size := c13Sizes[r.Intn(len(c13Sizes))]
		hdr, cl := c13Header(r, size)
		return c20DCase{"copyrange", []string{strconv.FormatInt(size, 10), hexArg(hdr)}, "copyrange:" + cl}
	case k < 8:
		size := c13Sizes[r.Intn(len(c13Sizes))]
		hdr, cl := c13Header(r, size)
		return c20DCase{"getrange", []string{strconv.FormatInt(size, 10), hexArg(hdr)}, "getrange:" + cl}
	case k < 12:
		s, cl := c20GenAuth(r)
		return c20DCase{"auth", []string{hexArg(s)}, cl}
	case k < 14:
		algo := r.Pick([]string{"AWS4-HMAC-SHA256", "AWS4-HMAC-SHA256", "AWS4-HMAC-SHA256", "", "x"})
		cred := c20Plain(r.Pick(c20Pools["cred"]))
		date := c20GenDate(r)
		if r.Chance(60) {
			// mostly well-formed: a date 1000 s in the past, credential date matching or not
			t := time.Now().UTC().Add(-1000 * time.Second)
			date = t.Format("20060102T150405Z")
			cred = "rootaccess/" + r.Pick([]string{t.Format("20060102"), t.Format("20060102"), "20060102"}) + "/" + r.Pick([]string{"us-east-1", "us-east-1", "eu"}) + "/s3/aws4_request"
		}
		exp := r.Pick([]string{"", "0", "1", "60", "900", "1100", "604800", "604801", "-1", "abc", "99999999999999999999", "+2000", " 5"})
		return c20DCase{"presign", []string{hexArg(algo), hexArg(cred), hexArg(date), hexArg(r.Pick([]string{"", "00ff"})), hexArg(r.Pick([]string{"", "host"})), hexArg(exp), hexArg("us-east-1")}, "presign"}
	case k < 17:
		lay := r.Pick([]string{"compact", "compact", "ymd"})
		s := c20GenDate(r)
		if lay == "ymd" && r.Chance(70) {
			s = c20Mutated(r, r.Pick([]string{"20060102", "20240229", "20230229", "20061301", "20060431", "00000101", "99991231"}), "0123456789T-")
		}
		return c20DCase{"timeparse", []string{lay, hexArg(s)}, "timeparse:" + lay}
	case k < 19:
		var b strings.Builder
		for n := r.Intn(7); n > 0; n-- {
			if r.Chance(60) {
				b.WriteString(r.Pick(c20Spaces))
			} else {
				b.WriteString(r.Pick([]string{"a", "=", "\xff", "é", "\xe2", "\x80", "\x81\x9f"}))
			}
		}
		return c20DCase{"trimspace", []string{hexArg(b.String())}, "trimspace"}
	case k < 21:
		return c20DCase{"acp", []string{c20GenGrants(r), r.Pick([]string{"nil", "noid", "-", hexArg("x")})}, "acp"}
	case k < 23:
		var b strings.Builder
		for n := r.Intn(8); n > 0; n-- {
			b.WriteString(r.Pick([]string{"a", "Z", "0", "+", "%", "%2", "%20", "%2B", "%zz", "%fF", "%g0", "%0g", "%%", "%25", "=", "&", "\xff", "é", " ", "%00", "%"}))
		}
		return c20DCase{"queryunescape", []string{hexArg(b.String())}, "queryunescape"}
	case k < 24:
		return c20GenSignedRead(r)
	case k < 25:
		stars, n := 1+r.Intn(20), c20PickInt(r, []int{0, 1, 7, 64, 200, 1024})
		sep := r.Pick([]string{"a", "a", "ab", "?"})
		pat := "fzp/" + strings.Repeat("*"+sep, stars) + r.Pick([]string{"*b", "b", "*", ""})
		sub := "fzp/" + strings.Repeat(r.Pick([]string{"a", "a", "ab"}), n)
		if len(sub) > 1030 {
			sub = sub[:1030]
		}
		if r.Chance(20) {
			sub += "b"
		}
		return c20DCase{"globmatch", []string{hexArg(pat), hexArg(sub)}, "globmatch"}
	case k < 26:
		return c20DCase{"unsignedread", []string{hexArg(c20GenUnsignedStream(r))}, "unsignedread"}
	default:
		p := r.Pick(c20PathPool)
		if r.Chance(40) {
			p = c20Mutated(r, r.Pick([]string{"/b/k", "/b/", "/b", "//", "/b//k"}), "/bk%.")
		}
		if !strings.HasPrefix(p, "/") {
			p = "/" + p
		}
		return c20DCase{"bigdata", []string{hexArg(p)}, "bigdata"}
	}
}

// c20Direct: the in-process differential.
func c20Direct(a lib.Args, res *lib.Result) error {
	n := 40000
	if a.Thorough() {
		n = 1500000
	}
	replay := a.ReplayInput()
	if replay != nil {
		if _, ok := replay["site"].(string); !ok {
			return nil // the replayed input belongs to another sub-check
		}
	}
	v := c20Variants{}
	// which variant of the repaired sites is this tree? (witness inputs of Open/C20.lean)
	v["4"] = c20Recover(func() string {
		id := "x"
		acp := auth.AccessControlPolicy{Owner: &types.Owner{ID: &id}}
		acp.AccessControlList.Grants = []auth.Grant{{Permission: auth.PermissionRead}}
		acp.Validate()
		return "ok"
	}) != "panic"
	v["6"] = c20Recover(func() string {
		backend.BackendUnsupported{}.SelectObjectContent(context.Background(), &s3.SelectObjectContentInput{RequestProgress: &types.RequestProgress{}})(bufio.NewWriter(io.Discard))
		return "ok"
	}) != "panic"
	for _, f := range []struct{ n, sig, what, witness string }{
		{"4", "crash:direct:auth/acl.go:Grt.isValid:?", "AccessControlPolicy.Validate dereferences the nil Grantee of a Grant that has a valid Permission and no Grantee (PutBucketAcl body)", "Validate() on {Grants:[{Permission:READ, Grantee:nil}], Owner:{ID:x}}"},
		{"6", "crash:direct:backend/backend.go:BackendUnsupported.SelectObjectContent:*progress.Enabled", "SelectObjectContent dereferences RequestProgress.Enabled without a nil test", "SelectObjectContent with RequestProgress{Enabled:nil}"},
	} {
		res.Note("variant of fix %s on this tree: fixed=%v", f.n, v[f.n])
		if !v[f.n] && replay == nil {
			res.Fail(lib.Failure{Kind: "property", Signature: f.sig, What: f.what + " — run-time panic (in a gateway process: exit)",
				Input: map[string]interface{}{"site": map[string]string{"4": "acp", "6": "select"}[f.n], "args": map[string][]string{"4": {hexArg("READ") + ":nil", hexArg("x")}, "6": {"noenabled"}}[f.n], "class": "witness", "witness": f.witness},
				Impl:  "panic", Model: "no request input makes a handler panic"})
		}
	}
	var cases []c20DCase
	if in := a.ReplayInput(); in != nil {
		site, ok := in["site"].(string)
		if !ok {
			return nil
		}
		c := c20DCase{Site: site, Class: "replay"}
		if as, ok := in["args"].([]interface{}); ok {
			for _, x := range as {
				c.Args = append(c.Args, fmt.Sprint(x))
			}
		}
		cases = []c20DCase{c}
	} else {
		// corpus: the boundary inputs of every site
		for _, s := range []string{"", "/", "//", "b", "b/k", "/b/k", "?versionId=", "/?versionId=x", "b/k?versionId=", "b/k?versionId=v?versionId=w"} {
			cases = append(cases, c20DCase{"copysource", []string{hexArg(s)}, "corpus"})
		}
		for _, s := range []string{"", "a", "a=b", "a=b=c", "&", "a=b&", "t2=a%20b", "a+b=c+d", "k=%", "k=%2", "%zz=v", "k%3D=v%26", strings.Repeat("%6b", 128) + "=v", strings.Repeat("%6b", 129) + "=v", "k=" + strings.Repeat("+", 257)} {
			cases = append(cases, c20DCase{"tags", []string{hexArg(s)}, "corpus"})
		}
		for _, s := range []string{"", "%", "%2", "%20", "%zz", "+", "a%2Bb+c", "%25%", "%FF%ff"} {
			cases = append(cases, c20DCase{"queryunescape", []string{hexArg(s)}, "corpus"})
		}
		for _, s := range c20Pools["authz"] {
			cases = append(cases, c20DCase{"auth", []string{hexArg(c20Plain(s))}, "corpus"})
		}
		for _, s := range c20Pools["date"] {
			cases = append(cases, c20DCase{"timeparse", []string{"compact", hexArg(s)}, "corpus"}, c20DCase{"timeparse", []string{"ymd", hexArg(s)}, "corpus"})
		}
		for _, s := range []string{"nil", "noenabled", "true", "false"} {
			cases = append(cases, c20DCase{"select", []string{s}, "corpus"})
		}
		for _, variant := range []string{"signed", "signed-trailer"} {
			for k := 0; k < 2; k++ {
				for _, v := range c20BoundarySizes {
					w := c20ApplyWireMut(fmt.Sprintf("size@%d:%s", k, v), c20SignedStream(c20Data(10), []int{5}, variant == "signed-trailer"))
					cases = append(cases, c20DCase{"signedread", []string{variant, hexArg(string(w))}, "corpus"})
				}
			}
		}
		for _, k := range []int{8, 12, 15, 20} {
			cases = append(cases, c20DCase{"globmatch", []string{hexArg("fzp/" + strings.Repeat("*a", k) + "*b"), hexArg("fzp/" + strings.Repeat("a", 200))}, "corpus"},
				c20DCase{"globmatch", []string{hexArg("fzp/" + strings.Repeat("*a", k) + "*b"), hexArg("fzp/" + strings.Repeat("a", 1024))}, "corpus"})
		}
		for _, s := range []string{"", "5\r\nhello\r\n", "5\r\nhello\r\n\r\n\r\n", "\r\n", "5\r\nhello"} {
			cases = append(cases, c20DCase{"unsignedread", []string{hexArg(s)}, "corpus"})
		}
		r := lib.NewRandStream(a.Seed, 2100)
		for i := 0; i < n; i++ {
			cases = append(cases, c20DirectGen(r))
		}
	}
	impls := make([]string, len(cases))
	lines := make([]string, len(cases))
	for i, c := range cases {
		impls[i], lines[i] = c20DirectRun(c, v)
		res.Count(c.Site+"|"+strings.Join(c.Args, "|"), c.Class != "corpus", "direct:site:"+c.Site, "direct:class:"+c.Class, "direct:impl:"+c20OutcomeClass(c.Site, impls[i]))
	}
	out, err := a.Driver.AskParallel(lines, 6)
	if err != nil {
		return err
	}
	for i, c := range cases {
		model := c20CanonModel(c.Site, out[i])
		if c.Site == "signedread" {
			if impls[i] == "panic" || impls[i] == "spin" {
				kind, sig, what := "property", "crash:direct:signedread", "the signed chunk reader panics on this stream (Props.C12.signed_never_panics: the model never does)"
				if impls[i] == "spin" {
					sig, what = "wedge:direct:ChunkReader.Read", "the signed chunk reader does not come to an end on this finite stream (3 s)"
				}
				res.Fail(lib.Failure{Kind: kind, Signature: sig, What: what, Input: map[string]interface{}{"site": c.Site, "args": c.Args, "class": c.Class}, Impl: impls[i], Model: "never panics (Props.C12.signed_never_panics)"})
			}
			continue
		}
		if c.Site == "globmatch" {
			// the driver answers two letters: Model.Glob.match, Spec.Glob.G
			want := out[i]
			if want != "t" && want != "f" {
				want = impls[i] // not compared
				if impls[i] == "spin" {
					want = "?"
				}
			}
			switch {
			case impls[i] == "skipped":
			case impls[i] == "spin":
				res.Fail(lib.Failure{Kind: "property", Signature: "wedge:direct:Resources.Match", What: "auth.Resources.Match does not answer within 1 s on a pattern of ≤ 20 stars and a subject of ≤ 1024 bytes: every access check of a non-admin request against such a policy resource pins a CPU (Props.C20.glob_steps_bounded: the modelled two-pointer matcher needs at most (|s|+1)·(|s|+|p|+1)+… steps)",
					Input: map[string]interface{}{"site": c.Site, "args": c.Args, "class": c.Class}, Impl: impls[i], Model: want})
			case impls[i] != want:
				kind := "correspondence"
				if impls[i] == "panic" {
					kind = "property"
				}
				res.Fail(lib.Failure{Kind: kind, Signature: "direct:globmatch", What: "auth.Resources.Match differs from Model.Glob.match", Input: map[string]interface{}{"site": c.Site, "args": c.Args, "class": c.Class}, Impl: impls[i], Model: want})
			}
			continue
		}
		if c.Site == "unsignedread" {
			if !c20ReaderAgrees(model, impls[i]) {
				kind, sig, what := "correspondence", "direct:unsignedread", "the unsigned chunk reader does not refuse a stream whose first size line the model refuses"
				if impls[i] == "spin" {
					kind, sig, what = "property", "wedge:direct:UnsignedChunkReader.Read", "the unsigned chunk reader neither returns nor consumes input on this finite stream (3 s): the request would never be answered"
				} else if impls[i] == "panic" {
					kind, sig, what = "property", "crash:direct:unsignedread", "the unsigned chunk reader panics on this stream"
				}
				res.Fail(lib.Failure{Kind: kind, Signature: sig, What: what, Input: map[string]interface{}{"site": c.Site, "args": c.Args, "class": c.Class}, Impl: impls[i], Model: model})
			}
			continue
		}
		if i%50000 == 0 {
			res.Sample(map[string]interface{}{"direct": c.Site, "args": c.Args, "impl": impls[i], "model": model})
		}
		if replay != nil && impls[i] == "panic" && model == "panic" {
			res.Fail(lib.Failure{Kind: "property", Signature: "crash:direct:" + c.Site + ":replay", What: "the Go function panics on the replayed input (the model of this tree's variant says so too)",
				Input: map[string]interface{}{"site": c.Site, "args": c.Args, "class": c.Class}, Impl: impls[i], Model: model})
		}
		if model != impls[i] {
			kind, sig := "correspondence", "direct:"+c.Site
			if impls[i] == "panic" {
				// the implementation panics where the model of this tree's variant does not
				kind, sig = "property", "crash:direct:"+c.Site
			}
			res.Fail(lib.Failure{Kind: kind, Signature: sig, What: "Go function and Lean model disagree on this input (outcome incl. panic / no panic, and value)",
				Input: map[string]interface{}{"site": c.Site, "args": c.Args, "class": c.Class}, Impl: impls[i], Model: model})
		}
	}
	return nil
}

func c20OutcomeClass(site, s string) string {
	if site == "trimspace" {
		return "value"
	}
	f := strings.Fields(s)
	if len(f) == 0 {
		return "empty"
	}
	if f[0] == "err" && len(f) > 1 {
		return "err:" + f[1]
	}
	if _, err := strconv.ParseInt(f[0], 10, 64); err == nil {
		return "value"
	}
	if len(f[0]) > 12 {
		return "value"
	}
	return f[0]
}
