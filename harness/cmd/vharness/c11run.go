package main

// c11run.go — running one gateway request under the ptrace tracer (c11trace.go), restoring the
// storage directories between runs, and observing the API view after a restart.

import (
	"bufio"
	"bytes"
	"encoding/json"
	"encoding/xml"
	"fmt"
	"net"
	"os"
	"os/exec"
	"path/filepath"
	"sort"
	"strings"
	"sync/atomic"
	"syscall"
	"time"

	"verif/harness/gw"
)

// c11World is one private set of storage directories (in place: the sidecar store embeds absolute
// paths of the versioning directory, so a pre-state cannot be copied to another location).
type c11World struct {
	Cfg   gw.Config
	Work  string // parent
	Tpl   string // saved pre-state of root/versions/sidecar
	Creds gw.Creds
	self  string // vharness binary (tracer helper)
	Lock  bool   // object-lock bucket: observations include the legal hold
}

func newC11World(gwBin, work string, noOTmp, sidecar, versioning bool) (*c11World, error) {
	os.RemoveAll(work)
	if err := os.MkdirAll(work, 0o755); err != nil {
		return nil, err
	}
	cfg := gw.Config{Bin: gwBin, Work: filepath.Join(work, "st"), NoOTmp: noOTmp}
	os.MkdirAll(cfg.Work, 0o755)
	cfg, err := gw.NewStorage(cfg, versioning, sidecar)
	if err != nil {
		return nil, err
	}
	self, err := os.Executable()
	if err != nil {
		return nil, err
	}
	return &c11World{Cfg: cfg, Work: work, Tpl: filepath.Join(work, "tpl"), Creds: gw.Creds{Access: cfg.Access, Secret: cfg.Secret}, self: self}, nil
}

func (w *c11World) dataDirs() []string {
	d := []string{w.Cfg.Root}
	if w.Cfg.VersioningDir != "" {
		d = append(d, w.Cfg.VersioningDir)
	}
	if w.Cfg.Sidecar != "" {
		d = append(d, w.Cfg.Sidecar)
	}
	return d
}

// cpTree copies one directory tree byte-exactly (xattrs and times kept). The machine is shared: a neighbour
// filling the disk for a moment must not abort the whole check, so a failed copy is retried.
func cpTree(src, dst string) error {
	var last error
	for try := 0; try < 20; try++ {
		os.RemoveAll(dst)
		out, err := exec.Command("cp", "-a", src, dst).CombinedOutput()
		if err == nil {
			return nil
		}
		last = fmt.Errorf("cp -a %s %s: %v %s", src, dst, err, out)
		time.Sleep(time.Duration(200*(try+1)) * time.Millisecond)
	}
	return last
}

// saveTo copies the current storage directories into dir.
func (w *c11World) saveTo(dir string) error {
	os.RemoveAll(dir)
	if err := os.MkdirAll(dir, 0o755); err != nil {
		return err
	}
	for _, d := range w.dataDirs() {
		if err := cpTree(d, filepath.Join(dir, filepath.Base(d))); err != nil {
			return err
		}
	}
	return nil
}

// restoreFrom puts a saved state back in place.
func (w *c11World) restoreFrom(dir string) error {
	for _, d := range w.dataDirs() {
		if err := cpTree(filepath.Join(dir, filepath.Base(d)), d); err != nil {
			return err
		}
	}
	return nil
}

// Save / Restore: the pre-state of the scenario.
func (w *c11World) Save() error    { return w.saveTo(w.Tpl) }
func (w *c11World) Restore() error { return w.restoreFrom(w.Tpl) }

// c11Port hands out ports below the kernel's ephemeral range (see gw.StartOn), each at most once per
// ~6000 requests and never to two workers at the same time.
var c11PortCtr uint32

func c11Port() int {
	base := 12000 + (os.Getpid()*97)%8000
	for {
		n := atomic.AddUint32(&c11PortCtr, 1)
		p := base + int(n%6000)
		l, err := net.Listen("tcp", fmt.Sprintf("127.0.0.1:%d", p))
		if err != nil {
			continue
		}
		l.Close()
		return p
	}
}

// startGateway launches an untraced gateway on the world's storage.
func (w *c11World) startGateway() (*gw.Gateway, error) {
	var g *gw.Gateway
	var err error
	for try := 0; try < 6; try++ {
		g, err = gw.StartOn(w.Cfg, c11Port(), c11Port())
		if err == nil || !strings.Contains(err.Error(), "address already in use") {
			return g, err
		}
	}
	return g, err
}

// traced is one gateway process under the tracer.
type traced struct {
	w        *c11World
	cmd      *exec.Cmd
	addr     string
	logPath  string
	armPath  string
	specPath string
	done     chan struct{}
}

func (w *c11World) startTraced(killAt int, all bool) (*traced, error) {
	for try := 0; try < 5; try++ {
		port, admin := c11Port(), c11Port()
		t := &traced{w: w, addr: fmt.Sprintf("127.0.0.1:%d", port), logPath: filepath.Join(w.Work, "trace.jsonl"),
			armPath: filepath.Join(w.Work, "armed"), specPath: filepath.Join(w.Work, "spec.json"), done: make(chan struct{})}
		os.Remove(t.armPath)
		os.Remove(t.logPath)
		spec := TraceSpec{Argv: append([]string{w.Cfg.Bin}, w.Cfg.Argv(port, admin)...), Dir: w.Cfg.Work, GwLog: filepath.Join(w.Work, "gw-traced.log"),
			Roots: w.dataDirs(), ArmFile: t.armPath, KillAt: killAt, Log: t.logPath, All: all}
		b, _ := json.Marshal(spec)
		if err := os.WriteFile(t.specPath, b, 0o644); err != nil {
			return nil, err
		}
		cmd := exec.Command(w.self, "c11-tracer", "-replay", t.specPath, "-out", filepath.Join(w.Work, "tracer-result.json"))
		var errb bytes.Buffer
		cmd.Stderr = &errb
		cmd.SysProcAttr = &syscall.SysProcAttr{Setpgid: true, Pdeathsig: syscall.SIGKILL}
		if err := cmd.Start(); err != nil {
			return nil, err
		}
		t.cmd = cmd
		go func() { cmd.Wait(); close(t.done) }()
		deadline := time.Now().Add(20 * time.Second)
		up := false
		for time.Now().Before(deadline) {
			select {
			case <-t.done:
				deadline = time.Now()
				continue
			default:
			}
			c, err := net.DialTimeout("tcp", t.addr, 200*time.Millisecond)
			if err == nil {
				c.Close()
				up = true
				break
			}
			time.Sleep(15 * time.Millisecond)
		}
		if up {
			return t, nil
		}
		t.Stop()
		lg, _ := os.ReadFile(spec.GwLog)
		if strings.Contains(string(lg), "address already in use") {
			continue
		}
		return nil, fmt.Errorf("traced gateway did not come up: %s\n%s", errb.String(), lg)
	}
	return nil, fmt.Errorf("traced gateway: no free port")
}

func (t *traced) Arm() error { return os.WriteFile(t.armPath, []byte("1"), 0o644) }

// Stop ends the session (the tracer kills the gateway) and waits for the tracer.
func (t *traced) Stop() {
	select {
	case <-t.done:
		return
	default:
	}
	t.cmd.Process.Signal(syscall.SIGTERM)
	select {
	case <-t.done:
	case <-time.After(5 * time.Second):
		syscall.Kill(-t.cmd.Process.Pid, syscall.SIGKILL)
		<-t.done
	}
}

// WaitDead waits until the tracer has finished by itself (the gateway was killed at the crash point).
func (t *traced) WaitDead(d time.Duration) bool {
	select {
	case <-t.done:
		return true
	case <-time.After(d):
		return false
	}
}

// Records returns the counted steps of the log (with return values merged in) and the end marker.
func (t *traced) Records() (recs []TraceRec, end string, err error) {
	f, err := os.Open(t.logPath)
	if err != nil {
		return nil, "", err
	}
	defer f.Close()
	sc := bufio.NewScanner(f)
	sc.Buffer(make([]byte, 1<<20), 1<<24)
	idx := map[int]int{}
	for sc.Scan() {
		line := sc.Bytes()
		if bytes.HasPrefix(line, []byte(`{"end"`)) {
			var e struct {
				End string `json:"end"`
			}
			json.Unmarshal(line, &e)
			end = e.End
			continue
		}
		var r TraceRec
		if json.Unmarshal(line, &r) != nil {
			continue
		}
		if r.Sys == "=" {
			if i, ok := idx[r.Seq]; ok {
				recs[i].Ret = r.Ret
			}
			continue
		}
		if r.Seq == 0 {
			continue
		}
		idx[r.Seq] = len(recs)
		recs = append(recs, r)
	}
	return recs, end, nil
}

// ---------------------------------------------------------------- API observation

type c11ObjView struct {
	Status  int               `json:"status"`
	Body    []byte            `json:"-"`
	BodyTok string            `json:"body"`
	ETag    string            `json:"etag"`
	CType   string            `json:"ctype"`
	CLen    string            `json:"clen"`
	Meta    map[string]string `json:"meta"`
	Vid     string            `json:"vid"`
	Tags    string            `json:"tags"`           // canonical k=v&k=v, "-" = none, "!<status>" = error
	Hold    string            `json:"hold"`           // GetObjectLegalHold: ON | OFF | "" (none) | "!<status>"
	Died    string            `json:"died,omitempty"` // the gateway answered GET and then stopped answering: at which request
	Head    string            `json:"head"`           // status:len:etag
	ListSz  string            `json:"list"`           // size:etag from ListObjectsV2, "-" = not listed
}

type listV2 struct {
	Contents []struct {
		Key  string
		ETag string
		Size int64
	}
	IsTruncated bool
}

type listVersions struct {
	Version []struct {
		Key       string
		VersionId string
		IsLatest  bool
		ETag      string
		Size      int64
	}
	DeleteMarker []struct {
		Key       string
		VersionId string
		IsLatest  bool
	}
}

type listUploads struct {
	Upload []struct {
		Key      string
		UploadId string
	}
}

type listParts struct {
	Part []struct {
		PartNumber int
		ETag       string
		Size       int64
	}
}

type tagging struct {
	TagSet struct {
		Tag []struct{ Key, Value string }
	}
}

func (w *c11World) do(addr string, r gw.Req) gw.Resp {
	r.Auth = "header"
	r.Creds = w.Creds
	if r.Timeout == 0 {
		r.Timeout = 15 * time.Second
	}
	return gw.Do(addr, r)
}

func canonTags(body []byte) string {
	var t tagging
	if xml.Unmarshal(body, &t) != nil {
		return "!xml"
	}
	var kv []string
	for _, x := range t.TagSet.Tag {
		kv = append(kv, x.Key+"="+x.Value)
	}
	sort.Strings(kv)
	if len(kv) == 0 {
		return "-"
	}
	return strings.Join(kv, "&")
}

func (w *c11World) observeKey(addr, bucket, key string, withHold bool) c11ObjView {
	v := c11ObjView{Meta: map[string]string{}, ListSz: "-"}
	p := "/" + bucket + "/" + gw.EncodePath(key)
	g := w.do(addr, gw.Req{Method: "GET", Path: p})
	v.Status = g.Status
	if g.Err != nil {
		v.Status = -1
	}
	if g.Status == 200 {
		v.Body = g.Body
		v.ETag = g.Headers.Get("ETag")
		v.CType = g.Headers.Get("Content-Type")
		v.CLen = g.Headers.Get("Content-Length")
		v.Vid = g.Headers.Get("x-amz-version-id")
		for k, vs := range g.Headers {
			lk := strings.ToLower(k)
			if strings.HasPrefix(lk, "x-amz-meta-") {
				v.Meta[strings.TrimPrefix(lk, "x-amz-meta-")] = strings.Join(vs, ",")
			}
		}
	}
	h := w.do(addr, gw.Req{Method: "HEAD", Path: p})
	if g.Status > 0 && h.Status <= 0 {
		v.Died = "HeadObject got no answer"
		return v
	}
	v.Head = fmt.Sprintf("%d:%s:%s", h.Status, h.Headers.Get("Content-Length"), h.Headers.Get("ETag"))
	if h.Status != 200 {
		v.Head = fmt.Sprintf("%d", h.Status)
	}
	t := w.do(addr, gw.Req{Method: "GET", Path: p, Query: "tagging="})
	if g.Status > 0 && t.Status <= 0 {
		v.Died = "GetObjectTagging got no answer"
		return v
	}
	if t.Status == 200 {
		v.Tags = canonTags(t.Body)
	} else {
		v.Tags = fmt.Sprintf("!%d", t.Status)
	}
	if w.Lock && withHold && g.Status == 200 {
		v.Hold = w.legalHold(addr, p)
	}
	return v
}

// legalHold asks GetObjectLegalHold: ON | OFF | "" (nothing stored) | "!<status>" | "!dies" (no answer at all).
func (w *c11World) legalHold(addr, path string) string {
	l := w.do(addr, gw.Req{Method: "GET", Path: path, Query: "legal-hold="})
	switch {
	case l.Status == 200 && bytes.Contains(l.Body, []byte("<Status>ON</Status>")):
		return "ON"
	case l.Status == 200 && bytes.Contains(l.Body, []byte("<Status>OFF</Status>")):
		return "OFF"
	case l.Status == 404 || l.Status == 400:
		return "" // NoSuchObjectLockConfiguration: no legal hold stored
	case l.Status <= 0:
		return "!dies"
	}
	return fmt.Sprintf("!%d", l.Status)
}

func (w *c11World) listKeys(addr, bucket string) (map[string]string, error) {
	r := w.do(addr, gw.Req{Method: "GET", Path: "/" + bucket, Query: "list-type=2"})
	if r.Status != 200 {
		return nil, &c11StatusErr{"ListObjectsV2", r.Status}
	}
	var l listV2
	if err := xml.Unmarshal(r.Body, &l); err != nil {
		return nil, err
	}
	out := map[string]string{}
	for _, c := range l.Contents {
		out[c.Key] = fmt.Sprintf("%d:%s", c.Size, c.ETag)
	}
	return out, nil
}

type c11Version struct {
	Key, Vid string
	Latest   bool
	DelMark  bool
	ETag     string
	Size     int64
}

func (w *c11World) listVersions(addr, bucket string) ([]c11Version, error) {
	r := w.do(addr, gw.Req{Method: "GET", Path: "/" + bucket, Query: "versions="})
	if r.Status != 200 {
		return nil, &c11StatusErr{"ListObjectVersions", r.Status}
	}
	var l listVersions
	if err := xml.Unmarshal(r.Body, &l); err != nil {
		return nil, err
	}
	var out []c11Version
	for _, v := range l.Version {
		out = append(out, c11Version{v.Key, v.VersionId, v.IsLatest, false, v.ETag, v.Size})
	}
	for _, v := range l.DeleteMarker {
		out = append(out, c11Version{v.Key, v.VersionId, v.IsLatest, true, "", 0})
	}
	return out, nil
}

func (w *c11World) listUploads(addr, bucket string) ([][2]string, error) {
	r := w.do(addr, gw.Req{Method: "GET", Path: "/" + bucket, Query: "uploads="})
	if r.Status != 200 {
		return nil, &c11StatusErr{"ListMultipartUploads", r.Status}
	}
	var l listUploads
	if err := xml.Unmarshal(r.Body, &l); err != nil {
		return nil, err
	}
	var out [][2]string
	for _, u := range l.Upload {
		out = append(out, [2]string{u.Key, u.UploadId})
	}
	return out, nil
}

func (w *c11World) listParts(addr, bucket, key, uploadID string) (string, error) {
	r := w.do(addr, gw.Req{Method: "GET", Path: "/" + bucket + "/" + gw.EncodePath(key), Query: "uploadId=" + uploadID})
	if r.Status != 200 {
		return fmt.Sprintf("!%d:%s", r.Status, r.ErrCode()), nil
	}
	var l listParts
	if err := xml.Unmarshal(r.Body, &l); err != nil {
		return "", err
	}
	var out []string
	for _, p := range l.Part {
		out = append(out, fmt.Sprintf("%d:%d:%s", p.PartNumber, p.Size, strings.Trim(p.ETag, `"`)))
	}
	if len(out) == 0 {
		return "-", nil
	}
	return strings.Join(out, ","), nil
}

// c11StatusErr: a listing answered with an error status (an observation, not a harness failure).
type c11StatusErr struct {
	Op     string
	Status int
}

func (e *c11StatusErr) Error() string { return fmt.Sprintf("%s: status %d", e.Op, e.Status) }
