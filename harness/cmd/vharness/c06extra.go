package main

// C06, two further stages:
//  * c06Suspended: refused uploads onto a key of a bucket with versioning SUSPENDED whose null version sits in
//    the archive (written before versioning, overwritten while Enabled) and onto a key whose current version is
//    the null version: a refused upload must not change what GET, GET ?versionId=null, GET ?versionId=<id> and
//    ListObjectVersions show.
//  * c06Concurrent: VALID uploads of every mode sent concurrently (chunks larger than the gateway's copy
//    buffer): every acknowledged upload must read back byte-identical (buffers shared between requests).

import (
	"bytes"
	"crypto/md5"
	"fmt"
	"strings"
	"sync"

	"verif/harness/gw"
	"verif/harness/lib"
)

func c06Suspended(a lib.Args, res *lib.Result) error {
	if a.ReplayInput() != nil {
		if st, _ := a.ReplayInput()["stage"].(string); st != "suspended" {
			return nil
		}
	}
	r := lib.NewRand(a.Seed + 606).Fork()
	cfg, err := mustStorage(a, "c06-susp", true, false, nil)
	if err != nil {
		return err
	}
	g, err := gw.Start(cfg)
	if err != nil {
		return err
	}
	defer g.Kill()
	cr := rootCreds(cfg)
	do := func(q gw.Req) gw.Resp {
		q.Creds = cr
		if q.Auth == "" {
			q.Auth = "header"
		}
		return gw.Do(g.Addr(), q)
	}
	if rsp := do(gw.Req{Method: "PUT", Path: "/sbk"}); rsp.Status != 200 {
		return fmt.Errorf("create bucket: %d %s", rsp.Status, rsp.Body)
	}
	setV := func(st string) {
		do(gw.Req{Method: "PUT", Path: "/sbk", Query: "versioning", Body: []byte(`<VersioningConfiguration><Status>` + st + `</Status></VersioningConfiguration>`)})
	}
	var cases []c06Case
	for _, mode := range []string{"header", "unsigned", "stream-signed", "stream-signed-trailer", "stream-unsigned-trailer"} {
		cors := c06Corruptions(mode)
		n := 2
		if a.Thorough() {
			n = len(cors)
		}
		for i := 0; i < n && i < len(cors); i++ {
			cor := cors[(i*7+r.Intn(len(cors)))%len(cors)]
			size := 20 + r.Intn(3000)
			cases = append(cases, c06Case{mode, "putObject", true, cor, c06Algos[r.Intn(len(c06Algos))], size, []int{1 + r.Intn(size)}, true})
		}
	}
	// key states: A = null version archived, current has an id; B = current is the null version, an id version archived
	key := func(i int, st string) string { return fmt.Sprintf("/sbk/s%s-%d", st, i) }
	vids := map[string]string{}
	for i := range cases {
		do(gw.Req{Method: "PUT", Path: key(i, "A"), Body: r.Bytes(40 + r.Intn(50))})
	}
	setV("Enabled")
	for i := range cases {
		rsp := do(gw.Req{Method: "PUT", Path: key(i, "A"), Body: r.Bytes(40 + r.Intn(50))})
		vids[key(i, "A")] = rsp.Headers.Get("x-amz-version-id")
		rsp = do(gw.Req{Method: "PUT", Path: key(i, "B"), Body: r.Bytes(40 + r.Intn(50))})
		vids[key(i, "B")] = rsp.Headers.Get("x-amz-version-id")
	}
	setV("Suspended")
	for i := range cases {
		do(gw.Req{Method: "PUT", Path: key(i, "B"), Body: r.Bytes(40 + r.Intn(50))})
	}
	for i, c := range cases {
		for _, st := range []string{"A", "B"} {
			path := key(i, st)
			stateOf := func() string {
				var parts []string
				for _, q := range []string{"", "versionId=null", "versionId=" + vids[path]} {
					gr := do(gw.Req{Method: "GET", Path: path, Query: q})
					parts = append(parts, fmt.Sprintf("GET?%s %d %x etag=%s", q, gr.Status, md5.Sum(gr.Body), gr.Headers.Get("ETag")))
				}
				lr := do(gw.Req{Method: "GET", Path: "/sbk", Query: "versions&prefix=" + path[5:]})
				for _, tag := range []string{"VersionId", "ETag", "Size", "IsLatest"} {
					for _, seg := range strings.Split(string(lr.Body), "<"+tag+">")[1:] {
						parts = append(parts, tag+"="+strings.SplitN(seg, "<", 2)[0])
					}
				}
				return strings.Join(parts, " ")
			}
			before := stateOf()
			body := r.Bytes(c.size)
			req := gw.Req{Method: "PUT", Path: path}
			c.apply(&req, body)
			rsp := do(req)
			after := stateOf()
			name := "suspended-" + st + " " + c.String()
			res.Count(name, true, "suspended:"+st, "mode:"+c.mode, "corrupt:"+c.corrupt, fmt.Sprintf("status:%dxx", rsp.Status/100))
			in := map[string]interface{}{"stage": "suspended", "case": name, "mode": c.mode, "corrupt": c.corrupt, "algo": c.algo, "size": c.size, "chunks": c.chunks, "key_state": st}
			sig := fmt.Sprintf("integrity:suspended-%s:%s:%s", st, c.mode, c.corrupt)
			if rsp.Status/100 == 2 {
				// accepted corruptions are reported by the matrix stage (known finding for extra bytes after the final chunk)
				continue
			}
			if before != after {
				res.Fail(lib.Failure{Kind: "property", Signature: sig + ":state-changed", What: "a refused upload changed the version history of the key (bucket with versioning Suspended): before {" + before + "} after {" + after + "}", Input: in, Impl: fmt.Sprintf("%d %s", rsp.Status, rsp.ErrCode())})
			}
		}
	}
	return nil
}

func c06Concurrent(a lib.Args, res *lib.Result) error {
	if a.ReplayInput() != nil {
		if st, _ := a.ReplayInput()["stage"].(string); st != "concurrent" {
			return nil
		}
	}
	cfg, err := mustStorage(a, "c06-conc", false, false, nil)
	if err != nil {
		return err
	}
	g, err := gw.Start(cfg)
	if err != nil {
		return err
	}
	defer g.Kill()
	cr := rootCreds(cfg)
	do := func(q gw.Req) gw.Resp {
		q.Creds = cr
		if q.Auth == "" {
			q.Auth = "header"
		}
		return gw.Do(g.Addr(), q)
	}
	if rsp := do(gw.Req{Method: "PUT", Path: "/cbk"}); rsp.Status != 200 {
		return fmt.Errorf("create bucket: %d %s", rsp.Status, rsp.Body)
	}
	up := do(gw.Req{Method: "POST", Path: "/cbk/mpkey", Query: "uploads"})
	upid := ""
	if i := strings.Index(string(up.Body), "<UploadId>"); i >= 0 {
		upid = string(up.Body)[i+10:]
		upid = upid[:strings.Index(upid, "<")]
	}
	workers, per := 12, 14
	if a.Thorough() {
		per = 40
	}
	modes := []string{"stream-unsigned-trailer", "stream-signed", "stream-signed-trailer", "unsigned", "header"}
	type fail struct {
		f lib.Failure
	}
	var mu sync.Mutex
	var wg sync.WaitGroup
	base := lib.NewRand(a.Seed + 607)
	for w := 0; w < workers; w++ {
		rr := base.Fork()
		wg.Add(1)
		go func(w int, r *lib.Rand) {
			defer wg.Done()
			for n := 0; n < per; n++ {
				mode := modes[(w+n)%len(modes)]
				if n%4 != 3 {
					mode = modes[0] // the reader with the most buffering gets most of the traffic
				}
				size := 70000 + r.Intn(200000)
				body := r.Bytes(size)
				chunk := 33000 + r.Intn(40000)
				target := "putObject"
				path, query := fmt.Sprintf("/cbk/c-%d-%d", w, n), ""
				if n%5 == 4 && upid != "" {
					target = "uploadPart"
					path, query = "/cbk/mpkey", fmt.Sprintf("uploadId=%s&partNumber=%d", upid, 1+w*per+n)
				}
				req := gw.Req{Method: "PUT", Path: path, Query: query, Auth: mode, Body: body, Chunks: []int{chunk, chunk, chunk}, Trailer: "crc32"}
				rsp := do(req)
				in := map[string]interface{}{"stage": "concurrent", "mode": mode, "target": target, "size": size, "chunk": chunk, "workers": workers}
				sig := fmt.Sprintf("integrity:concurrent:%s:%s", target, mode)
				cls := "stored-equals-sent"
				if rsp.Status != 200 {
					cls = "refused"
					mu.Lock()
					res.Fail(lib.Failure{Kind: "property", Signature: sig + ":valid-upload-refused", What: fmt.Sprintf("a valid upload sent concurrently with others was refused: %d %s %v", rsp.Status, rsp.ErrCode(), rsp.Err), Input: in, Impl: string(rsp.Body)})
					mu.Unlock()
				} else if target == "putObject" {
					gr := do(gw.Req{Method: "GET", Path: path})
					if gr.Status != 200 || !bytes.Equal(gr.Body, body) {
						cls = "stored-differs"
						first := -1
						for i := 0; i < len(body) && i < len(gr.Body); i++ {
							if body[i] != gr.Body[i] {
								first = i
								break
							}
						}
						mu.Lock()
						res.Fail(lib.Failure{Kind: "property", Signature: sig + ":stored-differs", What: fmt.Sprintf("an acknowledged upload sent concurrently with others reads back different bytes: status %d, %d bytes stored for %d sent, first difference at offset %d", gr.Status, len(gr.Body), len(body), first), Input: in})
						mu.Unlock()
					}
				} else {
					// the part's ETag is the MD5 of what was stored
					s := md5.Sum(body)
					if et := strings.Trim(rsp.Headers.Get("ETag"), `"`); et != fmt.Sprintf("%x", s) {
						cls = "stored-differs"
						mu.Lock()
						res.Fail(lib.Failure{Kind: "property", Signature: sig + ":stored-differs", What: "an acknowledged part sent concurrently with others was stored with other bytes (ETag is not the MD5 of the bytes sent)", Input: in, Impl: et})
						mu.Unlock()
					}
				}
				mu.Lock()
				res.Count(fmt.Sprintf("conc|%d|%d", w, n), true, "concurrent:"+mode, "concurrent:"+target, "concurrent:"+cls)
				mu.Unlock()
			}
		}(w, rr)
	}
	wg.Wait()
	return nil
}
