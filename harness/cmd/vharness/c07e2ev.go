package main

import (
	"fmt"
	"os"
	"path/filepath"
	"sort"
	"strconv"
	"strings"

	"verif/harness/gw"
	"verif/harness/lib"
)

// c07E2EVersioned: ListObjects V1/V2 on a gateway with object versioning (`--versioning-dir`),
// buckets listed while versioning is Enabled and while it is Suspended. The key populations
// contain keys whose current version is a delete marker (deleted while Enabled, deleted while
// Suspended, objects that predate versioning), keys with only archived versions, keys re-created
// after a marker, keys whose newest version was deleted by id. What a listing must show is what
// HEAD shows: the keys whose current version is an object, with that version's size and ETag.
// In this gateway a delete marker is the object's file left in place with an attribute: such files
// are handed to the model as "in the tree, not a key" (`hexkey:D:-`), so model/implementation
// correspondence is checked too.

type c07vOp struct {
	op  string // put | del | delv (delete the newest version by id)
	key string
}

func c07vScript(r *lib.Rand, suspended, random, clean bool) (pre, enabled, susp []c07vOp) {
	p := func(k string) c07vOp { return c07vOp{"put", k} }
	d := func(k string) c07vOp { return c07vOp{"del", k} }
	if !random {
		pre = []c07vOp{p("pre/a"), p("pre/b"), p("old")}
		enabled = []c07vOp{
			p("live/one"), p("live/two"), p("live/two"),
			p("gone/x"), d("gone/x"), p("gone/y"), p("gone/y"), d("gone/y"), // only archived versions; directory of markers only
			p("mix/keep"), p("mix/drop"), d("mix/drop"),
			p("back"), d("back"), p("back"), // re-created after a marker
			p("byid"), p("byid"), {"delv", "byid"}, // newest version deleted by id: the previous one is current again
			d("pre/a"), d("old"), // objects that predate versioning
		}
		if clean {
			// no directory is left with delete markers only (every listing of this bucket is in
			// class walk:other: any deviation is a violation, not a known finding)
			enabled = append(enabled, p("gone/z"))
		}
		susp = []c07vOp{
			p("s/new"), p("s/tmp"), d("s/tmp"), p("s/re"), d("s/re"), p("s/re"),
			d("live/one"), p("mix/drop"), d("mix/keep"), d("pre/b"), p("gone/x"),
		}
	} else {
		keys := []string{"k", "k0", "d/a", "d/b", "d/c/e", "e/f", "e0", "z"} // order-compatible names only
		gen := func(n int) []c07vOp {
			var ops []c07vOp
			for i := 0; i < n; i++ {
				k := keys[r.Intn(len(keys))]
				switch r.Intn(5) {
				case 0, 1:
					ops = append(ops, d(k))
				case 2:
					ops = append(ops, c07vOp{"delv", k})
				default:
					ops = append(ops, p(k))
				}
			}
			return ops
		}
		pre, enabled, susp = gen(3), gen(14), gen(10)
		for i := range pre {
			pre[i].op = "put"
		}
	}
	if !suspended {
		susp = nil
	}
	return
}

func c07E2EVersioned(a lib.Args, res *lib.Result) error {
	if in := a.ReplayInput(); in != nil {
		if st, _ := in["stage"].(string); st != "e2e-versioned" {
			return nil // not a finding of this stage
		}
	}
	cfg, err := mustStorage(a, "c07v", true, false, nil)
	if err != nil {
		return err
	}
	g, err := gw.Start(cfg)
	if err != nil {
		return err
	}
	defer g.Kill()
	cr := rootCreds(cfg)
	r := lib.NewRandStream(a.Seed, 73)
	addr := g.Addr()
	do := func(q gw.Req) gw.Resp {
		q.Auth, q.Creds = "header", cr
		return gw.Do(addr, q)
	}
	setVersioning := func(bucket, status string) error {
		rsp := do(gw.Req{Method: "PUT", Path: "/" + bucket, Query: "versioning",
			Body: []byte(`<VersioningConfiguration xmlns="http://s3.amazonaws.com/doc/2006-03-01/"><Status>` + status + `</Status></VersioningConfiguration>`)})
		if rsp.Status != 200 {
			return fmt.Errorf("PutBucketVersioning %s: %d %s", status, rsp.Status, rsp.Body)
		}
		return nil
	}

	type plan struct {
		suspended, random, clean bool
	}
	plans := []plan{{false, false, false}, {true, false, false}, {false, false, true}, {true, false, true}, {true, true, false}, {false, true, false}}
	if a.Thorough() {
		for i := 0; i < 12; i++ {
			plans = append(plans, plan{i%3 != 0, true, false})
		}
	}
	var buckets []*c07Bucket
	for i, pl := range plans {
		b := &c07Bucket{name: fmt.Sprintf("ver%d", i), sizes: map[string]int{}, etags: map[string]string{}}
		if rsp := do(gw.Req{Method: "PUT", Path: "/" + b.name}); rsp.Status != 200 {
			return fmt.Errorf("create bucket: %d %s %v", rsp.Status, rsp.Body, rsp.Err)
		}
		pre, en, su := c07vScript(r, pl.suspended, pl.random, pl.clean)
		touched := map[string]bool{}
		lastVid := map[string]string{}
		size := 1
		run := func(ops []c07vOp) {
			for _, o := range ops {
				touched[o.key] = true
				path := "/" + b.name + "/" + gw.EncodePath(o.key)
				switch o.op {
				case "put":
					size++
					rsp := do(gw.Req{Method: "PUT", Path: path, Body: r.Bytes(size)})
					if rsp.Status != 200 {
						res.Note("e2e-versioned: PUT %s answered %d", o.key, rsp.Status)
					}
					lastVid[o.key] = rsp.Headers.Get("x-amz-version-id")
				case "del":
					if rsp := do(gw.Req{Method: "DELETE", Path: path}); rsp.Status != 204 {
						res.Note("e2e-versioned: DELETE %s answered %d", o.key, rsp.Status)
					}
					delete(lastVid, o.key)
				case "delv":
					if v := lastVid[o.key]; v != "" {
						do(gw.Req{Method: "DELETE", Path: path, Query: "versionId=" + v})
						delete(lastVid, o.key)
					}
				}
			}
		}
		run(pre)
		if err := setVersioning(b.name, "Enabled"); err != nil {
			return err
		}
		run(en)
		state := "Enabled"
		if pl.suspended {
			if err := setVersioning(b.name, "Suspended"); err != nil {
				return err
			}
			run(su)
			state = "Suspended"
		}
		// ground truth: what HEAD shows; what is on disk
		var names []string
		for k := range touched {
			names = append(names, k)
		}
		sort.Strings(names)
		for _, k := range names {
			rsp := do(gw.Req{Method: "HEAD", Path: "/" + b.name + "/" + gw.EncodePath(k)})
			_, statErr := os.Stat(filepath.Join(cfg.Root, b.name, filepath.FromSlash(k)))
			onDisk := statErr == nil
			switch {
			case rsp.Status == 200:
				n, _ := strconv.Atoi(rsp.Headers.Get("Content-Length"))
				b.keys = append(b.keys, k)
				b.sizes[k] = n
				b.etags[k] = strings.Trim(rsp.Headers.Get("ETag"), `"`)
				if !onDisk {
					res.Note("e2e-versioned: %s/%s answers HEAD 200 but has no file", b.name, k)
				}
			case rsp.Status == 404:
				if onDisk {
					b.dead = append(b.dead, k)
				}
			default:
				res.Note("e2e-versioned: HEAD %s/%s answered %d", b.name, k, rsp.Status)
			}
		}
		res.Histogram["e2e-versioned:bucket:"+state]++
		res.Histogram["e2e-versioned:live-keys"] += len(b.keys)
		res.Histogram["e2e-versioned:delete-markers-on-disk"] += len(b.dead)
		res.Note("e2e-versioned: %s versioning %s: live %q, delete markers on disk %q", b.name, state, b.keys, b.dead)
		buckets = append(buckets, b)
	}
	return c07QueryBuckets(a, res, r, addr, cr, buckets, "e2e-versioned", false)
}
