package main

// C05, versioned buckets: the tie of Model.ConcVer to the code. One versioned overwrite is run on a
// gateway under `strace -f -y`; the filesystem syscalls of the request are projected to the model's
// step names (openCur, archive(<where id, data, values, size and attribute names come from>), publish,
// ack) and must equal the program the Lean driver prints for the variant the theorems are about
// (`concver prog byFd`). The regression shape (`byName`: size / attribute names taken from the name)
// is recognised and reported.

import (
	"fmt"
	"os"
	"path/filepath"
	"regexp"
	"strings"
	"time"

	"verif/harness/gw"
	"verif/harness/lib"
)

var (
	reStraceUnfinished = regexp.MustCompile(`^(\d+)\s+(.*) <unfinished \.\.\.>$`)
	reStraceResumed    = regexp.MustCompile(`^(\d+)\s+<\.\.\. \w+ resumed>(.*)$`)
	reStracePid        = regexp.MustCompile(`^(\d+)\s+(.*)$`)
)

// straceCalls merges unfinished/resumed pairs and returns the calls in order of completion.
func straceCalls(log string) []string {
	pend := map[string]string{}
	var out []string
	for _, l := range strings.Split(log, "\n") {
		if m := reStraceUnfinished.FindStringSubmatch(l); m != nil {
			pend[m[1]] = m[2]
			continue
		}
		if m := reStraceResumed.FindStringSubmatch(l); m != nil {
			out = append(out, pend[m[1]]+m[2])
			delete(pend, m[1])
			continue
		}
		if m := reStracePid.FindStringSubmatch(l); m != nil {
			out = append(out, m[2])
		}
	}
	return out
}

func c05VerShape(a lib.Args, res *lib.Result) error {
	if a.ReplayInput() != nil {
		return nil
	}
	want, err := a.Driver.Ask([]string{"concver prog byFd", "concver prog byName", "concver run byFd 0.1 1,2 0,1,0,1,0,1,0,1"})
	if err != nil {
		return err
	}
	res.Note("Model.ConcVer: program of a versioned write = %s; witness of the recorded finding (two overlapping writes, schedule 0,1,0,1,0,1,0,1): %s", want[0], want[2])
	for _, strat := range []string{"otmp", "mktemp"} {
		var logPath string
		cfg, err := mustStorage(a, "c05vs-"+strat, true, false, func(c *gw.Config) {
			c.NoOTmp = strat == "mktemp"
			logPath = filepath.Join(c.Work, "strace.log")
			c.Strace = []string{"-f", "-y", "-s", "256", "-o", logPath, "-e",
				"trace=openat,fgetxattr,getxattr,lgetxattr,flistxattr,listxattr,llistxattr,linkat,renameat,renameat2,rename,fstat,newfstatat,fallocate"}
		})
		if err != nil {
			return err
		}
		g, err := gw.Start(cfg)
		if err != nil {
			return err
		}
		cr := rootCreds(cfg)
		do := func(q gw.Req) gw.Resp {
			q.Auth = "header"
			q.Creds = cr
			return gw.Do(g.Addr(), q)
		}
		fail := func(format string, args ...interface{}) error {
			g.Kill()
			return fmt.Errorf("c05 versioned shape (%s): "+format, append([]interface{}{strat}, args...)...)
		}
		if rsp := do(gw.Req{Method: "PUT", Path: "/bkt"}); rsp.Status != 200 {
			return fail("create bucket: %d", rsp.Status)
		}
		if rsp := do(gw.Req{Method: "PUT", Path: "/bkt", Query: "versioning=", Body: []byte("<VersioningConfiguration><Status>Enabled</Status></VersioningConfiguration>")}); rsp.Status != 200 {
			return fail("enable versioning: %d", rsp.Status)
		}
		w0 := c05Write{ID: 501, Len: 40, Attrs: []string{"m0", "ctype", "tags"}}
		w1 := c05Write{ID: 502, Len: 23, Attrs: []string{"m0"}}
		if rsp := do(gw.Req{Method: "PUT", Path: "/bkt/shape", Body: w0.body(), Headers: w0.headers()}); rsp.Status != 200 {
			return fail("first put: %d", rsp.Status)
		}
		before, _ := os.ReadFile(logPath)
		rsp := do(gw.Req{Method: "PUT", Path: "/bkt/shape", Body: w1.body(), Headers: w1.headers()})
		after, _ := os.ReadFile(logPath)
		g.Kill()
		if rsp.Status != 200 {
			return fail("second put: %d", rsp.Status)
		}
		calls := straceCalls(regexp.MustCompile(`AT_FDCWD<[^>]*>`).ReplaceAllString(string(after[len(before):]), "AT_FDCWD"))
		// projection
		var steps []string
		curFd := ""
		idSrc, namesSrc, sizeSrc := "", "", "name"
		archived, fallocSeen := false, false
		verDir := filepath.Base(cfg.VersioningDir)
		for _, c := range calls {
			switch {
			case curFd == "" && strings.HasPrefix(c, `openat(AT_FDCWD, "bkt/shape", O_RDONLY`):
				if m := regexp.MustCompile(`= (\d+)<`).FindStringSubmatch(c); m != nil {
					curFd = m[1]
					steps = append(steps, "openCur")
				}
			case curFd != "" && !archived && strings.HasPrefix(c, "fgetxattr("+curFd+"<") && strings.Contains(c, `"user.version-id"`):
				idSrc = "fd"
			case curFd != "" && !archived && (strings.HasPrefix(c, `getxattr("bkt/shape", "user.version-id"`) || strings.HasPrefix(c, `lgetxattr("bkt/shape", "user.version-id"`)):
				if idSrc == "" {
					idSrc = "name"
				}
			case curFd != "" && !archived && strings.HasPrefix(c, "flistxattr("+curFd+"<"):
				namesSrc = "fd"
			case curFd != "" && !archived && (strings.HasPrefix(c, `listxattr("bkt/shape"`) || strings.HasPrefix(c, `llistxattr("bkt/shape"`)):
				namesSrc = "name"
			case curFd != "" && !archived && !fallocSeen && (strings.HasPrefix(c, "fstat("+curFd+"<") || strings.HasPrefix(c, "newfstatat("+curFd+"<")):
				sizeSrc = "fd"
			case curFd != "" && !archived && strings.HasPrefix(c, "fallocate(") && strings.Contains(c, verDir):
				fallocSeen = true
			case curFd != "" && !archived && (strings.HasPrefix(c, "linkat(") || strings.HasPrefix(c, "rename")) && strings.Contains(c, verDir+"/bkt/") && !strings.Contains(c, "= -1"):
				archived = true
				var fd, nm []string
				for _, kv := range [][2]string{{"id", idSrc}, {"data", "fd"}, {"values", "fd"}, {"size", sizeSrc}, {"names", namesSrc}} {
					if kv[1] == "fd" {
						fd = append(fd, kv[0])
					} else {
						nm = append(nm, kv[0])
					}
				}
				s := "archive(" + strings.Join(fd, "+") + ":fd"
				if len(nm) > 0 {
					s += "," + strings.Join(nm, "+") + ":name"
				}
				steps = append(steps, s+")")
			case archived && (strings.HasPrefix(c, "linkat(") || strings.HasPrefix(c, "rename")) && strings.HasSuffix(strings.TrimSpace(c), "= 0") && regexp.MustCompile(`"bkt/shape"(, \w+)?\) = 0$`).MatchString(strings.TrimSpace(c)):
				steps = append(steps, "publish")
			}
		}
		if rsp.Headers.Get("x-amz-version-id") != "" {
			steps = append(steps, "ack")
		}
		got := strings.Join(steps, ",")
		res.Count("shape|"+strat, true, "versioned-write-shape:"+strat+":"+got)
		switch got {
		case want[0]:
		case want[1]:
			res.Fail(lib.Failure{Kind: "correspondence", Signature: "conc:versioned:step-shape:byName", What: "the versioned write of the binary under test has the REGRESSION shape (size / attribute names of the archived version taken from the object's name, not from the file that was opened): the theorems of Props/C05Ver are about the other shape",
				Input: map[string]interface{}{"mode": "versioned-shape", "strategy": strat}, Impl: got, Model: want[0]})
		default:
			tail := calls
			if len(tail) > 60 {
				tail = tail[:60]
			}
			res.Fail(lib.Failure{Kind: "correspondence", Signature: "conc:versioned:step-shape", What: "the filesystem steps of a versioned overwrite, projected to Model.ConcVer's vocabulary, differ from the model's program",
				Input: map[string]interface{}{"mode": "versioned-shape", "strategy": strat, "calls": tail}, Impl: got, Model: want[0]})
		}
	}
	return nil
}

// c05VerMarkerRace: a read that starts AFTER a DELETE was acknowledged must not return the deleted data, also
// when a PUT replaces the delete marker while the read is in flight. The reading gateway process runs under
// strace with a delay injected at the exit of its openat of the object (the file is open, the delete-marker
// test has not run yet); the PUT goes through a second process on the same storage. Admissible answers of
// the read: NoSuchKey (the marker it opened) or the complete new object — never the deleted one.
func c05VerMarkerRace(a lib.Args, res *lib.Result) error {
	if a.ReplayInput() != nil {
		if st, _ := a.ReplayInput()["mode"].(string); st != "versioned-marker-race" {
			return nil
		}
	}
	for _, strat := range []string{"otmp", "mktemp"} {
		cfg, err := mustStorage(a, "c05vm-"+strat, true, false, func(c *gw.Config) { c.NoOTmp = strat == "mktemp" })
		if err != nil {
			return err
		}
		plain, err := gw.Start(cfg)
		if err != nil {
			return err
		}
		slowCfg := cfg
		slowCfg.Strace = []string{"-f", "-qq", "-o", "/dev/null", "-e", "trace=openat", "-P", "dmr/obj", "-P", filepath.Join(cfg.Root, "dmr", "obj"), "-e", "inject=openat:delay_exit=300000"}
		slow, err := gw.Start(slowCfg)
		if err != nil {
			plain.Kill()
			return err
		}
		cr := rootCreds(cfg)
		do := func(g *gw.Gateway, q gw.Req) gw.Resp {
			q.Auth, q.Creds, q.Timeout = "header", cr, 20*time.Second
			return gw.Do(g.Addr(), q)
		}
		do(plain, gw.Req{Method: "PUT", Path: "/dmr"})
		do(plain, gw.Req{Method: "PUT", Path: "/dmr", Query: "versioning=", Body: []byte("<VersioningConfiguration><Status>Enabled</Status></VersioningConfiguration>")})
		rounds := 3
		if a.Thorough() {
			rounds = 12
		}
		for i := 0; i < rounds; i++ {
			oldBody, newBody := []byte(fmt.Sprintf("deleted-content-%d-of-the-key", i)), []byte(fmt.Sprintf("new-content-%d", i))
			do(plain, gw.Req{Method: "PUT", Path: "/dmr/obj", Body: oldBody})
			if r := do(plain, gw.Req{Method: "DELETE", Path: "/dmr/obj"}); r.Status != 204 {
				continue
			}
			var get gw.Resp
			done := make(chan struct{})
			go func() {
				get = do(slow, gw.Req{Method: []string{"GET", "HEAD"}[i%2], Path: "/dmr/obj"})
				close(done)
			}()
			time.Sleep(100 * time.Millisecond)
			put := do(plain, gw.Req{Method: "PUT", Path: "/dmr/obj", Body: newBody})
			<-done
			cls := "nokey"
			switch {
			case get.Status == 404:
			case get.Status == 200 && (i%2 == 1 && get.Headers.Get("Content-Length") == fmt.Sprint(len(newBody)) || i%2 == 0 && string(get.Body) == string(newBody)):
				cls = "new-object"
			case get.Status == 200:
				cls = "deleted-data"
				res.Fail(lib.Failure{Kind: "property", Signature: "conc:versioned:read-after-delete:deleted-data:" + c05StratName(strat),
					What:  fmt.Sprintf("a %s that started after the DELETE was acknowledged answered 200 with the deleted object (Content-Length %s) while a PUT (%d) replaced the delete marker", []string{"GET", "HEAD"}[i%2], get.Headers.Get("Content-Length"), put.Status),
					Input: map[string]interface{}{"mode": "versioned-marker-race", "strategy": strat, "read": []string{"GET", "HEAD"}[i%2]}, Impl: fmt.Sprintf("%d len=%s", get.Status, get.Headers.Get("Content-Length"))})
			default:
				cls = fmt.Sprintf("status-%d", get.Status)
			}
			res.Count(fmt.Sprintf("vmr|%s|%d", strat, i), true, "versioned-marker-race:"+strat+":"+cls)
		}
		plain.Kill()
		slow.Kill()
	}
	return nil
}

// c05AttrListRace: GET / HEAD of an object while another request adds an attribute to it (PutObjectTagging
// stores the tags by name). The attribute list is read in two steps (size, then content); the reading process
// runs under strace with a delay at the exit of every size probe (1st, 3rd, … flistxattr), the tagging goes
// through a second process. The read must still answer the object's metadata (it is all there, before and
// after): a listing that fails because the list grew must be repeated, not taken for "no attributes".
func c05AttrListRace(a lib.Args, res *lib.Result) error {
	if a.ReplayInput() != nil {
		if st, _ := a.ReplayInput()["mode"].(string); st != "attr-list-race" {
			return nil
		}
	}
	cfg, err := mustStorage(a, "c05al", false, false, nil)
	if err != nil {
		return err
	}
	plain, err := gw.Start(cfg)
	if err != nil {
		return err
	}
	defer plain.Kill()
	slowCfg := cfg
	slowCfg.Strace = []string{"-f", "-qq", "-o", "/dev/null", "-e", "trace=flistxattr", "-e", "inject=flistxattr:delay_exit=250000:when=1+2"}
	slow, err := gw.Start(slowCfg)
	if err != nil {
		return err
	}
	defer slow.Kill()
	cr := rootCreds(cfg)
	do := func(g *gw.Gateway, q gw.Req) gw.Resp {
		q.Auth, q.Creds, q.Timeout = "header", cr, 20*time.Second
		return gw.Do(g.Addr(), q)
	}
	do(plain, gw.Req{Method: "PUT", Path: "/alr"})
	rounds := 2
	if a.Thorough() {
		rounds = 8
	}
	for i := 0; i < rounds; i++ {
		key := fmt.Sprintf("/alr/obj-%d", i)
		put := gw.Req{Method: "PUT", Path: key, Body: []byte("attribute list race")}
		put.Set("x-amz-meta-m0", "kept")
		put.Set("Content-Type", "text/x-kept")
		do(plain, put)
		method := []string{"HEAD", "GET"}[i%2]
		var rd gw.Resp
		done := make(chan struct{})
		go func() {
			rd = do(slow, gw.Req{Method: method, Path: key})
			close(done)
		}()
		time.Sleep(100 * time.Millisecond)
		tg := do(plain, gw.Req{Method: "PUT", Path: key, Query: "tagging", Body: []byte(`<Tagging><TagSet><Tag><Key>added</Key><Value>meanwhile</Value></Tag></TagSet></Tagging>`)})
		<-done
		cls := "metadata-present"
		if rd.Status != 200 {
			cls = fmt.Sprintf("status-%d", rd.Status)
		} else if rd.Headers.Get("x-amz-meta-m0") != "kept" || rd.Headers.Get("Content-Type") != "text/x-kept" {
			cls = "metadata-missing"
		}
		if cls != "metadata-present" {
			who := strings.ToLower(method)
			res.Fail(lib.Failure{Kind: "property", Signature: "conc:" + who + "-vs-attribute-added:" + cls,
				What:  fmt.Sprintf("%s of an object while PutObjectTagging (%d) added an attribute to it answered %d without the object's metadata / content type (x-amz-meta-m0=%q, Content-Type=%q)", method, tg.Status, rd.Status, rd.Headers.Get("x-amz-meta-m0"), rd.Headers.Get("Content-Type")),
				Input: map[string]interface{}{"mode": "attr-list-race", "read": method}, Impl: fmt.Sprintf("%d m0=%q ctype=%q", rd.Status, rd.Headers.Get("x-amz-meta-m0"), rd.Headers.Get("Content-Type"))})
		}
		res.Count(fmt.Sprintf("alr|%d", i), true, "attr-list-race:"+method+":"+cls)
	}
	return nil
}
