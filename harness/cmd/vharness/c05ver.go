package main

// C05, versioned buckets: the tie of Model.ConcVer to the code. One versioned overwrite is run on a
// gateway under `strace -f -y`; the filesystem syscalls of the request are projected to the model's
// step names (openCur, archive(<where id, data, values, size and attribute names come from>), publish,
// ack) and must equal the program the Lean driver prints for the variant the theorems are about
// (`concver prog byFd`). The regression shape (`byName`: size / attribute names taken from the name)
// is recognised and reported.

import (
	"fmt"
	"os"
	"path/filepath"
	"regexp"
	"strings"

	"verif/harness/gw"
	"verif/harness/lib"
)

var (
	reStraceUnfinished = regexp.MustCompile(`^(\d+)\s+(.*) <unfinished \.\.\.>$`)
	reStraceResumed    = regexp.MustCompile(`^(\d+)\s+<\.\.\. \w+ resumed>(.*)$`)
	reStracePid        = regexp.MustCompile(`^(\d+)\s+(.*)$`)
)

// straceCalls merges unfinished/resumed pairs and returns the calls in order of completion.
func straceCalls(log string) []string {
	pend := map[string]string{}
	var out []string
	for _, l := range strings.Split(log, "\n") {
		if m := reStraceUnfinished.FindStringSubmatch(l); m != nil {
			pend[m[1]] = m[2]
			continue
		}
		if m := reStraceResumed.FindStringSubmatch(l); m != nil {
			out = append(out, pend[m[1]]+m[2])
			delete(pend, m[1])
			continue
		}
		if m := reStracePid.FindStringSubmatch(l); m != nil {
			out = append(out, m[2])
		}
	}
	return out
}

func c05VerShape(a lib.Args, res *lib.Result) error {
	if a.ReplayInput() != nil {
		return nil
	}
	want, err := a.Driver.Ask([]string{"concver prog byFd", "concver prog byName", "concver run byFd 0.1 1,2 0,1,0,1,0,1,0,1"})
	if err != nil {
		return err
	}
	res.Note("Model.ConcVer: program of a versioned write = %s; witness of the recorded finding (two overlapping writes, schedule 0,1,0,1,0,1,0,1): %s", want[0], want[2])
	for _, strat := range []string{"otmp", "mktemp"} {
		var logPath string
		cfg, err := mustStorage(a, "c05vs-"+strat, true, false, func(c *gw.Config) {
			c.NoOTmp = strat == "mktemp"
			logPath = filepath.Join(c.Work, "strace.log")
			c.Strace = []string{"-f", "-y", "-s", "256", "-o", logPath, "-e",
				"trace=openat,fgetxattr,getxattr,lgetxattr,flistxattr,listxattr,llistxattr,linkat,renameat,renameat2,rename,fstat,newfstatat,fallocate"}
		})
		if err != nil {
			return err
		}
		g, err := gw.Start(cfg)
		if err != nil {
			return err
		}
		cr := rootCreds(cfg)
		do := func(q gw.Req) gw.Resp {
			q.Auth = "header"
			q.Creds = cr
			return gw.Do(g.Addr(), q)
		}
		fail := func(format string, args ...interface{}) error {
			g.Kill()
			return fmt.Errorf("c05 versioned shape (%s): "+format, append([]interface{}{strat}, args...)...)
		}
		if rsp := do(gw.Req{Method: "PUT", Path: "/bkt"}); rsp.Status != 200 {
			return fail("create bucket: %d", rsp.Status)
		}
		if rsp := do(gw.Req{Method: "PUT", Path: "/bkt", Query: "versioning=", Body: []byte("<VersioningConfiguration><Status>Enabled</Status></VersioningConfiguration>")}); rsp.Status != 200 {
			return fail("enable versioning: %d", rsp.Status)
		}
		w0 := c05Write{ID: 501, Len: 40, Attrs: []string{"m0", "ctype", "tags"}}
		w1 := c05Write{ID: 502, Len: 23, Attrs: []string{"m0"}}
		if rsp := do(gw.Req{Method: "PUT", Path: "/bkt/shape", Body: w0.body(), Headers: w0.headers()}); rsp.Status != 200 {
			return fail("first put: %d", rsp.Status)
		}
		before, _ := os.ReadFile(logPath)
		rsp := do(gw.Req{Method: "PUT", Path: "/bkt/shape", Body: w1.body(), Headers: w1.headers()})
		after, _ := os.ReadFile(logPath)
		g.Kill()
		if rsp.Status != 200 {
			return fail("second put: %d", rsp.Status)
		}
		calls := straceCalls(regexp.MustCompile(`AT_FDCWD<[^>]*>`).ReplaceAllString(string(after[len(before):]), "AT_FDCWD"))
		// projection
		var steps []string
		curFd := ""
		idSrc, namesSrc, sizeSrc := "", "", "name"
		archived, fallocSeen := false, false
		verDir := filepath.Base(cfg.VersioningDir)
		for _, c := range calls {
			switch {
			case curFd == "" && strings.HasPrefix(c, `openat(AT_FDCWD, "bkt/shape", O_RDONLY`):
				if m := regexp.MustCompile(`= (\d+)<`).FindStringSubmatch(c); m != nil {
					curFd = m[1]
					steps = append(steps, "openCur")
				}
			case curFd != "" && !archived && strings.HasPrefix(c, "fgetxattr("+curFd+"<") && strings.Contains(c, `"user.version-id"`):
				idSrc = "fd"
			case curFd != "" && !archived && (strings.HasPrefix(c, `getxattr("bkt/shape", "user.version-id"`) || strings.HasPrefix(c, `lgetxattr("bkt/shape", "user.version-id"`)):
				if idSrc == "" {
					idSrc = "name"
				}
			case curFd != "" && !archived && strings.HasPrefix(c, "flistxattr("+curFd+"<"):
				namesSrc = "fd"
			case curFd != "" && !archived && (strings.HasPrefix(c, `listxattr("bkt/shape"`) || strings.HasPrefix(c, `llistxattr("bkt/shape"`)):
				namesSrc = "name"
			case curFd != "" && !archived && !fallocSeen && (strings.HasPrefix(c, "fstat("+curFd+"<") || strings.HasPrefix(c, "newfstatat("+curFd+"<")):
				sizeSrc = "fd"
			case curFd != "" && !archived && strings.HasPrefix(c, "fallocate(") && strings.Contains(c, verDir):
				fallocSeen = true
			case curFd != "" && !archived && (strings.HasPrefix(c, "linkat(") || strings.HasPrefix(c, "rename")) && strings.Contains(c, verDir+"/bkt/") && !strings.Contains(c, "= -1"):
				archived = true
				var fd, nm []string
				for _, kv := range [][2]string{{"id", idSrc}, {"data", "fd"}, {"values", "fd"}, {"size", sizeSrc}, {"names", namesSrc}} {
					if kv[1] == "fd" {
						fd = append(fd, kv[0])
					} else {
						nm = append(nm, kv[0])
					}
				}
				s := "archive(" + strings.Join(fd, "+") + ":fd"
				if len(nm) > 0 {
					s += "," + strings.Join(nm, "+") + ":name"
				}
				steps = append(steps, s+")")
			case archived && (strings.HasPrefix(c, "linkat(") || strings.HasPrefix(c, "rename")) && strings.HasSuffix(strings.TrimSpace(c), "= 0") && regexp.MustCompile(`"bkt/shape"(, \w+)?\) = 0$`).MatchString(strings.TrimSpace(c)):
				steps = append(steps, "publish")
			}
		}
		if rsp.Headers.Get("x-amz-version-id") != "" {
			steps = append(steps, "ack")
		}
		got := strings.Join(steps, ",")
		res.Count("shape|"+strat, true, "versioned-write-shape:"+strat+":"+got)
		switch got {
		case want[0]:
		case want[1]:
			res.Fail(lib.Failure{Kind: "correspondence", Signature: "conc:versioned:step-shape:byName", What: "the versioned write of the binary under test has the REGRESSION shape (size / attribute names of the archived version taken from the object's name, not from the file that was opened): the theorems of Props/C05Ver are about the other shape",
				Input: map[string]interface{}{"mode": "versioned-shape", "strategy": strat}, Impl: got, Model: want[0]})
		default:
			tail := calls
			if len(tail) > 60 {
				tail = tail[:60]
			}
			res.Fail(lib.Failure{Kind: "correspondence", Signature: "conc:versioned:step-shape", What: "the filesystem steps of a versioned overwrite, projected to Model.ConcVer's vocabulary, differ from the model's program",
				Input: map[string]interface{}{"mode": "versioned-shape", "strategy": strat, "calls": tail}, Impl: got, Model: want[0]})
		}
	}
	return nil
}
