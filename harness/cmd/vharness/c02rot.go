package main

// C02, "wrong secret" after a rotation: once the admin API has acknowledged a new secret for an account, a
// request signed with the OLD secret lacks a correct proof — it must be answered 4xx and change nothing —
// whichever request the gateway process verified last (the same access key, so that nothing keyed by the
// access key alone may survive the rotation). Two settings: an admin-role account rotating its own secret
// through one gateway, and a rotation done through ANOTHER gateway process on the same IAM directory
// (cache disabled, the documented cluster deployment).

import (
	"fmt"

	"verif/harness/gw"
	"verif/harness/lib"
)

func c02Rotation(a lib.Args, res *lib.Result) error {
	if in := a.ReplayInput(); in != nil {
		if st, _ := in["stage"].(string); st != "rotation" {
			return nil
		}
	}
	for _, setting := range []string{"self-rotate", "other-process"} {
		cfg, err := mustStorage(a, "c02rot-"+setting, false, false, func(c *gw.Config) { c.IAMCacheOff = setting == "other-process" })
		if err != nil {
			return err
		}
		g1, err := gw.Start(cfg)
		if err != nil {
			return err
		}
		g2 := g1
		if setting == "other-process" {
			if g2, err = gw.Start(cfg); err != nil {
				g1.Kill()
				return err
			}
		}
		root := rootCreds(cfg)
		n := 0
		for _, role := range []string{"admin", "user", "userplus"} {
			for _, mode := range []string{"header", "presign"} {
				if setting == "self-rotate" && role != "admin" {
					continue // only an admin may call the admin API
				}
				n++
				acc := fmt.Sprintf("rot%d", n)
				s1, s2 := fmt.Sprintf("old-secret-%d", n), fmt.Sprintf("new-secret-%d", n)
				in := map[string]interface{}{"stage": "rotation", "setting": setting, "role": role, "auth": mode}
				sig := "unauth:rotated-secret:" + setting + ":" + mode
				body := fmt.Sprintf("<Account><Access>%s</Access><Secret>%s</Secret><Role>%s</Role><UserID>0</UserID><GroupID>0</GroupID></Account>", acc, s1, role)
				if r := gw.Do(g1.AdminAddr(), gw.Req{Method: "PATCH", Path: "/create-user", Body: []byte(body), Auth: "header", Creds: root}); r.Status/100 != 2 {
					res.Note("rotation %s: create-user answered %d %s", setting, r.Status, r.ErrCode())
					continue
				}
				old, cur := gw.Creds{Access: acc, Secret: s1}, gw.Creds{Access: acc, Secret: s2}
				// the account is used (this process has verified its signature)
				warm := gw.Do(g1.Addr(), gw.Req{Method: "GET", Path: "/", Auth: mode, Creds: old, Expires: 300})
				upd := gw.Req{Method: "PATCH", Path: "/update-user", Query: "access=" + acc, Body: []byte("<MutableProps><Secret>" + s2 + "</Secret></MutableProps>"), Auth: "header"}
				var ur gw.Resp
				if setting == "self-rotate" {
					upd.Creds = old
					ur = gw.Do(g1.AdminAddr(), upd)
				} else {
					upd.Creds = root
					ur = gw.Do(g2.AdminAddr(), upd)
				}
				if warm.Status != 200 || ur.Status/100 != 2 {
					res.Note("rotation %s/%s/%s: warm-up %d, update-user %d %s", setting, role, mode, warm.Status, ur.Status, ur.ErrCode())
					continue
				}
				// old secret: no correct proof any more
				bk := fmt.Sprintf("/rotbk-%d", n)
				r1 := gw.Do(g1.Addr(), gw.Req{Method: "PUT", Path: bk, Auth: mode, Creds: old, Expires: 300})
				r2 := gw.Do(g1.Addr(), gw.Req{Method: "GET", Path: "/", Auth: mode, Creds: old, Expires: 300})
				exists := gw.Do(g1.Addr(), gw.Req{Method: "HEAD", Path: bk, Auth: "header", Creds: root})
				okNew := gw.Do(g1.Addr(), gw.Req{Method: "GET", Path: "/", Auth: mode, Creds: cur, Expires: 300})
				cls := "refused"
				if r1.Status/100 != 4 || r2.Status/100 != 4 {
					cls = "old-secret-accepted"
					res.Fail(lib.Failure{Kind: "property", Signature: sig + ":not-4xx", What: fmt.Sprintf("a request signed with the secret the account had BEFORE an acknowledged update-user was answered %d (PUT bucket) / %d (GET /) instead of 4xx", r1.Status, r2.Status), Input: in, Impl: fmt.Sprintf("%d %d", r1.Status, r2.Status)})
				}
				if exists.Status == 200 {
					res.Fail(lib.Failure{Kind: "property", Signature: sig + ":effect", What: "a request signed with the old secret created a bucket", Input: in, Impl: fmt.Sprintf("%d", r1.Status)})
				}
				if okNew.Status != 200 {
					res.Fail(lib.Failure{Kind: "property", Signature: sig + ":new-secret-refused", What: fmt.Sprintf("the secret acknowledged by update-user is refused: %d %s", okNew.Status, okNew.ErrCode()), Input: in, Impl: string(okNew.Body)})
				}
				res.Count("rot|"+setting+"|"+role+"|"+mode, true, "rotation:"+setting, "rotation:"+cls)
			}
		}
		g1.Kill()
		if g2 != g1 {
			g2.Kill()
		}
	}
	return nil
}
