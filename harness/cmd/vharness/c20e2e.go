package main

// C20 end to end: the gateway runs as a child process (no recover handler: a panic ends it). Every
// generated request is sent alone; after it the oracle checks (1) an answer arrived within the
// watchdog, (2) it is well formed (HTTP status line; S3 error document with a non-empty Code for
// status ≥ 400; well-formed XML when XML is returned), (3) the child is still alive and answers a
// health probe from another client, (4) its peak RSS did not balloon.  Child exit = property
// violation with the single request as replay.

import (
	"bytes"
	"encoding/json"
	"encoding/xml"
	"fmt"
	"go/ast"
	"go/parser"
	"go/token"
	"io"
	"os"
	"path/filepath"
	"regexp"
	"sort"
	"strings"
	"sync"
	"time"

	"verif/harness/gw"
	"verif/harness/lib"
)

const (
	c20GrowthLimitKB = 768 * 1024 // growth of the peak RSS admitted for one request of < 1 MiB
	c20Watchdog      = 10 * time.Second
	c20RSSLimitKB    = 1536 * 1024 // peak RSS admitted for a child serving one small request at a time
	c20ASLimitKB     = 24 * 1024 * 1024
)

type c20World struct {
	id      int
	a       lib.Args
	cfg     gw.Config
	g       *gw.Gateway
	fix     c20Fix
	res     *lib.Result
	blocked map[string]bool // endpoint|mutation-key of confirmed single-mutation crashers (not re-sent: each costs a restart)
	wedged  map[string]bool // endpoint|auth classes that wedged once: their remaining framing cases are skipped (a wedge costs a whole watchdog)
	wedges  int
	crashes map[string]int
	sent    int
	skipped int
}

func c20Start(a lib.Args, res *lib.Result, id int) (*c20World, error) {
	w := &c20World{id: id, a: a, res: res, blocked: map[string]bool{}, wedged: map[string]bool{}, crashes: map[string]int{}}
	cfg, err := mustStorage(a, fmt.Sprintf("c20-%d", id), true, false, nil)
	if err != nil {
		return nil, err
	}
	// the child gets an address-space limit: a giant allocation is a clean, attributable death
	wrapper := filepath.Join(cfg.Work, "gw.sh")
	script := fmt.Sprintf("#!/bin/sh\nulimit -v %d\nulimit -c 0\nexec %s \"$@\"\n", c20ASLimitKB, a.GwBin)
	if err := os.WriteFile(wrapper, []byte(script), 0o755); err != nil {
		return nil, err
	}
	cfg.Bin = wrapper
	cfg.Env = append(cfg.Env, "GOTRACEBACK=single")
	// the audit log is part of every request's path, also of the requests that are refused early
	cfg.ExtraArgs = append(cfg.ExtraArgs, "--access-log", filepath.Join(cfg.Work, "access.log"), "--admin-access-log", filepath.Join(cfg.Work, "admin-access.log"))
	w.cfg = cfg
	g, err := gw.Start(cfg)
	if err != nil {
		return nil, err
	}
	w.g = g
	w.fix.Root = rootCreds(cfg)
	w.fix.User = gw.Creds{Access: "fzuser1", Secret: "fzsecret1"}
	if err := w.ensure(true); err != nil {
		g.Kill()
		return nil, err
	}
	if err := w.ensureStates(); err != nil {
		g.Kill()
		return nil, err
	}
	return w, nil
}

func (w *c20World) do(r gw.Req) gw.Resp {
	r.Auth, r.Creds = "header", w.fix.Root
	r.Timeout = 10 * time.Second
	return gw.Do(w.g.Addr(), r)
}

// checkIdle: the child must be alive between cases; a child that died while the harness was setting
// up fixtures (valid requests only) is reported under its own signature and restarted.
func (w *c20World) checkIdle(when string) error {
	if w.g.Alive() {
		return nil
	}
	w.g.WaitExit(time.Second)
	reason, site, where := c20CrashSite(w.g.LogText())
	w.res.Fail(lib.Failure{Kind: "property", Signature: "crash:fixture-setup:" + site,
		What:  "the gateway process exited while the harness was sending its own VALID fixture requests (" + reason + " at " + where + "), " + when,
		Input: map[string]interface{}{"endpoint": "fixture-setup", "class": "valid", "note": "re-run ./check C20: the fixture sequence is deterministic"}, Impl: "child exit: " + reason + " @ " + site, Model: "every request is answered and the process keeps serving"})
	return w.g.Restart()
}

// ---------------------------------------------------------------- the versioned / locked state world

func (w *c20World) setVersioning(bucket, status string) {
	w.do(gw.Req{Method: "PUT", Path: "/" + bucket, Query: "versioning", Body: []byte("<VersioningConfiguration><Status>" + status + "</Status></VersioningConfiguration>")})
}

// rebuildKey puts one key of the state world (back) into its state:
//
//	fzv (versioning Enabled):  multi = three versions; dm = two versions, current a delete marker;
//	                           nullcur = an id version archived, current the null version (written while Suspended);
//	                           vdir/ = a directory object with a child
//	fzs (versioning Suspended): s_multi = two id versions, then a null version written after suspension;
//	                           s_dm = two id versions, then a delete while suspended (null delete marker)
//	fzl (object lock):          l_hold = under legal hold; l_ret = GOVERNANCE retention until 2036
func (w *c20World) rebuildKey(bucket, key string) {
	p := "/" + bucket + "/" + key
	put := func(n int) { w.do(gw.Req{Method: "PUT", Path: p, Body: c20Data(n)}) }
	switch bucket + "/" + key {
	case "fzv/multi":
		put(3)
		put(4)
		put(5)
	case "fzv/dm":
		put(3)
		put(4)
		w.do(gw.Req{Method: "DELETE", Path: p})
	case "fzv/nullcur":
		put(3)
		w.setVersioning("fzv", "Suspended")
		put(4)
		w.setVersioning("fzv", "Enabled")
	case "fzv/vdir/":
		w.do(gw.Req{Method: "PUT", Path: p})
		w.do(gw.Req{Method: "PUT", Path: p + "x", Body: c20Data(2)})
	case "fzs/s_multi":
		w.setVersioning("fzs", "Enabled")
		put(3)
		put(4)
		w.setVersioning("fzs", "Suspended")
		put(5)
	case "fzs/s_dm":
		w.setVersioning("fzs", "Enabled")
		put(3)
		put(4)
		w.setVersioning("fzs", "Suspended")
		w.do(gw.Req{Method: "DELETE", Path: p})
	case "fzl/l_hold":
		put(3)
		w.do(gw.Req{Method: "PUT", Path: p, Query: "legal-hold", Body: []byte("<LegalHold><Status>ON</Status></LegalHold>")})
	case "fzl/l_ret":
		put(3)
		w.do(gw.Req{Method: "PUT", Path: p, Query: "retention", Body: []byte(c20Bodies["retention"])})
	case "fzb/dir/":
		w.do(gw.Req{Method: "PUT", Path: p})
	}
	w.refreshVars(bucket, key)
}

var c20VersionEntryRe = regexp.MustCompile(`(?s)<(Version|DeleteMarker)>(.*?)</(?:Version|DeleteMarker)>`)

// refreshVars reads the version ids of one key from ListObjectVersions: {key.cur} (latest entry),
// {key.old} (a version that is not the latest), {key.marker} (a delete marker).
func (w *c20World) refreshVars(bucket, key string) {
	if w.fix.Vars == nil {
		w.fix.Vars = map[string]string{}
	}
	name := strings.TrimSuffix(key, "/")
	r := w.do(gw.Req{Method: "GET", Path: "/" + bucket, Query: "versions&max-keys=1000&prefix=" + gw.EncodeQueryValue(key)})
	field := func(s, tag string) string {
		if m := regexp.MustCompile("<" + tag + ">([^<]*)</" + tag + ">").FindStringSubmatch(s); m != nil {
			return m[1]
		}
		return ""
	}
	delete(w.fix.Vars, "{"+name+".cur}")
	delete(w.fix.Vars, "{"+name+".old}")
	delete(w.fix.Vars, "{"+name+".marker}")
	for _, m := range c20VersionEntryRe.FindAllStringSubmatch(string(r.Body), -1) {
		if field(m[2], "Key") != key {
			continue
		}
		id, latest := field(m[2], "VersionId"), field(m[2], "IsLatest") == "true"
		if id == "" {
			continue
		}
		switch {
		case latest:
			w.fix.Vars["{"+name+".cur}"] = id
		case m[1] == "Version" && w.fix.Vars["{"+name+".old}"] == "":
			w.fix.Vars["{"+name+".old}"] = id
		}
		if m[1] == "DeleteMarker" && (latest || w.fix.Vars["{"+name+".marker}"] == "") {
			w.fix.Vars["{"+name+".marker}"] = id
		}
	}
}

// ensureStates builds the whole state world (first call) and refreshes the version ids.
func (w *c20World) ensureStates() error {
	w.do(gw.Req{Method: "PUT", Path: "/fzs"})
	for _, sk := range c20StateKeys {
		if sk.key == "nokey" || sk.key == "mp" {
			continue
		}
		w.rebuildKey(sk.bucket, sk.key)
		if err := w.checkIdle("state world: " + sk.bucket + "/" + sk.key); err != nil {
			return err
		}
	}
	return nil
}

// ensure (re)creates the fixture world; idempotent. Mutated requests delete and overwrite things, so
// this runs periodically.
func (w *c20World) ensure(first bool) error {
	f := &w.fix
	for _, u := range []string{"fzuser1", "fzuser2", "fzuser3"} {
		body := fmt.Sprintf("<Account><Access>%s</Access><Secret>%s</Secret><Role>user</Role><UserID>1001</UserID><GroupID>1001</GroupID></Account>", u, "fzsecret"+u[len(u)-1:])
		r := gw.Do(w.g.AdminAddr(), gw.Req{Method: "PATCH", Path: "/create-user", Body: []byte(body), Auth: "header", Creds: f.Root})
		if first && r.Status != 201 && r.Status != 200 && r.Status != 409 {
			return fmt.Errorf("create-user: %d %s %v", r.Status, r.Body, r.Err)
		}
	}
	put := func(path string, body []byte, hs ...gw.Header) gw.Resp {
		return w.do(gw.Req{Method: "PUT", Path: path, Body: body, Headers: hs})
	}
	for _, b := range []string{"/fzb", "/fzv", "/fzdel"} {
		if r := put(b, nil); first && r.Status != 200 {
			return fmt.Errorf("create bucket %s: %d %s %v", b, r.Status, r.Body, r.Err)
		}
	}
	put("/fza", nil, gw.Header{K: "x-amz-object-ownership", V: "BucketOwnerPreferred"}) // ACLs are enabled on this one
	put("/fzl", nil, gw.Header{K: "x-amz-bucket-object-lock-enabled", V: "true"})
	w.do(gw.Req{Method: "PUT", Path: "/fzv", Query: "versioning", Body: []byte(`<VersioningConfiguration><Status>Enabled</Status></VersioningConfiguration>`)})
	w.do(gw.Req{Method: "PUT", Path: "/fzb", Query: "policy", Body: []byte(f.subst(c20Bodies["policy"]))})
	w.do(gw.Req{Method: "PUT", Path: "/fzb", Query: "tagging", Body: []byte(c20Bodies["tagging"])})
	put("/fzp", nil)
	w.do(gw.Req{Method: "PUT", Path: "/fzp", Query: "policy", Body: []byte(c20GlobPolicy())})
	put("/fzp/aaaaaaaaaaaaaaaab", c20Data(3))
	put("/fzb/o1", c20Data(100), gw.Header{K: "x-amz-meta-a", V: "b"}, gw.Header{K: "x-amz-tagging", V: "t=1"}, gw.Header{K: "Content-Type", V: "text/plain"})
	put("/fzb/dir/o2", c20Data(10))
	put("/fzb/big", c20Data(70000))
	put("/fzb/del1", c20Data(1))
	put("/fzl/l1", c20Data(5))
	w.do(gw.Req{Method: "PUT", Path: "/fzl/l1", Query: "legal-hold", Body: []byte(c20Bodies["legalhold"])})
	w.do(gw.Req{Method: "PUT", Path: "/fzl/l1", Query: "retention", Body: []byte(c20Bodies["retention"]), Headers: []gw.Header{{K: "x-amz-bypass-governance-retention", V: "true"}}})
	w.do(gw.Req{Method: "PUT", Path: "/fzb", Query: "ownershipControls", Body: []byte(c20Bodies["ownership"])})
	w.do(gw.Req{Method: "DELETE", Path: "/fznew"})
	w.do(gw.Req{Method: "DELETE", Path: "/fznew3"})
	if first {
		put("/fzv/v1", c20Data(7))
		put("/fzv/v2", c20Data(8))
		// two "directories" that sort in front of the plain keys (listings with a delimiter and a small page)
		put("/fzv/adir/one", c20Data(2))
		put("/fzv/bdir/two", c20Data(2))
	}
	r1 := put("/fzv/v1", c20Data(9))
	if v := r1.Headers.Get("x-amz-version-id"); v != "" {
		f.VersionID = v
	}
	r2 := put("/fzv/v2", c20Data(9))
	if v := r2.Headers.Get("x-amz-version-id"); v != "" {
		f.VersionID2 = v
	}
	w.do(gw.Req{Method: "DELETE", Path: "/fzv/vd"})
	// multipart upload in progress with three parts
	ok := false
	if f.UploadID != "" {
		r := w.do(gw.Req{Method: "GET", Path: "/fzb/mp", Query: "uploadId=" + f.UploadID})
		ok = r.Status == 200 && bytes.Count(r.Body, []byte("<PartNumber>")) >= 3
	}
	if !ok {
		r := w.do(gw.Req{Method: "POST", Path: "/fzb/mp", Query: "uploads"})
		m := regexp.MustCompile(`<UploadId>([^<]+)</UploadId>`).FindSubmatch(r.Body)
		if m == nil {
			if first {
				return fmt.Errorf("create multipart upload: %d %s %v", r.Status, r.Body, r.Err)
			}
			return nil
		}
		f.UploadID = string(m[1])
		f.PartETags = nil
		for p := 1; p <= 3; p++ {
			r := w.do(gw.Req{Method: "PUT", Path: "/fzb/mp", Query: fmt.Sprintf("uploadId=%s&partNumber=%d", f.UploadID, p), Body: c20Data(10)})
			f.PartETags = append(f.PartETags, r.Headers.Get("Etag"))
		}
	}
	if err := w.checkIdle("multipart fixtures"); err != nil {
		return err
	}
	ok2 := false
	if f.UploadID2 != "" {
		ok2 = w.do(gw.Req{Method: "GET", Path: "/fzb/mp2", Query: "uploadId=" + f.UploadID2}).Status == 200
	}
	if !ok2 {
		r := w.do(gw.Req{Method: "POST", Path: "/fzb/mp2", Query: "uploads"})
		if m := regexp.MustCompile(`<UploadId>([^<]+)</UploadId>`).FindSubmatch(r.Body); m != nil {
			f.UploadID2 = string(m[1])
		}
	}
	return nil
}

// ---------------------------------------------------------------- sending one case

func (w *c20World) wire(c c20Case) (b c20Built, addr string, wire []byte) {
	b = c.build(&w.fix)
	addr = w.g.Addr()
	if b.Target == "admin" {
		addr = w.g.AdminAddr()
	}
	if c.Raw != nil {
		return b, addr, bytes.ReplaceAll(c.Raw, []byte("{addr}"), []byte(addr))
	}
	r := gw.Req{Method: b.Method, Path: b.Path, Query: b.Query, Body: b.Body, Auth: c.Auth, Defect: c.Defect, Chunks: c.Chunks,
		Trailer: c.Trailer, DeclLen: c.DeclLen, Expires: c.Expires, TimeOffset: c.TimeOff}
	for _, h := range b.Headers {
		r.Headers = append(r.Headers, gw.Header{K: h[0], V: h[1]})
	}
	switch c.Cred {
	case "root":
		r.Creds = w.fix.Root
	case "user":
		r.Creds = w.fix.User
	case "badsecret":
		r.Creds = gw.Creds{Access: w.fix.Root.Access, Secret: "wrong-secret"}
	case "unknown":
		r.Creds = gw.Creds{Access: "nosuchkey", Secret: "x"}
	default:
		r.Auth = "none"
	}
	if c.WireMut != "" {
		name := c.WireMut
		r.WireMut = func(wire []byte) []byte { return c20ApplyWireMut(name, wire) }
	}
	if b.RawAuthz {
		r.Auth = "none" // the mutated Authorization header goes out as it is
	}
	out := gw.BuildWire(addr, r)
	for _, h := range b.PostSign {
		out = c20SetWireHeader(out, h[0], h[1])
	}
	return b, addr, out
}

// c20SetWireHeader replaces (or adds) a header line of an encoded request.
func c20SetWireHeader(wire []byte, name, value string) []byte {
	end := bytes.Index(wire, []byte("\r\n\r\n"))
	if end < 0 {
		return wire
	}
	head, rest := string(wire[:end+2]), wire[end+2:]
	lines := strings.SplitAfter(head, "\r\n")
	done := false
	for i, l := range lines {
		if k, _, ok := strings.Cut(l, ":"); ok && strings.EqualFold(k, name) {
			lines[i] = name + ": " + value + "\r\n"
			done = true
		}
	}
	if !done {
		lines = append(lines, name+": "+value+"\r\n")
	}
	return append([]byte(strings.Join(lines, "")), rest...)
}

type c20Verdict struct {
	OK     bool
	Kind   string // wedge | no-answer | malformed-http | error-without-document | malformed-xml | memory
	What   string
	Grey   string // admitted although not an S3 document: which grey zone
	Status int
}

var c20ErrDocRe = regexp.MustCompile(`(?s)<Error>.*<Code>[^<]+</Code>.*</Error>`)

// c20Judge: the oracle on one answer (liveness of the child is judged separately).
func c20Judge(b c20Built, ex gw.Exchanged) c20Verdict {
	v := c20Verdict{Status: ex.Status}
	switch {
	case ex.DialErr:
		v.OK, v.Grey = true, "dial" // judged by the liveness check
		return v
	case ex.TimedOut:
		v.Kind, v.What = "wedge", fmt.Sprintf("no complete answer within %v (elapsed %v)", c20Watchdog, ex.Elapsed.Round(time.Millisecond))
		return v
	case ex.Status == 0:
		if b.HTTPOdd {
			v.OK, v.Grey = true, "http-layer:closed"
			return v
		}
		v.Kind, v.What = "no-answer", fmt.Sprintf("connection closed without a response (%v); first bytes %q", ex.Err, ex.RawHead)
		return v
	case ex.Err != nil:
		if b.HTTPOdd {
			v.OK, v.Grey = true, "http-layer:partial"
			return v
		}
		v.Kind, v.What = "malformed-http", fmt.Sprintf("response body not readable: %v", ex.Err)
		return v
	}
	body := ex.Body
	if ex.Status >= 400 && b.Method != "HEAD" {
		if c20ErrDocRe.Match(body) && c20WellFormedXML(body) == nil {
			v.OK = true
			return v
		}
		// answers produced below the gateway's own code: the HTTP server (malformed message) and the
		// router (no such route) answer in plain text
		if b.HTTPOdd {
			v.OK, v.Grey = true, "http-layer:text-error"
			return v
		}
		if bytes.HasPrefix(body, []byte("Cannot ")) || bytes.Equal(body, []byte("Method Not Allowed")) || (ex.Status == 405 && len(body) < 64) {
			v.OK, v.Grey = true, "router:no-such-route"
			return v
		}
		v.Kind, v.What = "error-without-document", fmt.Sprintf("status %d without an S3 error document: %q", ex.Status, c20Clip(body, 200))
		return v
	}
	if ex.Status < 400 && len(body) > 0 && b.Method != "HEAD" {
		ct := ex.Headers.Get("Content-Type")
		if strings.Contains(ct, "xml") {
			if err := c20WellFormedXML(body); err != nil {
				v.Kind, v.What = "malformed-xml", fmt.Sprintf("status %d, Content-Type %s, body is not well-formed XML: %v: %q", ex.Status, ct, err, c20Clip(body, 200))
				return v
			}
		}
	}
	v.OK = true
	return v
}

func c20Clip(b []byte, n int) string {
	if len(b) > n {
		return string(b[:n]) + "…"
	}
	return string(b)
}

func c20WellFormedXML(b []byte) error {
	d := xml.NewDecoder(bytes.NewReader(b))
	d.Strict = true
	n := 0
	for {
		t, err := d.Token()
		if err == io.EOF {
			if n == 0 {
				return fmt.Errorf("no element")
			}
			return nil
		}
		if err != nil {
			return err
		}
		if _, ok := t.(xml.StartElement); ok {
			n++
		}
	}
}

var c20FrameRe = regexp.MustCompile(`(?m)^(github\.com/versity/versitygw/[^\s(]+)\(.*\n\s+(\S+\.go):(\d+)`)

// c20CrashSite extracts (reason, call site, file:line) from the output of a dead child. The call site
// is `<file relative to the repository>:<enclosing top-level function>` of the first versitygw frame
// (looked up in the source file the traceback names: stable against inlining and closure numbering).
func c20CrashSite(log string) (reason, site, where string) {
	for _, l := range strings.Split(log, "\n") {
		if strings.HasPrefix(l, "panic: ") || strings.HasPrefix(l, "fatal error: ") || strings.HasPrefix(l, "runtime: out of memory") {
			reason = l
			break
		}
	}
	if reason == "" {
		reason = "exit without panic message"
	}
	if i := strings.Index(log, "goroutine "); i >= 0 {
		if m := c20FrameRe.FindStringSubmatch(log[i:]); m != nil {
			file, line := m[2], 0
			fmt.Sscanf(m[3], "%d", &line)
			rel := file
			for _, mark := range []string{"/s3api/", "/backend/", "/auth/", "/cmd/", "/s3response/", "/s3err/", "/s3select/", "/s3event/", "/s3log/", "/metrics/", "/aws/"} {
				if j := strings.LastIndex(file, mark); j >= 0 {
					rel = file[j+1:]
					break
				}
			}
			fn := c20EnclosingFunc(file, line)
			if fn == "" {
				fn = m[1][strings.LastIndex(m[1], "/")+1:]
			}
			return reason, rel + ":" + fn + ":" + c20ExprAt(rel, line, reason), rel + ":" + m[3]
		}
	}
	if strings.Contains(reason, "out of memory") || strings.Contains(log, "cannot allocate memory") {
		return reason, "runtime:out-of-memory", ""
	}
	return reason, "unknown", ""
}

var c20FuncCache sync.Map

func c20EnclosingFunc(file string, line int) string {
	type span struct {
		name     string
		from, to int
	}
	var spans []span
	if v, ok := c20FuncCache.Load(file); ok {
		spans = v.([]span)
	} else {
		fset := token.NewFileSet()
		af, err := parser.ParseFile(fset, file, nil, 0)
		if err != nil {
			return ""
		}
		for _, d := range af.Decls {
			if fd, ok := d.(*ast.FuncDecl); ok {
				name := fd.Name.Name
				if fd.Recv != nil && len(fd.Recv.List) > 0 {
					t := fd.Recv.List[0].Type
					if st, ok := t.(*ast.StarExpr); ok {
						t = st.X
					}
					if id, ok := t.(*ast.Ident); ok {
						name = id.Name + "." + name
					}
				}
				spans = append(spans, span{name, fset.Position(fd.Pos()).Line, fset.Position(fd.End()).Line})
			}
		}
		c20FuncCache.Store(file, spans)
	}
	for _, s := range spans {
		if line >= s.from && line <= s.to {
			return s.name
		}
	}
	return ""
}

func (w *c20World) probe() bool {
	ex := gw.Exchange(w.g.Addr(), gw.BuildWire(w.g.Addr(), gw.Req{Method: "HEAD", Path: "/fzb", Auth: "header", Creds: w.fix.Root}), "HEAD", 5*time.Second, false)
	return ex.Status != 0 && !ex.TimedOut
}

type c20Outcome struct {
	Crashed bool
	Reason  string
	Site    string
	Where   string
	Verdict c20Verdict
	Built   c20Built
	HWMKB   int64
}

// runOne sends one case and applies the whole oracle; on a dead or wedged child it restarts it.
func (w *c20World) runOne(c c20Case) (c20Outcome, error) {
	if err := w.checkIdle("before " + c.Endpoint); err != nil {
		return c20Outcome{}, err
	}
	_, hwmBefore := w.g.ProcStatus()
	b, addr, wire := w.wire(c)
	w.sent++
	ex := gw.Exchange(addr, wire, b.Method, c20Watchdog, true)
	out := c20Outcome{Built: b, Verdict: c20Judge(b, ex)}
	if ex.TimedOut && w.g.Alive() {
		// not answered within the watchdog: whatever the handler is doing (spinning, waiting), it keeps a
		// worker and possibly a core: one deadline is all such a request may cost this run
		w.wedges++
		if err := w.g.Restart(); err != nil {
			return out, err
		}
		return out, nil
	}
	alive := w.g.Alive()
	if alive && !w.probe() {
		// not answering other clients: dead in a moment, or wedged
		if w.g.WaitExit(3 * time.Second) {
			alive = false
		} else if !w.probe() {
			out.Verdict = c20Verdict{Kind: "wedge", What: "child alive but the health probe of another client got no answer within 5 s"}
			if err := w.g.Restart(); err != nil {
				return out, err
			}
			return out, nil
		}
	}
	if !alive {
		w.g.WaitExit(2 * time.Second)
		out.Crashed = true
		out.Reason, out.Site, out.Where = c20CrashSite(w.g.LogText())
		if err := w.g.Restart(); err != nil {
			return out, fmt.Errorf("restart after crash: %w", err)
		}
		return out, nil
	}
	// memory: the peak RSS of the child is sampled after every case, so a balloon is attributed to the
	// request that caused it; the child is then restarted (the high-water mark is per process)
	_, hwm := w.g.ProcStatus()
	out.HWMKB = hwm
	if hwm > c20RSSLimitKB && hwm-hwmBefore < 128*1024 {
		// the peak was (almost) reached before this request: restart quietly, the request that caused it was judged then
		if err := w.g.Restart(); err != nil {
			return out, err
		}
	} else if hwm > c20RSSLimitKB || hwm-hwmBefore > c20GrowthLimitKB {
		out.Verdict = c20Verdict{Kind: "memory", Status: out.Verdict.Status, What: fmt.Sprintf("peak RSS of the child reached %d MiB while serving a request of %d bytes on the wire (answer: status %d, timed out: %v, %v)", hwm/1024, len(wire), ex.Status, ex.TimedOut, ex.Elapsed.Round(time.Millisecond))}
		if err := w.g.Restart(); err != nil {
			return out, err
		}
	}
	return out, nil
}

func c20Replayable(c c20Case, b c20Built) map[string]interface{} {
	c.Request = b.String()
	j, _ := json.Marshal(c)
	var m map[string]interface{}
	json.Unmarshal(j, &m)
	return m
}

// handle: count, and turn a rejected outcome into a failure record (after confirming that the case
// reproduces alone on a freshly started child, and reducing it to a single mutation when one suffices).
func (w *c20World) handle(c c20Case, out c20Outcome) error {
	b := out.Built
	cls := []string{"e2e:endpoint:" + c.Endpoint, "e2e:cred:" + c.Cred, "e2e:auth:" + c.Auth}
	for _, k := range strings.Split(c.Class, "+") {
		cls = append(cls, "e2e:class:"+strings.SplitN(k, "#", 2)[0])
	}
	if out.Crashed {
		cls = append(cls, "e2e:outcome:child-exit")
	} else if out.Verdict.Grey != "" {
		cls = append(cls, "e2e:outcome:grey:"+out.Verdict.Grey)
	} else if out.Verdict.OK {
		cls = append(cls, fmt.Sprintf("e2e:outcome:status-%dxx", out.Verdict.Status/100))
	} else {
		cls = append(cls, "e2e:outcome:"+out.Verdict.Kind)
	}
	w.res.Count(fmt.Sprintf("%s|%v|%s|%s|%s", c.Endpoint, c.keys(), c.Cred, c.Auth, c.Defect), len(c.Muts) > 0 || c.Raw != nil, cls...)
	if out.Crashed {
		// minimise: does a single mutation (with root credentials, plain signing) suffice?
		min, alone := c, false
		try := func(t c20Case) bool {
			o, err := w.runOne(t)
			return err == nil && o.Crashed && o.Site == out.Site
		}
		if try(c) {
			alone = true
			if len(c.Muts) > 1 || c.WireMut != "" && len(c.Muts) > 0 {
				for _, m := range c.Muts {
					t := c
					t.Muts = []c20Mut{m}
					t.WireMut, t.DeclLen = "", nil
					if try(t) {
						min = t
						break
					}
				}
			}
			if len(min.Muts) <= 1 {
				for _, k := range min.keys() {
					w.blocked[c.Endpoint+"|"+k] = true
				}
			}
		}
		sig := "crash:" + c.Endpoint + ":" + out.Site
		w.crashes[sig]++
		mb := min.build(&w.fix)
		w.res.Fail(lib.Failure{Kind: "property", Signature: sig,
			What:  fmt.Sprintf("the gateway process exited while serving this request (%s at %s); reproduces alone on a fresh child: %v", out.Reason, out.Where, alone),
			Input: c20Replayable(min, mb), Impl: "child exit: " + out.Reason + " @ " + out.Site + " " + out.Where, Model: "every request is answered and the process keeps serving"})
		return w.ensure(false)
	}
	if !out.Verdict.OK {
		sig := out.Verdict.Kind + ":" + c.Endpoint + ":" + strings.SplitN(c.Class, "#", 2)[0]
		if out.Verdict.Kind == "memory" || out.Verdict.Kind == "wedge" {
			// name the input class by what sizes the allocation / the wait
			what := "other"
			switch {
			case strings.HasPrefix(c.WireMut, "size:"):
				what = "chunk-size-line"
			case c.DeclLen != nil:
				what = "declared-decoded-length"
			case c.WireMut != "":
				what = "chunk-framing"
			}
			if strings.HasPrefix(c.WireMut, "cut:") {
				what = strings.TrimPrefix(c.WireMut, "cut:")
			}
			if strings.HasPrefix(c.WireMut, "size@") {
				what = "chunk-" + c.WireMut
			}
			if c.Class == "policy-glob" || strings.HasPrefix(c.Class, "corpus:policy-glob") {
				what = "policy-glob"
				w.wedged["class:policy-glob"] = true
			}
			sig = out.Verdict.Kind + ":" + c.Endpoint + ":" + c.Auth + ":" + what
			if what == "policy-glob" {
				sig = out.Verdict.Kind + ":" + c.Endpoint + ":policy-glob"
			}
			if out.Verdict.Kind == "wedge" {
				w.wedged[c.Endpoint+"|"+c.Auth] = true
			}
			for _, k := range c.keys() {
				if strings.HasPrefix(k, "wire:") || strings.HasPrefix(k, "decl=") || len(c.keys()) == 1 {
					w.blocked[c.Endpoint+"|"+k] = true
				}
			}
		}
		w.res.Fail(lib.Failure{Kind: "property", Signature: sig, What: out.Verdict.What, Input: c20Replayable(c, b),
			Impl: out.Verdict.What, Model: "a well-formed S3 success or error document within the watchdog"})
	}
	return nil
}

func (w *c20World) isBlocked(c c20Case) bool {
	if c.Class == "policy-glob" && w.wedged["class:policy-glob"] {
		return true // one wedge shows the defect; every further one costs a watchdog
	}
	if c.WireMut != "" || c.DeclLen != nil {
		// a class of framing cases that wedged once is not tried again in this run (each try costs a watchdog);
		// after four wedges of any kind no further framing mutations are sent by this worker
		if w.wedged[c.Endpoint+"|"+c.Auth] || w.wedges >= 4 {
			return true
		}
	}
	for _, k := range c.keys() {
		if w.blocked[c.Endpoint+"|"+k] {
			return true
		}
	}
	return false
}

// ---------------------------------------------------------------- the check

// c20Corpus: past crashers (fixed ones included) — run first.
func c20Corpus() []c20Case {
	mk := func(ep, class string, muts ...c20Mut) c20Case {
		return c20Case{Endpoint: ep, Class: "corpus:" + class, Muts: muts, Auth: "header", Cred: "root"}
	}
	return []c20Case{
		mk("ListBuckets", "max-buckets=0", c20Mut{K: "q", N: "max-buckets", V: []byte("0")}),
		mk("ListBuckets", "max-buckets=-1", c20Mut{K: "q", N: "max-buckets", V: []byte("-1")}),
		mk("PutBucketOwnershipControls", "no-rule", c20Mut{K: "body", N: "root-only", V: []byte(`<OwnershipControls></OwnershipControls>`)}),
		mk("PutBucketAcl", "grant-without-grantee", c20Mut{K: "body", N: "drop:Grantee", V: []byte(`<AccessControlPolicy><Owner><ID>rootaccess</ID></Owner><AccessControlList><Grant><Permission>READ</Permission></Grant></AccessControlList></AccessControlPolicy>`)}),
		mk("PutObjectAcl", "grant-without-grantee", c20Mut{K: "body", N: "drop:Grantee", V: []byte(`<AccessControlPolicy><Owner><ID>rootaccess</ID></Owner><AccessControlList><Grant><Permission>READ</Permission></Grant></AccessControlList></AccessControlPolicy>`)}),
		mk("ListMultipartUploads", "max-uploads=0", c20Mut{K: "q", N: "max-uploads", V: []byte("0")}),
		mk("ListParts", "max-parts=0", c20Mut{K: "q", N: "max-parts", V: []byte("0")}),
		mk("CompleteMultipartUpload", "no-parts", c20Mut{K: "body", N: "root-only", V: []byte(`<CompleteMultipartUpload></CompleteMultipartUpload>`)}),
		mk("CopyObject", "empty-source", c20Mut{K: "h", N: "x-amz-copy-source", V: []byte("/")}),
		mk("GetObject", "path-no-slash", c20Mut{K: "path", V: []byte("fzb")}),
		mk("ListObjectVersions", "delimiter-page-filled-by-prefixes", c20Mut{K: "q", N: "prefix", V: []byte("")}, c20Mut{K: "q", N: "key-marker", V: []byte("")},
			c20Mut{K: "q", N: "version-id-marker", V: []byte("")}, c20Mut{K: "q", N: "max-keys", V: []byte("1")}),
		mk("ListObjectsV2", "delimiter-page-filled-by-prefixes", c20Mut{K: "path", V: []byte("/fzv")}, c20Mut{K: "q", N: "prefix", V: []byte("")}, c20Mut{K: "q", N: "start-after", V: []byte("")},
			c20Mut{K: "q", N: "continuation-token", V: []byte("")}, c20Mut{K: "q", N: "max-keys", V: []byte("1")}),
		// seeded regressions the first version of the check missed
		mk("HeadObjectPlain", "head-of-delete-marker", c20Mut{K: "path", V: []byte("/fzv/dm")}),
		mk("HeadObjectPlain", "head-of-delete-marker-by-id", c20Mut{K: "path", V: []byte("/fzv/dm")}, c20Mut{K: "q+", N: "versionId", V: []byte("{dm.marker}")}),
		{Endpoint: "PutObjectPlain", Class: "corpus:unsigned-stream-ends-before-final-chunk", Auth: "stream-unsigned-trailer", Cred: "root", Chunks: []int{5}, Trailer: "crc32", WireMut: "cut:crlf:2"},
		{Endpoint: "PutObjectPlain", Class: "corpus:unsigned-stream-empty", Auth: "stream-unsigned-trailer", Cred: "root", Chunks: []int{5}, Trailer: "crc32", WireMut: "cut:crlf:0"},
		{Endpoint: "PutObjectPlain", Class: "corpus:signed-chunk-size-2^64-1", Auth: "stream-signed", Cred: "root", Chunks: []int{5}, WireMut: "size@0:ffffffffffffffff"},
		{Endpoint: "PutObjectPlain", Class: "corpus:signed-trailer-chunk-size-2^63", Auth: "stream-signed-trailer", Cred: "root", Chunks: []int{5}, Trailer: "crc32", WireMut: "size@1:8000000000000000"},
		{Endpoint: "GetObjectPlain", Class: "corpus:policy-glob-15-stars", Auth: "header", Cred: "user", Muts: []c20Mut{{K: "path", V: []byte("/fzp/" + strings.Repeat("a", 200))}}},
		{Endpoint: "UploadPartPlain", Class: "corpus:unsigned-stream-ends-after-data", Auth: "stream-unsigned-trailer", Cred: "root", Chunks: []int{5}, Trailer: "crc32", WireMut: "cut:crlf:4"},
	}
}

func c20E2E(a lib.Args, res *lib.Result) error {
	if in := a.ReplayInput(); in != nil {
		if _, isE2E := in["endpoint"]; !isE2E {
			return nil
		}
		j, _ := json.Marshal(in)
		var c c20Case
		if err := json.Unmarshal(j, &c); err != nil {
			return fmt.Errorf("replay input: %v", err)
		}
		c20LoadInventory(a)
		w, err := c20Start(a, res, 0)
		if err != nil {
			return err
		}
		defer w.g.Kill()
		if c.Endpoint == "fixture-setup" {
			w.ensure(false)
			return w.checkIdle("replay of the fixture sequence")
		}
		// a case may need a used heap to show its cost (a fresh child hands out untouched pages): up to 3 sends
		var out c20Outcome
		for i := 0; i < 3; i++ {
			out, err = w.runOne(c)
			if err != nil {
				return err
			}
			if out.Crashed || !out.Verdict.OK {
				break
			}
		}
		return w.handle(c, out)
	}
	c20LoadInventory(a)
	workers, random := 3, 4000
	if a.Thorough() {
		workers, random = 4, 300000
	}
	var sysCases []c20Case
	sysCases = append(sysCases, c20Corpus()...)
	sysCases = append(sysCases, c20RawCases()...)
	cuts := c20FramingCuts() // one (operation, mode) class stays on one worker: the class stops at its first wedge
	for i := range cuts {
		cuts[i].group = cuts[i].Endpoint + cuts[i].Auth
	}
	cuts = append(cuts, c20ChunkSizeCases()...)
	cuts = append(cuts, c20PolicyGlobCases()...)
	sysCases = append(sysCases, c20Systematic(!a.Thorough())...)
	for _, op := range c20Ops { // every valid template once, with every credential class
		for _, cred := range []string{"root", "user", "anon", "badsecret"} {
			c := c20Case{Endpoint: op.Name, Class: "valid", Auth: "header", Cred: cred}
			if cred == "anon" {
				c.Auth = "none"
			}
			sysCases = append(sysCases, c)
		}
	}
	var mu sync.Mutex
	var firstErr error
	var wg sync.WaitGroup
	results := make([]*lib.Result, workers)
	worlds := make([]*c20World, workers)
	for wi := 0; wi < workers; wi++ {
		results[wi] = lib.NewResult(res.Property, res.Check, res.Rule)
		w, err := c20Start(a, results[wi], wi)
		if err != nil {
			for _, o := range worlds {
				if o != nil {
					o.g.Kill()
				}
			}
			return err
		}
		worlds[wi] = w
	}
	for wi := 0; wi < workers; wi++ {
		wg.Add(1)
		go func(wi int) {
			defer wg.Done()
			w := worlds[wi]
			defer w.g.Kill()
			r := lib.NewRandStream(a.Seed, int64(2000+wi))
			n := 0
			step := func(c c20Case) bool {
				if w.isBlocked(c) {
					w.skipped++
					return true
				}
				out, err := w.runOne(c)
				if err == nil {
					err = w.handle(c, out)
				}
				if err != nil {
					mu.Lock()
					if firstErr == nil {
						firstErr = err
					}
					mu.Unlock()
					return false
				}
				n++
				if n%400 == 0 {
					w.ensure(false)
				}
				return true
			}
			for i := wi; i < len(sysCases); i += workers {
				if !step(sysCases[i]) {
					return
				}
			}
			for _, c := range cuts {
				var h uint32
				for _, ch := range c.group {
					h = h*31 + uint32(ch)
				}
				if int(h%uint32(workers)) == wi && !step(c) {
					return
				}
			}
			for n < (len(sysCases)+len(cuts)+random)/workers {
				if !step(c20Mutate(r, c20Ops[r.Intn(len(c20Ops))])) {
					return
				}
			}
		}(wi)
	}
	wg.Wait()
	sent, skipped := 0, 0
	crash := map[string]int{}
	for wi, w := range worlds {
		res.Merge(results[wi])
		sent += w.sent
		skipped += w.skipped
		for k, v := range w.crashes {
			crash[k] += v
		}
	}
	var cs []string
	for k, v := range crash {
		cs = append(cs, fmt.Sprintf("%s×%d", k, v))
	}
	sort.Strings(cs)
	res.Note("e2e: %d requests sent over %d child gateways (%d generated cases skipped: single mutation already confirmed as a crasher of the same endpoint, or framing class that already wedged once); %d operations × {root, user, anonymous, bad credentials, signature defects, presigned, streaming modes}; child exits: %v",
		sent, workers, skipped, len(c20Ops), cs)
	return firstErr
}

// c20States: every object-level operation on every key state of the versioned / locked world (several
// versions, current = delete marker, null version current with id versions archived, versioning
// Suspended, legal hold, retention, in-progress multipart upload, directory object), with and without
// a version id (current, older, delete marker, null, garbage, an id of another key).
func c20States(a lib.Args, res *lib.Result) error {
	if a.ReplayInput() != nil {
		return nil // a state case replays through c20E2E (same case format, the state world is built by c20Start)
	}
	c20LoadInventory(a)
	w, err := c20Start(a, res, 80)
	if err != nil {
		return err
	}
	defer func() { w.g.Kill() }()
	cases, destructive := c20StateMatrix()
	for i, c := range cases {
		out, err := w.runOne(c)
		if err == nil {
			err = w.handle(c, out)
		}
		if err != nil {
			return err
		}
		if destructive[i] || out.Crashed {
			// put the key back into its state
			p := strings.SplitN(strings.TrimPrefix(c.Class, "state:"), "/", 2)
			if len(p) == 2 && p[1] != "nokey" && p[1] != "mp" {
				w.rebuildKey(p[0], p[1])
			}
		}
	}
	res.Note("state matrix: %d requests: %d key states × 14 object-level operations × 7 version-id choices", len(cases), len(c20StateKeys))
	return nil
}
