package main

// c11fs.go — canonical (tokenised) form of the storage directories and of a syscall trace, in the
// vocabulary of Model.Crash (lean/Vgw/Driver/Crash.lean).

import (
	"bytes"
	"crypto/sha256"
	"encoding/hex"
	"fmt"
	"io/fs"
	"os"
	"path/filepath"
	"regexp"
	"sort"
	"strings"

	"github.com/pkg/xattr"
)

// rawNode is one directory entry as found on disk.
type rawNode struct {
	Area  string // R | V | S
	Rel   []string
	IsDir bool
	Data  []byte
	Attrs map[string][]byte // user.* xattrs without the prefix
}

func (w *c11World) areas() map[string]string {
	m := map[string]string{"R": w.Cfg.Root}
	if w.Cfg.VersioningDir != "" {
		m["V"] = w.Cfg.VersioningDir
	}
	if w.Cfg.Sidecar != "" {
		m["S"] = w.Cfg.Sidecar
	}
	return m
}

// rawSnapshot reads every entry below the storage directories.
func (w *c11World) rawSnapshot() []rawNode {
	var out []rawNode
	for area, root := range w.areas() {
		filepath.WalkDir(root, func(p string, d fs.DirEntry, err error) error {
			if err != nil || p == root {
				return nil
			}
			rel, _ := filepath.Rel(root, p)
			n := rawNode{Area: area, Rel: strings.Split(rel, "/"), IsDir: d.IsDir(), Attrs: map[string][]byte{}}
			if !d.IsDir() {
				n.Data, _ = os.ReadFile(p)
			}
			if names, err := xattr.LList(p); err == nil {
				for _, a := range names {
					if strings.HasPrefix(a, "user.") {
						v, _ := xattr.LGet(p, a)
						n.Attrs[strings.TrimPrefix(a, "user.")] = v
					}
				}
			}
			out = append(out, n)
			return nil
		})
	}
	return out
}

// c11Tok maps concrete names and values to the model's tokens.
type c11Tok struct {
	w        *c11World
	bucket   string
	keyHash  map[string]string // sha256(key) hex -> token "#a%b"
	uploads  map[string]string // upload id -> U0…
	vids     map[string]string // version id -> v0…
	blobs    [][2]string       // name, bytes (first match wins)
	oldAttrs map[string]string // attr -> raw value of the target in the pre-state
	newAttrs map[string]string // attr -> raw value of the target after the completed request
	vdirRel  []string          // components of the versioning dir below "/" (sidecar embeds them)
}

func keyHashToken(key string) string { return "#" + strings.ReplaceAll(key, "/", "%") }

func newC11Tok(w *c11World, keys []string) *c11Tok {
	t := &c11Tok{w: w, bucket: c11Bucket, keyHash: map[string]string{}, uploads: map[string]string{}, vids: map[string]string{},
		oldAttrs: map[string]string{}, newAttrs: map[string]string{}}
	for _, k := range keys {
		if k == "" {
			continue
		}
		h := sha256.Sum256([]byte(k))
		t.keyHash[hex.EncodeToString(h[:])] = keyHashToken(k)
	}
	if w.Cfg.VersioningDir != "" {
		t.vdirRel = strings.Split(strings.TrimPrefix(filepath.Clean(w.Cfg.VersioningDir), "/"), "/")
	}
	return t
}

var (
	reTmpName = regexp.MustCompile(`^[0-9a-f]{64}\.[0-9]+$`)
	reAnon    = regexp.MustCompile(`^#[0-9]+ \(deleted\)$`)
	reHex64   = regexp.MustCompile(`^[0-9a-f]{64}$`)
)

func stripQuotes(s string) string { return strings.Trim(s, `"`) }

func shortHash(b []byte) string {
	h := sha256.Sum256(b)
	return "x" + hex.EncodeToString(h[:3])
}

// val tokenises an attribute value.
func (t *c11Tok) val(attr string, v []byte) string {
	s := string(v)
	if attr == "etag" {
		s = stripQuotes(s)
	}
	if s == "" {
		return "~"
	}
	if attr == "version-id" {
		return t.vid(s)
	}
	if o, ok := t.oldAttrs[attr]; ok && o == s {
		return "old"
	}
	if n, ok := t.newAttrs[attr]; ok && n == s {
		return "new"
	}
	return shortHash([]byte(attr + "\x00" + s))
}

func (t *c11Tok) vid(s string) string {
	if s == "null" || s == "" {
		return "null"
	}
	if tok, ok := t.vids[s]; ok {
		return tok
	}
	return "new"
}

func (t *c11Tok) data(b []byte) string {
	if len(bytes.Trim(b, "\x00")) == 0 {
		return "~"
	}
	for _, nb := range t.blobs {
		if string(b) == nb[1] {
			return nb[0]
		}
	}
	return shortHash(b)
}

// relR canonicalises the components below the storage root (also used below S/<bucket>).
func (t *c11Tok) relR(rel []string) []string {
	out := append([]string{}, rel...)
	for i, c := range out {
		if i >= 1 && out[i-1] == ".sgwtmp" && reTmpName.MatchString(c) {
			out[i] = "TMP"
		}
		if i >= 2 && out[i-1] == "multipart" && out[i-2] == ".sgwtmp" {
			if tok, ok := t.keyHash[c]; ok {
				out[i] = tok
			}
		}
		if i >= 3 && out[i-2] == "multipart" && out[i-3] == ".sgwtmp" {
			if tok, ok := t.uploads[c]; ok {
				out[i] = tok
			} else if reTmpName.MatchString(c) {
				out[i] = "TMP"
			}
		}
	}
	return out
}

// relV canonicalises the components below the versioning directory: <bucket>/<h2>/<h4>/<h6>/<hash>/<vid>.
func (t *c11Tok) relV(rel []string) []string {
	out := append([]string{}, rel...)
	if len(out) >= 2 && out[1] == ".sgwtmp" {
		for i := 2; i < len(out); i++ {
			if reTmpName.MatchString(out[i]) {
				out[i] = "TMPv"
			}
		}
		return out
	}
	// find the key whose hash matches the prefix directories
	var full, tok string
	for h, k := range t.keyHash {
		ok := true
		for i, n := range []int{2, 4, 6} {
			if len(out) > 1+i && out[1+i] != h[n-2:n] {
				ok = false
			}
		}
		if len(out) > 4 && out[4] != h {
			ok = false
		}
		if ok && len(out) > 1 {
			if full != "" && len(out) <= 4 {
				// ambiguous prefix: keep the first in sorted order (scenarios avoid this)
				if h > full {
					continue
				}
			}
			full, tok = h, k
		}
	}
	if full == "" {
		return out
	}
	sfx := []string{".2", ".4", ".6", ""}
	for i := 0; i < 4 && 1+i < len(out); i++ {
		out[1+i] = tok + sfx[i]
	}
	if len(out) > 5 {
		out[5] = t.vid(out[5])
	}
	return out
}

// canonPath maps an area-relative path to the model's path string.
func (t *c11Tok) canonPath(area string, rel []string) string {
	switch area {
	case "R":
		return "R/" + strings.Join(t.relR(rel), "/")
	case "V":
		return "V/" + strings.Join(t.relV(rel), "/")
	case "S":
		// <sidecar>/<abs versioning dir>/… or <sidecar>/<bucket>/…
		if len(t.vdirRel) > 0 && len(rel) >= len(t.vdirRel) && strings.Join(rel[:len(t.vdirRel)], "/") == strings.Join(t.vdirRel, "/") {
			rest := rel[len(t.vdirRel):]
			if len(rest) == 0 {
				return "" // the root of the mirrored versioning directory: an area root, not an entry
			}
			return "SV/" + strings.Join(t.relV(rest), "/")
		}
		if len(t.vdirRel) > 0 && len(rel) < len(t.vdirRel) && strings.Join(rel, "/") == strings.Join(t.vdirRel[:len(rel)], "/") {
			return "" // the directories leading to the embedded absolute path: not modelled
		}
		return "S/" + strings.Join(t.relR(rel), "/")
	}
	return area + "/" + strings.Join(rel, "/")
}

func encV(s string) string {
	if s == "" {
		return "~"
	}
	return s
}

// canonFS serialises a raw snapshot for the driver.
func (t *c11Tok) canonFS(nodes []rawNode) string {
	var ents []string
	for _, n := range nodes {
		p := t.canonPath(n.Area, n.Rel)
		if p == "" {
			continue
		}
		var as []string
		for a, v := range n.Attrs {
			as = append(as, a+"="+t.val(a, v))
		}
		sort.Strings(as)
		attrs := "-"
		if len(as) > 0 {
			attrs = strings.Join(as, ",")
		}
		if n.IsDir {
			ents = append(ents, p+"|d|-|"+attrs)
		} else {
			d := ""
			if n.Area == "S" {
				// a sidecar attribute file: its content is the attribute value
				d = t.val(n.Rel[len(n.Rel)-1], n.Data)
			} else {
				d = t.data(n.Data)
			}
			ents = append(ents, p+"|f|"+d+"|"+attrs)
		}
	}
	if len(ents) == 0 {
		return "-"
	}
	sort.Strings(ents)
	return strings.Join(ents, ";")
}

// targetAttrs returns the raw attribute values of the object at the area-R relative path (xattr or sidecar store).
func (w *c11World) targetAttrs(nodes []rawNode, rel []string) map[string]string {
	out := map[string]string{}
	want := strings.Join(rel, "/")
	for _, n := range nodes {
		if n.Area == "R" && strings.Join(n.Rel, "/") == want && w.Cfg.Sidecar == "" {
			for a, v := range n.Attrs {
				out[a] = string(v)
			}
		}
		if n.Area == "S" && !n.IsDir && len(n.Rel) >= 2 && strings.Join(n.Rel[:len(n.Rel)-2], "/") == want && n.Rel[len(n.Rel)-2] == "meta" {
			out[n.Rel[len(n.Rel)-1]] = string(n.Data)
		}
	}
	if e, ok := out["etag"]; ok {
		out["etag"] = stripQuotes(e)
	}
	return out
}

// ---------------------------------------------------------------- trace projection

// areaOf splits an absolute path into area and relative components.
func (w *c11World) areaOf(p string) (string, []string, bool) {
	best, bestRoot := "", ""
	for a, r := range w.areas() {
		if (p == r || strings.HasPrefix(p, r+"/")) && len(r) > len(bestRoot) {
			best, bestRoot = a, r
		}
	}
	if best == "" {
		return "", nil, false
	}
	rel := strings.TrimPrefix(strings.TrimPrefix(p, bestRoot), "/")
	if rel == "" {
		return best, nil, true
	}
	return best, strings.Split(rel, "/"), true
}

// ref canonicalises the file a step works on: an unnamed inode ("@0" object temp, "@1" version temp) or a path.
func (t *c11Tok) ref(p string) string {
	area, rel, ok := t.w.areaOf(p)
	if !ok {
		return "?" + p
	}
	if len(rel) > 0 && reAnon.MatchString(rel[len(rel)-1]) {
		if area == "V" {
			return "@1"
		}
		return "@0"
	}
	return t.canonPath(area, rel)
}

// c11Step is one projected step of the implementation.
type c11Step struct {
	Shape string // model's showStep without the value field
	Seq   int    // raw index in the trace (kill index)
}

// project turns the successful mutating records into step shapes (consecutive writes to one file merge).
func (t *c11Tok) project(recs []TraceRec) []c11Step {
	var out []c11Step
	for _, r := range recs {
		if r.Killed || r.Ret == nil || *r.Ret < 0 {
			continue
		}
		var s string
		switch r.Sys {
		case "openat", "open", "openat2", "creat":
			if r.Flags&oTmpfile == oTmpfile {
				id := "@0"
				if a, _, _ := t.w.areaOf(r.Path); a == "V" {
					id = "@1"
				}
				s = "otmp:" + id + ":" + t.ref(r.Path)
			} else {
				s = "creat:" + t.ref(r.Path)
			}
		case "fallocate":
			s = "falloc:" + t.ref(r.Path)
		case "ftruncate":
			s = "truncate:" + t.ref(r.Path)
		case "write", "pwrite64", "writev", "copy_file_range", "sendfile":
			if *r.Ret == 0 {
				continue
			}
			s = "write:" + t.ref(r.Path)
			if len(out) > 0 && out[len(out)-1].Shape == s {
				continue
			}
		case "setxattr", "lsetxattr", "fsetxattr":
			s = "setx:" + t.ref(r.Path) + ":" + strings.TrimPrefix(r.Attr, "user.")
		case "removexattr", "lremovexattr", "fremovexattr":
			s = "rmx:" + t.ref(r.Path) + ":" + strings.TrimPrefix(r.Attr, "user.")
		case "mkdirat", "mkdir":
			s = "mkdir:" + t.ref(r.Path)
		case "unlinkat", "unlink", "rmdir":
			if r.Sys == "rmdir" || r.Flags&0x200 != 0 {
				s = "rmdir:" + t.ref(r.Path)
			} else {
				s = "unlink:" + t.ref(r.Path)
			}
		case "linkat", "link":
			s = "link:" + t.ref(r.Path) + ":" + t.ref(r.Path2)
		case "renameat", "renameat2", "rename":
			s = "rename:" + t.ref(r.Path) + ":" + t.ref(r.Path2)
		case "fchmod", "chmod", "fchmodat":
			s = "chmod:" + t.ref(r.Path)
		default:
			s = r.Sys + ":" + t.ref(r.Path)
		}
		out = append(out, c11Step{Shape: s, Seq: r.Seq})
	}
	return out
}

// shapeOfModelStep drops the value field of the model's write/setx steps.
func shapeOfModelStep(s string) string {
	f := strings.Split(s, ":")
	switch f[0] {
	case "write":
		if len(f) >= 3 {
			return strings.Join(f[:2], ":")
		}
	case "setx":
		if len(f) >= 4 {
			return strings.Join(f[:3], ":")
		}
	}
	return s
}

// commuteClass: consecutive model steps of one class may be executed in any order by the implementation
// (attribute copies follow listxattr order, RemoveAll follows readdir order, metadata maps are Go maps).
func commuteClass(shape string) string {
	f := strings.Split(shape, ":")
	switch f[0] {
	case "setx":
		return "setx:" + f[1]
	case "unlink":
		return "unlink:" + filepath.Dir(f[1])
	}
	return ""
}

// matchSteps aligns the implementation's steps with the model's plan. It returns, for every implementation
// step, the index of the plan step it executes; err names the first step that does not fit.
func matchSteps(impl []c11Step, model []string) (idx []int, err error) {
	used := make([]bool, len(model))
	for i, st := range impl {
		j := 0
		for j < len(model) && used[j] {
			j++
		}
		if j == len(model) {
			return idx, fmt.Errorf("step %d: implementation executes %q, the model's plan has ended", i, st.Shape)
		}
		cls := commuteClass(shapeOfModelStep(model[j]))
		found := -1
		for k := j; k < len(model); k++ {
			sh := shapeOfModelStep(model[k])
			if k > j && (cls == "" || commuteClass(sh) != cls) {
				break
			}
			if !used[k] && sh == st.Shape {
				found = k
				break
			}
		}
		if found < 0 {
			return idx, fmt.Errorf("step %d: implementation executes %q, the model expects %q", i, st.Shape, shapeOfModelStep(model[j]))
		}
		used[found] = true
		idx = append(idx, found)
	}
	return idx, nil
}
