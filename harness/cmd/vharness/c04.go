package main

import (
	"bytes"

	"fmt"
	"github.com/versity/versitygw/s3api/utils"
	"os"
	"path/filepath"
	"strings"
	"time"

	"verif/harness/gw"
	"verif/harness/lib"
)

const c04Canary = "CANARY-c04-9d1f-content-outside-the-named-bucket"

// spellings of one traversal step ("..") and of the separator
var c04Spell = []struct{ name, up, sep string }{
	{"raw", "..", "/"},
	{"pct-dots", "%2e%2e", "/"},
	{"pct-dots-upper", "%2E%2E", "/"},
	{"pct-slash", "..", "%2f"},
	{"pct-all", "%2e%2e", "%2F"},
	{"double-encoded", "%252e%252e", "%252f"},
	{"mixed", ".%2e", "/"},
	{"backslash", "..", "%5c"},
	{"overlong-utf8", "%c0%ae%c0%ae", "/"},
	{"dot-segment", ".", "/"},
	{"dotdot-nul", "..%00", "/"},
}

type c04Case struct {
	op, param, spelling, target string
	depth                       int
}

func (c c04Case) String() string {
	return fmt.Sprintf("%s via %s spelling=%s depth=%d target=%s", c.op, c.param, c.spelling, c.depth, c.target)
}

// c04Probe: no client-supplied name may make the gateway touch anything outside the bucket (and
// object) the request names. Layout: <work>/root/{abk,other}, <work>/outside.txt, <work>/iam.
// Every request names bucket `abk` (resp. a bucket-like parameter); a byte-exact snapshot of
// everything except root/abk (and its versioning directory) must not change, and no answer may
// carry canary content.
func c04Probe(a lib.Args, res *lib.Result) error {
	cfg, err := mustStorage(a, "c04", true, false, nil)
	if err != nil {
		return err
	}
	g, err := gw.Start(cfg)
	if err != nil {
		return err
	}
	defer g.Kill()
	cr := rootCreds(cfg)
	do := func(q gw.Req) gw.Resp {
		q.Creds = cr
		if q.Auth == "" {
			q.Auth = "header"
		}
		return gw.Do(g.Addr(), q)
	}
	for _, b := range []string{"abk", "other", "vbk"} {
		if r := do(gw.Req{Method: "PUT", Path: "/" + b}); r.Status != 200 {
			return fmt.Errorf("create %s: %d %s", b, r.Status, r.Body)
		}
	}
	do(gw.Req{Method: "PUT", Path: "/other", Query: "versioning", Body: []byte(`<VersioningConfiguration><Status>Enabled</Status></VersioningConfiguration>`)})
	for _, k := range []string{"secret", "dir/secret"} {
		do(gw.Req{Method: "PUT", Path: "/other/" + k, Body: []byte(c04Canary + "-other-bucket")})
	}
	do(gw.Req{Method: "PUT", Path: "/other/secret", Body: []byte(c04Canary + "-other-bucket-v2")})
	do(gw.Req{Method: "PUT", Path: "/vbk", Query: "versioning", Body: []byte(`<VersioningConfiguration><Status>Enabled</Status></VersioningConfiguration>`)})
	do(gw.Req{Method: "PUT", Path: "/vbk/own", Body: []byte("own object of the versioned bucket, v1")})
	do(gw.Req{Method: "PUT", Path: "/vbk/own", Body: []byte("own object of the versioned bucket, v2")})
	do(gw.Req{Method: "PUT", Path: "/abk/own", Body: []byte("own object of the named bucket")})
	do(gw.Req{Method: "PUT", Path: "/abk/d1/d2/d3/d4/d5/deep", Body: []byte("deep own object")})
	os.WriteFile(filepath.Join(cfg.Work, "outside.txt"), []byte(c04Canary+"-outside-root"), 0o644)
	os.MkdirAll(filepath.Join(cfg.Work, "outdir"), 0o755)
	os.WriteFile(filepath.Join(cfg.Work, "outdir", "f"), []byte(c04Canary+"-outside-root-dir"), 0o644)
	up := do(gw.Req{Method: "POST", Path: "/abk/mp", Query: "uploads"})
	upid := ""
	if i := bytes.Index(up.Body, []byte("<UploadId>")); i >= 0 {
		upid = string(up.Body[i+10 : bytes.Index(up.Body, []byte("</UploadId>"))])
	}
	do(gw.Req{Method: "PUT", Path: "/abk/mp", Query: "uploadId=" + upid + "&partNumber=1", Body: []byte("part")})
	up2 := do(gw.Req{Method: "POST", Path: "/other/mp2", Query: "uploads"})
	_ = up2

	// what must never change: everything except the named bucket's own storage
	protected := func() lib.Snapshot {
		s := lib.TakeSnapshot(cfg.Work)
		for p := range s {
			rel, _ := filepath.Rel(cfg.Work, p)
			if rel == "root/abk" || strings.HasPrefix(rel, "root/abk/") || rel == "versions/abk" || strings.HasPrefix(rel, "versions/abk/") ||
				rel == "root/vbk" || strings.HasPrefix(rel, "root/vbk/") || rel == "versions/vbk" || strings.HasPrefix(rel, "versions/vbk/") ||
				rel == "root" || rel == "versions" || rel == "." {
				delete(s, p)
			}
		}
		return s
	}
	// relative targets from inside bucket abk at depth d (key "d1/.../x")
	targets := map[string]string{ // name -> path relative to root/abk
		"outside-file": "../../outside.txt",
		"outside-dir":  "../../outdir/f",
		"other-bucket": "../other/secret",
		"iam":          "../../iam/users.json",
		"versions":     "../../versions/other",
		"root-itself":  "..",
	}
	var cases []c04Case
	ops := []string{"GetObject", "HeadObject", "PutObject", "DeleteObject", "CopyObject-source", "CopyObject-dest", "PutObjectTagging", "GetObjectTagging",
		"CreateMultipartUpload", "DeleteObjects-key", "ListObjects-prefix", "ListObjects-marker", "AbortMultipartUpload-uploadId", "UploadPart-uploadId",
		"GetObject-versionId", "DeleteObject-versionId", "GetObject-versionId@v", "DeleteObject-versionId@v", "DeleteObjects-versionId@v", "DeleteObjects-versionId-dup@v", "bucket-name", "ChangeBucketOwner-bucket", "PutObjectLegalHold", "GetObjectAttributes", "ListParts-uploadId", "UploadPartCopy-source",
		"CopyObject-source-versionId@v", "UploadPartCopy-source-versionId@v", "DeleteObjects-key+versionId", "DeleteObjects-key+versionId@v"}
	r := lib.NewRand(a.Seed).Fork()
	if only := os.Getenv("C04_OPS"); only != "" {
		ops = strings.Split(only, ",")
	}
	for _, op := range ops {
		for tn := range targets {
			for _, sp := range c04Spell {
				depths := []int{0, 1 + r.Intn(5)}
				if a.Thorough() {
					depths = []int{0, 1, 2, 3, 4, 5}
				}
				for _, d := range depths {
					cases = append(cases, c04Case{op, "", sp.name, tn, d})
				}
			}
		}
	}
	// a `?` inside the copy source that is not a final `?versionId=` (the gate and the parser of the copy
	// source must agree on where the key ends), and keys with very many leading segments
	for _, op := range []string{"CopyObject-source", "UploadPartCopy-source"} {
		for tn := range targets {
			cases = append(cases, c04Case{op, "qmark", "raw", tn, 0}, c04Case{op, "qmark", "pct-dots", tn, 0}, c04Case{op, "qmark-versionid", "raw", tn, 0})
		}
	}
	for _, op := range []string{"GetObject", "PutObject", "DeleteObject", "CopyObject-source", "DeleteObjects-key"} {
		for tn := range targets {
			cases = append(cases, c04Case{op, "", "raw", tn, 70}, c04Case{op, "", "pct-dots", tn, 64})
		}
	}
	snap := protected()
	tStart := time.Now()
	for i, c := range cases {
		if false && i%200 == 0 {
			fmt.Fprintf(os.Stderr, "c04: case %d/%d after %v (snapshot entries %d)\n", i, len(cases), time.Since(tStart), len(snap))
		}
		var sp struct{ name, up, sep string }
		for _, x := range c04Spell {
			if x.name == c.spelling {
				sp = x
			}
		}
		// build the traversal: from depth d inside the bucket go up d+k levels and down to the target
		rel := targets[c.target]
		parts := strings.Split(rel, "/")
		var enc []string
		for j := 0; j < c.depth; j++ {
			enc = append(enc, fmt.Sprintf("d%d", j+1))
		}
		for j := 0; j < c.depth; j++ {
			enc = append(enc, sp.up)
		}
		// a version id is resolved below <versioning dir>/<bucket>/xx/yy/zz/<sha256(key)>/, an upload id below
		// <bucket>/.sgwtmp/multipart/<sha256(key)>/: odd cases climb that much further, so that the
		// traversal really ends at the canaries
		if i%2 == 1 {
			extra := 0
			if strings.Contains(c.op, "versionId") {
				extra = 4
			} else if strings.Contains(c.op, "uploadId") {
				extra = 3
			}
			for j := 0; j < extra; j++ {
				enc = append(enc, sp.up)
			}
		}
		for _, p := range parts {
			if p == ".." {
				enc = append(enc, sp.up)
			} else {
				enc = append(enc, p)
			}
		}
		name := strings.Join(enc, sp.sep) // percent-encoded form (for URL paths)
		switch c.param {
		case "qmark":
			name = "a?" + sp.sep + sp.up + sp.sep + name
		case "qmark-versionid":
			name = "a?versionId=x" + sp.sep + sp.up + sp.sep + name + "?versionId=null"
		}
		rawName := name // for XML bodies / headers the literal decoded form is used too
		rawName = strings.NewReplacer("%2e", ".", "%2E", ".", "%2f", "/", "%2F", "/", "%5c", "\\", "%00", "\x00", "%252e", "%2e", "%252f", "%2f", "%c0%ae", "\xc0\xae").Replace(rawName)
		req := gw.Req{Method: "GET", Path: "/abk/" + name}
		switch c.op {
		case "GetObject":
		case "HeadObject":
			req.Method = "HEAD"
		case "PutObject":
			req.Method, req.Body = "PUT", []byte("OVERWRITTEN-BY-C04")
		case "DeleteObject":
			req.Method = "DELETE"
		case "CopyObject-source":
			req.Method, req.Path = "PUT", "/abk/copied"
			req.Set("x-amz-copy-source", "abk/"+name)
		case "UploadPartCopy-source":
			req.Method, req.Path, req.Query = "PUT", "/abk/mp", "uploadId="+upid+"&partNumber=2"
			req.Set("x-amz-copy-source", "abk/"+name)
		case "CopyObject-source-versionId@v":
			// the version id of the copy source carries the traversal (the header is percent-decoded by the server)
			req.Method, req.Path = "PUT", "/abk/copied"
			req.Set("x-amz-copy-source", "vbk/own?versionId="+name)
		case "UploadPartCopy-source-versionId@v":
			req.Method, req.Path, req.Query = "PUT", "/abk/mp", "uploadId="+upid+"&partNumber=2"
			req.Set("x-amz-copy-source", "vbk/own?versionId="+name)
		case "CopyObject-dest":
			req.Method = "PUT"
			req.Set("x-amz-copy-source", "abk/own")
		case "PutObjectTagging":
			req.Method, req.Query, req.Body = "PUT", "tagging", []byte(`<Tagging><TagSet><Tag><Key>c04</Key><Value>x</Value></Tag></TagSet></Tagging>`)
		case "GetObjectTagging":
			req.Query = "tagging"
		case "PutObjectLegalHold":
			req.Method, req.Query, req.Body = "PUT", "legal-hold", []byte(`<LegalHold><Status>ON</Status></LegalHold>`)
		case "GetObjectAttributes":
			req.Query = "attributes"
			req.Set("x-amz-object-attributes", "ETag,ObjectSize")
		case "CreateMultipartUpload":
			req.Method, req.Query = "POST", "uploads"
		case "DeleteObjects-key":
			req.Method, req.Path, req.Query = "POST", "/abk", "delete"
			var b bytes.Buffer
			b.WriteString("<Delete><Object><Key>")
			xmlEscape(&b, rawName)
			b.WriteString("</Key></Object></Delete>")
			req.Body = b.Bytes()
		case "DeleteObjects-key+versionId", "DeleteObjects-key+versionId@v":
			// a hostile key next to a well-formed version id in one batch entry
			bk := "/abk"
			if strings.HasSuffix(c.op, "@v") {
				bk = "/vbk"
			}
			req.Method, req.Path, req.Query = "POST", bk, "delete"
			var b bytes.Buffer
			b.WriteString("<Delete><Object><Key>")
			xmlEscape(&b, rawName)
			b.WriteString("</Key><VersionId>" + []string{"null", "01ARZ3NDEKTSV4RRFFQ69G5FAV"}[i%2] + "</VersionId></Object></Delete>")
			req.Body = b.Bytes()
		case "ListObjects-prefix":
			req.Path, req.Query = "/abk", "prefix="+name
		case "ListObjects-marker":
			req.Path, req.Query = "/abk", "marker="+name+"&prefix="+strings.Repeat(sp.up+sp.sep, 2)
		case "AbortMultipartUpload-uploadId":
			req.Method, req.Path, req.Query = "DELETE", "/abk/mp", "uploadId="+name
		case "UploadPart-uploadId":
			req.Method, req.Path, req.Query, req.Body = "PUT", "/abk/mp", "partNumber=1&uploadId="+name, []byte("OVERWRITTEN-BY-C04")
		case "ListParts-uploadId":
			req.Path, req.Query = "/abk/mp", "uploadId="+name
		case "GetObject-versionId":
			req.Path, req.Query = "/abk/own", "versionId="+name
		case "DeleteObject-versionId":
			req.Method, req.Path, req.Query = "DELETE", "/abk/own", "versionId="+name
		case "GetObject-versionId@v":
			req.Path, req.Query = "/vbk/own", "versionId="+name
		case "DeleteObject-versionId@v":
			req.Method, req.Path, req.Query = "DELETE", "/vbk/own", "versionId="+name
		case "DeleteObjects-versionId@v", "DeleteObjects-versionId-dup@v":
			req.Method, req.Path, req.Query = "POST", "/vbk", "delete"
			var b bytes.Buffer
			b.WriteString("<Delete>")
			if strings.Contains(c.op, "-dup") {
				// the same key twice: a harmless entry first, the hostile version id on the repetition
				b.WriteString("<Object><Key>own</Key><VersionId>01ARZ3NDEKTSV4RRFFQ69G5FAV</VersionId></Object>")
			}
			b.WriteString("<Object><Key>own</Key><VersionId>")
			xmlEscape(&b, rawName)
			b.WriteString("</VersionId></Object></Delete>")
			req.Body = b.Bytes()
		case "bucket-name":
			// the bucket position itself carries the traversal
			req.Path = "/" + strings.TrimPrefix(name, sp.up+sp.sep)
			if c.depth == 0 {
				req.Path = "/" + sp.up + "/" + strings.Join(parts[1:], "/")
			}
		case "ChangeBucketOwner-bucket":
			req.Method, req.Path, req.Query = "PATCH", "/change-bucket-owner", "owner=usr1&bucket="+name
		}
		addr := g.Addr()
		if c.op == "ChangeBucketOwner-bucket" {
			addr = g.AdminAddr()
		}
		req.Creds, req.Auth, req.Timeout = cr, "header", 4*time.Second
		t0 := time.Now()
		rsp := gw.Do(addr, req)
		if d := time.Since(t0); d > 2*time.Second {
			res.Note("slow request (%v): %s -> %d %v", d, c.String(), rsp.Status, rsp.Err)
			fmt.Fprintf(os.Stderr, "slow: %s %s?%s -> %d %v\n", req.Method, req.Path, req.Query, rsp.Status, rsp.Err)
		}
		res.Count(c.String(), true, "op:"+c.op, "spelling:"+c.spelling, "target:"+c.target, fmt.Sprintf("status:%dxx", rsp.Status/100))
		if i < 2 {
			res.Sample(map[string]interface{}{"case": c.String(), "request": req.Method + " " + req.Path + "?" + req.Query, "status": rsp.Status})
		}
		in := map[string]interface{}{"case": c.String(), "method": req.Method, "path": req.Path, "query": req.Query, "copy_source": req.Get("x-amz-copy-source"), "body": string(req.Body)}
		sig := "confine:" + c.op
		if !g.Alive() {
			res.Fail(lib.Failure{Kind: "property", Signature: sig + ":gateway-died", What: "gateway process died", Input: in, Impl: g.Log.String()})
			return nil
		}
		if bytes.Contains(rsp.Body, []byte("CANARY-c04-9d1f")) {
			res.Fail(lib.Failure{Kind: "property", Signature: sig + ":read-outside", What: "answer carries content stored outside the named bucket (" + c.target + ")", Input: in, Impl: fmt.Sprintf("%d", rsp.Status)})
		}
		if rsp.Status/100 == 2 && (c.op == "HeadObject" || c.op == "GetObjectAttributes") {
			// the sizes of the canaries are distinctive: a 2xx that reports one of them describes
			// an outside file (a 2xx for an opaque name that lives inside the bucket is fine)
			for _, suffix := range []string{"-outside-root", "-outside-root-dir", "-other-bucket", "-other-bucket-v2"} {
				sz := fmt.Sprint(len(c04Canary + suffix))
				if rsp.Headers.Get("Content-Length") == sz && c.op == "HeadObject" || bytes.Contains(rsp.Body, []byte("<ObjectSize>"+sz+"</ObjectSize>")) {
					res.Fail(lib.Failure{Kind: "property", Signature: sig + ":stat-outside", What: "metadata of something outside the named bucket disclosed (" + c.target + ")", Input: in, Impl: fmt.Sprintf("%d size=%s", rsp.Status, sz)})
				}
			}
		}
		// content from outside may also have been copied INTO the named bucket (copy sources)
		for _, dir := range []string{"root/abk", "root/vbk", "versions/abk", "versions/vbk"} {
			filepath.Walk(filepath.Join(cfg.Work, dir), func(p string, fi os.FileInfo, err error) error {
				if err != nil || fi.IsDir() || fi.Size() > 1<<20 {
					return nil
				}
				if data, e := os.ReadFile(p); e == nil && bytes.Contains(data, []byte("CANARY-c04-9d1f")) {
					rel, _ := filepath.Rel(cfg.Work, p)
					res.Fail(lib.Failure{Kind: "property", Signature: sig + ":copied-from-outside", What: "content stored outside the named bucket was copied into it (" + rel + ")", Input: in, Impl: fmt.Sprintf("%d %s", rsp.Status, rsp.ErrCode())})
					os.Remove(p)
				}
				return nil
			})
		}
		after := protected()
		if d := snap.Diff(after); len(d) > 0 {
			res.Fail(lib.Failure{Kind: "property", Signature: sig + ":touched-outside", What: "something outside the named bucket changed: " + strings.Join(d, "; "), Input: in, Impl: fmt.Sprintf("%d %s", rsp.Status, rsp.ErrCode())})
			// restore canaries for the following cases
			os.WriteFile(filepath.Join(cfg.Work, "outside.txt"), []byte(c04Canary+"-outside-root"), 0o644)
			os.MkdirAll(filepath.Join(cfg.Work, "outdir"), 0o755)
			os.WriteFile(filepath.Join(cfg.Work, "outdir", "f"), []byte(c04Canary+"-outside-root-dir"), 0o644)
			do(gw.Req{Method: "PUT", Path: "/other"})
			do(gw.Req{Method: "PUT", Path: "/other/secret", Body: []byte(c04Canary + "-other-bucket")})
			snap = protected()
		}
	}
	return nil
}

func xmlEscape(b *bytes.Buffer, s string) {
	for _, c := range []byte(s) {
		switch c {
		case '<':
			b.WriteString("&lt;")
		case '>':
			b.WriteString("&gt;")
		case '&':
			b.WriteString("&amp;")
		default:
			if c < 0x20 && c != '\t' && c != '\n' && c != '\r' {
				b.WriteString("?")
			} else {
				b.WriteByte(c)
			}
		}
	}
}

// c04Direct: filepath.Clean / filepath.Join and the two validators of the gateway against their
// Lean models, on generated names (segments from {a, b, ., .., "", a.b, ..., NUL, \}).
func c04Direct(a lib.Args, res *lib.Result) error {
	r := lib.NewRandStream(a.Seed, 404)
	n := 30000
	if a.Thorough() {
		n = 1500000
	}
	segs := []string{"a", "b", ".", "..", "", "a.b", "...", "\x00", "\\", "..a", "a..", " ", "dir"}
	var names []string
	// exhaustive over all names of ≤ 4 segments from a small alphabet
	small := []string{"a", ".", "..", ""}
	var rec func(p []string, d int)
	rec = func(p []string, d int) {
		if len(p) > 0 {
			names = append(names, strings.Join(p, "/"))
		}
		if d == 0 {
			return
		}
		for _, s := range small {
			rec(append(append([]string{}, p...), s), d-1)
		}
	}
	rec(nil, 4)
	for i := 0; i < n; i++ {
		k := 1 + r.Intn(6)
		var p []string
		for j := 0; j < k; j++ {
			p = append(p, segs[r.Intn(len(segs))])
		}
		names = append(names, strings.Join(p, "/"))
	}
	// many ordinary segments in front of the dot segments (a validator that looks at a bounded number of
	// segments only would miss what follows)
	for i := 0; i < n/100+50; i++ {
		var p []string
		for j := 40 + r.Intn(60); j > 0; j-- {
			p = append(p, []string{"a", "b", "dir", "a.b"}[r.Intn(4)])
		}
		for j := r.Intn(4); j > 0; j-- {
			p = append(p, segs[r.Intn(len(segs))])
		}
		names = append(names, strings.Join(p, "/"))
	}
	var lines []string
	for _, nm := range names {
		lines = append(lines, "path clean "+lib.HexS(nm), "path validname "+lib.HexS(nm), "path validcomp "+lib.HexS(nm), "path join "+lib.HexS("bkt")+" "+lib.HexS(nm))
	}
	out, err := a.Driver.AskParallel(lines, 8)
	if err != nil {
		return err
	}
	for i, nm := range names {
		implClean := lib.HexS(filepath.Clean(nm))
		if nm == "" {
			implClean = lib.HexS(".")
		}
		impl := []string{implClean, fmt.Sprint(utils.IsObjectNameValid(nm)), fmt.Sprint(utils.IsPathComponentValid(nm)), lib.HexS(filepath.Join("bkt", nm))}
		valid := impl[1] == "true"
		res.Count("name|"+nm, true, fmt.Sprintf("direct:validname=%v", valid))
		if i < 2 {
			res.Sample(map[string]interface{}{"name": nm, "clean": filepath.Clean(nm), "valid_name": valid})
		}
		for j, what := range []string{"filepath.Clean", "utils.IsObjectNameValid", "utils.IsPathComponentValid", "filepath.Join"} {
			if out[4*i+j] != impl[j] {
				res.Fail(lib.Failure{Kind: "correspondence", Signature: "path:" + what, What: what + " differs from its Lean model", Input: map[string]interface{}{"name": nm}, Impl: impl[j], Model: out[4*i+j]})
			}
		}
		// the property on the implementation: a name the validator lets through joins below the bucket
		if valid {
			j := filepath.Join("bkt", nm)
			want := "bkt/" + strings.TrimSuffix(nm, "/")
			if j != want {
				res.Fail(lib.Failure{Kind: "property", Signature: "path:validated-name-resolved", What: "a name accepted by IsObjectNameValid is altered by filepath.Join", Input: map[string]interface{}{"name": nm}, Impl: j, Model: want})
			}
		}
	}
	return nil
}

func init() {
	checks["c04"] = checkDef{"C04",
		"probe: operation (22 routes: object get/head/put/delete/copy source+dest/tagging/legal-hold/attributes/multipart create, batch-delete key, list prefix/marker, upload id of abort/upload-part/list-parts, version id of get/delete, the bucket position, admin change-bucket-owner bucket) × escape target (file and directory outside the gateway root, another bucket's object, the IAM directory, the versioning directory, the root itself) × spelling (raw, %2e%2e, %2E%2E, %2f, all-encoded, double-encoded, mixed, backslash, overlong UTF-8, single-dot segment, NUL) × nesting depth (0 and one random 1-5; thorough 0-5). Oracle: no canary content in any answer, no metadata of outside objects, byte-exact snapshot of everything outside root/abk and versions/abk unchanged. All cases non-trivial; distinct by case.",
		[]checkFn{c04Direct, c04Probe}}
}
