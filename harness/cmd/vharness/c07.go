package main

import (
	"context"
	"fmt"
	"io/fs"
	"sort"
	"strconv"
	"strings"
	"testing/fstest"

	"github.com/versity/versitygw/backend"
	"github.com/versity/versitygw/s3response"
	"verif/harness/lib"
)

// C07 — listings are complete, ordered, correctly grouped and paginate without loss.
//
// c07Walk drives the REAL backend.Walk in-process on fstest.MapFS trees built from generated key
// sets, follows the returned markers to the end, and hands every run to the Lean driver
// (`walk judge`): per page, the driver compares the implementation's page with Model.Walk's page
// for the same request (kind "correspondence" when they differ but the oracle admits the
// implementation) and judges it with Spec.List.pageOkB (kind "property", signature = input class
// of that page's request as computed by the driver from the hypotheses of
// walk_refines_spec_partial); the whole run is judged by Spec.List.runOkB (every entry exactly
// once). Non-termination of the pagination is detected here.

type c07Case struct {
	Keys   []string `json:"keys"`           // explicit directory objects end in "/"
	Dead   []string `json:"dead,omitempty"` // files that exist but for which getObj answers ErrSkipObj (posix: current version is a delete marker)
	Skip   []string `json:"skip"`
	Prefix string   `json:"prefix"`
	Delim  string   `json:"delimiter"`
	Marker string   `json:"marker"`
	Max    int      `json:"max"`
	// end-to-end runs only: which stage produced it (a replay re-runs that whole stage), where
	Stage  string `json:"stage,omitempty"`
	Bucket string `json:"bucket,omitempty"`
	API    string `json:"api,omitempty"`
}

func c07Size(k string) int {
	if strings.HasSuffix(k, "/") {
		return 0
	}
	h := uint32(0)
	for i := 0; i < len(k); i++ {
		h = h*31 + uint32(k[i])
	}
	return int(h % 4)
}
func c07Etag(k string) string { return "E" + k }

// c07Valid: FS-representable key (no empty element, no "." / ".."); a trailing "/" marks an
// explicit directory object.
func c07Valid(k string) bool {
	if k == "" || k == "/" {
		return false
	}
	els := strings.Split(strings.TrimSuffix(k, "/"), "/")
	for _, e := range els {
		if e == "" || e == "." || e == ".." {
			return false
		}
	}
	return true
}

// c07Compatible: adding k to set keeps it representable (no path is both a file and a directory,
// no duplicates).
func c07Compatible(set []string, k string) bool {
	isFile := !strings.HasSuffix(k, "/")
	for _, o := range set {
		if o == k {
			return false
		}
		oFile := !strings.HasSuffix(o, "/")
		if oFile && (strings.HasPrefix(k, o+"/")) {
			return false
		}
		if isFile && strings.HasPrefix(o, k+"/") {
			return false
		}
	}
	return true
}

type c07Page struct {
	objs  []string // keys
	sizes []int64
	etags []string
	cps   []string
	trunc bool
	next  string
}

func (p c07Page) token() string {
	var o, c []string
	for i, k := range p.objs {
		o = append(o, fmt.Sprintf("%s:%d:%s", lib.HexS(k), p.sizes[i], lib.HexS(p.etags[i])))
	}
	for _, k := range p.cps {
		c = append(c, lib.HexS(k))
	}
	t := "0"
	if p.trunc {
		t = "1"
	}
	return c07List(o) + ";" + c07List(c) + ";" + t + ";" + lib.HexS(p.next)
}

func (p c07Page) String() string {
	return fmt.Sprintf("objs=%q cps=%q truncated=%v next=%q", p.objs, p.cps, p.trunc, p.next)
}

func c07List(xs []string) string {
	if len(xs) == 0 {
		return "-"
	}
	return strings.Join(xs, ",")
}

func c07KeysToken(keys, dead []string) string {
	var o []string
	for _, k := range keys {
		o = append(o, fmt.Sprintf("%s:%d:%s", lib.HexS(k), c07Size(k), lib.HexS(c07Etag(k))))
	}
	for _, k := range dead {
		o = append(o, lib.HexS(k)+":D:-")
	}
	return c07List(o)
}

func c07HexList(xs []string) string {
	var o []string
	for _, k := range xs {
		o = append(o, lib.HexS(k))
	}
	return c07List(o)
}

func c07FS(keys, dead []string) (fstest.MapFS, backend.GetObjFunc) {
	m := fstest.MapFS{}
	dirobj := map[string]bool{}
	isDead := map[string]bool{}
	for _, k := range dead {
		isDead[k] = true
		m[k] = &fstest.MapFile{Data: make([]byte, 1)}
	}
	for _, k := range keys {
		if strings.HasSuffix(k, "/") {
			dirobj[k] = true
			m[strings.TrimSuffix(k, "/")] = &fstest.MapFile{Mode: fs.ModeDir | 0o755}
		} else {
			m[k] = &fstest.MapFile{Data: make([]byte, c07Size(k))}
		}
	}
	getObj := func(path string, d fs.DirEntry) (s3response.Object, error) {
		if d.IsDir() && !dirobj[path] {
			return s3response.Object{}, backend.ErrSkipObj
		}
		if !d.IsDir() && isDead[path] {
			return s3response.Object{}, backend.ErrSkipObj
		}
		fi, err := d.Info()
		if err != nil {
			return s3response.Object{}, backend.ErrSkipObj
		}
		p := path
		et := c07Etag(path)
		sz := fi.Size()
		if d.IsDir() {
			sz = 0
		}
		return s3response.Object{Key: &p, ETag: &et, Size: &sz}, nil
	}
	return m, getObj
}

// c07Run follows the markers of the real Walk to the end. limit bounds the number of pages.
func c07Run(c c07Case, limit int) (pages []c07Page, terminated bool, err error) {
	fsys, getObj := c07FS(c.Keys, c.Dead)
	marker := c.Marker
	for i := 0; i < limit; i++ {
		r, e := backend.Walk(context.Background(), fsys, c.Prefix, c.Delim, marker, int32(c.Max), getObj, c.Skip)
		if e != nil {
			return pages, false, e
		}
		var p c07Page
		for _, o := range r.Objects {
			p.objs = append(p.objs, *o.Key)
			p.sizes = append(p.sizes, *o.Size)
			p.etags = append(p.etags, *o.ETag)
		}
		for _, cp := range r.CommonPrefixes {
			p.cps = append(p.cps, *cp.Prefix)
		}
		p.trunc, p.next = r.Truncated, r.NextMarker
		pages = append(pages, p)
		if !r.Truncated {
			return pages, true, nil
		}
		marker = r.NextMarker
	}
	return pages, false, nil
}

// ------------------------------------------------------------------ generators

var c07Alphabet = []byte("ab-./0")

func c07RandString(r *lib.Rand, alphabet []byte, maxLen int) string {
	n := r.Intn(maxLen + 1)
	b := make([]byte, n)
	for i := range b {
		b[i] = alphabet[r.Intn(len(alphabet))]
	}
	return string(b)
}

func c07RandKey(r *lib.Rand, alphabet []byte, maxLen int) string {
	for tries := 0; tries < 50; tries++ {
		b := []byte(c07RandString(r, alphabet, maxLen))
		if len(b) == 0 {
			continue
		}
		if c07Valid(string(b)) {
			return string(b)
		}
	}
	return "a"
}

func c07RandCase(r *lib.Rand, thorough bool) c07Case {
	maxKeys, maxLen := 5, 4
	if thorough && r.Chance(30) {
		maxKeys, maxLen = 7, 6
	}
	var keys []string
	n := r.Intn(maxKeys + 1)
	for i := 0; i < n; i++ {
		var k string
		if len(keys) > 0 && r.Chance(35) {
			// extend / mutate an existing key so that nesting and near-collisions are frequent
			base := strings.TrimSuffix(keys[r.Intn(len(keys))], "/")
			switch r.Intn(4) {
			case 0:
				k = base + string(c07Alphabet[r.Intn(len(c07Alphabet))])
			case 1:
				k = base + "/" + c07RandKey(r, c07Alphabet, 2)
			case 2:
				if i := strings.LastIndex(base, "/"); i >= 0 {
					k = base[:i+1] + c07RandKey(r, c07Alphabet, 2)
				} else {
					k = base + "/"
				}
			default:
				if len(base) > 1 {
					k = base[:len(base)-1]
				} else {
					k = base + "/"
				}
			}
		} else {
			k = c07RandKey(r, c07Alphabet, maxLen)
		}
		if c07Valid(k) && c07Compatible(keys, k) {
			keys = append(keys, k)
		}
	}
	c := c07Case{Keys: keys}
	if r.Chance(20) {
		// some files exist but are not objects (getObj answers ErrSkipObj, as posix does for a key
		// whose current version is a delete marker)
		var live []string
		for _, k := range keys {
			if !strings.HasSuffix(k, "/") && r.Chance(40) {
				c.Dead = append(c.Dead, k)
			} else {
				live = append(live, k)
			}
		}
		c.Keys = live
	}
	if r.Chance(25) {
		c.Skip = []string{"0"}
	}
	derived := func() string {
		if len(keys) == 0 || r.Chance(30) {
			return c07RandString(r, c07Alphabet, 3)
		}
		k := keys[r.Intn(len(keys))]
		switch r.Intn(5) {
		case 0:
			return k
		case 1:
			return k[:r.Intn(len(k)+1)]
		case 2:
			if i := strings.Index(k, "/"); i >= 0 {
				return k[:i+1]
			}
			return k
		case 3:
			return k + string(c07Alphabet[r.Intn(len(c07Alphabet))])
		default:
			if i := strings.LastIndex(k, "/"); i >= 0 {
				return k[:i+1]
			}
			return ""
		}
	}
	if r.Chance(55) {
		c.Prefix = derived()
	}
	if r.Chance(45) {
		c.Marker = derived()
	}
	switch k := r.Intn(20); {
	case k < 7:
		c.Delim = "/"
	case k < 13:
		c.Delim = ""
	default:
		c.Delim = pick(r, "-", "a", "//", "a/", ".", "0", "-/", "b", "/a")
	}
	switch k := r.Intn(10); {
	case k < 1:
		c.Max = 0
	case k < 8:
		c.Max = 1 + r.Intn(4)
	case k < 9:
		c.Max = 5 + r.Intn(3)
	default:
		c.Max = 1000
	}
	return c
}

// all strings over alphabet of length ≤ n
func c07AllStrings(alphabet []byte, n int) []string {
	out := []string{""}
	prev := []string{""}
	for l := 1; l <= n; l++ {
		var cur []string
		for _, p := range prev {
			for _, a := range alphabet {
				cur = append(cur, p+string(a))
			}
		}
		out = append(out, cur...)
		prev = cur
	}
	return out
}

// c07AllKeySets: every representable set of ≤ maxKeys keys of length ≤ maxLen over alphabet
func c07AllKeySets(alphabet []byte, maxLen, maxKeys int) [][]string {
	var valid []string
	for _, s := range c07AllStrings(alphabet, maxLen) {
		if c07Valid(s) {
			valid = append(valid, s)
		}
	}
	sort.Strings(valid)
	var out [][]string
	var rec func(start int, cur []string)
	rec = func(start int, cur []string) {
		out = append(out, append([]string{}, cur...))
		if len(cur) == maxKeys {
			return
		}
		for i := start; i < len(valid); i++ {
			if c07Compatible(cur, valid[i]) {
				rec(i+1, append(cur, valid[i]))
			}
		}
	}
	rec(0, nil)
	return out
}

// minimal failing inputs of every known defect class + regression seeds (the former findings
// skip-name-below-top-level / prefix-below-skipdir / invalid-root-prefix, repaired by C07-fix-1..3,
// must PASS); run first
func c07Corpus() []c07Case {
	return []c07Case{
		{Keys: []string{"a/x", "a.b"}, Max: 1},                                       // order-incompatible siblings
		{Keys: []string{"a/x", "a.b"}, Max: 10},                                      //
		{Keys: []string{"a/b", "a/c"}, Delim: "/", Marker: "a/b", Max: 10},           // marker inside a common prefix
		{Keys: []string{"a/b"}, Delim: "/", Marker: "a", Max: 10},                    // marker prefixing a common prefix
		{Keys: []string{"a-b", "a-c", "b"}, Delim: "-", Max: 1},                      // non-'/' delimiter, own NextMarker
		{Keys: []string{"a-b", "a"}, Delim: "-", Marker: "a", Max: 10},               //
		{Keys: []string{"a/", "b"}, Max: 1},                                          // directory object, delimiter ""
		{Keys: []string{"a/", "a/b"}, Prefix: "a/b", Max: 10},                        //
		{Keys: []string{"a/", "a/b"}, Prefix: "a/", Delim: "/", Max: 10},             // directory object with children
		{Keys: []string{"x/0", "x/z"}, Skip: []string{"0"}, Max: 10},                 // fixed: file named like a skipdir
		{Keys: []string{"x/0/y", "x/z"}, Skip: []string{"0"}, Max: 10},               // fixed: directory so named below the top level
		{Keys: []string{"0", "z"}, Skip: []string{"0"}, Max: 10},                     // fixed: top-level file so named
		{Keys: []string{"0/m/x", "y"}, Skip: []string{"0"}, Prefix: "0/m/", Max: 10}, // fixed: prefix below the skipdir
		{Keys: []string{"0/m/x", "y"}, Skip: []string{"0"}, Prefix: "0/", Max: 10},   //
		{Keys: []string{"0/m/x", "y"}, Skip: []string{"0"}, Prefix: "0/m", Delim: "/", Max: 10},
		{Keys: []string{"0/m/x", "y"}, Skip: []string{"0"}, Max: 10},
		{Keys: []string{"photos/2006/Jan/a.jpg", "photos/2006/Feb/b.jpg", "sample.jpg"}, Delim: "/", Max: 1},
		{Keys: []string{"photos/2006/Jan/a.jpg", "photos/2006/Feb/b.jpg", "sample.jpg"}, Delim: "/", Prefix: "photos/2006/", Max: 1},
		{Keys: []string{"a/b/c", "a/b0", "a0"}, Delim: "/", Prefix: "a/", Max: 1},
		{Keys: []string{"a/b", "c"}, Dead: []string{"a/x", "d"}, Max: 10},            // files that are not objects (delete markers) are not listed
		{Keys: []string{"a/b", "c"}, Dead: []string{"a/x", "d"}, Delim: "/", Max: 1}, //
		{Keys: []string{"c"}, Dead: []string{"a/x"}, Delim: "/", Max: 10},            // a directory holding only such files: phantom common prefix
		{Keys: []string{"a", "b", "c"}, Max: 0},
		{Keys: []string{"a", "b", "c"}, Max: 3},
		{Keys: []string{"a", "b", "c"}, Max: 2, Marker: "a"},
		{Keys: []string{"d/"}, Delim: "/", Max: 5},
		{Keys: []string{"d/"}, Delim: "/", Prefix: "d/", Max: 5},
		{Keys: []string{"a/b"}, Prefix: "a//", Max: 5},
		{Keys: []string{"a/b"}, Prefix: "../", Max: 5},
		{Keys: []string{"a"}, Prefix: "a/b", Max: 5},
		{Keys: []string{"a/b"}, Prefix: "/", Max: 5},
		{Keys: []string{"a/b"}, Prefix: "./", Max: 5},
	}
}

func c07CaseFromReplay(in map[string]interface{}) c07Case {
	var c c07Case
	strs := func(v interface{}) []string {
		var out []string
		if l, ok := v.([]interface{}); ok {
			for _, x := range l {
				if s, ok := x.(string); ok {
					out = append(out, s)
				}
			}
		}
		return out
	}
	c.Keys = strs(in["keys"])
	c.Dead = strs(in["dead"])
	c.Skip = strs(in["skip"])
	c.Prefix, _ = in["prefix"].(string)
	c.Delim, _ = in["delimiter"].(string)
	c.Marker, _ = in["marker"].(string)
	if f, ok := in["max"].(float64); ok {
		c.Max = int(f)
	}
	return c
}

// ------------------------------------------------------------------ the check

func c07Walk(a lib.Args, res *lib.Result) error {
	r := lib.NewRandStream(a.Seed, 71)
	const batch = 200000
	var cases []c07Case
	var runs [][]c07Page
	var lines []string

	flush := func() error {
		if len(cases) == 0 {
			return nil
		}
		out, err := a.Driver.AskParallel(lines, 8)
		if err != nil {
			return err
		}
		for i, c := range cases {
			c07Evaluate(res, c, runs[i], out[i])
		}
		cases, runs, lines = cases[:0], runs[:0], lines[:0]
		return nil
	}

	add := func(c c07Case, origin string) error {
		limit := 4*len(c.Keys) + 8
		pages, terminated, err := c07Run(c, limit)
		canon := fmt.Sprintf("%q|%q|%q|%q|%q|%q|%d", c.Keys, c.Dead, c.Skip, c.Prefix, c.Delim, c.Marker, c.Max)
		shape := "delim:other"
		switch c.Delim {
		case "":
			shape = "delim:none"
		case "/":
			shape = "delim:/"
		}
		res.Count(canon, len(c.Keys) > 0 && c.Max > 0, origin, shape, fmt.Sprintf("pages:%d", len(pages)), fmt.Sprintf("keys:%d", len(c.Keys)))
		if err != nil {
			res.Fail(lib.Failure{Kind: "property", Signature: "walk:error", What: "backend.Walk returned an error on a representable key set",
				Input: c, Impl: err.Error()})
			return nil
		}
		if !terminated {
			// the run is still judged page by page (the class comes from the driver); record the
			// non-termination under the class of the first page
			toks := make([]string, len(pages))
			for i, p := range pages {
				toks[i] = p.token()
			}
			cases = append(cases, c)
			runs = append(runs, append(pages, c07Page{next: "\x00nonterminating"}))
			lines = append(lines, fmt.Sprintf("walk judge %s %s %s %s %s %d %s", c07KeysToken(c.Keys, c.Dead), c07HexList(c.Skip),
				lib.HexS(c.Prefix), lib.HexS(c.Delim), lib.HexS(c.Marker), c.Max, strings.Join(toks, " ")))
		} else {
			toks := make([]string, len(pages))
			for i, p := range pages {
				toks[i] = p.token()
			}
			cases = append(cases, c)
			runs = append(runs, pages)
			lines = append(lines, fmt.Sprintf("walk judge %s %s %s %s %s %d %s", c07KeysToken(c.Keys, c.Dead), c07HexList(c.Skip),
				lib.HexS(c.Prefix), lib.HexS(c.Delim), lib.HexS(c.Marker), c.Max, strings.Join(toks, " ")))
		}
		if len(cases) >= batch {
			return flush()
		}
		return nil
	}

	if in := a.ReplayInput(); in != nil {
		if st, _ := in["stage"].(string); st != "" {
			return nil // an end-to-end finding: replayed by its own stage
		}
		if err := add(c07CaseFromReplay(in), "replay"); err != nil {
			return err
		}
		return flush()
	}
	for _, c := range c07Corpus() {
		if err := add(c, "corpus"); err != nil {
			return err
		}
	}

	// small-scope exhaustive part
	exAlpha, exKeyLen, exKeys, exStrLen := []byte("a-/"), 2, 2, 1
	delims := []string{"", "/", "-", "a", "//", "a/"}
	maxes := []int{0, 1, 2, 3, 4}
	if a.Thorough() {
		exKeyLen, exKeys, exStrLen = 3, 3, 2
	}
	sets := c07AllKeySets(exAlpha, exKeyLen, exKeys)
	strs := c07AllStrings(exAlpha, exStrLen)
	res.Note("exhaustive: %d representable key sets (≤ %d keys of length ≤ %d over %q) × %d prefixes × %d markers × %d delimiters × max 0..4",
		len(sets), exKeys, exKeyLen, exAlpha, len(strs), len(strs), len(delims))
	for _, ks := range sets {
		for _, p := range strs {
			for _, m := range strs {
				for _, d := range delims {
					for _, n := range maxes {
						if err := add(c07Case{Keys: ks, Prefix: p, Delim: d, Marker: m, Max: n}, "exhaustive"); err != nil {
							return err
						}
					}
				}
			}
		}
	}
	res.Exhaustive = true

	n := 30000
	if a.Thorough() {
		n = 1000000
	}
	for i := 0; i < n; i++ {
		if err := add(c07RandCase(r, a.Thorough()), "random"); err != nil {
			return err
		}
	}
	return flush()
}

// c07Evaluate interprets the driver's verdict on one run.
//
//	ok <class>
//	bad <class> run:<ok|bad> <i>|<eq|ne>|<impl ok|bad>|<model ok|bad>|<class>|<modelpage> …
func c07Evaluate(res *lib.Result, c c07Case, pages []c07Page, verdict string) {
	nonterm := len(pages) > 0 && pages[len(pages)-1].next == "\x00nonterminating"
	if nonterm {
		pages = pages[:len(pages)-1]
	}
	f := strings.Fields(verdict)
	if len(f) < 2 || (f[0] != "ok" && f[0] != "bad") {
		res.Fail(lib.Failure{Kind: "correspondence", Signature: "walk:driver", What: "driver did not understand the request: " + verdict, Input: c})
		return
	}
	class := f[1]
	res.Histogram["class:"+class]++
	if len(res.Samples) < 8 && len(c.Keys) > 1 && len(pages) > 1 {
		res.Sample(map[string]interface{}{"input": c, "impl_pages": fmt.Sprint(pages), "verdict": verdict})
	}
	if nonterm {
		res.Fail(lib.Failure{Kind: "property", Signature: class, What: "following the returned markers does not terminate (class " + class + ")",
			Input: c, Impl: fmt.Sprint(pages)})
	}
	if f[0] == "ok" {
		return
	}
	pageBad := false
	for _, d := range f[3:] {
		parts := strings.SplitN(d, "|", 6)
		if len(parts) != 6 {
			continue
		}
		i, _ := strconv.Atoi(parts[0])
		eq, ok, mok, pclass, model := parts[1] == "eq", parts[2] == "ok", parts[3] == "ok", parts[4], parts[5]
		in := map[string]interface{}{"keys": c.Keys, "dead": c.Dead, "skip": c.Skip, "prefix": c.Prefix, "delimiter": c.Delim, "marker": c.Marker, "max": c.Max, "page": i}
		if c.Stage != "" {
			in["stage"], in["bucket"], in["api"] = c.Stage, c.Bucket, c.API
		}
		impl := ""
		if i < len(pages) {
			impl = pages[i].String() + " token=" + pages[i].token()
			if i > 0 {
				in["page_marker"] = pages[i-1].next
			}
		}
		if !ok {
			pageBad = true
			res.Fail(lib.Failure{Kind: "property", Signature: pclass,
				What:  "a page returned by backend.Walk is not the page the S3 listing rules define (Spec.List.pageOkB rejects it); class " + pclass,
				Input: in, Impl: impl, Model: model})
		}
		if !eq {
			kind := "correspondence"
			res.Fail(lib.Failure{Kind: kind, Signature: "Walk", What: "backend.Walk's page differs from Model.Walk's page",
				Input: in, Impl: impl, Model: model})
			if !mok && ok {
				res.Fail(lib.Failure{Kind: "model-vs-spec", Signature: pclass, What: "Spec.List.pageOkB rejects the model's own page",
					Input: in, Impl: impl, Model: model})
			}
		}
	}
	if f[2] == "run:bad" && !pageBad && !nonterm {
		res.Fail(lib.Failure{Kind: "property", Signature: class, What: "the pages together are not the full listing with every entry exactly once (Spec.List.runOkB); class " + class,
			Input: c, Impl: fmt.Sprint(pages)})
	}
}

func init() {
	checks["c07"] = checkDef{"C07",
		"(key set, skip list, prefix, delimiter, marker, max) → real backend.Walk on fstest.MapFS, pages followed to the end. Corpus of minimal witnesses; exhaustive over all representable key sets over {a,-,/} (quick: ≤2 keys of length ≤2, prefixes/markers of length ≤1; thorough: ≤3 keys of length ≤3, prefixes/markers of length ≤2) × delimiters {\"\",/,-,a,//,a/} × max 0..4; random key sets over {a,b,-,.,/,0} (≤5 keys of length ≤4, nested/near-colliding names favoured; thorough also ≤7 keys of length ≤6), prefixes/markers derived from keys or random, 25% with skip list [\"0\"]. 20% with files that are not objects (getObj skips them). End to end: ListObjects V1/V2 on a real gateway (posix) over scenario and random key sets with true sizes and the PUTs' ETags, pages followed through NextMarker / NextContinuationToken, same judge; and on a gateway with object versioning, buckets Enabled and Suspended, keys whose current version is a delete marker / re-created / deleted by version id, expected = what HEAD shows. Non-trivial = non-empty key set and max > 0; distinct by the whole input.",
		[]checkFn{c07Walk, c07E2E, c07E2EVersioned}}
}
