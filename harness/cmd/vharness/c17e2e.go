package main

import "verif/harness/lib"

func c17E2E(a lib.Args, res *lib.Result) error { return nil }
