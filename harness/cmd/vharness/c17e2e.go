package main

// C17, end to end: a real gateway (--iam-dir, --iam-cache-ttl / --iam-cache-disable, posix with
// --chuid --chgid) is driven through its admin API (PATCH /create-user, /update-user, /delete-user,
// /list-users, SigV4-signed as root); right after every acknowledged admin call signed S3 requests
// with old and new credentials observe the account as the gateway sees it:
//   authentication outcome  (200 | SignatureDoesNotMatch | InvalidAccessKeyId)
//   role                    (CreateBucket allowed? admin API allowed?)
//   uid / gid               (owner of a file the account creates)
// Every request of the history is one lookup of Model.IAM; the answers are compared with the model
// and the observed history is judged by the Spec oracle.  Then: parallel admin mutations + restart,
// and the miss-path race, steered from outside through the yield point of auth/iam_cache_hook_verif.go
// (build tag verif; files below VGW_VERIF_IAM_MISS_GATE).

import (
	"encoding/hex"
	"encoding/json"
	"encoding/xml"
	"fmt"
	"os"
	"path/filepath"
	"sort"
	"strconv"
	"strings"
	"sync"
	"sync/atomic"
	"syscall"
	"time"

	"verif/harness/gw"
	"verif/harness/lib"
)

type c17Env struct {
	cfg  gw.Config
	g    *gw.Gateway
	root gw.Creds
	n    int // counter for bucket / object names
}

const c17E2ETTL = 2 // seconds; an `adv` sleeps 1.2 s (model: ttl 5 units, adv 3 units)

func c17StartGw(a lib.Args, name string, mode c17Mode, init []c17Acct, bin string, env []string) (e *c17Env, err error) {
	err = c17Retry(func() error {
		os.RemoveAll(filepath.Join(a.Work, name))
		e, err = c17StartGwOnce(a, name, mode, init, bin, env)
		if err != nil && strings.Contains(err.Error(), "507") {
			return fmt.Errorf("no space left on device (%v)", err)
		}
		return err
	})
	return e, err
}

func c17StartGwOnce(a lib.Args, name string, mode c17Mode, init []c17Acct, bin string, env []string) (*c17Env, error) {
	cfg, err := mustStorage(a, name, false, false, func(c *gw.Config) {
		c.Bin = bin
		c.Access, c.Secret = c17Root.Access, c17Root.Secret
		c.Env = env
	})
	if err != nil {
		return nil, err
	}
	if !mode.Cache {
		cfg.IAMCacheOff = true
	} else if mode.GC {
		cfg.IAMCacheTTL = c17E2ETTL // pruning stays at its default (1 h): never during a run
	} else {
		cfg.IAMCacheTTL = 3600
	}
	cfg.BackendArgs = []string{"posix", "--chuid", "--chgid", cfg.Root}
	if err := c17WriteStore(cfg.IAMDir, init); err != nil {
		return nil, err
	}
	g, err := gw.Start(cfg)
	if err != nil {
		return nil, err
	}
	e := &c17Env{cfg: cfg, g: g, root: gw.Creds{Access: cfg.Access, Secret: cfg.Secret}}
	// a bucket everybody may write to: the place where accounts create files
	r := gw.Do(g.Addr(), gw.Req{Method: "PUT", Path: "/pub", Auth: "header", Creds: e.root,
		Headers: []gw.Header{{K: "x-amz-acl", V: "public-read-write"}, {K: "x-amz-object-ownership", V: "BucketOwnerPreferred"}}})
	if r.Status != 200 {
		g.Kill()
		return nil, fmt.Errorf("create bucket pub: %d %s %v", r.Status, r.Body, r.Err)
	}
	return e, nil
}

func (e *c17Env) close() {
	e.g.Kill()
	os.RemoveAll(e.cfg.Work)
}

// ---------------------------------------------------------------- admin calls

func (e *c17Env) admin(o c17Op) string {
	var r gw.Resp
	switch o.Kind {
	case "create":
		a := o.Acct
		body := fmt.Sprintf("<Account><Access>%s</Access><Secret>%s</Secret><Role>%s</Role><UserID>%d</UserID><GroupID>%d</GroupID></Account>", a.Access, a.Secret, a.Role, a.UID, a.GID)
		r = gw.Do(e.g.AdminAddr(), gw.Req{Method: "PATCH", Path: "/create-user", Body: []byte(body), Auth: "header", Creds: e.root})
	case "update":
		var b strings.Builder
		b.WriteString("<MutableProps>")
		if o.Secret != nil {
			fmt.Fprintf(&b, "<Secret>%s</Secret>", *o.Secret)
		}
		if o.UID != nil {
			fmt.Fprintf(&b, "<UserID>%d</UserID>", *o.UID)
		}
		if o.GID != nil {
			fmt.Fprintf(&b, "<GroupID>%d</GroupID>", *o.GID)
		}
		b.WriteString("</MutableProps>")
		r = gw.Do(e.g.AdminAddr(), gw.Req{Method: "PATCH", Path: "/update-user", Query: "access=" + o.Key, Body: []byte(b.String()), Auth: "header", Creds: e.root})
	case "delete":
		r = gw.Do(e.g.AdminAddr(), gw.Req{Method: "PATCH", Path: "/delete-user", Query: "access=" + o.Key, Auth: "header", Creds: e.root})
	case "list":
		r = gw.Do(e.g.AdminAddr(), gw.Req{Method: "PATCH", Path: "/list-users", Auth: "header", Creds: e.root})
		if r.Status == 200 {
			var doc struct {
				Accounts []struct {
					Access  string
					Secret  string
					Role    string
					UserID  int
					GroupID int
				}
			}
			if err := xml.Unmarshal(r.Body, &doc); err != nil {
				return "err:list-not-xml:" + strings.ReplaceAll(err.Error(), " ", "_")
			}
			l := make([]c17Acct, len(doc.Accounts))
			for i, x := range doc.Accounts {
				l[i] = c17Acct{x.Access, x.Secret, x.Role, x.UserID, x.GroupID}
			}
			return "accts=" + c17EncAccts(l)
		}
	}
	switch {
	case r.Err != nil:
		return "err:transport:" + strings.ReplaceAll(r.Err.Error(), " ", "_")
	case r.Status >= 200 && r.Status < 300:
		return "ok"
	case r.ErrCode() == "XAdminUserExists":
		return "exists"
	case r.ErrCode() == "XAdminUserNotFound":
		return "nosuchuser"
	}
	return fmt.Sprintf("err:%d:%s", r.Status, r.ErrCode())
}

// ---------------------------------------------------------------- probes (each request = one lookup)

type c17Probe struct {
	Kind   string `json:"kind"` // auth | role | owner
	Key    string `json:"key"`
	Secret string `json:"secret"`
}

// outcome of the authentication of one signed request
func c17AuthOutcome(r gw.Resp) string {
	switch {
	case r.Err != nil:
		return "transport"
	case r.ErrCode() == "InvalidAccessKeyId":
		return "nokey"
	case r.ErrCode() == "SignatureDoesNotMatch":
		return "badsig"
	}
	return "in" // authenticated (whatever the operation answered)
}

// probe returns one observation per request it sent: (outcome, pattern for the oracle)
type c17ProbeObs struct {
	What string // canonical observation, compared with what the model's account implies
	Pat  string // <res> of the oracle's record
}

func (e *c17Env) authProbe(k, secret string) c17ProbeObs {
	r := gw.Do(e.g.Addr(), gw.Req{Method: "GET", Path: "/", Auth: "header", Creds: gw.Creds{Access: k, Secret: secret}})
	switch out := c17AuthOutcome(r); out {
	case "nokey":
		return c17ProbeObs{"nokey", "nosuchuser"}
	case "badsig":
		return c17ProbeObs{"badsig", "found=" + lib.HexS(secret) + "=0=~=~=~"}
	case "in":
		return c17ProbeObs{"in", "found=" + lib.HexS(secret) + "=1=~=~=~"}
	default:
		return c17ProbeObs{"err:" + out, "err:" + out}
	}
}

// roleProbe: CreateBucket is denied to role user; the admin API is open to role admin only.
// Two requests, hence two lookups: two observations.
func (e *c17Env) roleProbe(k, secret string) []c17ProbeObs {
	e.n++
	cr := gw.Creds{Access: k, Secret: secret}
	r1 := gw.Do(e.g.Addr(), gw.Req{Method: "PUT", Path: "/rb" + strconv.Itoa(e.n), Auth: "header", Creds: cr})
	obs := func(r gw.Resp, allowedMeans, deniedMeans string) c17ProbeObs {
		switch out := c17AuthOutcome(r); {
		case out == "nokey":
			return c17ProbeObs{"nokey", "nosuchuser"}
		case out == "badsig":
			return c17ProbeObs{"badsig", "found=" + lib.HexS(secret) + "=0=~=~=~"}
		case out != "in":
			return c17ProbeObs{"err:" + out, "err:" + out}
		case r.Status >= 200 && r.Status < 300:
			return c17ProbeObs{"role:" + allowedMeans, "found=" + lib.HexS(secret) + "=1=" + allowedMeans + "=~=~"}
		case r.ErrCode() == "AccessDenied" || r.ErrCode() == "XAdminAccessDenied":
			return c17ProbeObs{"role:" + deniedMeans, "found=" + lib.HexS(secret) + "=1=" + deniedMeans + "=~=~"}
		}
		return c17ProbeObs{fmt.Sprintf("err:%d:%s", r.Status, r.ErrCode()), "err:unexpected"}
	}
	// the oracle's pattern names ONE role; "not user" / "not admin" are expressed by what the
	// second request adds: see c17RoleOf
	o1 := obs(r1, "notuser", "user")
	r2 := gw.Do(e.g.AdminAddr(), gw.Req{Method: "PATCH", Path: "/list-users", Auth: "header", Creds: cr})
	o2 := obs(r2, "admin", "notadmin")
	return []c17ProbeObs{o1, o2}
}

// ownerProbe: the account creates a file; its owner is the account's uid/gid (--chuid --chgid)
func (e *c17Env) ownerProbe(k, secret string) c17ProbeObs {
	e.n++
	name := "o" + strconv.Itoa(e.n)
	r := gw.Do(e.g.Addr(), gw.Req{Method: "PUT", Path: "/pub/" + name, Body: []byte("x"), Auth: "header", Creds: gw.Creds{Access: k, Secret: secret}})
	switch out := c17AuthOutcome(r); {
	case out == "nokey":
		return c17ProbeObs{"nokey", "nosuchuser"}
	case out == "badsig":
		return c17ProbeObs{"badsig", "found=" + lib.HexS(secret) + "=0=~=~=~"}
	case out != "in" || r.Status != 200:
		return c17ProbeObs{fmt.Sprintf("err:%s:%d:%s", out, r.Status, r.ErrCode()), "err:put"}
	}
	st, err := os.Stat(filepath.Join(e.cfg.Root, "pub", name))
	if err != nil {
		return c17ProbeObs{"err:stat", "err:stat"}
	}
	sys := st.Sys().(*syscall.Stat_t)
	return c17ProbeObs{fmt.Sprintf("owner:%d:%d", sys.Uid, sys.Gid), fmt.Sprintf("found=%s=1=~=%d=%d", lib.HexS(secret), sys.Uid, sys.Gid)}
}

// what the model's answer to the lookup implies for the observation of a probe request
func c17Expect(modelRes string, kind string, secret string, second bool) string {
	if modelRes == "nosuchuser" {
		return "nokey"
	}
	p := strings.Split(strings.TrimPrefix(modelRes, "acct="), ":")
	if len(p) != 5 {
		return "?" + modelRes
	}
	if p[1] != lib.HexS(secret) {
		return "badsig"
	}
	switch kind {
	case "auth":
		return "in"
	case "role":
		if !second {
			if p[2] == "user" {
				return "role:user"
			}
			return "role:notuser"
		}
		if p[2] == "admin" {
			return "role:admin"
		}
		return "role:notadmin"
	case "owner":
		return "owner:" + p[3] + ":" + p[4]
	}
	return "?"
}

// ---------------------------------------------------------------- cache keys that alias request memory

// c17Alias: REGRESSION stage (must pass) for a defect of the code before 6f25651 that only exists in
// the running gateway (the in-process tie passes ordinary Go strings): the old icache.update
// assigned `items[k] = item` with the k it was given — Go's map assignment replaces the stored key
// by it — and the admin controller passes ctx.Query("access"), a string into the request's memory,
// which fasthttp reuses.  The next admin request with another access key of the same length rewrote
// the cached key: the deleted key b then named a's entry.  The cache must own its keys
// (strings.Clone).  Returns whether the defect shows.
func c17Alias(a lib.Args, res *lib.Result, v c17Variant) (bool, error) {
	// whether the overwritten memory is the one the key points to depends on which request object
	// fasthttp hands to the next request: a few attempts
	for try := 0; try < 5; try++ {
		shown, err := c17AliasOnce(a, res, v, try)
		if err != nil || shown {
			return shown, err
		}
	}
	return false, nil
}

func c17AliasOnce(a lib.Args, res *lib.Result, v c17Variant, try int) (bool, error) {
	e, err := c17StartGw(a, "c17-alias-"+strconv.Itoa(try), c17Mode{Cache: true}, nil, a.GwBin, nil)
	if err != nil {
		return false, err
	}
	defer e.close()
	s3 := "s3"
	ops := []c17Op{{Kind: "create", Acct: &c17Acct{"a", "s1", "user", 0, 0}}, {Kind: "create", Acct: &c17Acct{"b", "s2", "user", 0, 0}},
		{Kind: "update", Key: "a", Secret: &s3}, {Kind: "delete", Key: "b"}}
	var recs []c17Rec
	clock := 0
	var obs []string
	for _, o := range ops {
		x := e.admin(o)
		obs = append(obs, x)
		recs = append(recs, c17Rec{clock, clock + 1, o, x, -1})
		clock += 2
	}
	// the deleted key with the OTHER account's secret
	p := e.authProbe("b", "s3")
	obs = append(obs, p.What)
	recs = append(recs, c17Rec{clock, clock + 1, c17Op{Kind: "get", Key: "b"}, p.Pat, -1})
	out, err := a.Driver.Ask([]string{c17LinLine(nil, recs)})
	if err != nil {
		return false, err
	}
	res.Count("e2e-alias", true, "e2e-alias:update-then-other-key")
	if out[0] != "ok" {
		res.Fail(lib.Failure{Kind: "property", Signature: "iam:update-user:cache-key-aliases-request-memory",
			What:  "real gateway: after update-user of account a, delete-user of account b is acknowledged, and a request signed with the deleted access key b and a's secret is authenticated (the cached key of a's entry points into request memory that the delete-user request overwrote)",
			Input: map[string]interface{}{"stage": "e2e-alias", "ops": ops, "probe": "GET / signed with access b, secret s3"}, Impl: strings.Join(obs, " "), Model: "ok ok ok ok nokey"})
		return true, nil
	}
	return p.What != "nokey", nil
}

// c17AliasMiss: REGRESSION stage (must pass: 0 refused) for the same hazard on the miss path.  The
// old GetUserAccount stored what it fetched under the caller's `access` string; the authentication
// middleware hands over a view into fasthttp's request memory whenever ParseAuthorization did not
// have to copy the header (no blank after the commas) or the key came from a presigned URL's
// query.  When the request object was reused, the cached key changed under the map: valid requests
// of other accounts found the wrong entry and were refused (146 of 7200 before the fix).  Several
// accounts, no account change at all, a freshly started gateway (cold cache), concurrent requests.
func c17AliasMiss(a lib.Args, res *lib.Result, v c17Variant) error {
	rounds := 3
	if a.Thorough() {
		rounds = 12
	}
	accts := []c17Acct{{"a", "s1", "user", 0, 0}, {"bb", "s2", "user", 0, 0}, {"ccc", "s3", "user", 0, 0}, {"d", "s4", "user", 0, 0}}
	for round := 0; round < rounds; round++ {
		e, err := c17StartGw(a, "c17-aliasmiss-"+strconv.Itoa(round), c17Mode{Cache: true}, accts, a.GwBin, nil)
		if err != nil {
			return err
		}
		type bad struct {
			k   string
			obs c17ProbeObs
		}
		var mu sync.Mutex
		var bads []bad
		n := 0
		var wg sync.WaitGroup
		for w := 0; w < 6; w++ {
			wg.Add(1)
			go func(w int) {
				defer wg.Done()
				for i := 0; i < 30; i++ {
					x := accts[(w+i)%len(accts)]
					r := gw.DoCompactAuth(e.g.Addr(), gw.Req{Method: "GET", Path: "/", Auth: "header", Creds: gw.Creds{Access: x.Access, Secret: x.Secret}})
					mu.Lock()
					n++
					if out := c17AuthOutcome(r); out != "in" && out != "transport" {
						o := c17ProbeObs{"badsig", "found=" + lib.HexS(x.Secret) + "=0=~=~=~"}
						if out == "nokey" {
							o = c17ProbeObs{"nokey", "nosuchuser"}
						}
						bads = append(bads, bad{x.Access, o})
					}
					mu.Unlock()
				}
			}(w)
		}
		wg.Wait()
		e.close()
		res.Count("e2e-alias-miss:"+strconv.Itoa(round), true, "e2e-alias-miss:rounds")
		res.Histogram["e2e-alias-miss:requests"] += n
		res.Histogram["e2e-alias-miss:valid-requests-refused"] += len(bads)
		if len(bads) > 0 {
			b := bads[0]
			out, err := a.Driver.Ask([]string{c17LinLine(accts, []c17Rec{{0, 1, c17Op{Kind: "get", Key: b.k}, b.obs.Pat, -1}})})
			if err != nil {
				return err
			}
			if out[0] != "ok" {
				res.Fail(lib.Failure{Kind: "property", Signature: "iam:miss-path-cache-key-aliases-request-buffer",
					What:  fmt.Sprintf("real gateway, cold cache, four accounts that are never changed, concurrent valid requests (Authorization header without blanks after the commas): %d of %d were refused (%s for account %q): the lookup found another account's entry, whose cached key is a view into reused request memory", len(bads), n, b.obs.What, b.k),
					Input: map[string]interface{}{"stage": "e2e-alias-miss", "accounts": accts, "note": "sporadic: depends on which request objects fasthttp reuses"}, Impl: b.obs.What, Model: "in"})
				return nil
			}
		}
	}
	return nil
}

// ---------------------------------------------------------------- sequential e2e histories

type c17E2EHist struct {
	Stage string     `json:"stage"` // "e2e"
	Mode  c17Mode    `json:"mode"`
	Init  []c17Acct  `json:"init"`
	Ops   []c17Op    `json:"ops"` // admin calls, `adv`, `restart`
	Var   c17Variant `json:"variant"`
}

type c17E2ERun struct {
	Lines  []string // model script
	Obs    []string // one observation per script line (after the reset)
	Want   []func(modelOut string) string
	Recs   []c17Rec
	Unsafe bool
	IOErr  bool
}

func c17RunE2E(a lib.Args, idx int, h c17E2EHist) (c17E2ERun, error) {
	var run c17E2ERun
	e, err := c17StartGw(a, "c17-e2e-"+strconv.Itoa(idx), h.Mode, h.Init, a.GwBin, nil)
	if err != nil {
		return run, err
	}
	defer e.close()
	ttl := 0
	if h.Mode.Cache {
		ttl = 1000000
		if h.Mode.GC {
			ttl = c17TTLUnits
		}
	}
	reset := func(init []c17Acct) {
		run.Lines = append(run.Lines, fmt.Sprintf("iam reset %s %d 0 %s %s", h.Var.bits(h.Mode.Cache), ttl, c17Root.enc(), c17EncAccts(init)))
		run.Obs = append(run.Obs, "ok")
		run.Want = append(run.Want, func(m string) string { return m })
	}
	reset(h.Init)
	clock := 0
	ident := func(m string) string { return m }
	// secrets ever used per key: the probes try all of them
	secrets := map[string][]string{}
	note := func(k, s string) {
		for _, x := range secrets[k] {
			if x == s {
				return
			}
		}
		secrets[k] = append(secrets[k], s)
	}
	for _, acc := range h.Init {
		note(acc.Access, acc.Secret)
	}
	lookup := func(k string, kind, secret string, second bool, o c17ProbeObs) {
		run.Lines = append(run.Lines, "iam call get="+lib.HexS(k))
		run.Obs = append(run.Obs, o.What)
		run.Want = append(run.Want, func(m string) string { return c17Expect(m, kind, secret, second) })
		pat := o.Pat
		// role patterns: "notuser"/"notadmin" cannot be written as one role; the oracle gets what
		// is certain (user / admin), else only the secret
		pat = strings.Replace(pat, "=notuser=", "=~=", 1)
		pat = strings.Replace(pat, "=notadmin=", "=~=", 1)
		run.Recs = append(run.Recs, c17Rec{clock, clock + 1, c17Op{Kind: "get", Key: k}, pat, len(run.Lines) - 1})
		clock += 2
	}
	segStart := time.Now()
	slack := 700 * time.Millisecond
	for _, o := range h.Ops {
		switch o.Kind {
		case "adv":
			if time.Since(segStart) > slack/2 {
				run.Unsafe = true
			}
			time.Sleep(1200 * time.Millisecond)
			run.Lines = append(run.Lines, fmt.Sprintf("iam tick %d", c17AdvUnits))
			run.Obs = append(run.Obs, "ok")
			run.Want = append(run.Want, ident)
			segStart = time.Now()
			continue
		case "restart":
			lst := e.admin(c17Op{Kind: "list"})
			if err := e.g.Restart(); err != nil {
				return run, err
			}
			// the model of the new process starts on what the old one listed (compared below anyway)
			var init []c17Acct
			for _, x := range strings.Split(strings.TrimPrefix(lst, "accts="), ",") {
				p := strings.Split(x, ":")
				if len(p) == 5 {
					ab, _ := hex.DecodeString(p[0])
					sb, _ := hex.DecodeString(p[1])
					u, _ := strconv.Atoi(p[3])
					g, _ := strconv.Atoi(p[4])
					init = append(init, c17Acct{string(ab), string(sb), p[2], u, g})
				}
			}
			run.Lines = append(run.Lines, "iam call list")
			run.Obs = append(run.Obs, lst)
			run.Want = append(run.Want, ident)
			run.Recs = append(run.Recs, c17Rec{clock, clock + 1, c17Op{Kind: "list"}, lst, len(run.Lines) - 1})
			clock += 2
			reset(init)
			segStart = time.Now()
			continue
		}
		x := e.admin(o)
		if c17EnvError(x) {
			run.IOErr = true
		}
		run.Lines = append(run.Lines, "iam call "+o.enc())
		run.Obs = append(run.Obs, x)
		run.Want = append(run.Want, ident)
		run.Recs = append(run.Recs, c17Rec{clock, clock + 1, o, x, len(run.Lines) - 1})
		clock += 2
		if o.Kind == "create" {
			note(o.Acct.Access, o.Acct.Secret)
		}
		if o.Kind == "update" && o.Secret != nil {
			note(o.Key, *o.Secret)
		}
		if o.Kind == "list" {
			continue
		}
		// right after the acknowledgement: every secret this key ever had, then role and file owner
		// with the one that works
		k := o.key()
		if k == c17Root.Access {
			continue
		}
		working := ""
		for _, s := range secrets[k] {
			ob := e.authProbe(k, s)
			lookup(k, "auth", s, false, ob)
			if ob.What == "in" {
				working = s
			}
		}
		if working != "" {
			ro := e.roleProbe(k, working)
			lookup(k, "role", working, false, ro[0])
			lookup(k, "role", working, true, ro[1])
			lookup(k, "owner", working, false, e.ownerProbe(k, working))
		}
	}
	if time.Since(segStart) > slack/2 && h.Mode.GC {
		run.Unsafe = true
	}
	return run, nil
}

func c17GenE2E(r *lib.Rand, v c17Variant) c17E2EHist {
	h := c17E2EHist{Stage: "e2e", Var: v}
	switch x := r.Intn(100); {
	case x < 55:
		h.Mode = c17Mode{Cache: true}
	case x < 75:
		h.Mode = c17Mode{Cache: true, GC: true} // here: ttl 2 s, with clock advances (no pruning end to end)
	default:
		h.Mode = c17Mode{Cache: false}
	}
	h.Init = c17GenInit(r)
	n := 5 + r.Intn(6)
	for i := 0; i < n; i++ {
		o := c17GenOp(r, false)
		for o.Kind == "get" || o.key() == c17Root.Access {
			o = c17GenOp(r, false)
		}
		h.Ops = append(h.Ops, o)
		if h.Mode.GC && r.Chance(25) {
			h.Ops = append(h.Ops, c17Op{Kind: "adv"})
		}
		if r.Chance(8) {
			h.Ops = append(h.Ops, c17Op{Kind: "restart"})
		}
	}
	return h
}

func c17E2ECorpus(v c17Variant) []c17E2EHist {
	acc := c17Acct{"a", "s1", "userplus", 5, 1000}
	adm := c17Acct{"b", "s2", "admin", 1000, 5}
	s3, seven := "s3", 7
	cache := c17Mode{Cache: true}
	return []c17E2EHist{
		{Stage: "e2e", Mode: cache, Var: v, Ops: []c17Op{{Kind: "create", Acct: &acc}, {Kind: "create", Acct: &adm}, {Kind: "list"},
			{Kind: "update", Key: "a", Secret: &s3, UID: &seven}, {Kind: "delete", Key: "b"}, {Kind: "restart"}, {Kind: "update", Key: "a", Secret: &acc.Secret}}},
		{Stage: "e2e", Mode: c17Mode{Cache: true, GC: true}, Var: v, Init: []c17Acct{acc}, Ops: []c17Op{{Kind: "update", Key: "a", GID: &seven}, {Kind: "adv"}, {Kind: "adv"},
			{Kind: "update", Key: "a", Secret: &s3}, {Kind: "delete", Key: "a"}, {Kind: "create", Acct: &c17Acct{"a", "s2", "user", 0, 0}}}},
		{Stage: "e2e", Mode: c17Mode{Cache: false}, Var: v, Ops: []c17Op{{Kind: "create", Acct: &acc}, {Kind: "update", Key: "a", Secret: &s3}, {Kind: "delete", Key: "a"}}},
	}
}

func c17E2ESeq(a lib.Args, res *lib.Result, v c17Variant, alias bool) error {
	var hists []c17E2EHist
	if in := a.ReplayInput(); in != nil {
		if in["stage"] != "e2e" {
			return nil
		}
		b, _ := json.Marshal(in)
		var h c17E2EHist
		if err := json.Unmarshal(b, &h); err != nil {
			return err
		}
		h.Var = v
		hists = []c17E2EHist{h}
	} else {
		hists = c17E2ECorpus(v)
		n := 5
		if a.Thorough() {
			n = 80
		}
		r := lib.NewRandStream(a.Seed, 1704)
		for i := 0; i < n; i++ {
			hists = append(hists, c17GenE2E(r, v))
		}
	}
	runs := make([]c17E2ERun, len(hists))
	errs := make([]error, len(hists))
	var wg sync.WaitGroup
	sem := make(chan struct{}, 4)
	for i := range hists {
		wg.Add(1)
		sem <- struct{}{}
		go func(i int) {
			defer wg.Done()
			defer func() { <-sem }()
			for try := 0; try < 3; try++ {
				runs[i], errs[i] = c17RunE2E(a, i*10+try, hists[i])
				if errs[i] != nil || !(runs[i].Unsafe || runs[i].IOErr) {
					return
				}
				if runs[i].IOErr {
					c17RetryPause(try)
				}
			}
		}(i)
	}
	wg.Wait()
	for _, e := range errs {
		if e != nil {
			return e
		}
	}
	var lines []string
	at := make([]int, len(hists))
	for i, h := range hists {
		at[i] = len(lines)
		lines = append(lines, runs[i].Lines...)
		lines = append(lines, c17LinLine(h.Init, runs[i].Recs))
	}
	out, err := a.Driver.Ask(lines)
	if err != nil {
		return err
	}
	for i, h := range hists {
		run := runs[i]
		canon, _ := json.Marshal(h)
		if run.Unsafe {
			res.Count(string(canon), false, "e2e:skipped:timing-unsafe")
			continue
		}
		classes := []string{"e2e:mode:" + h.Mode.String()}
		for _, o := range h.Ops {
			classes = append(classes, "e2e:op:"+o.Kind)
		}
		res.Count(string(canon), true, classes...)
		res.Histogram["e2e:requests"] += len(run.Lines)
		mout := out[at[i] : at[i]+len(run.Lines)]
		verdict := out[at[i]+len(run.Lines)]
		for j := range run.Lines {
			if strings.HasPrefix(run.Lines[j], "iam call get=") {
				res.Histogram["e2e:observed:"+strings.SplitN(run.Obs[j], ":", 2)[0]]++
			}
		}
		if verdict != "ok" {
			sig, what := c17Classify(a.Driver, h.Init, run.Recs, c17Evidence{V: v, Script: run.Lines})

			res.Fail(lib.Failure{Kind: "property", Signature: sig, What: "end to end: the observed history of admin calls and authenticated requests is not a history of the plain account map: " + what, Input: h,
				Impl: strings.Join(run.Obs, " "), Model: strings.Join(mout, " ")})
		}
		for j := range run.Lines {
			if want := run.Want[j](mout[j]); want != run.Obs[j] {
				res.Fail(lib.Failure{Kind: "correspondence", Signature: "iam:e2e:" + h.Mode.String() + ":" + strings.Fields(run.Lines[j])[1],
					What: fmt.Sprintf("request %d (%s): the gateway shows %q, the model's answer %q implies %q", j, run.Lines[j], run.Obs[j], mout[j], want), Input: h,
					Impl: run.Obs[j], Model: mout[j]})
				break
			}
		}
	}
	return nil
}

// ---------------------------------------------------------------- parallel admin mutations + restart

func c17E2EPar(a lib.Args, res *lib.Result, v c17Variant) error {
	rounds := 2
	if a.Thorough() {
		rounds = 12
	}
	r := lib.NewRandStream(a.Seed, 1705)
	for round := 0; round < rounds; round++ {
		mode := c17Mode{Cache: r.Chance(70)}
		init := c17GenInit(r)
		e, err := c17StartGw(a, "c17-par-"+strconv.Itoa(round), mode, init, a.GwBin, nil)
		if err != nil {
			return err
		}
		var ops []c17Op
		sameKey := r.Bool()
		for i := 0; i < 7; i++ {
			o := c17GenOp(r, false)
			for !o.isMut() || o.key() == c17Root.Access {
				o = c17GenOp(r, false)
			}
			if !sameKey {
				// distinct keys: every call its own account
				k := "k" + strconv.Itoa(i)
				if o.Kind == "create" {
					o.Acct.Access = k
				} else {
					o.Key = k
				}
			}
			if o.Kind == "create" && !v.CopyIds && !v.Invalidate {
				o.Acct.UID, o.Acct.GID = 0, 0 // (the uid/gid defect is the business of the sequential histories)
			}
			ops = append(ops, o)
		}
		var clock int64
		recs := make([]c17Rec, len(ops))
		var wg sync.WaitGroup
		for i, o := range ops {
			wg.Add(1)
			go func(i int, o c17Op) {
				defer wg.Done()
				inv := int(atomic.AddInt64(&clock, 1))
				x := e.admin(o)
				recs[i] = c17Rec{inv, int(atomic.AddInt64(&clock, 1)), o, x, -1}
			}(i, o)
		}
		wg.Wait()
		lst := func() string {
			inv := int(atomic.AddInt64(&clock, 1))
			x := e.admin(c17Op{Kind: "list"})
			recs = append(recs, c17Rec{inv, int(atomic.AddInt64(&clock, 1)), c17Op{Kind: "list"}, x, -1})
			return x
		}
		before := lst()
		// the file itself: parses, and is what the gateway lists; nothing else lies in the directory
		var doc struct {
			AccessAccounts map[string]struct {
				Access  string `json:"access"`
				Secret  string `json:"secret"`
				Role    string `json:"role"`
				UserID  int    `json:"userID"`
				GroupID int    `json:"groupID"`
			} `json:"accessAccounts"`
		}
		input := map[string]interface{}{"stage": "e2e-par", "mode": mode, "init": init, "ops": ops, "note": "not replayable: the interleaving was chosen by the runtime"}
		b, err := os.ReadFile(filepath.Join(e.cfg.IAMDir, "users.json"))
		if err != nil || json.Unmarshal(b, &doc) != nil {
			res.Fail(lib.Failure{Kind: "property", Signature: "iam:store:corrupt-after-concurrent-mutations", What: fmt.Sprintf("users.json does not parse after parallel admin calls: %v %q", err, b), Input: input})
		} else {
			var l []c17Acct
			for k, x := range doc.AccessAccounts {
				l = append(l, c17Acct{k, x.Secret, x.Role, x.UserID, x.GroupID})
			}
			sort.Slice(l, func(i, j int) bool { return l[i].Access < l[j].Access })
			if "accts="+c17EncAccts(l) != before {
				res.Fail(lib.Failure{Kind: "property", Signature: "iam:store:file-differs-from-listing", What: "users.json and /list-users disagree", Input: input, Impl: "accts=" + c17EncAccts(l), Model: before})
			}
		}
		ents, _ := os.ReadDir(e.cfg.IAMDir)
		for _, en := range ents {
			if en.Name() != "users.json" && en.Name() != "users.json.backup" {
				res.Fail(lib.Failure{Kind: "property", Signature: "iam:store:leftover-files", What: "left in the IAM directory after parallel admin calls: " + en.Name(), Input: input})
			}
		}
		if err := e.g.Restart(); err != nil {
			e.close()
			return err
		}
		after := lst()
		if after != before {
			res.Fail(lib.Failure{Kind: "property", Signature: "iam:store:lost-across-restart", What: "the listing after a restart differs from the listing before", Input: input, Impl: after, Model: before})
		}
		// later changes still work
		late := c17Acct{"late", "s1", "user", 0, 0}
		if x := e.admin(c17Op{Kind: "create", Acct: &late}); x != "ok" {
			res.Fail(lib.Failure{Kind: "property", Signature: "iam:store:blocked-after-restart", What: "create-user after concurrent mutations and a restart answered " + x, Input: input})
		}
		e.close()
		out, err := a.Driver.Ask([]string{c17LinLine(init, recs)})
		if err != nil {
			return err
		}
		canon, _ := json.Marshal(recs)
		cl := "e2e-par:distinct-keys"
		if sameKey {
			cl = "e2e-par:same-keys"
		}
		res.Count(string(canon), true, cl, "e2e-par:mode:"+mode.String())
		for _, rc := range recs {
			res.Histogram["e2e-par:answer:"+rc.Op.Kind+":"+strings.SplitN(rc.Res, "=", 2)[0]]++
		}
		if out[0] != "ok" {
			sig, what := c17Classify(a.Driver, init, recs, c17Evidence{V: v})
			input["records"] = recs
			res.Fail(lib.Failure{Kind: "property", Signature: sig, What: "parallel admin calls: answers and listings are not those of some serial order: " + what, Input: input})
		}
	}
	return nil
}

// ---------------------------------------------------------------- the miss-path race on a real gateway

// c17E2ERace uses the yield point in GetUserAccount of the gateway binary (auth/iam_cache_hook_verif.go,
// build tag verif, steered through files below VGW_VERIF_IAM_MISS_GATE): the lookup is parked
// between its fetch and its cache step while the admin API acknowledges a change.  A gateway
// without the yield point is an error of the set-up (./check always builds with -tags verif).
func c17E2ERace(a lib.Args, res *lib.Result, v c17Variant) error {
	acc := c17Acct{"a", "s1", "userplus", 5, 1000}
	s2 := "s2"
	for _, change := range []c17Op{{Kind: "delete", Key: "a"}, {Kind: "update", Key: "a", Secret: &s2}} {
		gate := filepath.Join(a.Work, "c17-gate-"+change.Kind)
		os.MkdirAll(gate, 0o755)
		e, err := c17StartGw(a, "c17-race-"+change.Kind, c17Mode{Cache: true}, []c17Acct{acc}, a.GwBin, []string{"VGW_VERIF_IAM_MISS_GATE=" + gate})
		if err != nil {
			return err
		}
		name := hex.EncodeToString([]byte("a"))
		hold, held := filepath.Join(gate, "hold-"+name), filepath.Join(gate, "held-"+name)
		os.WriteFile(hold, nil, 0o600)
		first := make(chan c17ProbeObs, 1)
		go func() { first <- e.authProbe("a", "s1") }() // cold cache: miss, fetch, then the gate
		parked := false
		for t := 0; t < 3000 && !parked; t++ {
			if _, err := os.Stat(held); err == nil {
				parked = true
			} else {
				select {
				case o := <-first:
					first <- o
					t = 3000
				default:
					time.Sleep(time.Millisecond)
				}
			}
		}
		if !parked {
			os.Remove(hold)
			<-first
			e.close()
			return fmt.Errorf("e2e race: the lookup did not park at the yield point of GetUserAccount within 3 s: the gateway binary %s was not built with -tags verif (auth/iam_cache_hook_verif.go), or the call site verifMissFetched is gone", a.GwBin)
		}
		ack := e.admin(change) // complete, acknowledged
		os.Remove(hold)        // the lookup stores what it fetched
		o1 := <-first
		o2 := e.authProbe("a", "s1") // a NEW request with the old credentials
		o3 := e.authProbe("a", "s2")
		e.close()
		os.RemoveAll(gate)
		script := []string{
			fmt.Sprintf("iam reset %s 1000000 0 %s %s", v.bits(true), c17Root.enc(), c17EncAccts([]c17Acct{acc})),
			"iam invoke get=61", "iam seg 0", "iam seg 0", // miss, fetched
			"iam call " + change.enc(),
			"iam seg 0",
			"iam call get=61", "iam call get=61",
		}
		recs := []c17Rec{
			{0, 3, c17Op{Kind: "get", Key: "a"}, o1.Pat, 5},
			{1, 2, change, ack, 4},
			{4, 5, c17Op{Kind: "get", Key: "a"}, o2.Pat, 6},
			{6, 7, c17Op{Kind: "get", Key: "a"}, o3.Pat, 7},
		}
		out, err := a.Driver.Ask(append(script, c17LinLine([]c17Acct{acc}, recs)))
		if err != nil {
			return err
		}
		input := map[string]interface{}{"stage": "e2e-race", "change": change, "account": acc}
		res.Count("e2e-race:"+change.Kind, true, "e2e-race:miss-in-flight-vs-"+change.Kind)
		obs := []string{ack, o1.What, o2.What, o3.What}
		want := []string{out[4], c17Expect(c17ModelRes(out[5]), "auth", "s1", false), c17Expect(out[6], "auth", "s1", false), c17Expect(out[7], "auth", "s2", false)}
		for j := range obs {
			if obs[j] != want[j] {
				res.Fail(lib.Failure{Kind: "correspondence", Signature: "iam:e2e-race:" + change.Kind, What: fmt.Sprintf("observation %d: gateway %q, model implies %q", j, obs[j], want[j]), Input: input,
					Impl: strings.Join(obs, " "), Model: strings.Join(out[:8], " ")})
				break
			}
		}
		if out[8] != "ok" {
			segs := []c17Seg{{0, "get", "a", "lookup", "park:enter"}, {0, "get", "a", "store", "park:exit"}, {1, change.Kind, "a", "store", "park:exit"}, {1, change.Kind, "a", "cache", "ret:ok"}, {0, "get", "a", "cache", "ret"}}
			sig, what := c17Classify(a.Driver, []c17Acct{acc}, recs, c17Evidence{V: v, Script: script, Segs: segs})
			res.Fail(lib.Failure{Kind: "property", Signature: sig, What: "real gateway, lookup parked between fetch and cache.set while the admin API acknowledges the change: " + what, Input: input,
				Impl: strings.Join(obs, " "), Model: strings.Join(out[:8], " ")})
		}
	}
	return nil
}

func c17E2E(a lib.Args, res *lib.Result) error {
	if a.GwBin == "" {
		return nil
	}
	if _, err := os.Stat(a.GwBin); err != nil {
		return fmt.Errorf("no gateway binary: %v", err)
	}
	if os.Geteuid() != 0 {
		res.Note("e2e: not running as root: --chuid/--chgid cannot be observed; stage skipped")
		return nil
	}
	v, err := c17Detect(a)
	if err != nil {
		return err
	}
	stage := ""
	if in := a.ReplayInput(); in != nil {
		stage, _ = in["stage"].(string)
		if !strings.HasPrefix(stage, "e2e") {
			return nil
		}
	}
	want := func(st string) bool { return stage == "" || stage == st }
	alias := false
	if want("e2e-alias") || want("e2e") {
		if alias, err = c17Alias(a, res, v); err != nil {
			return err
		}
	}
	if want("e2e") {
		if err := c17E2ESeq(a, res, v, alias); err != nil {
			return err
		}
	}
	if want("e2e-own") {
		if err := c17E2EOwn(a, res, v); err != nil {
			return err
		}
	}
	if want("e2e-par") {
		if err := c17E2EPar(a, res, v); err != nil {
			return err
		}
	}
	if want("e2e-race") {
		if err := c17E2ERace(a, res, v); err != nil {
			return err
		}
	}
	if !want("e2e-alias-miss") {
		return nil
	}
	return c17AliasMiss(a, res, v)
}
