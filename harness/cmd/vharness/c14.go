package main

// C14 — bucket policy evaluation follows the policy language exactly.
//
// In-process calls of the REAL exported functions of github.com/versity/versitygw/auth
// (Resources.Match / FindMatch, Actions.FindMatch, Principals.Contains, VerifyBucketPolicy,
// ValidatePolicyDocument, BucketPolicy.Validate, Action.IsValid / IsObjectAction, Resources.Add)
// compared with the Lean model (correspondence) and judged by the executable Spec (Spec.Glob.G,
// Spec.Policy.allowsB, Spec.Policy.verdict).

import (
	"encoding/json"
	"fmt"
	"sort"
	"strings"

	"github.com/versity/versitygw/auth"
	"verif/harness/lib"
)

func init() {
	checks["c14"] = checkDef{"C14",
		"glob: (pattern, subject) pairs over the alphabet {a,b,*,?,/} — exhaustive up to length 3 (quick) / 5 (thorough) plus structured random pairs up to length 8 (subject derived from the pattern by instantiating wildcards, then mutated); non-trivial = pattern contains a wildcard and subject non-empty. matchers: action/principal/resource sets against probes. eval: generated policies (1-4 statements, Allow/Deny, string-or-array shapes, duplicates) decoded by the real decoder, queried with (caller, action, bucket, object); non-trivial = some statement's principal and action hit. validate: structured documents (mostly valid + one injected fault of each kind + malformed JSON), each validated 20 times; non-trivial = document decodes as JSON. Distinct by canonical input text.",
		[]checkFn{c14Glob, c14Matchers, c14Eval, c14Validate, c14E2E}}
}

// ------------------------------------------------------------------ line-protocol encoders

func c14List(xs []string) string {
	if len(xs) == 0 {
		return "_"
	}
	h := make([]string, len(xs))
	for i, x := range xs {
		h[i] = lib.HexS(x)
	}
	return strings.Join(h, ",")
}

type c14Stmt struct {
	Effect                         string
	Principals, Actions, Resources []string
}

func c14Policy(p []c14Stmt) string {
	if len(p) == 0 {
		return "_"
	}
	ss := make([]string, len(p))
	for i, st := range p {
		ss[i] = lib.HexS(st.Effect) + ":" + c14List(st.Principals) + ":" + c14List(st.Actions) + ":" + c14List(st.Resources)
	}
	return strings.Join(ss, "|")
}

func sortedKeys[K ~string](m map[K]struct{}) []string {
	ks := make([]string, 0, len(m))
	for k := range m {
		ks = append(ks, string(k))
	}
	sort.Strings(ks)
	return ks
}

// decoded structure of the real decoder → model policy (map keys sorted)
func c14FromReal(bp auth.BucketPolicy) []c14Stmt {
	out := make([]c14Stmt, len(bp.Statement))
	for i, st := range bp.Statement {
		out[i] = c14Stmt{string(st.Effect), sortedKeys(st.Principals), sortedKeys(st.Actions), sortedKeys(st.Resources)}
	}
	return out
}

// generic shape of a JSON member (Model.Policy.Field)
type c14Field struct {
	Kind string   `json:"kind"` // m | b | s | a
	S    string   `json:"s,omitempty"`
	L    []string `json:"l,omitempty"`
	// rendering choices
	BadText string `json:"bad,omitempty"`  // JSON text used for kind b
	Null    bool   `json:"null,omitempty"` // empty array rendered as null
	AWS     bool   `json:"aws,omitempty"`  // principal wrapped in {"AWS": …}
	Raw     string `json:"raw,omitempty"`  // JSON text that overrides the rendering (e.g. `{}` for an empty principal)
}

func (f c14Field) enc() string {
	switch f.Kind {
	case "m", "b":
		return f.Kind
	case "s":
		return "s" + lib.HexS(f.S)
	default:
		return "a" + c14List(f.L)
	}
}

func jstr(s string) string { b, _ := json.Marshal(s); return string(b) }

func (f c14Field) json() string {
	var v string
	if f.Raw != "" {
		return f.Raw
	}
	switch f.Kind {
	case "b":
		return f.BadText
	case "s":
		v = jstr(f.S)
	case "a":
		if len(f.L) == 0 && f.Null {
			v = "null"
		} else {
			q := make([]string, len(f.L))
			for i, x := range f.L {
				q[i] = jstr(x)
			}
			v = "[" + strings.Join(q, ",") + "]"
		}
	}
	if f.AWS {
		return `{"AWS":` + v + `}`
	}
	return v
}

type c14RawStmt struct {
	Effect, Principal, Action, Resource c14Field
	Extra                               string // extra ignored members, e.g. `"Sid":"x",`
	Shuffle                             []int  // member order (nil = struct order)
}

func (s c14RawStmt) enc() string {
	return s.Effect.enc() + ":" + s.Principal.enc() + ":" + s.Action.enc() + ":" + s.Resource.enc()
}

func (s c14RawStmt) json() string {
	names := []string{"Effect", "Principal", "Action", "Resource"}
	fs := []c14Field{s.Effect, s.Principal, s.Action, s.Resource}
	order := s.Shuffle
	if order == nil {
		order = []int{0, 1, 2, 3}
	}
	var parts []string
	if s.Extra != "" {
		parts = append(parts, s.Extra)
	}
	for _, i := range order {
		if fs[i].Kind == "m" {
			continue
		}
		parts = append(parts, jstr(names[i])+":"+fs[i].json())
	}
	return "{" + strings.Join(parts, ",") + "}"
}

type c14Doc struct {
	Kind  string       // badjson | nostmt | d
	Stmts []c14RawStmt // for d
	Text  string       // JSON text for badjson / nostmt; computed for d
	Extra string       // extra top-level members
}

func (d c14Doc) enc() string {
	if d.Kind != "d" {
		return d.Kind
	}
	ss := make([]string, len(d.Stmts))
	for i, s := range d.Stmts {
		ss[i] = s.enc()
	}
	return "d" + strings.Join(ss, "|")
}

func (d c14Doc) json() string {
	if d.Kind != "d" {
		return d.Text
	}
	ss := make([]string, len(d.Stmts))
	for i, s := range d.Stmts {
		ss[i] = s.json()
	}
	return "{" + d.Extra + `"Statement":[` + strings.Join(ss, ",") + "]}"
}

// ------------------------------------------------------------------ IAM stub

type c14IAM struct {
	auth.IAMService
	accts map[string]bool
}

func (i c14IAM) GetUserAccount(a string) (auth.Account, error) {
	if i.accts[a] {
		return auth.Account{Access: a}, nil
	}
	return auth.Account{}, auth.ErrNoSuchUser
}

var c14Accounts = []string{"alice", "bob"}

func c14NewIAM() c14IAM {
	m := map[string]bool{}
	for _, a := range c14Accounts {
		m[a] = true
	}
	return c14IAM{accts: m}
}

// ------------------------------------------------------------------ 1. the matcher

const c14Alpha = "ab*?/"

func c14Words(alpha string, n int) []string {
	out := []string{}
	level := []string{""}
	for l := 0; l <= n; l++ {
		out = append(out, level...)
		if l == n {
			break
		}
		next := make([]string, 0, len(level)*len(alpha))
		for _, c := range alpha {
			for _, w := range level {
				next = append(next, string(c)+w)
			}
		}
		level = next
	}
	return out
}

func c14RandWord(r *lib.Rand, alpha string, maxLen int) string {
	n := r.Intn(maxLen + 1)
	b := make([]byte, n)
	for i := range b {
		b[i] = alpha[r.Intn(len(alpha))]
	}
	return string(b)
}

// subject derived from the pattern: `*` → short run, `?` → one byte, then 0-2 mutations
func c14Instantiate(r *lib.Rand, p string, subjAlpha string, maxLen int) string {
	var b []byte
	for i := 0; i < len(p); i++ {
		switch p[i] {
		case '*':
			for k := r.Intn(3); k > 0; k-- {
				b = append(b, subjAlpha[r.Intn(len(subjAlpha))])
			}
		case '?':
			b = append(b, subjAlpha[r.Intn(len(subjAlpha))])
		default:
			b = append(b, p[i])
		}
	}
	for n := r.Intn(3); n > 0; n-- {
		switch r.Intn(3) {
		case 0:
			if len(b) > 0 {
				i := r.Intn(len(b))
				b = append(b[:i], b[i+1:]...)
			}
		case 1:
			i := r.Intn(len(b) + 1)
			b = append(b[:i], append([]byte{subjAlpha[r.Intn(len(subjAlpha))]}, b[i:]...)...)
		default:
			if len(b) > 0 {
				b[r.Intn(len(b))] = subjAlpha[r.Intn(len(subjAlpha))]
			}
		}
	}
	if len(b) > maxLen {
		b = b[:maxLen]
	}
	return string(b)
}

func c14GlobJudge(res *lib.Result, p, s string, impl, model, spec bool) {
	hasStar := strings.Contains(s, "*")
	in := map[string]interface{}{"check": "glob", "pattern": p, "subject": s}
	if impl != spec {
		sig := "glob:other"
		if hasStar {
			sig = "glob:subject-contains-star"
		}
		res.Fail(lib.Failure{Kind: "property", Signature: sig,
			What:  "Resources.Match differs from the declarative glob semantics Spec.Glob.G",
			Input: in, Impl: fmt.Sprint(impl), Model: fmt.Sprintf("model=%v spec=%v", model, spec)})
	}
	if impl != model {
		res.Fail(lib.Failure{Kind: "correspondence", Signature: "Resources.Match",
			What:  "Resources.Match differs from Model.Glob.match",
			Input: in, Impl: fmt.Sprint(impl), Model: fmt.Sprint(model)})
	}
	if model != spec {
		res.Fail(lib.Failure{Kind: "model-vs-spec", Signature: "glob", What: "Model.Glob.match differs from Spec.Glob.G (contradicts match_iff_glob)",
			Input: in, Model: fmt.Sprintf("model=%v spec=%v", model, spec)})
	}
}

func c14GlobClasses(p, s string, impl bool) []string {
	cl := []string{fmt.Sprintf("glob:stars=%d", min(strings.Count(p, "*"), 3)), fmt.Sprintf("glob:match=%v", impl)}
	if strings.Contains(s, "*") {
		cl = append(cl, "glob:subject-has-star")
	}
	if strings.Contains(p, "?") {
		cl = append(cl, "glob:pattern-has-qmark")
	}
	return cl
}

func c14Glob(a lib.Args, res *lib.Result) error {
	var rm auth.Resources
	if in := a.ReplayInput(); in != nil {
		if in["check"] != "glob" {
			return nil
		}
		p, _ := in["pattern"].(string)
		s, _ := in["subject"].(string)
		out, err := a.Driver.Ask([]string{fmt.Sprintf("glob m %s %s", lib.HexS(p), lib.HexS(s))})
		if err != nil {
			return err
		}
		impl := rm.Match(p, s)
		res.Count(p+"|"+s, true, "replay")
		c14GlobJudge(res, p, s, impl, out[0][0] == 't', out[0][1] == 't')
		return nil
	}
	// corpus (the former witnesses of glob:subject-contains-star first; fixed in 4562263)
	corpus := [][2]string{{"*", "*a"}, {"a*", "a*b"}, {"*b", "*ab"}, {"b/*", "b/*x"}, {"*", ""}, {"", ""}, {"a*b?c", "axxbbybzc"},
		{"*a*b", "aabab"}, {"?*", ""}, {"**", "a"}, {"a*", "a"}, {"*?", "ab"}, {"?", "*"}, {"*", "*"}, {"a", "?"}, {"*a", "*a"}}
	// exhaustive rows
	n := 3
	if a.Thorough() {
		n = 5
	}
	words := c14Words(c14Alpha, n)
	lines := make([]string, 0, len(words))
	for _, p := range words {
		lines = append(lines, fmt.Sprintf("glob row %s %s %d", lib.HexS(p), lib.HexS(c14Alpha), n))
	}
	out, err := a.Driver.AskParallel(lines, 8)
	if err != nil {
		return err
	}
	for i, p := range words {
		row := out[i]
		if len(row) != len(words) {
			return fmt.Errorf("glob row for %q: %d answers for %d subjects", p, len(row), len(words))
		}
		wild := strings.ContainsAny(p, "*?")
		for j, s := range words {
			impl := rm.Match(p, s)
			c := row[j] - '0'
			model, spec := c&1 == 1, c&2 == 2
			res.Count("g|"+p+"|"+s, wild && s != "", c14GlobClasses(p, s, impl)...)
			if impl != spec || impl != model || model != spec {
				c14GlobJudge(res, p, s, impl, model, spec)
			}
		}
	}
	res.Note("glob: exhaustive over all %d x %d (pattern, subject) pairs of length <= %d over {a,b,*,?,/}", len(words), len(words), n)
	// random structured pairs up to length 8
	m := 50000
	if a.Thorough() {
		m = 3000000
	}
	r := lib.NewRandStream(a.Seed, 14)
	type pr struct{ p, s string }
	pairs := make([]pr, 0, m+len(corpus))
	for _, c := range corpus {
		pairs = append(pairs, pr{c[0], c[1]})
	}
	for i := 0; i < m; i++ {
		var p string
		if r.Chance(70) {
			p = c14RandWord(r, "ab*?/*", 8) // more stars
		} else {
			p = c14RandWord(r, "ab/", 3) + "*" + c14RandWord(r, "ab?", 3) + pick(r, "", "*", "?*", "*a")
			if len(p) > 8 {
				p = p[:8]
			}
		}
		var s string
		switch k := r.Intn(10); {
		case k < 6:
			s = c14Instantiate(r, p, "ab/", 8)
		case k < 8:
			s = c14Instantiate(r, p, c14Alpha, 8)
		default:
			s = c14RandWord(r, c14Alpha, 8)
		}
		pairs = append(pairs, pr{p, s})
	}
	lines = lines[:0]
	for _, q := range pairs {
		lines = append(lines, fmt.Sprintf("glob m %s %s", lib.HexS(q.p), lib.HexS(q.s)))
	}
	out, err = a.Driver.AskParallel(lines, 8)
	if err != nil {
		return err
	}
	for i, q := range pairs {
		if len(out[i]) != 2 {
			return fmt.Errorf("glob m: bad answer %q", out[i])
		}
		impl := rm.Match(q.p, q.s)
		model, spec := out[i][0] == 't', out[i][1] == 't'
		cl := append(c14GlobClasses(q.p, q.s, impl), "glob:random<=8")
		res.Count("g|"+q.p+"|"+q.s, strings.ContainsAny(q.p, "*?") && q.s != "", cl...)
		if i < 3 {
			res.Sample(map[string]interface{}{"pattern": q.p, "subject": q.s, "impl": impl, "model": model, "spec": spec})
		}
		c14GlobJudge(res, q.p, q.s, impl, model, spec)
	}
	return nil
}

// ------------------------------------------------------------------ 2. set matchers

var c14ActionNames = []string{"s3:GetBucketAcl", "s3:CreateBucket", "s3:PutBucketAcl", "s3:DeleteBucket", "s3:PutBucketVersioning",
	"s3:GetBucketVersioning", "s3:PutBucketPolicy", "s3:GetBucketPolicy", "s3:DeleteBucketPolicy", "s3:AbortMultipartUpload",
	"s3:ListMultipartUploadParts", "s3:ListBucketMultipartUploads", "s3:PutObject", "s3:GetObject", "s3:GetObjectVersion",
	"s3:DeleteObject", "s3:GetObjectAcl", "s3:GetObjectAttributes", "s3:PutObjectAcl", "s3:RestoreObject", "s3:GetBucketTagging",
	"s3:PutBucketTagging", "s3:GetObjectTagging", "s3:PutObjectTagging", "s3:DeleteObjectTagging", "s3:ListBucketVersions",
	"s3:ListBucket", "s3:PutBucketObjectLockConfiguration", "s3:GetObjectLegalHold", "s3:PutObjectLegalHold",
	"s3:GetObjectRetention", "s3:PutObjectRetention", "s3:BypassGovernanceRetention", "s3:PutBucketOwnershipControls",
	"s3:GetBucketOwnershipControls", "s3:PutBucketCORS", "s3:GetBucketCORS"}

// a valid action pattern (decodes): name, s3:*, or a prefix of a name followed by *
func c14ValidAction(r *lib.Rand) string {
	switch k := r.Intn(10); {
	case k < 5:
		return r.Pick(c14ActionNames)
	case k < 6:
		return "s3:*"
	default:
		n := r.Pick(c14ActionNames)
		cut := 3 + r.Intn(len(n)-2)
		return n[:cut] + "*"
	}
}

// any action string (for probes and invalid documents)
func c14AnyAction(r *lib.Rand) string {
	switch k := r.Intn(12); {
	case k < 6:
		return c14ValidAction(r)
	case k < 7:
		return pick(r, "s3:GetBucketObjectLockConfiguration", "s3:**", "s3:GetBucketO*", "s3:GetBucketObjectL*")
	case k < 8:
		return pick(r, "", "s3:", "s3", "*", "s3*", "GetObject", "s3:getobject", "S3:GetObject", "s3:GetObject ", "s3:Foo", "s3:Foo*", "s3:GetObjectX", "s3:GetObject**", "ec2:*")
	default:
		n := []byte(r.Pick(c14ActionNames))
		switch r.Intn(3) {
		case 0:
			n = n[:r.Intn(len(n)+1)]
		case 1:
			n[r.Intn(len(n))] = "*:3sGPx"[r.Intn(7)]
		default:
			n = append(n, "*xs"[r.Intn(3)])
		}
		return string(n)
	}
}

func c14Matchers(a lib.Args, res *lib.Result) error {
	if a.ReplayInput() != nil && a.ReplayInput()["check"] != "matchers" {
		return nil
	}
	n := 6000
	if a.Thorough() {
		n = 500000
	}
	r := lib.NewRandStream(a.Seed, 114)
	type cs struct {
		kind  string
		set   []string
		probe string
		impl  bool
	}
	var cases []cs
	var lines []string
	add := func(kind string, set []string, probe string) {
		var impl bool
		switch kind {
		case "action":
			m := auth.Actions{}
			for _, x := range set {
				m[auth.Action(x)] = struct{}{}
			}
			impl = m.FindMatch(auth.Action(probe))
		case "principal":
			m := auth.Principals{}
			for _, x := range set {
				m[x] = struct{}{}
			}
			impl = m.Contains(probe)
		default:
			m := auth.Resources{}
			for _, x := range set {
				m[x] = struct{}{}
			}
			impl = m.FindMatch(probe)
		}
		cases = append(cases, cs{kind, set, probe, impl})
		lines = append(lines, fmt.Sprintf("policy %s %s %s", kind, c14List(set), lib.HexS(probe)))
		res.Count(kind+"|"+strings.Join(set, ",")+"|"+probe, len(set) > 0, "matchers:"+kind, fmt.Sprintf("matchers:%s=%v", kind, impl))
	}
	if in := a.ReplayInput(); in != nil {
		var set []string
		for _, x := range in["set"].([]interface{}) {
			set = append(set, x.(string))
		}
		add(in["kind"].(string), set, in["probe"].(string))
		n = 0
	} else {
		add("action", []string{"s3:Get*"}, "s3:GetObject")
		add("action", []string{"s3:Get*"}, "s3:PutObject")
		add("action", []string{"s3:*"}, "anything")
		add("action", []string{"*"}, "s3:GetObject")
		add("action", []string{"s3:GetObject*"}, "s3:GetObject")
		add("action", []string{"s3:**"}, "s3:GetObject")
		add("action", []string{""}, "")
		add("principal", []string{"*"}, "mallory")
		add("principal", []string{"alice"}, "*")
		add("principal", []string{}, "alice")
		add("resource", []string{"b/*", "b"}, "b")
	}
	for i := 0; i < n; i++ {
		k := r.Intn(1 + 4)
		set := make([]string, 0, k)
		switch r.Intn(3) {
		case 0:
			for j := 0; j < k; j++ {
				set = append(set, c14AnyAction(r))
			}
			probe := c14AnyAction(r)
			if r.Chance(40) && k > 0 { // probe derived from a member
				probe = strings.TrimSuffix(set[r.Intn(k)], "*") + pick(r, "", "Object", "X", "*")
			}
			add("action", set, probe)
		case 1:
			for j := 0; j < k; j++ {
				set = append(set, pick(r, "*", "alice", "bob", "mallory", "", "alice*", "al?ce"))
			}
			add("principal", set, pick(r, "*", "alice", "bob", "mallory", "", "alicex"))
		default:
			for j := 0; j < k; j++ {
				set = append(set, c14RandWord(r, "ab*?/*", 5))
			}
			probe := c14RandWord(r, c14Alpha, 5)
			if k > 0 && r.Chance(60) {
				probe = c14Instantiate(r, set[r.Intn(k)], "ab/", 6)
			}
			add("resource", set, probe)
		}
	}
	out, err := a.Driver.AskParallel(lines, 8)
	if err != nil {
		return err
	}
	for i, c := range cases {
		if len(out[i]) != 2 {
			return fmt.Errorf("policy %s: bad answer %q", c.kind, out[i])
		}
		model, spec := out[i][0] == 't', out[i][1] == 't'
		in := map[string]interface{}{"check": "matchers", "kind": c.kind, "set": c.set, "probe": c.probe}
		if c.impl != spec {
			sig := c.kind + "-match:other"
			if c.kind == "resource" && strings.Contains(c.probe, "*") {
				sig = "glob:subject-contains-star"
			}
			res.Fail(lib.Failure{Kind: "property", Signature: sig, What: "real " + c.kind + " matcher differs from Spec.Policy", Input: in,
				Impl: fmt.Sprint(c.impl), Model: fmt.Sprintf("model=%v spec=%v", model, spec)})
		}
		if c.impl != model {
			res.Fail(lib.Failure{Kind: "correspondence", Signature: c.kind + "-match", What: "real " + c.kind + " matcher differs from Model.Policy", Input: in,
				Impl: fmt.Sprint(c.impl), Model: fmt.Sprint(model)})
		}
		if model != spec {
			res.Fail(lib.Failure{Kind: "model-vs-spec", Signature: c.kind + "-match", What: "Model.Policy matcher differs from Spec.Policy", Input: in,
				Model: fmt.Sprintf("model=%v spec=%v", model, spec)})
		}
	}
	return nil
}

// ------------------------------------------------------------------ 3. evaluation

const c14Arn = "arn:aws:s3:::"

func c14MemberList(r *lib.Rand, gen func() string) []string {
	k := 1 + r.Intn(3)
	l := make([]string, 0, k+1)
	for i := 0; i < k; i++ {
		l = append(l, gen())
	}
	if r.Chance(15) { // duplicate member
		l = append(l, l[r.Intn(len(l))])
	}
	return l
}

func c14Shape(r *lib.Rand, l []string) c14Field {
	if len(l) == 1 && r.Chance(60) {
		return c14Field{Kind: "s", S: l[0]}
	}
	return c14Field{Kind: "a", L: l}
}

// a statement that DECODES (valid actions, ARN resources) but is otherwise arbitrary
func c14EvalStmt(r *lib.Rand) c14RawStmt {
	eff := pick(r, "Allow", "Allow", "Allow", "Deny", "Deny", "allow", "")
	pr := c14Shape(r, c14MemberList(r, func() string { return pick(r, "*", "alice", "alice", "bob", "mallory") }))
	pr.AWS = r.Chance(30)
	ac := c14Shape(r, c14MemberList(r, func() string {
		if r.Chance(50) {
			return pick(r, "s3:GetObject", "s3:PutObject", "s3:ListBucket", "s3:Get*", "s3:*", "s3:GetObject*", "s3:PutObject*", "s3:GetObjectT*")
		}
		return c14ValidAction(r)
	}))
	rs := c14Shape(r, c14MemberList(r, func() string {
		b := pick(r, "b", "b", "b", "bb", "*", "b*", "?")
		switch r.Intn(6) {
		case 0:
			return c14Arn + b
		case 1:
			return c14Arn + b + "/*"
		default:
			return c14Arn + b + "/" + c14RandWord(r, "ab*?/*", 4)
		}
	}))
	st := c14RawStmt{Effect: c14Field{Kind: "s", S: eff}, Principal: pr, Action: ac, Resource: rs}
	if r.Chance(10) {
		st.Extra = pick(r, `"Sid":"x"`, `"Condition":{"Bool":{"aws:SecureTransport":"true"}}`)
	}
	return st
}

type c14Query struct{ who, bucket, object, act string }

func c14EvalJudge(res *lib.Result, doc string, pol []c14Stmt, q c14Query, impl, model, spec bool) {
	resource := q.bucket
	if q.object != "" {
		resource += "/" + q.object
	}
	in := map[string]interface{}{"check": "eval", "policy": doc, "who": q.who, "bucket": q.bucket, "object": q.object, "action": q.act}
	if impl != spec {
		sig := "eval:other"
		if strings.Contains(resource, "*") {
			sig = "glob:subject-contains-star"
		}
		res.Fail(lib.Failure{Kind: "property", Signature: sig, What: "VerifyBucketPolicy differs from Spec.Policy.Allows (deny-overrides over Spec.Glob.G)",
			Input: in, Impl: fmt.Sprintf("allowed=%v", impl), Model: fmt.Sprintf("model=%v spec=%v", model, spec)})
	}
	if impl != model {
		res.Fail(lib.Failure{Kind: "correspondence", Signature: "VerifyBucketPolicy", What: "VerifyBucketPolicy differs from Model.Policy.verify on the decoded policy",
			Input: in, Impl: fmt.Sprintf("allowed=%v", impl), Model: fmt.Sprintf("allowed=%v", model)})
	}
	if model != spec {
		res.Fail(lib.Failure{Kind: "model-vs-spec", Signature: "eval", What: "Model.Policy.verify differs from Spec.Policy.allowsB (contradicts verify_iff)",
			Input: in, Model: fmt.Sprintf("model=%v spec=%v", model, spec)})
	}
}

func c14Eval(a lib.Args, res *lib.Result) error {
	if a.ReplayInput() != nil && a.ReplayInput()["check"] != "eval" {
		return nil
	}
	n := 4000
	if a.Thorough() {
		n = 300000
	}
	r := lib.NewRandStream(a.Seed, 214)
	type cs struct {
		doc  string
		pol  []c14Stmt
		q    c14Query
		impl bool
	}
	var cases []cs
	var lines []string
	flush := func() error {
		out, err := a.Driver.AskParallel(lines, 8)
		if err != nil {
			return err
		}
		for i, c := range cases {
			if len(out[i]) != 2 {
				return fmt.Errorf("policy verify: bad answer %q for %s", out[i], lines[i])
			}
			c14EvalJudge(res, c.doc, c.pol, c.q, c.impl, out[i][0] == 't', out[i][1] == 't')
		}
		cases, lines = cases[:0], lines[:0]
		return nil
	}
	add := func(doc string, qs []c14Query, classes ...string) error {
		var bp auth.BucketPolicy
		if err := json.Unmarshal([]byte(doc), &bp); err != nil {
			return fmt.Errorf("eval generator produced a document the real decoder refuses: %v: %s", err, doc)
		}
		pol := c14FromReal(bp)
		enc := c14Policy(pol)
		for _, q := range qs {
			err := auth.VerifyBucketPolicy([]byte(doc), q.who, q.bucket, q.object, auth.Action(q.act))
			impl := err == nil
			cases = append(cases, cs{doc, pol, q, impl})
			lines = append(lines, fmt.Sprintf("policy verify %s %s %s %s %s", enc, lib.HexS(q.who), lib.HexS(q.bucket), lib.HexS(q.object), lib.HexS(q.act)))
			nontrivial := false
			for _, st := range bp.Statement {
				if st.Principals.Contains(q.who) && st.Actions.FindMatch(auth.Action(q.act)) {
					nontrivial = true
				}
			}
			cl := append([]string{fmt.Sprintf("eval:allowed=%v", impl), fmt.Sprintf("eval:statements=%d", len(pol))}, classes...)
			if strings.Contains(q.object, "*") {
				cl = append(cl, "eval:object-has-star")
			}
			res.Count("e|"+doc+"|"+q.who+"|"+q.bucket+"|"+q.object+"|"+q.act, nontrivial, cl...)
		}
		return nil
	}
	if in := a.ReplayInput(); in != nil {
		s := func(k string) string { v, _ := in[k].(string); return v }
		if err := add(s("policy"), []c14Query{{s("who"), s("bucket"), s("object"), s("action")}}, "replay"); err != nil {
			return err
		}
		n = 0
	} else {
		// corpus: former witness of glob:subject-contains-star (fixed in 4562263) — a Deny on b/* must apply to the key `*x`
		w := `{"Statement":[{"Effect":"Allow","Principal":"*","Action":"s3:GetObject","Resource":"arn:aws:s3:::b/?x"},{"Effect":"Deny","Principal":"*","Action":"s3:GetObject","Resource":"arn:aws:s3:::b/*"}]}`
		if err := add(w, []c14Query{{"alice", "b", "*x", "s3:GetObject"}, {"alice", "b", "ax", "s3:GetObject"}}, "corpus"); err != nil {
			return err
		}
		w2 := `{"Statement":[{"Effect":"Deny","Principal":["bob"],"Action":["s3:*"],"Resource":["arn:aws:s3:::b/*"]},{"Effect":"Allow","Principal":{"AWS":["alice","bob"]},"Action":"s3:Get*","Resource":["arn:aws:s3:::b","arn:aws:s3:::b/*"]}]}`
		if err := add(w2, []c14Query{{"alice", "b", "k", "s3:GetObject"}, {"bob", "b", "k", "s3:GetObject"}, {"bob", "b", "", "s3:GetBucketAcl"}, {"alice", "b", "k", "s3:PutObject"}, {"mallory", "b", "k", "s3:GetObject"}}, "corpus"); err != nil {
			return err
		}
	}
	for i := 0; i < n; i++ {
		ns := 1 + r.Intn(4)
		d := c14Doc{Kind: "d"}
		for j := 0; j < ns; j++ {
			d.Stmts = append(d.Stmts, c14EvalStmt(r))
		}
		if r.Chance(20) {
			d.Extra = `"Version":"2012-10-17",`
		}
		doc := d.json()
		qs := make([]c14Query, 0, 8)
		for j := 0; j < 8; j++ {
			obj := ""
			if r.Chance(80) {
				obj = c14RandWord(r, c14Alpha, 4)
			}
			act := pick(r, "s3:GetObject", "s3:GetObject", "s3:PutObject", "s3:ListBucket", "s3:GetObjectTagging", "s3:DeleteObject", "s3:GetBucketAcl")
			if r.Chance(15) {
				act = c14AnyAction(r)
			}
			qs = append(qs, c14Query{pick(r, "alice", "alice", "bob", "mallory", "*", ""), pick(r, "b", "b", "b", "bb", "a"), obj, act})
		}
		if err := add(doc, qs); err != nil {
			return err
		}
		if i < 2 {
			res.Sample(map[string]interface{}{"policy": doc})
		}
		if len(lines) >= 200000 {
			if err := flush(); err != nil {
				return err
			}
		}
	}
	return flush()
}
