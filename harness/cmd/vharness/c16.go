package main

import (
	"fmt"
	"strings"

	"github.com/versity/versitygw/s3api/utils"
	"verif/harness/lib"
	"verif/harness/prog"
)

// c16Names: utils.IsValidBucketName against Model.BucketName.isValidBucketName, on every string of
// length ≤ 4 over {a,0,.,-,A} (exhaustive) and on structured random names around the boundaries.
func c16Names(a lib.Args, res *lib.Result) error {
	var names []string
	alpha := []byte("a0.-A")
	var rec func(prefix []byte, n int)
	rec = func(prefix []byte, n int) {
		names = append(names, string(prefix))
		if n == 0 {
			return
		}
		for _, c := range alpha {
			rec(append(append([]byte{}, prefix...), c), n-1)
		}
	}
	depth := 4
	if a.Thorough() {
		depth = 7
	}
	rec(nil, depth)
	r := lib.NewRand(a.Seed + 16)
	n := 20000
	if a.Thorough() {
		n = 2000000
	}
	pieces := []string{"a", "z", "0", "9", ".", "-", "..", ".-", "-.", "A", "_", "1", "255", "256", "1000", "ab", "é", " ", "/", "xn--", "-s3alias"}
	for i := 0; i < n; i++ {
		var b strings.Builder
		switch r.Intn(6) {
		case 0: // ip-like
			k := 3 + r.Intn(3)
			for j := 0; j < k; j++ {
				if j > 0 {
					b.WriteString(pick(r, ".", ".", ".."))
				}
				b.WriteString(pick(r, "1", "12", "255", "256", "1234", "0", "", "a1"))
			}
		case 1: // length boundaries
			l := []int{1, 2, 3, 4, 62, 63, 64, 65}[r.Intn(8)]
			for j := 0; j < l; j++ {
				b.WriteString(pick(r, "a", "b", "0", ".", "-"))
			}
		default:
			for j := 1 + r.Intn(6); j > 0; j-- {
				b.WriteString(pieces[r.Intn(len(pieces))])
			}
		}
		names = append(names, b.String())
	}
	corpus := []string{"a..b", "1.2.3.4", "1.2.3.4.5", "abc", "ab", "Abc", "-ab", "ab-", "a.b", "192.168.1.1a", "a-.b", "a.-b", "999.999.999.999", "1.2.3", "xn--abc", "abc-s3alias"}
	names = append(corpus, names...)
	lines := make([]string, len(names))
	for i, nm := range names {
		lines[i] = "bucketname " + lib.HexS(nm)
	}
	out, err := a.Driver.AskParallel(lines, 8)
	if err != nil {
		return err
	}
	for i, nm := range names {
		impl := fmt.Sprint(utils.IsValidBucketName(nm, false))
		class := "name:refused"
		if impl == "true" {
			class = "name:accepted"
		}
		res.Count("name|"+nm, len(nm) >= 3 && len(nm) <= 63, class)
		if i < 3 {
			res.Sample(map[string]interface{}{"name": nm, "impl": impl, "model": out[i]})
		}
		if impl != out[i] {
			// the model is proved equal to Spec.BucketName.Valid (Props.C16Name), so a disagreement
			// is a disagreement with the naming rules
			sig := "bucketname:other"
			switch {
			case strings.Contains(nm, ".."):
				sig = "bucketname:adjacent-periods"
			case impl == "true":
				sig = "bucketname:accepts-invalid"
			case impl == "false":
				sig = "bucketname:refuses-valid"
			}
			res.Fail(lib.Failure{Kind: "property", Signature: sig, What: "utils.IsValidBucketName disagrees with the S3 naming rules (Model.BucketName = Spec.BucketName.Valid)",
				Input: map[string]interface{}{"name": nm}, Impl: impl, Model: out[i]})
		}
	}
	res.Exhaustive = false
	return nil
}

var c16Owners = []string{"root", "u:adm1", "u:up1"}

// c16Program: bucket lifecycle and settings. Buckets with several owners; every setting is put,
// read, overwritten, deleted and read again; creating an existing bucket; ListBuckets with
// prefix / max-buckets / continuation token by admins and non-admins.
var c16Keys = []string{"k1", "k1", "dir/k2", ".hidden", ".well-known/acme", ".sgwtmp.bak/x", "..."}

func c16Program(g *prog.Gen, idx int) []*prog.Op {
	names := []string{"aaa-1", "aab-2", "abc", "b.c", "bkt-zz", "zzz"}
	var ops []*prog.Op
	nb := 2 + g.R.Intn(4)
	for i := 0; i < nb; i++ {
		o := &prog.Op{Kind: "createBucket", Caller: c16Owners[g.R.Intn(3)], B: names[g.R.Intn(len(names))], Valid: true}
		if g.R.Chance(50) {
			o.Own = g.R.Pick([]string{"BucketOwnerPreferred", "ObjectWriter", "BucketOwnerEnforced"})
			if o.Own != "BucketOwnerEnforced" && g.R.Chance(50) {
				o.Canned = g.R.Pick([]string{"private", "public-read", "public-read-write"})
			}
		}
		o.Lock = g.R.Chance(20)
		ops = append(ops, o)
	}
	n := 10 + g.R.Intn(30)
	for i := 0; i < n; i++ {
		b := names[g.R.Intn(len(names))]
		caller := append(c16Owners, "u:usr1")[g.R.Intn(4)]
		var o *prog.Op
		switch r := g.R.Intn(100); {
		case r < 6:
			o = &prog.Op{Kind: "createBucket", B: b, Valid: true}
		case r < 10:
			o = &prog.Op{Kind: "deleteBucket", B: b}
		case r < 22:
			o = &prog.Op{Kind: "listBuckets", Prefix: g.R.Pick([]string{"", "", "a", "aa", "b", "zz", "q"}), Max: []int{0, 0, 1, 2, 3, 10, -1}[g.R.Intn(7)],
				Token: g.R.Pick([]string{"", "", "", "aaa-1", "abc", "aab", "zzzz", "b"})}
		case r < 28:
			o = &prog.Op{Kind: "putBucketTagging", B: b, Tags: g.KVs([]string{"team", "env", "cost", "a b", "ü"}, 4)}
		case r < 33:
			o = &prog.Op{Kind: "getBucketTagging", B: b}
		case r < 36:
			o = &prog.Op{Kind: "deleteBucketTagging", B: b}
		case r < 44:
			o = &prog.Op{Kind: "putBucketPolicy", B: b, Policy: g.Policy(b), Valid: true}
		case r < 49:
			o = &prog.Op{Kind: "getBucketPolicy", B: b}
		case r < 52:
			o = &prog.Op{Kind: "deleteBucketPolicy", B: b}
		case r < 55:
			o = &prog.Op{Kind: "putBucketAcl", B: b, Canned: g.R.Pick([]string{"private", "public-read", "public-read-write"})}
		case r < 58:
			// grant headers: 1–4 (permission, account) pairs, the same account often under several permissions
			o = &prog.Op{Kind: "putBucketAclGrants", B: b}
			accs := []string{"usr1", "usr2", "up1"}
			for i := 1 + g.R.Intn(4); i > 0; i-- {
				o.Grants = append(o.Grants, [2]string{g.R.Pick([]string{"FULL_CONTROL", "READ", "READ_ACP", "WRITE", "WRITE_ACP"}), accs[g.R.Intn(2+g.R.Intn(2))]})
			}
			if g.R.Chance(45) {
				o.Mode = "xml" // as an AccessControlPolicy document instead of grant headers
			}
		case r < 63:
			o = &prog.Op{Kind: "getBucketAcl", B: b}
		case r < 68:
			o = &prog.Op{Kind: "putOwnership", B: b, Own: g.R.Pick([]string{"BucketOwnerPreferred", "ObjectWriter", "BucketOwnerEnforced"})}
		case r < 72:
			o = &prog.Op{Kind: "getOwnership", B: b}
		case r < 74:
			o = &prog.Op{Kind: "deleteOwnership", B: b}
		case r < 80:
			o = &prog.Op{Kind: "putVersioning", B: b, On: g.R.Chance(60)}
		case r < 84:
			o = &prog.Op{Kind: "getVersioning", B: b}
		case r < 88:
			o = &prog.Op{Kind: "putLockConfig", B: b, On: true}
			if g.R.Chance(60) {
				o.Mode, o.Days = g.R.Pick([]string{"G", "C"}), 1+g.R.Intn(3)
			}
		case r < 92:
			o = &prog.Op{Kind: "getLockConfig", B: b}
		case r < 96:
			// object names of every shape keep a bucket non-empty: plain, nested, dot-files, names that resemble
			// the gateway's own bookkeeping directory
			o = &prog.Op{Kind: "putObject", B: b, K: c16Keys[g.R.Intn(len(c16Keys))], Put: g.PutSpec(), Valid: true}
		default:
			o = &prog.Op{Kind: "deleteObject", B: b, K: c16Keys[g.R.Intn(len(c16Keys))]}
		}
		o.Caller = caller
		ops = append(ops, o)
	}
	// read every setting of every bucket at the end (after the restart done by the runner)
	for _, b := range names {
		for _, k := range []string{"getBucketTagging", "getBucketPolicy", "getBucketAcl", "getOwnership", "getVersioning", "getLockConfig"} {
			ops = append(ops, &prog.Op{Kind: k, Caller: "root", B: b})
		}
	}
	ops = append(ops, &prog.Op{Kind: "listBuckets", Caller: "root"}, &prog.Op{Kind: "listBuckets", Caller: "u:up1"})
	return ops
}

// c16DeleteProgram: DeleteBucket against buckets whose only content has one particular shape (dot-files,
// nested keys, names resembling the bookkeeping directory, a delete marker only, old versions only, an
// upload in progress only), then emptied step by step with a DeleteBucket attempt after every step.
func c16DeleteProgram(versioned bool) func(g *prog.Gen, idx int) []*prog.Op {
	shapes := [][]string{{".hidden"}, {".well-known/acme", ".htaccess"}, {".sgwtmp.bak/x"}, {"k1"}, {"dir/sub/k2"}, {"..."}, {".a", "b"}}
	return func(g *prog.Gen, idx int) []*prog.Op {
		b := "del-bkt"
		keys := shapes[idx%len(shapes)]
		ops := []*prog.Op{{Kind: "createBucket", Caller: "root", B: b, Valid: true},
			{Kind: "putBucketTagging", Caller: "root", B: b, Tags: g.KVs([]string{"team", "env"}, 2)},
			{Kind: "putBucketPolicy", Caller: "root", B: b, Policy: g.Policy(b), Valid: true}}
		if versioned {
			ops = append(ops, &prog.Op{Kind: "putVersioning", Caller: "root", B: b, On: true})
		}
		for _, k := range keys {
			ops = append(ops, &prog.Op{Kind: "putObject", Caller: "root", B: b, K: k, Put: g.PutSpec(), Valid: true})
			if versioned && g.R.Chance(50) {
				ops = append(ops, &prog.Op{Kind: "putObject", Caller: "root", B: b, K: k, Put: g.PutSpec(), Valid: true})
			}
		}
		ops = append(ops, &prog.Op{Kind: "deleteBucket", Caller: "root", B: b}, &prog.Op{Kind: "headBucket", Caller: "root", B: b})
		for _, k := range keys {
			ops = append(ops, &prog.Op{Kind: "getObject", Caller: "root", B: b, K: k})
			// in a versioned bucket this only adds a delete marker: the bucket stays non-empty
			ops = append(ops, &prog.Op{Kind: "deleteObject", Caller: "root", B: b, K: k}, &prog.Op{Kind: "deleteBucket", Caller: "root", B: b}, &prog.Op{Kind: "headBucket", Caller: "root", B: b})
		}
		if versioned {
			ops = append(ops, &prog.Op{Kind: "listVersions", Caller: "root", B: b})
		} else {
			// the bucket is gone now: a bucket created again under the same name starts without the old settings
			ops = append(ops, &prog.Op{Kind: "createBucket", Caller: "u:up1", B: b, Valid: true},
				&prog.Op{Kind: "getBucketTagging", Caller: "root", B: b}, &prog.Op{Kind: "getBucketPolicy", Caller: "root", B: b},
				&prog.Op{Kind: "getBucketAcl", Caller: "root", B: b}, &prog.Op{Kind: "getOwnership", Caller: "root", B: b})
		}
		ops = append(ops, &prog.Op{Kind: "listBuckets", Caller: "root"})
		return ops
	}
}

func c16Classify(s *prog.Step, class string) (string, string) {
	if class == "fine" {
		return "correspondence", s.Op.Kind + ":error-code"
	}
	return "property", "bucket:" + s.Op.Kind + ":" + class
}

func init() {
	fam := func(name string, versioning, sidecar bool, off int64, q, t int) checkFn {
		return func(a lib.Args, res *lib.Result) error {
			return runPrograms(a, res, progOpts{name: name, prop: "C16", programs: tierN(a, q, t), gen: c16Program, versioning: versioning, sidecar: sidecar,
				nGateways: 2, classify: c16Classify, seedOff: off, restartBeforeLast: 6*6 + 2})
		}
	}
	checks["c16"] = checkDef{"C16",
		"(1) bucket names: every string of length ≤ 4 (thorough ≤ 7) over {a,0,.,-,A} plus structured random names (IP-like, length 1-65, mixed pieces) judged by utils.IsValidBucketName and by Model.BucketName (= Spec.BucketName.Valid by theorem); (2) lifecycle/settings programs: 2-5 buckets by three owners with random ownership/ACL/lock, then 10-40 random creates (incl. existing), deletes, ListBuckets (prefix, max-buckets, continuation token; admin and non-admin), put/get/delete of tags, policy, ACL, ownership controls, versioning, lock configuration, by four callers; both gateway processes are restarted before the final read-back of every setting. Non-trivial: names of length 3-63 / programs reaching a bucket; distinct by name / op list.",
		[]checkFn{c16Names, c16Race, fam("settings-xattr-vdir", true, false, 1601, 120, 3000), fam("settings-sidecar", false, true, 1602, 40, 1000),
			func(a lib.Args, res *lib.Result) error {
				return runPrograms(a, res, progOpts{name: "delete-nonempty", prop: "C16", programs: tierN(a, 14, 280), gen: c16DeleteProgram(false), nGateways: 1, classify: c16Classify, seedOff: 1603})
			},
			func(a lib.Args, res *lib.Result) error {
				return runPrograms(a, res, progOpts{name: "delete-nonempty-sidecar", prop: "C16", programs: tierN(a, 7, 140), gen: c16DeleteProgram(false), sidecar: true, nGateways: 1, classify: c16Classify, seedOff: 1605})
			},
			func(a lib.Args, res *lib.Result) error {
				return runPrograms(a, res, progOpts{name: "delete-nonempty-versioned", prop: "C16", programs: tierN(a, 14, 280), gen: c16DeleteProgram(true), versioning: true, nGateways: 1, classify: c16Classify, seedOff: 1604})
			}}}
}
