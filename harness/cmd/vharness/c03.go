package main

import (
	"verif/harness/lib"
	"verif/harness/prog"
)

// every op kind that targets a bucket or an object, as a template acting on (b, k)
func c03Templates(g *prog.Gen, b, k, other string) []*prog.Op {
	ps := g.PutSpec()
	return []*prog.Op{
		{Kind: "deleteBucket", B: b}, {Kind: "headBucket", B: b},
		{Kind: "putBucketPolicy", B: b, Policy: g.Policy(b), Valid: true}, {Kind: "getBucketPolicy", B: b}, {Kind: "deleteBucketPolicy", B: b},
		{Kind: "putBucketAcl", B: b, Canned: "public-read"}, {Kind: "getBucketAcl", B: b},
		{Kind: "putBucketTagging", B: b, Tags: []prog.KV{{K: "a", V: "b"}}}, {Kind: "getBucketTagging", B: b}, {Kind: "deleteBucketTagging", B: b},
		{Kind: "putOwnership", B: b, Own: "ObjectWriter"}, {Kind: "getOwnership", B: b}, {Kind: "deleteOwnership", B: b},
		{Kind: "putObject", B: b, K: k, Put: ps}, {Kind: "getObject", B: b, K: k}, {Kind: "headObject", B: b, K: k},
		{Kind: "deleteObject", B: b, K: k}, {Kind: "deleteObjects", B: b, Keys: [][2]string{{k, ""}}},
		{Kind: "copyObject", SB: b, SK: k, B: b, K: k + "-copy"},
		{Kind: "copyObject", SB: other, SK: k, B: b, K: k + "-copy2"},
		{Kind: "copyObject", SB: b, SK: k, B: other, K: k + "-copy3"},
		{Kind: "putObjectTagging", B: b, K: k, Tags: []prog.KV{{K: "a", V: "b"}}}, {Kind: "getObjectTagging", B: b, K: k}, {Kind: "deleteObjectTagging", B: b, K: k},
	}
}

var c03Actions = []string{"s3:GetObject", "s3:PutObject", "s3:DeleteObject", "s3:ListBucket", "s3:GetBucketPolicy", "s3:PutBucketPolicy",
	"s3:DeleteBucketPolicy", "s3:GetBucketAcl", "s3:PutBucketAcl", "s3:GetBucketTagging", "s3:PutBucketTagging", "s3:GetObjectTagging",
	"s3:PutObjectTagging", "s3:DeleteObjectTagging", "s3:DeleteBucket", "s3:PutBucketOwnershipControls", "s3:GetBucketOwnershipControls"}

// c03Discriminating: for one (template op, action, resource shape, caller) the bucket policy
// allows exactly that action on exactly that resource to exactly that caller; the op must then
// succeed or be refused exactly as Model.Gw decides. This derives the implementation's own
// route → (action, resource) requirement black-box.
func c03Discriminating(g *prog.Gen, idx int) []*prog.Op {
	b, other, k := "bkt-a", "bkt-b", g.Keys[g.R.Intn(len(g.Keys))]
	tmpl := c03Templates(g, b, k, other)
	t := tmpl[idx%len(tmpl)]
	action := c03Actions[(idx/len(tmpl))%len(c03Actions)]
	if g.R.Chance(15) {
		action = "s3:*"
	}
	user := []string{"usr1", "usr2", "up1"}[g.R.Intn(3)]
	res := []string{b, b + "/*", b + "/" + k, b + "/" + k + "-copy", other + "/*"}
	pol := &prog.Policy{ID: 1000 + idx, Stmts: []prog.Stmt{{Allow: true, Principals: []string{user}, Actions: []string{action}}}}
	_ = res
	// resources: always a bucket pattern plus an object pattern (valid for every action kind),
	// the object pattern being exact, a glob, or a different key
	objPat := []string{b + "/*", b + "/" + k, b + "/" + k + "-copy", b + "/d*", b + "/" + k + "?????"}[g.R.Intn(5)]
	pol.Stmts[0].Resources = []string{b, objPat}
	if g.R.Chance(25) {
		pol.Stmts = append(pol.Stmts, prog.Stmt{Allow: false, Principals: []string{"*"}, Actions: []string{action}, Resources: []string{b, b + "/" + k}})
	}
	ops := []*prog.Op{
		{Kind: "createBucket", Caller: "root", B: b, Own: "BucketOwnerPreferred", Valid: true},
		{Kind: "createBucket", Caller: "root", B: other, Own: "BucketOwnerPreferred", Valid: true},
		{Kind: "putObject", Caller: "root", B: b, K: k, Put: g.PutSpec(), Valid: true},
		{Kind: "putObject", Caller: "root", B: other, K: k, Put: g.PutSpec(), Valid: true},
		{Kind: "putObjectTagging", Caller: "root", B: b, K: k, Tags: []prog.KV{{K: "t", V: "v"}}},
		{Kind: "putBucketTagging", Caller: "root", B: b, Tags: []prog.KV{{K: "t", V: "v"}}},
	}
	// the policy goes on the bucket whose policy decides: both buckets get it (resources name b)
	ops = append(ops, &prog.Op{Kind: "putBucketPolicy", Caller: "root", B: b, Policy: pol, Valid: true})
	if g.R.Chance(50) {
		p2 := *pol
		p2.ID = 5000 + idx
		p2.Stmts = []prog.Stmt{{Allow: true, Principals: []string{user}, Actions: []string{action}, Resources: []string{other, other + "/*"}}}
		ops = append(ops, &prog.Op{Kind: "putBucketPolicy", Caller: "root", B: other, Policy: &p2, Valid: true})
	}
	op := *t
	op.Caller = "u:" + user
	op.Valid = true
	ops = append(ops, &op)
	// observe the effect (or its absence) as root
	ops = append(ops, &prog.Op{Kind: "getObject", Caller: "root", B: b, K: k}, &prog.Op{Kind: "getBucketAcl", Caller: "root", B: b},
		&prog.Op{Kind: "getObjectTagging", Caller: "root", B: b, K: k}, &prog.Op{Kind: "listBuckets", Caller: "root"})
	return ops
}

func c03Classify(s *prog.Step, class string) (string, string) {
	if class == "fine" {
		return "correspondence", s.Op.Kind + ":error-code"
	}
	return "property", "access:" + s.Op.Kind + ":" + class
}

// c03MultipartNext: multipart operations by non-admin callers under random bucket policies (incl. key- and
// prefix-specific Allow / Deny statements): CreateMultipartUpload, UploadPart, UploadPartCopy (sources in the
// same and in another bucket, plain and over-escaped spellings of the copy source), ListParts,
// ListMultipartUploads, Complete, Abort. Every answer compared with Model.Gw.step.
func c03MultipartNext(g *prog.Gen, idx int, hist []*prog.Step) *prog.Op {
	bs := []string{"bkt-a", "bkt-b"}
	keys := []string{"k1", "dir/k2", "dir/sub/k3", "obj.txt"}
	n := len(hist)
	total := 24 + idx%12
	switch {
	case n < 2:
		return &prog.Op{Kind: "createBucket", Caller: []string{"root", "u:up1"}[g.R.Intn(2)], B: bs[n], Valid: true}
	case n < 2+len(keys):
		return &prog.Op{Kind: "putObject", Caller: "root", B: bs[(n-2)%2], K: keys[n-2], Put: &prog.PutSpec{Data: []prog.Seg{{Seed: 3300 + n, Off: 0, Len: 300}}}, Valid: true}
	case n < 4+len(keys):
		b := bs[n-2-len(keys)]
		return &prog.Op{Kind: "putBucketPolicy", Caller: "root", B: b, Policy: g.Policy(b), Valid: true}
	case n >= total:
		return nil
	}
	ups := c08Uploads(hist)
	var open []*c08Upload
	for _, u := range ups {
		if !u.done {
			open = append(open, u)
		}
	}
	caller := []string{"root", "u:up1", "u:usr1", "u:usr2", "u:adm1"}[g.R.Intn(5)]
	b := bs[g.R.Intn(2)]
	bucketOf := func(u *c08Upload) string {
		for _, s := range hist {
			if s.Op.Kind == "createUpload" && s.Obs.NewID == u.id {
				return s.Op.B
			}
		}
		return b
	}
	r := g.R.Intn(100)
	if len(open) == 0 && r >= 20 {
		r = 0
	}
	switch {
	case r < 20:
		return &prog.Op{Kind: "createUpload", Caller: caller, B: b, K: keys[g.R.Intn(len(keys))], Put: &prog.PutSpec{}, Valid: true}
	case r < 35:
		u := open[g.R.Intn(len(open))]
		return &prog.Op{Kind: "uploadPart", Caller: caller, B: bucketOf(u), K: u.key, UpID: u.id, Num: 1 + g.R.Intn(3), Data: []prog.Seg{{Seed: 3400 + n, Off: 0, Len: 1 + g.R.Intn(400)}}}
	case r < 70:
		u := open[g.R.Intn(len(open))]
		return &prog.Op{Kind: "uploadPartCopy", Caller: caller, B: bucketOf(u), K: u.key, UpID: u.id, Num: 1 + g.R.Intn(3),
			SB: bs[g.R.Intn(2)], SK: keys[g.R.Intn(len(keys))], SrcOver: g.R.Chance(50)}
	case r < 78:
		u := open[g.R.Intn(len(open))]
		return &prog.Op{Kind: "listParts", Caller: caller, B: bucketOf(u), K: u.key, UpID: u.id}
	case r < 84:
		return &prog.Op{Kind: "listUploads", Caller: caller, B: b}
	case r < 92:
		u := open[g.R.Intn(len(open))]
		o := &prog.Op{Kind: "completeUpload", Caller: caller, B: bucketOf(u), K: u.key, UpID: u.id}
		for k := 1; k <= 3; k++ {
			if et, ok := u.parts[k]; ok {
				o.Parts = append(o.Parts, prog.PartRef{Num: k, ETag: et})
				break // single-part completions: no minimum part size
			}
		}
		if len(o.Parts) == 0 {
			return &prog.Op{Kind: "listParts", Caller: caller, B: bucketOf(u), K: u.key, UpID: u.id}
		}
		return o
	default:
		u := open[g.R.Intn(len(open))]
		return &prog.Op{Kind: "abortUpload", Caller: caller, B: bucketOf(u), K: u.key, UpID: u.id}
	}
}

// c03BatchProgram: DeleteObjects under key-dependent policies: every key of the batch needs its own grant,
// wherever it stands in the batch.
func c03BatchProgram(g *prog.Gen, idx int) []*prog.Op {
	b := "bkt-a"
	keys := []string{"k1", "dir/k2", "dir/sub/k3", "obj.txt"}
	ops := []*prog.Op{{Kind: "createBucket", Caller: []string{"root", "u:up1"}[idx%2], B: b, Valid: true}}
	for _, k := range keys {
		ops = append(ops, &prog.Op{Kind: "putObject", Caller: "root", B: b, K: k, Put: &prog.PutSpec{Data: []prog.Seg{{Seed: 3500 + idx, Off: 0, Len: 40}}}, Valid: true})
	}
	pol := &prog.Policy{ID: 9000 + idx}
	res := []string{b + "/dir/*", b + "/k1", b + "/*.txt", b + "/dir/sub/*", b + "/*"}
	pol.Stmts = append(pol.Stmts, prog.Stmt{Allow: true, Principals: []string{"usr1", "usr2"}, Actions: []string{"s3:DeleteObject"}, Resources: []string{res[g.R.Intn(len(res))]}})
	if g.R.Chance(50) {
		pol.Stmts = append(pol.Stmts, prog.Stmt{Allow: false, Principals: []string{[]string{"usr1", "*"}[g.R.Intn(2)]}, Actions: []string{"s3:DeleteObject"}, Resources: []string{res[g.R.Intn(4)]}})
	}
	ops = append(ops, &prog.Op{Kind: "putBucketPolicy", Caller: "root", B: b, Policy: pol, Valid: true})
	for n := 3 + g.R.Intn(3); n > 0; n-- {
		o := &prog.Op{Kind: "deleteObjects", Caller: []string{"u:usr1", "u:usr2", "u:usr1"}[g.R.Intn(3)], B: b}
		g.R.Shuffle(len(keys), func(i, j int) { keys[i], keys[j] = keys[j], keys[i] })
		for _, k := range keys[:2+g.R.Intn(3)] {
			o.Keys = append(o.Keys, [2]string{k, ""})
		}
		ops = append(ops, o)
		for _, k := range []string{"k1", "dir/k2", "dir/sub/k3", "obj.txt"} {
			ops = append(ops, &prog.Op{Kind: "headObject", Caller: "root", B: b, K: k})
		}
	}
	return ops
}

// c03CopyVersionNext: CopyObject / UploadPartCopy / GET / DELETE naming a VERSION of the source under
// key-dependent policies (exact-key Deny next to a prefix Allow and the reverse) in a versioned bucket: the
// decision is about the key, whatever version id the request carries.
func c03CopyVersionNext(g *prog.Gen, idx int, hist []*prog.Step) *prog.Op {
	b, keys := "bkt-a", []string{"k1", "dir/k2", "obj.txt"}
	if idx%4 == 3 {
		// keys that differ only behind a '?': the resource of the decision is the whole key
		keys = []string{"rep", "rep?draft", "obj.txt"}
	}
	n := len(hist)
	total := 22 + idx%10
	switch {
	case n == 0:
		return &prog.Op{Kind: "createBucket", Caller: []string{"root", "u:up1"}[idx%2], B: b, Valid: true}
	case n == 1:
		return &prog.Op{Kind: "putVersioning", Caller: "root", B: b, On: true}
	case n < 2+2*len(keys):
		return &prog.Op{Kind: "putObject", Caller: "root", B: b, K: keys[(n-2)%len(keys)], Put: &prog.PutSpec{Data: []prog.Seg{{Seed: 3600 + n, Off: 0, Len: 30 + n}}}, Valid: true}
	case n == 2+2*len(keys):
		pol := &prog.Policy{ID: 9500 + idx}
		all := []string{"s3:GetObject", "s3:PutObject", "s3:DeleteObject", "s3:GetObjectVersion", "s3:ListBucket", "s3:GetObjectTagging", "s3:PutObjectTagging"}
		res := []string{b + "/dir/*", b + "/k1", b + "/*.txt", b + "/*", b + "/dir/k2", b + "/obj.txt"}
		pol.Stmts = append(pol.Stmts, prog.Stmt{Allow: true, Principals: []string{"usr1", "usr2"}, Actions: all, Resources: []string{b, res[3-g.R.Intn(2)*3+g.R.Intn(1)]}})
		pol.Stmts = append(pol.Stmts, prog.Stmt{Allow: false, Principals: []string{[]string{"usr1", "*"}[g.R.Intn(2)]},
			Actions: [][]string{{"s3:GetObject"}, {"s3:GetObject", "s3:GetObjectVersion"}, {"s3:DeleteObject"}, {"s3:*"}}[g.R.Intn(4)], Resources: []string{res[[]int{1, 4, 5, 0, 2}[g.R.Intn(5)]]}})
		if idx%4 == 3 {
			pol.Stmts = []prog.Stmt{{Allow: true, Principals: []string{"usr1", "usr2"}, Actions: all,
				Resources: []string{b, b + "/rep", b + "/copy-1", b + "/c.txt", b + "/dir/copy-2", b + "/mp-*"}}}
		}
		return &prog.Op{Kind: "putBucketPolicy", Caller: "root", B: b, Policy: pol, Valid: true}
	case n >= total:
		return nil
	}
	vids := c09KnownVids(hist)
	k := keys[g.R.Intn(len(keys))]
	vid := ""
	if len(vids[k]) > 0 && g.R.Chance(75) {
		vid = vids[k][g.R.Intn(len(vids[k]))]
	}
	caller := []string{"u:usr1", "u:usr2", "u:usr1", "u:up1"}[g.R.Intn(4)]
	ups := c08Uploads(hist)
	var open []*c08Upload
	for _, u := range ups {
		if !u.done {
			open = append(open, u)
		}
	}
	switch r := g.R.Intn(100); {
	case r < 40:
		return &prog.Op{Kind: "copyObject", Caller: caller, SB: b, SK: k, SVid: vid, B: b, K: []string{"copy-1", "dir/copy-2", "c.txt"}[g.R.Intn(3)], Valid: true}
	case r < 50:
		return &prog.Op{Kind: "createUpload", Caller: "root", B: b, K: "mp-" + k, Put: &prog.PutSpec{}, Valid: true}
	case r < 70 && len(open) > 0:
		u := open[g.R.Intn(len(open))]
		return &prog.Op{Kind: "uploadPartCopy", Caller: caller, B: b, K: u.key, UpID: u.id, Num: 1 + g.R.Intn(2), SB: b, SK: k, SVid: vid}
	case r < 85:
		return &prog.Op{Kind: "getObject", Caller: caller, B: b, K: k, Vid: vid}
	case r < 92:
		return &prog.Op{Kind: "getObjectTagging", Caller: caller, B: b, K: k, Vid: vid}
	default:
		return &prog.Op{Kind: "deleteObject", Caller: caller, B: b, K: k, Vid: vid}
	}
}

func init() {
	checks["c03"] = checkDef{"C03",
		"(1) discriminating-policy programs: for every stage-1 op template × every policy action, a policy allowing exactly one action on one resource shape to one caller (optionally with a Deny on the object), then that caller performs the op and root observes the effect; (2) random programs over buckets with different owners, canned ACLs, ownership settings and random valid policies, callers root/admin/userplus/user. Each step compared with Model.Gw.step. Non-trivial = program reaches an existing bucket; distinct by op list.",
		[]checkFn{c03TornPolicy, func(a lib.Args, res *lib.Result) error {
			n := 24 * len(c03Actions)
			if a.Thorough() {
				n *= 6
			}
			return runPrograms(a, res, progOpts{name: "discriminating", prop: "C03", programs: n, gen: c03Discriminating, classify: c03Classify, seedOff: 3})
		}, func(a lib.Args, res *lib.Result) error {
			return runPrograms(a, res, progOpts{name: "random-acl-policy", prop: "C03", programs: tierN(a, 400, 6000), maxOps: 40, classify: c03Classify, seedOff: 33})
		}, func(a lib.Args, res *lib.Result) error {
			return runPrograms(a, res, progOpts{name: "batch-delete-under-policy", prop: "C03", programs: tierN(a, 40, 800), gen: c03BatchProgram, classify: c03Classify, seedOff: 35})
		}, func(a lib.Args, res *lib.Result) error {
			return runPrograms(a, res, progOpts{name: "multipart-under-policy", prop: "C03", programs: tierN(a, 60, 1500), next: c03MultipartNext, classify: c03Classify, seedOff: 34})
		}, func(a lib.Args, res *lib.Result) error {
			return runPrograms(a, res, progOpts{name: "versions-under-policy", prop: "C03", programs: tierN(a, 60, 1500), next: c03CopyVersionNext, versioning: true, classify: c03Classify, seedOff: 36})
		}}}
}
