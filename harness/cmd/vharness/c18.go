package main

// C18 — the S3-proxy backend is transparent.
//
// Three real gateway processes on loopback:
//   D  posix backend (the "endpoint used directly")
//   B  posix backend on a second, separate storage (the endpoint behind the proxy; TLS, self-signed)
//   P  `versitygw … s3 --endpoint https://127.0.0.1:<B> --access <root> --secret <…> --ssl-skip-verify`
// All three have the same root credentials and the same IAM accounts (each in its own --iam-dir), so
// that the same logical callers exist everywhere. The SAME program (a pure value: server-chosen ids
// are referred to by tokens `#u<n>` = upload id answered at step n, `#v<n>` = version id, `#e<n>` =
// ETag, `#t<n>` = continuation token / next marker) is executed op by op against P and against D;
// the two raw HTTP answers are canonicalised (ids -> tokens, grey members masked) and diffed field
// by field. A difference is a violation of C18 with signature `proxy:<op>[:<input class>]:<field>`.
// A program ends at the first mutating step that succeeds on one side only.
//
// Sub-checks (each a checkFn): c18Corpus (c18corpus.go), c18Probe (c18probe.go), c18Acl
// (c18acl.go), c18Stage1 and the c18Family runs (generators in c18gen.go).
//
// Grey zones (not decided by the property; masked, never judged) — see c18GreyHeaders,
// c18GreyElems, c18StripAwsChunked, the x-amz-checksum-* rule in c18Canon, the truncated
// ListMultipartUploads rule in c18Canon, c18Gen.noPartNumber:
//   * Date, Server, x-amz-request-id, x-amz-id-2, Last-Modified, Connection; Content-Length and
//     Content-Type of XML / empty answers; LastModified, Initiated, CreationDate, DisplayName,
//     RequestId, HostId, Message, Resource members; an empty XML member = an omitted one;
//   * of a refusal only status and error code are compared;
//   * upload ids / version ids (compared through the step that created them); the order of the
//     uploads of one key and which of them a truncated page or HEAD ?partNumber picks (random ids);
//   * order of tags in a TagSet, of Deleted/Error entries of a DeleteResult;
//   * the `aws-chunked` token of Content-Encoding and x-amz-checksum-* headers on reads the client
//     did not ask checksums for (both come from the trusted SDK's own transfer choices);
//   * a gateway reporting ENOSPC / EMFILE (the machine, not the property) ends the program.

import (
	"bytes"
	"crypto/ecdsa"
	"crypto/elliptic"
	"crypto/md5"
	crand "crypto/rand"
	"crypto/sha256"
	"crypto/x509"
	"crypto/x509/pkix"
	"encoding/base64"
	"encoding/hex"
	"encoding/json"
	"encoding/pem"
	"encoding/xml"
	"fmt"
	"math/big"
	"net"
	"os"
	"path/filepath"
	"regexp"
	"sort"
	"strconv"
	"strings"
	"time"

	"verif/harness/gw"
	"verif/harness/lib"
	"verif/harness/prog"
)

// ---------------------------------------------------------------- ops

// c18Op: an op of prog's vocabulary (Kind without prefix) or of the extended vocabulary
// (Kind `x:<name>`: XQ = extra query parameters, XH = extra request headers).
type c18Op struct {
	prog.Op
	XQ []prog.KV `json:",omitempty"`
	XH []prog.KV `json:",omitempty"`
}

func (o *c18Op) name() string { return strings.TrimPrefix(o.Kind, "x:") }

// ---------------------------------------------------------------- one side (P or D)

type c18Side struct {
	name string
	w    *prog.World
	upid map[int]string
	vid  map[int]string
	etag map[int]string
	tok  map[int]string
	rev  []string // id, token, id, token … for the reverse mapping
}

func c18NewSide(name string, w *prog.World) *c18Side {
	return &c18Side{name: name, w: w, upid: map[int]string{}, vid: map[int]string{}, etag: map[int]string{}, tok: map[int]string{}}
}

var c18TokRe = regexp.MustCompile(`#([uvet])(\d+)`)

func (s *c18Side) sub(x string) string {
	if !strings.Contains(x, "#") {
		return x
	}
	return c18TokRe.ReplaceAllStringFunc(x, func(m string) string {
		p := c18TokRe.FindStringSubmatch(m)
		n, _ := strconv.Atoi(p[2])
		var v string
		var ok bool
		switch p[1] {
		case "u":
			v, ok = s.upid[n]
		case "v":
			v, ok = s.vid[n]
		case "e":
			v, ok = s.etag[n]
		case "t":
			v, ok = s.tok[n]
		}
		if !ok {
			return "unresolved-" + p[1] + p[2]
		}
		return v
	})
}

func (s *c18Side) canon(x string) string {
	if len(s.rev) == 0 {
		return x
	}
	return strings.NewReplacer(s.rev...).Replace(x)
}

func (s *c18Side) learnID(id, token string) {
	if id == "" || id == "null" {
		return
	}
	for i := 0; i < len(s.rev); i += 2 {
		if s.rev[i] == id {
			return
		}
	}
	s.rev = append(s.rev, id, token)
}

var (
	c18ReUploadID = regexp.MustCompile(`<UploadId>([^<]+)</UploadId>`)
	c18ReETag     = regexp.MustCompile(`<ETag>([^<]+)</ETag>`)
	c18ReNextTok  = regexp.MustCompile(`<(NextContinuationToken|NextMarker|NextKeyMarker|NextPartNumberMarker)>([^<]+)</`)
	c18ReAnyVid   = regexp.MustCompile(`<(VersionId|DeleteMarkerVersionId)>([^<]+)</`)
)

// learn records the server-chosen values of step n's answer.
func (s *c18Side) learn(n int, o *c18Op, r gw.Resp) {
	if r.Status < 200 || r.Status >= 300 {
		return
	}
	if v := r.Headers.Get("x-amz-version-id"); v != "" {
		s.vid[n] = v
		s.learnID(v, fmt.Sprintf("#v%d", n))
	}
	if v := r.Headers.Get("ETag"); v != "" {
		s.etag[n] = v
	}
	if o.name() == "getObject" {
		return
	}
	body := string(r.Body)
	if m := c18ReUploadID.FindStringSubmatch(body); m != nil && o.name() == "createUpload" {
		s.upid[n] = m[1]
		s.learnID(m[1], fmt.Sprintf("#u%d", n))
	}
	if m := c18ReETag.FindStringSubmatch(body); m != nil && s.etag[n] == "" {
		s.etag[n] = c18XmlUnescape(m[1])
	}
	if m := c18ReNextTok.FindStringSubmatch(body); m != nil {
		s.tok[n] = c18XmlUnescape(m[2])
	}
	for i, m := range c18ReAnyVid.FindAllStringSubmatch(body, -1) {
		s.learnID(m[2], fmt.Sprintf("#w%d.%d", n, i))
	}
}

func c18XmlUnescape(s string) string {
	var v struct {
		X string `xml:",chardata"`
	}
	if xml.Unmarshal([]byte("<a>"+s+"</a>"), &v) == nil {
		return v.X
	}
	return s
}

// exec runs op number n on this side.
func (s *c18Side) exec(n int, o *c18Op) *prog.Obs {
	if !strings.HasPrefix(o.Kind, "x:") {
		c := o.Op // copy; substitute tokens
		c.UpID, c.Vid, c.SVid, c.Token = s.sub(c.UpID), s.sub(c.Vid), s.sub(c.SVid), s.sub(c.Token)
		if len(c.Parts) > 0 {
			c.Parts = append([]prog.PartRef{}, c.Parts...)
			for i := range c.Parts {
				c.Parts[i].ETag = s.sub(c.Parts[i].ETag)
			}
		}
		if len(c.Keys) > 0 {
			c.Keys = append([][2]string{}, c.Keys...)
			for i := range c.Keys {
				c.Keys[i][1] = s.sub(c.Keys[i][1])
			}
		}
		obs := s.w.Exec(&c)
		s.learn(n, o, obs.Raw)
		return obs
	}
	req := gw.Req{}
	bpath := "/" + gw.EncodePath(o.B)
	kpath := bpath + "/" + gw.EncodePath(o.K)
	var q []string
	addq := func(k, v string) {
		if v == "" {
			q = append(q, k)
		} else {
			q = append(q, k+"="+gw.EncodeQueryValue(s.sub(v)))
		}
	}
	switch o.name() {
	case "listObjects":
		req.Method, req.Path = "GET", bpath
	case "listObjectsV2":
		req.Method, req.Path = "GET", bpath
		addq("list-type", "2")
	case "listVersions":
		req.Method, req.Path = "GET", bpath
		addq("versions", "")
	case "listUploads":
		req.Method, req.Path = "GET", bpath
		addq("uploads", "")
	case "listParts":
		req.Method, req.Path = "GET", kpath
		addq("uploadId", o.UpID)
	case "getObject":
		req.Method, req.Path = "GET", kpath
	case "headObject":
		req.Method, req.Path = "HEAD", kpath
	case "getObjectAttributes":
		req.Method, req.Path = "GET", kpath
		addq("attributes", "")
	case "putObject":
		req.Method, req.Path, req.Body = "PUT", kpath, prog.Expand(o.Put.Data)
		s.w.PutHeaders(&req, o.Put)
	case "createUpload":
		req.Method, req.Path = "POST", kpath
		addq("uploads", "")
		s.w.PutHeaders(&req, o.Put)
	case "copyObject":
		req.Method, req.Path = "PUT", kpath
		src := gw.EncodePath(o.SB + "/" + o.SK)
		if o.SVid != "" {
			src += "?versionId=" + s.sub(o.SVid)
		}
		req.Set("x-amz-copy-source", src)
		if o.Put != nil {
			s.w.PutHeaders(&req, o.Put)
		}
	case "uploadPart":
		req.Method, req.Path, req.Body = "PUT", kpath, prog.Expand(o.Data)
		addq("uploadId", o.UpID)
		addq("partNumber", strconv.Itoa(o.Num))
	case "createBucket":
		req.Method, req.Path = "PUT", bpath
	case "putBucketAcl":
		req.Method, req.Path = "PUT", bpath
		addq("acl", "")
	case "completeUpload":
		req.Method, req.Path = "POST", kpath
		addq("uploadId", o.UpID)
		var b bytes.Buffer
		b.WriteString(`<CompleteMultipartUpload xmlns="http://s3.amazonaws.com/doc/2006-03-01/">`)
		for _, p := range o.Parts {
			fmt.Fprintf(&b, "<Part><PartNumber>%d</PartNumber><ETag>", p.Num)
			xml.EscapeText(&b, []byte(s.sub(p.ETag)))
			b.WriteString("</ETag></Part>")
		}
		b.WriteString(`</CompleteMultipartUpload>`)
		req.Body = b.Bytes()
	default:
		return &prog.Obs{Code: "HARNESS:unknown-op:" + o.Kind}
	}
	if o.Vid != "" {
		addq("versionId", o.Vid)
	}
	for _, kv := range o.XQ {
		addq(kv.K, kv.V)
	}
	for _, kv := range o.XH {
		v := s.sub(kv.V)
		switch {
		case strings.HasPrefix(v, "=sum:"):
			v = gw.ChecksumB64(v[5:], req.Body)
		case v == "=md5":
			m := md5.Sum(req.Body)
			v = base64.StdEncoding.EncodeToString(m[:])
		}
		req.Set(kv.K, v)
	}
	req.Query = strings.Join(q, "&")
	obs := s.w.ExecRaw(o.Caller, req)
	s.learn(n, o, obs.Raw)
	return obs
}

// ---------------------------------------------------------------- canonical observation

// Grey zones (not decided by the property; masked before the comparison):
var c18GreyHeaders = map[string]string{
	"date":             "server clock",
	"server":           "server software banner",
	"x-amz-request-id": "request id chosen per request",
	"x-amz-id-2":       "host id chosen per request",
	"last-modified":    "server clock at the time of the write (second granularity, two different processes)",
	"connection":       "hop-by-hop",
	"content-length":   "of XML documents: depends on the length of server-chosen ids (compared as `size` on object GET/HEAD only)",
}

var c18GreyElems = map[string]string{
	"LastModified": "server clock", "Initiated": "server clock", "CreationDate": "server clock",
	"DisplayName": "owner display names", "RequestId": "per request", "HostId": "per request",
	"Message": "error message text (the property names status and error code)", "Resource": "error document detail",
}

type c18Obs struct {
	Fields map[string]string // field name -> canonical value
}

type c18Xnode struct {
	name string
	text string
	kids []*c18Xnode
}

func c18ParseXML(b []byte) *c18Xnode {
	d := xml.NewDecoder(bytes.NewReader(b))
	root := &c18Xnode{name: ""}
	stack := []*c18Xnode{root}
	for {
		t, err := d.Token()
		if err != nil {
			break
		}
		switch e := t.(type) {
		case xml.StartElement:
			n := &c18Xnode{name: e.Name.Local}
			for _, a := range e.Attr {
				if a.Name.Local == "type" {
					n.kids = append(n.kids, &c18Xnode{name: "@type", text: a.Value})
				}
			}
			top := stack[len(stack)-1]
			top.kids = append(top.kids, n)
			stack = append(stack, n)
		case xml.EndElement:
			if len(stack) > 1 {
				stack = stack[:len(stack)-1]
			}
		case xml.CharData:
			stack[len(stack)-1].text += string(e)
		}
	}
	return root
}

func (n *c18Xnode) render(canon func(string) string) string {
	if len(n.kids) == 0 {
		return n.name + "=" + strconv.Quote(canon(strings.TrimSpace(n.text)))
	}
	var p []string
	for _, k := range n.kids {
		p = append(p, k.render(canon))
	}
	return n.name + "{" + strings.Join(p, " ") + "}"
}

// c18FlattenXML turns the XML document into fields: `xml:<path>` -> the list of the values found at
// that path (in document order, entries of a repeated element joined by " | "), so that a
// difference is named by the member that differs (`xml:Contents.Owner.ID`), not by the entry.
// Empty values are dropped: an empty element and an omitted element are the same observation.
func c18FlattenXML(root *c18Xnode, canon func(string) string, out map[string]string, unordered map[string]bool) {
	if len(root.kids) == 0 {
		return
	}
	doc := root.kids[0]
	out["xml:root"] = doc.name
	c18Mask(doc)
	if len(unordered) > 0 {
		sort.SliceStable(doc.kids, func(i, j int) bool {
			a, b := doc.kids[i], doc.kids[j]
			if a.name != b.name || !unordered[a.name] {
				return false
			}
			return a.render(canon) < b.render(canon)
		})
	}
	vals := map[string][]string{}
	var walk func(n *c18Xnode, path string)
	walk = func(n *c18Xnode, path string) {
		if len(n.kids) == 0 {
			vals[path] = append(vals[path], canon(strings.TrimSpace(n.text)))
			return
		}
		for _, k := range n.kids {
			walk(k, path+"."+k.name)
		}
	}
	for _, k := range doc.kids {
		walk(k, k.name)
	}
	for path, v := range vals {
		nonEmpty := false
		for _, x := range v {
			if x != "" {
				nonEmpty = true
			}
		}
		if nonEmpty {
			out["xml:"+path] = strings.Join(v, " | ")
		}
	}
}

func c18Mask(n *c18Xnode) {
	kept := n.kids[:0]
	for _, k := range n.kids {
		if _, grey := c18GreyElems[k.name]; grey {
			continue
		}
		c18Mask(k)
		kept = append(kept, k)
	}
	n.kids = kept
}

func c18Canon(s *c18Side, o *c18Op, obs *prog.Obs) c18Obs {
	f := map[string]string{}
	r := obs.Raw
	f["status"] = strconv.Itoa(r.Status)
	if r.Err != nil && r.Status == 0 {
		f["status"] = "transport-error"
		return c18Obs{f}
	}
	isObj := o.name() == "getObject" || o.name() == "headObject"
	ok := r.Status >= 200 && r.Status < 300
	if !ok {
		f["code"] = r.ErrCode()
		return c18Obs{f}
	}
	askedChecksum := false
	for _, h := range o.XH {
		if strings.EqualFold(h.K, "x-amz-checksum-mode") {
			askedChecksum = true
		}
	}
	for k, v := range r.Headers {
		lk := strings.ToLower(k)
		if _, grey := c18GreyHeaders[lk]; grey && !(lk == "content-length" && isObj) {
			continue
		}
		if lk == "content-length" {
			lk = "size"
		}
		if lk == "content-type" && !isObj {
			continue // of XML / empty answers: not an object attribute
		}
		val := s.canon(strings.Join(v, ","))
		if strings.HasPrefix(lk, "x-amz-checksum-") && isObj && !askedChecksum {
			continue // grey: the SDK inside the proxy enables checksum mode on its own reads
		}
		if lk == "content-encoding" {
			val = c18StripAwsChunked(val)
			if val == "" {
				continue
			}
		}
		f["hdr:"+lk] = val
	}
	if o.name() == "getObject" {
		f["body"] = fmt.Sprintf("%d:", len(r.Body)) + c18DigestBytes(r.Body)
		return c18Obs{f}
	}
	if o.name() == "getBucketPolicy" {
		f["body"] = string(r.Body)
		return c18Obs{f}
	}
	if len(bytes.TrimSpace(r.Body)) > 0 {
		unordered := map[string]bool{}
		switch o.name() {
		case "listUploads":
			unordered["Upload"] = true // uploads of one key are ordered by their random ids
		case "deleteObjects":
			unordered["Deleted"], unordered["Error"] = true, true
		case "getBucketTagging", "getObjectTagging":
			// TagSet is one nested element; order of tags inside is map order on the proxy side
		}
		root := c18ParseXML(r.Body)
		if o.name() == "getBucketTagging" || o.name() == "getObjectTagging" {
			c18SortTagSet(root)
		}
		c18FlattenXML(root, s.canon, f, unordered)
		if o.name() == "listUploads" && f["xml:IsTruncated"] == "true" {
			// grey zone: uploads of one key are ordered by their server-chosen (random) ids, so
			// WHICH of them a page limit keeps is not determined; keys and counts still are
			for k := range f {
				if strings.HasPrefix(k, "xml:Upload.") && k != "xml:Upload.Key" || k == "xml:NextUploadIdMarker" {
					delete(f, k)
				}
			}
		}
	}
	return c18Obs{f}
}

// c18StripAwsChunked: `aws-chunked` is the transfer coding the (trusted) SDK inside the proxy chooses
// for its upload; the posix endpoint stores the Content-Encoding value verbatim, so a direct SDK
// client would see the same token. Grey zone.
func c18StripAwsChunked(v string) string {
	var keep []string
	for _, p := range strings.Split(v, ",") {
		if t := strings.TrimSpace(p); t != "" && t != "aws-chunked" {
			keep = append(keep, t)
		}
	}
	return strings.Join(keep, ",")
}

func c18SortTagSet(n *c18Xnode) {
	for _, k := range n.kids {
		if k.name == "TagSet" {
			sort.Slice(k.kids, func(i, j int) bool {
				return k.kids[i].render(func(s string) string { return s }) < k.kids[j].render(func(s string) string { return s })
			})
		}
		c18SortTagSet(k)
	}
}

func c18DigestBytes(b []byte) string {
	h := sha256.Sum256(b)
	return hex.EncodeToString(h[:10])
}

// diff returns the names of the fields on which the two observations differ. When one side
// succeeds and the other refuses, the only field is `status` (the rest is a consequence); when
// both refuse, `status` and `code` are compared.
func c18Diff(p, d c18Obs) []string {
	var out []string
	if p.Fields["status"] != d.Fields["status"] {
		return []string{"status"}
	}
	for k, v := range d.Fields {
		if pv, ok := p.Fields[k]; !ok || pv != v {
			out = append(out, k)
		}
	}
	for k := range p.Fields {
		if _, ok := d.Fields[k]; !ok {
			out = append(out, k)
		}
	}
	sort.Strings(out)
	return out
}

// ---------------------------------------------------------------- environment

type c18Env struct {
	cfgD, cfgB, cfgP gw.Config
	D, B, P          *gw.Gateway
	wD, wP, wB       *prog.World
}

func (e *c18Env) kill() {
	for _, g := range []*gw.Gateway{e.P, e.D, e.B} {
		if g != nil {
			g.Kill()
		}
	}
}

// c18Cert writes a self-signed certificate for 127.0.0.1 (the endpoint behind the proxy speaks
// TLS: over plain HTTP the AWS SDK refuses to send a non-seekable body with its default checksum).
func c18Cert(dir string) (certFile, keyFile string, err error) {
	priv, err := ecdsa.GenerateKey(elliptic.P256(), crand.Reader)
	if err != nil {
		return "", "", err
	}
	tmpl := x509.Certificate{SerialNumber: big.NewInt(1), Subject: pkix.Name{CommonName: "c18-backend"},
		NotBefore: time.Now().Add(-time.Hour), NotAfter: time.Now().Add(48 * time.Hour),
		KeyUsage: x509.KeyUsageDigitalSignature | x509.KeyUsageKeyEncipherment, ExtKeyUsage: []x509.ExtKeyUsage{x509.ExtKeyUsageServerAuth},
		IPAddresses: []net.IP{net.ParseIP("127.0.0.1")}, DNSNames: []string{"localhost"}, BasicConstraintsValid: true}
	der, err := x509.CreateCertificate(crand.Reader, &tmpl, &tmpl, &priv.PublicKey, priv)
	if err != nil {
		return "", "", err
	}
	kb, err := x509.MarshalECPrivateKey(priv)
	if err != nil {
		return "", "", err
	}
	certFile, keyFile = filepath.Join(dir, "cert.pem"), filepath.Join(dir, "key.pem")
	if err = os.WriteFile(certFile, pem.EncodeToMemory(&pem.Block{Type: "CERTIFICATE", Bytes: der}), 0o644); err != nil {
		return
	}
	err = os.WriteFile(keyFile, pem.EncodeToMemory(&pem.Block{Type: "EC PRIVATE KEY", Bytes: kb}), 0o600)
	return
}

const c18TlsBackend = true

func c18Start(a lib.Args, name string, versioning bool) (*c18Env, error) {
	e := &c18Env{}
	var err error
	// --iam-cache-disable on all three: IAMCache.GetUserAccount stores the caller's access-key
	// string (a view into fasthttp's request buffer) as the map key on a miss, so after a restart
	// of a gateway its cache can hand out the wrong account (seen as a sporadic
	// SignatureDoesNotMatch through the restarted proxy). Not a matter of C18; reported to the lead.
	nocache := func(c *gw.Config) { c.IAMCacheOff = true }
	if e.cfgD, err = mustStorage(a, name+"-D", versioning, false, nocache); err != nil {
		return nil, err
	}
	// B's root is the same identity as P's and D's root: what P does at B it does as "the" root
	if e.cfgB, err = mustStorage(a, name+"-B", versioning, false, nocache); err != nil {
		return nil, err
	}
	if e.cfgP, err = mustStorage(a, name+"-P", false, false, func(c *gw.Config) {
		c.IAMCacheOff = true
		// the AWS SDK inside P must not pick up anything from the environment of the machine
		if d := os.Getenv("C18_DEBUG"); d != "" && d != "raw" {
			c.ExtraArgs = []string{"--debug"}
		}
		c.Env = []string{"AWS_CA_BUNDLE=", "AWS_EC2_METADATA_DISABLED=true", "AWS_CONFIG_FILE=/dev/null", "AWS_SHARED_CREDENTIALS_FILE=/dev/null", "AWS_PROFILE="}
	}); err != nil {
		return nil, err
	}
	if os.Getenv("C18_DEBUG") != "" {
		e.cfgD.ExtraArgs = append(e.cfgD.ExtraArgs, "--debug")
	}
	if e.D, err = gw.Start(e.cfgD); err != nil {
		return nil, err
	}
	scheme := "http"
	if c18TlsBackend {
		cert, key, err := c18Cert(e.cfgB.Work)
		if err != nil {
			return nil, err
		}
		e.cfgB.ExtraArgs = append(e.cfgB.ExtraArgs, "--cert", cert, "--key", key)
		if os.Getenv("C18_DEBUG") != "" {
			e.cfgB.ExtraArgs = append(e.cfgB.ExtraArgs, "--debug")
		}
		scheme = "https"
	}
	if e.B, err = gw.Start(e.cfgB); err != nil {
		e.kill()
		return nil, err
	}
	e.cfgP.BackendArgs = []string{"s3", "--endpoint", scheme + "://" + e.B.Addr(), "--access", e.cfgB.Access, "--secret", e.cfgB.Secret, "--region", "us-east-1"}
	if c18TlsBackend {
		e.cfgP.BackendArgs = append(e.cfgP.BackendArgs, "--ssl-skip-verify")
	}
	if e.P, err = gw.Start(e.cfgP); err != nil {
		e.kill()
		return nil, err
	}
	e.wD = &prog.World{Root: rootCreds(e.cfgD), Gws: []*gw.Gateway{e.D}}
	e.wP = &prog.World{Root: rootCreds(e.cfgP), Gws: []*gw.Gateway{e.P}}
	e.wB = &prog.World{Root: rootCreds(e.cfgB), Gws: []*gw.Gateway{e.B}}
	for _, acc := range prog.DefaultAccts {
		if err := e.wD.AdminCreateUser(acc); err != nil {
			e.kill()
			return nil, err
		}
		if err := e.wP.AdminCreateUser(acc); err != nil {
			e.kill()
			return nil, err
		}
		// the endpoint behind the proxy knows the same accounts as the endpoint used directly
		// (bucket policies naming them are validated there as well)
		if err := e.wB.AdminCreateUser(acc); err != nil {
			e.kill()
			return nil, err
		}
	}
	return e, nil
}

func (e *c18Env) wipe() {
	for _, c := range []gw.Config{e.cfgD, e.cfgB} {
		wipe(c.Root)
		if c.VersioningDir != "" {
			wipe(c.VersioningDir)
		}
	}
}

// ---------------------------------------------------------------- running one program

type c18Step struct {
	Op   *c18Op
	P, D c18Obs
	Diff []string
	Note string
}

func c18DescribeOp(o *c18Op) string {
	b, _ := json.Marshal(o)
	var m map[string]interface{}
	json.Unmarshal(b, &m)
	// drop zero members for readability
	for k, v := range m {
		switch x := v.(type) {
		case nil:
			delete(m, k)
		case string:
			if x == "" {
				delete(m, k)
			}
		case float64:
			if x == 0 {
				delete(m, k)
			}
		case bool:
			if !x {
				delete(m, k)
			}
		}
	}
	b, _ = json.Marshal(m)
	return string(b)
}

// runPair executes ops on P and D. After a step on which P died it is restarted (and the fact
// recorded as the pseudo-field `crash`).
func (e *c18Env) runPair(ops []*c18Op) []*c18Step { return e.runPairOpt(ops, true, false) }

// runPairOpt: stopOnDivergence ends the program at the first mutating step that succeeds on one
// side only; otherwise, with suppress, later steps on the bucket concerned are executed but not
// compared (their differences are consequences).
func (e *c18Env) runPairOpt(ops []*c18Op, stopOnDivergence, suppress bool) []*c18Step {
	sp, sd := c18NewSide("P", e.wP), c18NewSide("D", e.wD)
	var steps []*c18Step
	diverged := map[string]bool{} // buckets whose state differs on the two sides (non-stopping mode)
	for n, o := range ops {
		if o.Now == 0 {
			o.Now = 1 // prog.Exec fills Now with the wall clock when 0; keep the program a pure value
		}
		op := sp.exec(n, o)
		od := sd.exec(n, o)
		st := &c18Step{Op: o, P: c18Canon(sp, o, op), D: c18Canon(sd, o, od)}
		st.Diff = c18Diff(st.P, st.D)
		if suppress && diverged[o.B] && o.B != "" {
			st.Diff, st.Note = nil, "not compared: the bucket's state diverged at an earlier step"
		}
		if op.Raw.Err != nil && op.Raw.Status == 0 {
			e.P.WaitExit(800 * time.Millisecond) // a panicking process needs a moment to be gone
		}
		if !e.P.Alive() {
			st.Diff = []string{"crash"} // everything else is a consequence
			tail := e.P.Log.String()
			if i := strings.Index(tail, "panic"); i >= 0 {
				tail = tail[i:]
			}
			if len(tail) > 600 {
				tail = tail[:600]
			}
			st.Note = "proxy gateway process died: " + tail
			if err := e.P.Restart(); err != nil {
				st.Note += " (restart failed: " + err.Error() + ")"
			}
		}
		if op.Status == 500 || od.Status == 500 {
			// the gateways print the cause of an InternalError: keep it with the step
			for _, g := range []struct {
				n string
				g *gw.Gateway
			}{{"P", e.P}, {"B", e.B}, {"D", e.D}} {
				for _, l := range strings.Split(g.g.Log.String(), "\n") {
					if strings.Contains(l, "Internal Error") && !strings.Contains(st.Note, l) && len(st.Note) < 1500 {
						st.Note += " [" + g.n + " log: " + strings.TrimSpace(l) + "]"
					}
				}
			}
		}
		if strings.Contains(st.Note, "no space left on device") || strings.Contains(st.Note, "too many open files") {
			// the machine ran out of disk / descriptors under one of the gateways: not an observation
			// of the property; the program ends here (the two sides may have diverged)
			st.Diff, st.Note = nil, "environment: "+st.Note
			steps = append(steps, st)
			c18EnvTrouble++
			break
		}
		if os.Getenv("C18_DEBUG") == "raw" && len(st.Diff) > 0 {
			fmt.Fprintf(os.Stderr, "---- step %d %s DIFF %v\nP: %d %v %q\nD: %d %v %q\n", n, c18DescribeOp(o), st.Diff, op.Raw.Status, op.Raw.Headers, op.Raw.Body, od.Raw.Status, od.Raw.Headers, od.Raw.Body)
		}
		if os.Getenv("C18_DEBUG") == "500" {
			if (op.Status == 500 || od.Status == 500 || op.Code == "ExistingObjectIsDirectory") && op.Status != od.Status {
				fmt.Fprintf(os.Stderr, "---- step %d %s DIFF %v\nP log: %s\nB log: %s\nD log: %s\n", n, c18DescribeOp(o), st.Diff, e.P.Log.String(), e.B.Log.String(), e.D.Log.String())
			}
			e.P.Log.Reset()
			e.B.Log.Reset()
			e.D.Log.Reset()
		} else if os.Getenv("C18_DEBUG") == "sig" {
			if op.Code == "SignatureDoesNotMatch" {
				fmt.Fprintf(os.Stderr, "---- step %d %s DIFF %v\nP log: %s\nB log: %s\n", n, c18DescribeOp(o), st.Diff, e.P.Log.String(), e.B.Log.String())
			}
			e.P.Log.Reset()
			e.B.Log.Reset()
		} else if os.Getenv("C18_DEBUG") != "" && len(st.Diff) > 0 {
			fmt.Fprintf(os.Stderr, "---- step %d %s DIFF %v\nP log: %s\nB log: %s\n", n, c18DescribeOp(o), st.Diff, e.P.Log.String(), e.B.Log.String())
			e.P.Log.Reset()
			e.B.Log.Reset()
		}
		steps = append(steps, st)
		pok, dok := op.Status >= 200 && op.Status < 300, od.Status >= 200 && od.Status < 300
		if pok != dok && c18Mutating(o) {
			if stopOnDivergence {
				break // one side changed state and the other did not: later steps are not comparable
			}
			diverged[o.B] = true
		}
	}
	return steps
}

func c18OptCode(o c18Obs) string {
	if c := o.Fields["code"]; c != "" {
		return "/" + c
	}
	return ""
}

func c18Mutating(o *c18Op) bool {
	n := o.name()
	return !(strings.HasPrefix(n, "get") || strings.HasPrefix(n, "head") || strings.HasPrefix(n, "list"))
}

func c18Describe(steps []*c18Step, upto int) []string {
	var out []string
	for i, s := range steps {
		if i > upto {
			break
		}
		l := fmt.Sprintf("%d %s -> P %s%s D %s%s", i, c18DescribeOp(s.Op), s.P.Fields["status"], c18OptCode(s.P), s.D.Fields["status"], c18OptCode(s.D))
		if len(s.Diff) > 0 {
			l += " DIFF " + strings.Join(s.Diff, ",")
		}
		out = append(out, l)
	}
	return out
}

// ---------------------------------------------------------------- signatures

func c18NeedsEscape(k string) bool {
	for i := 0; i < len(k); i++ {
		c := k[i]
		if !(c >= 'A' && c <= 'Z' || c >= 'a' && c <= 'z' || c >= '0' && c <= '9' || c == '-' || c == '_' || c == '.' || c == '~' || c == '/') {
			return true
		}
	}
	return false
}

func (o *c18Op) xq(k string) (string, bool) {
	for _, q := range o.XQ {
		if q.K == k {
			return q.V, true
		}
	}
	return "", false
}

func (o *c18Op) xh(k string) (string, bool) {
	for _, h := range o.XH {
		if strings.EqualFold(h.K, k) {
			return h.V, true
		}
	}
	return "", false
}

func c18DataLen(d []prog.Seg) int {
	n := 0
	for _, s := range d {
		n += s.Len
	}
	return n
}

// c18Class names the input class of an op as far as it is known to matter for a status / code
// difference ("" = no special class).
func c18Class(o *c18Op) string {
	switch o.name() {
	case "putObject":
		if o.Put != nil && (o.Put.Hold || o.Put.Retention != "") {
			return "lock-headers"
		}
		if _, ok := o.xh("x-amz-object-lock-mode"); ok {
			return "lock-headers"
		}
		if o.Put != nil && c18DataLen(o.Put.Data) == 0 {
			return "empty-body"
		}
	case "uploadPart":
		if c18DataLen(o.Data) == 0 {
			return "empty-body"
		}
		if c18DataLen(o.Data) >= 1<<20 {
			return "large-body"
		}
	case "copyObject", "uploadPartCopy":
		if c18NeedsEscape(o.SK) || c18NeedsEscape(o.SB) {
			return "src-key-escape"
		}
	case "createBucket", "putBucketAcl", "putBucketAclGrants":
		// owner + grantees: three entries of auth.ACL no longer fit the 256-character tag value
		n := 1 + len(o.Grants)
		if v, _ := o.xh("x-amz-acl"); o.Canned == "public-read-write" || v == "public-read-write" {
			n += 2
		} else if o.Canned == "public-read" || v == "public-read" {
			n++
		}
		for _, h := range o.XH {
			if strings.HasPrefix(strings.ToLower(h.K), "x-amz-grant-") {
				n += strings.Count(h.V, ",") + 1
			}
		}
		if n >= 3 {
			return "acl-3-grantees"
		}
	case "getBucketTagging", "putBucketTagging", "deleteBucketTagging":
		return "unimplemented"
	case "completeUpload":
		if v, ok := o.xh("x-amz-mp-object-size"); ok && v == "0" {
			return "mp-object-size-zero"
		}
	}
	for _, k := range []string{"max-keys", "max-uploads", "max-parts"} {
		if v, ok := o.xq(k); ok && v == "0" {
			return "max-zero"
		}
	}
	return ""
}

// c18Sigs turns the differing fields of one step into failure signatures
// `proxy:<op>[:<class>]:<field>`.
func c18Sigs(o *c18Op, diff []string) []string {
	cl := c18Class(o)
	pre := "proxy:" + o.name() + ":"
	if cl != "" {
		pre += cl + ":"
	}
	var out []string
	listing := false
	for _, f := range diff {
		switch {
		case f == "crash":
			return []string{"proxy:" + o.name() + ":crash"}
		case cl == "max-zero" && strings.HasPrefix(f, "xml:") && f != "xml:StartAfter":
			listing = true // with the limit dropped the whole page differs: one signature
		case f == "status" || f == "code":
			out = append(out, pre+f)
		default:
			out = append(out, "proxy:"+o.name()+":"+f)
		}
	}
	if listing {
		out = append(out, pre+"listing")
	}
	return out
}

func c18Report(res *lib.Result, family string, idx int, seed int64, versioning bool, ops []*c18Op, steps []*c18Step) {
	if c18EnvTrouble > 0 {
		res.Histogram["environment:program-cut-short"] += c18EnvTrouble
		c18EnvTrouble = 0
	}
	for j, s := range steps {
		res.Histogram["op:"+s.Op.name()]++
		res.Histogram["outcome:"+s.D.Fields["status"]]++
		if c := c18Class(s.Op); c != "" {
			res.Histogram["class:"+s.Op.name()+":"+c]++
		}
		if len(s.Diff) == 0 {
			continue
		}
		var detail []string
		for _, f := range s.Diff {
			pv, dv := s.P.Fields[f], s.D.Fields[f]
			if f == "status" {
				pv, dv = pv+c18OptCode(s.P), dv+c18OptCode(s.D)
			}
			if len(pv) > 200 {
				pv = pv[:200] + "…"
			}
			if len(dv) > 200 {
				dv = dv[:200] + "…"
			}
			detail = append(detail, fmt.Sprintf("%s: proxy=[%s] direct=[%s]", f, pv, dv))
		}
		for _, sig := range c18Sigs(s.Op, s.Diff) {
			res.Fail(lib.Failure{Kind: "property", Signature: sig,
				What:  fmt.Sprintf("step %d of program %d (%s): the answer through the proxy differs from the direct answer. %s", j, idx, family, s.Note),
				Input: map[string]interface{}{"family": family, "program_index": idx, "seed": seed, "versioning": versioning, "ops": ops[:j+1], "steps": c18Describe(steps, j)},
				Impl:  strings.Join(detail, "; "), Model: "direct answer (see impl)"})
			c18Observed[sig]++
		}
	}
}

// c18EnvTrouble: programs cut short because a gateway reported ENOSPC / EMFILE
var c18EnvTrouble int

// c18Observed: signatures seen in this run (used by the table-vs-runs correspondence).
var c18Observed = map[string]int{}

// c18Skip: under -replay only the sub-check the stored failure belongs to runs (`family` of its
// input: a program family or corpus scenario -> the stored ops alone; "probe" / "acl" -> that
// deterministic sub-check as a whole, with the stored seed).
func c18Skip(a lib.Args, sub string) bool {
	in := a.ReplayInput()
	if in == nil {
		if only := os.Getenv("C18_ONLY"); only != "" { // debugging aid: run one sub-check
			return only != sub
		}
		return false
	}
	fam, _ := in["family"].(string)
	return fam != sub
}

// c18Replay: run exactly the ops of a stored failure on a fresh P/B/D triple.
func c18Replay(a lib.Args, res *lib.Result) (bool, error) {
	in := a.ReplayInput()
	if in == nil {
		return false, nil
	}
	if fam, _ := in["family"].(string); fam == "probe" || fam == "acl" {
		return true, nil
	}
	raw, _ := json.Marshal(in["ops"])
	var ops []*c18Op
	if err := json.Unmarshal(raw, &ops); err != nil || len(ops) == 0 {
		return true, fmt.Errorf("replay file has no ops: %v", err)
	}
	versioning, _ := in["versioning"].(bool)
	e, err := c18Start(a, "c18replay", versioning)
	if err != nil {
		return true, err
	}
	defer e.kill()
	steps := e.runPairOpt(ops, !strings.HasPrefix(fmt.Sprint(in["family"]), "corpus:"), false)
	res.Count("replay", true, "programs:replay")
	res.Sample(map[string]interface{}{"program": c18Describe(steps, len(steps)-1)})
	fam, _ := in["family"].(string)
	c18Report(res, fam, 0, a.Seed, versioning, ops, steps)
	return true, nil
}

func c18Stage1(a lib.Args, res *lib.Result) error {
	if done, err := c18Replay(a, res); done {
		return err
	}
	if c18Skip(a, "stage1") {
		return nil
	}
	e, err := c18Start(a, "c18s1", false)
	if err != nil {
		return err
	}
	defer e.kill()
	r := lib.NewRandStream(a.Seed, 1801)
	n := tierN(a, 25, 800)
	for i := 0; i < n; i++ {
		g := prog.NewGen(r.Fork())
		e.wipe()
		var ops []*c18Op
		for _, o := range g.Prelude() {
			ops = append(ops, &c18Op{Op: *o})
		}
		for k := 10 + g.R.Intn(30); k > 0; k-- {
			ops = append(ops, &c18Op{Op: *g.Op()})
		}
		steps := e.runPair(ops)
		var canon []string
		for _, s := range steps {
			canon = append(canon, c18DescribeOp(s.Op))
		}
		res.Count(strings.Join(canon, "\n"), true, "programs:stage1")
		if i < 1 {
			res.Sample(map[string]interface{}{"program": c18Describe(steps, len(steps)-1)})
		}
		c18Report(res, "stage1", i, a.Seed, false, ops, steps)
	}
	return nil
}

// c18Family runs n generated programs of one family on a fresh triple.
func c18Family(name string, versioning bool, stream int64, quick, thorough int, gen func(c *c18Gen, idx int) []*c18Op) checkFn {
	return func(a lib.Args, res *lib.Result) error {
		if a.ReplayInput() != nil || c18Skip(a, name) {
			return nil
		}
		e, err := c18Start(a, "c18"+name, versioning)
		if err != nil {
			return err
		}
		defer e.kill()
		r := lib.NewRandStream(a.Seed, stream)
		n := tierN(a, quick, thorough)
		for i := 0; i < n; i++ {
			e.wipe()
			ops := gen(newC18Gen(r.Fork()), i)
			steps := e.runPair(ops)
			var canon []string
			for _, s := range steps {
				canon = append(canon, c18DescribeOp(s.Op))
			}
			res.Count(strings.Join(canon, "\n"), true, "programs:"+name)
			if i < 1 {
				res.Sample(map[string]interface{}{"family": name, "program": c18Describe(steps, len(steps)-1)})
			}
			c18Report(res, name, i, a.Seed, versioning, ops, steps)
		}
		return nil
	}
}

func init() {
	checks["c18"] = checkDef{"C18",
		"(1) corpus: one minimal program per known difference, each tied to the model fact that predicts it; (2) probe: one request per proxied method (ordinary and edge values of every property-relevant request field) through a gateway in front of a recording stub S3 endpoint, per field compared with Model.Proxy.sdkInput / gwResult; PutBucketAcl write-back on three tag layouts; sparse answers; (3) ACL/ownership/policy round trip of generated buckets (owners root/admin/userplus, canned ACLs, grant headers, PutBucketAcl, PutBucketPolicy) with the endpoint's tag store inspected directly, client tagging calls, and a restart of the proxy; (4) paired runs: generated programs of bucket / object (sizes 0-1 MiB, every content header, metadata, tags, checksums, Expires variants, storage class) / tagging / listing (v1, v2, versions; prefix, delimiter, markers, max-keys incl. 0, continuation) / multipart (parts 0-2000 bytes and 5 MiB±1, four payload encodings, copy ranges, list-parts/uploads paging, complete variants) / versioning operations executed op by op against the proxy gateway and the direct gateway; every answer canonicalised (server-chosen ids -> tokens, grey members masked) and diffed field by field. Non-trivial = every program; distinct by op list.",
		[]checkFn{c18Corpus, c18Probe, c18Acl, c18Stage1,
			c18Family("objects", false, 1802, 20, 800, func(c *c18Gen, i int) []*c18Op { return c.objects(i) }),
			c18Family("listings", false, 1803, 16, 600, func(c *c18Gen, i int) []*c18Op { return c.listings(i) }),
			c18Family("multipart", false, 1804, 16, 600, func(c *c18Gen, i int) []*c18Op { return c.multipart(i, false) }),
			c18Family("multipart-versioned", true, 1805, 8, 300, func(c *c18Gen, i int) []*c18Op { return c.multipart(i, true) }),
			c18Family("versions", true, 1806, 16, 600, func(c *c18Gen, i int) []*c18Op { return c.versions(i) }),
		}}
	_ = filepath.Join
}
