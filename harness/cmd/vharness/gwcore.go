package main

import (
	"fmt"
	"os"
	"path/filepath"
	"sort"
	"strings"
	"time"

	"verif/harness/gw"
	"verif/harness/lib"
	"verif/harness/prog"
)

// progOpts configures one family of model-vs-gateway program runs.
type progOpts struct {
	name              string
	prop              string
	programs          int
	maxOps            int
	versioning        bool
	sidecar           bool
	noOTmp            bool
	nGateways         int
	tune              func(g *prog.Gen)
	gen               func(g *prog.Gen, i int) []*prog.Op                  // optional custom program generator
	next              func(g *prog.Gen, i int, hist []*prog.Step) *prog.Op // optional adaptive generator
	setupOps          func(g *prog.Gen) []*prog.Op                         // run before the readonly switch (if readonlyAfter)
	readonly          bool                                                 // restart the gateways read-only after setupOps
	classify          func(s *prog.Step, class string) (kind, sig string)
	seedOff           int64
	events            bool                                               // start a webhook endpoint and compare notification records per step
	filter            map[string]bool                                    // event filter configuration (nil = none)
	restartBeforeLast int                                                // restart every gateway before the last N ops of each program (0 = never)
	post              func(steps []*prog.Step, res *lib.Result, idx int) // optional property oracle over the whole program
}

func wipe(dir string) {
	ents, _ := os.ReadDir(dir)
	for _, e := range ents {
		os.RemoveAll(filepath.Join(dir, e.Name()))
	}
}

func defaultClassify(prop string) func(s *prog.Step, class string) (string, string) {
	return func(s *prog.Step, class string) (string, string) {
		if class == "fine" {
			return "correspondence", s.Op.Kind + ":error-code"
		}
		return "property", s.Op.Kind + ":" + class
	}
}

func runPrograms(a lib.Args, res *lib.Result, po progOpts) error {
	// replay of one recorded failure: only that program of that family, from the recorded seed
	// (the program text is a function of seed, family and index; server-chosen ids are fed back as in the
	// original run). Timing-dependent failures may need more than one attempt: three are made.
	replayIdx := -1
	if in := a.ReplayInput(); in != nil {
		fam, _ := in["family"].(string)
		if fam != po.name {
			return nil
		}
		if v, ok := in["program_index"].(float64); ok {
			replayIdx = int(v)
		}
		if v, ok := in["seed"].(float64); ok {
			a.Seed = int64(v)
		}
		if po.programs <= replayIdx {
			po.programs = replayIdx + 1
		}
	}
	cfg, err := mustStorage(a, po.name, po.versioning, po.sidecar, func(c *gw.Config) { c.NoOTmp = po.noOTmp })
	if err != nil {
		return err
	}
	var hook *prog.Hook
	filterLine := ""
	if po.events {
		hook, err = prog.StartHook()
		if err != nil {
			return err
		}
		defer hook.Close()
		cfg.EventURL = hook.URL
		if po.filter != nil {
			var names []string
			for k := range po.filter {
				names = append(names, k)
			}
			sort.Strings(names)
			var js, ln []string
			for _, k := range names {
				js = append(js, fmt.Sprintf("%q: %v", k, po.filter[k]))
				v := "0"
				if po.filter[k] {
					v = "1"
				}
				ln = append(ln, k+"="+v)
			}
			path := filepath.Join(cfg.Work, "event-filter.json")
			if err := os.WriteFile(path, []byte("{"+strings.Join(js, ",")+"}"), 0o644); err != nil {
				return err
			}
			cfg.EventFilter = path
			filterLine = strings.Join(ln, ",")
			if filterLine == "" {
				filterLine = "-"
			}
		}
	}
	n := po.nGateways
	if n == 0 {
		n = 1
	}
	w := &prog.World{Root: rootCreds(cfg), Hook: hook}
	start := func(readonly bool) error {
		for _, g := range w.Gws {
			g.Kill()
		}
		w.Gws = nil
		c := cfg
		c.Readonly = readonly
		for i := 0; i < n; i++ {
			g, err := gw.Start(c)
			if err != nil {
				return err
			}
			w.Gws = append(w.Gws, g)
		}
		return nil
	}
	if err := start(false); err != nil {
		return err
	}
	defer func() {
		for _, g := range w.Gws {
			g.Kill()
		}
	}()
	for _, acc := range prog.DefaultAccts {
		if err := w.AdminCreateUser(acc); err != nil {
			l := w.Gws[0].Log.String()
			if len(l) > 2000 {
				l = l[len(l)-2000:]
			}
			return fmt.Errorf("%v\n--- gateway log tail ---\n%s", err, l)
		}
	}
	classify := po.classify
	if classify == nil {
		classify = defaultClassify(po.prop)
	}
	r := lib.NewRandStream(a.Seed, po.seedOff)
	for i := 0; i < po.programs; i++ {
		fork := r.Fork()
		if replayIdx >= 0 && i != replayIdx {
			continue
		}
		// A failure is reported only when it shows again on a second execution of the same program: the
		// programs are deterministic (server-chosen ids are fed back), so a genuine difference reproduces, while
		// an answer spoilt by the environment (this sandbox transiently refuses storage to the gateway: 500, or
		// 409 where the publication step failed) does not. Replay mode keeps every attempt's failures.
		var first []lib.Failure
		confirmed := false
		for rep := 0; rep < 3 && (rep == 0 || first != nil || (replayIdx >= 0 && len(res.Failures) == 0)) && !confirmed; rep++ {
			before := len(res.Failures)
			g := prog.NewGen(fork.Clone())
			if po.tune != nil {
				po.tune(g)
			}
			setup := prog.Setup{Versioning: po.versioning, Accounts: prog.DefaultAccts, Filter: filterLine}
			if hook != nil {
				hook.Drain(2*time.Millisecond, 50*time.Millisecond)
			}
			wipe(cfg.Root)
			if cfg.VersioningDir != "" {
				wipe(cfg.VersioningDir)
			}
			if cfg.Sidecar != "" {
				wipe(cfg.Sidecar)
			}
			var ops []*prog.Op
			if po.setupOps != nil {
				if po.readonly {
					if err := start(false); err != nil {
						return err
					}
				}
				ops = po.setupOps(g)
			}
			nSetup := len(ops)
			var body []*prog.Op
			if po.gen != nil {
				body = po.gen(g, i)
			} else {
				if !po.readonly {
					body = g.Prelude()
				}
				for k := 1 + g.R.Intn(po.maxOps); k > 0; k-- {
					body = append(body, g.Op())
				}
			}
			var steps []*prog.Step
			if po.next != nil {
				steps, err = prog.RunAdaptive(w, a.Driver, setup, func(h []*prog.Step) *prog.Op { return po.next(g, i, h) })
			} else if po.readonly {
				var mut []string
				steps, mut, err = runReadonly(w, a.Driver, cfg, setup, ops, body, start)
				for _, m := range mut {
					kind := strings.SplitN(strings.SplitN(m, " ", 3)[1], " ", 2)[0]
					res.Fail(lib.Failure{Kind: "property", Signature: "readonly-mutation:" + kind, What: "storage changed although the gateway runs with --readonly",
						Input: map[string]interface{}{"family": po.name, "program_index": i, "seed": a.Seed, "mutation": m}, Impl: m})
				}
			} else if po.restartBeforeLast > 0 {
				all := append(ops, body...)
				cut := len(all) - po.restartBeforeLast
				if cut < 0 {
					cut = 0
				}
				steps, err = prog.RunAdaptive(w, a.Driver, setup, func(h []*prog.Step) *prog.Op {
					if len(h) >= len(all) {
						return nil
					}
					if len(h) == cut {
						for _, gwp := range w.Gws {
							if e := gwp.Restart(); e != nil {
								panic(e)
							}
						}
					}
					return all[len(h)]
				})
			} else {
				steps, err = prog.Run(w, a.Driver, setup, append(ops, body...))
			}
			if err != nil {
				return err
			}
			nontrivial := false
			for j, s := range steps {
				if j >= nSetup && !strings.HasPrefix(s.Impl, "code=NoSuchBucket") {
					nontrivial = true
				}
				res.Histogram["op:"+s.Op.Kind]++
				c := codeOfLine(s.Impl)
				if c == "" {
					c = "ok"
				}
				res.Histogram["outcome:"+c]++
				if strings.HasPrefix(s.Op.Caller, "anon") {
					res.Histogram["caller:anon"]++
				} else {
					res.Histogram["caller:"+s.Op.Caller]++
				}
			}
			var canon []string
			for _, s := range steps {
				canon = append(canon, s.Op.ModelLine(s.Obs))
			}
			res.Count(strings.Join(canon, "\n"), nontrivial, "programs:"+po.name)
			if i < 2 {
				res.Sample(map[string]interface{}{"program": prog.Describe(steps, len(steps)-1)})
			}
			if po.post != nil {
				po.post(steps, res, i)
			}
			if hook != nil {
				for _, s := range steps {
					s.CompareEvents = true
				}
				prog.ReconcileLateEvents(steps)
			}
			for j, s := range steps {
				class := s.Diff()
				if class == "" {
					continue
				}
				kind, sig := classify(s, class)
				what := fmt.Sprintf("step %d of program %d (%s): implementation and model differ: %s", j, i, po.name, class)
				if strings.Contains(s.Impl, "InternalError") || strings.Contains(s.Impl, "TRANSPORT") || strings.Contains(s.Impl, "HTTP5") {
					for gi, gwp := range w.Gws {
						l := gwp.Log.String()
						if len(l) > 1500 {
							l = l[len(l)-1500:]
						}
						what += fmt.Sprintf("\n--- gateway %d log tail ---\n%s", gi, l)
					}
				}
				res.Fail(lib.Failure{Kind: kind, Signature: sig,
					What:  what,
					Input: map[string]interface{}{"family": po.name, "program_index": i, "seed": a.Seed, "steps": prog.Describe(steps, j)},
					Impl:  s.Impl, Model: s.Model})
				if strings.HasPrefix(class, "events-differ") {
					continue // only the notification differs: the states are still in step
				}
				break // states may have diverged; later steps are not comparable
			}
			if replayIdx >= 0 {
				continue
			}
			newF := append([]lib.Failure{}, res.Failures[before:]...)
			if rep == 0 {
				if len(newF) == 0 {
					break
				}
				first = newF
				res.Failures = res.Failures[:before]
				continue
			}
			same := false
			for _, f := range newF {
				for _, f0 := range first {
					if f.Kind == f0.Kind && f.Signature == f0.Signature {
						same = true
					}
				}
			}
			if same {
				confirmed = true
			} else {
				res.Failures = res.Failures[:before]
			}
		}
		if first != nil && !confirmed {
			res.Histogram["transient-failure-not-reproduced"]++
			res.Note("program %d of %s: a difference (%s) did not show again in two further executions of the same program and is not reported%s", i, po.name, first[0].Signature,
				map[bool]string{true: " (a gateway logged ENOSPC during this run)", false: ""}[gw.EnvFault() != ""])
		}
	}
	return nil
}

func codeOfLine(l string) string {
	f := strings.SplitN(l, " ", 2)[0]
	return strings.TrimPrefix(f, "code=")
}

// runReadonly: setup ops on a read-write gateway, restart read-only, then the body. Besides the
// model comparison, every body step is judged by a byte-exact snapshot of the storage
// directories: under --readonly nothing at all may change (C15's own oracle, independent of
// the model).
func runReadonly(w *prog.World, drv *lib.Driver, cfg gw.Config, setup prog.Setup, pre, body []*prog.Op, start func(bool) error) ([]*prog.Step, []string, error) {
	var mut []string
	steps := make([]*prog.Step, 0, len(pre)+len(body))
	lines := setup.Lines(w.Root.Access)
	nsetup := len(lines)
	for _, o := range pre {
		o.ResolveRefs(steps)
		obs := w.Exec(o)
		steps = append(steps, &prog.Step{Op: o, Impl: obs.Line(), Obs: obs})
		lines = append(lines, o.ModelLine(obs))
	}
	if err := start(true); err != nil {
		return nil, nil, err
	}
	b := "0"
	if setup.Versioning {
		b = "1"
	}
	lines = append(lines, "gw cfg 1 "+b)
	snap := lib.TakeSnapshot(cfg.Root, cfg.VersioningDir, cfg.Sidecar)
	for _, o := range body {
		o.ResolveRefs(steps)
		obs := w.Exec(o)
		steps = append(steps, &prog.Step{Op: o, Impl: obs.Line(), Obs: obs})
		lines = append(lines, o.ModelLine(obs))
		after := lib.TakeSnapshot(cfg.Root, cfg.VersioningDir, cfg.Sidecar)
		if d := snap.Diff(after); len(d) > 0 {
			mut = append(mut, fmt.Sprintf("%s -> %s changed storage: %s", o.String(), obs.Line(), strings.Join(d, "; ")))
			snap = after
		}
	}
	out, err := drv.Ask(lines)
	if err != nil {
		return steps, mut, err
	}
	k := nsetup
	for i, s := range steps {
		if i == len(pre) {
			k++ // the cfg line
		}
		if out[k] == "bad-op" {
			return steps, mut, fmt.Errorf("model driver rejected line: %s", lines[k])
		}
		s.SetModel(out[k])
		k++
	}
	return steps, mut, nil
}

func tierN(a lib.Args, quick, thorough int) int {
	if a.Thorough() {
		return thorough
	}
	return quick
}

func init() {
	checks["gwcore"] = checkDef{"C03", "programs of stage-1 ops", []checkFn{func(a lib.Args, res *lib.Result) error {
		return runPrograms(a, res, progOpts{name: "core", prop: "C03", programs: 300, maxOps: 40, tune: func(g *prog.Gen) { g.Anon = 10 }})
	}}}
	checks["c15"] = checkDef{"C15",
		"raw shapes: PUT/POST/DELETE on bucket / object / new key / key with an upload in progress × every single subresource parameter and every ordered pair of them, by root and by a user a bucket policy allows everything, judged by a byte-exact storage snapshot after every request; programs: a read-write prelude (buckets with different owners/ACLs/policies, objects, tags) followed, after a restart with --readonly, by random mutating and reading requests of every stage-1 kind by root, admin, userplus and user callers; each step compared with Model.Gw.step and judged by a byte-exact storage snapshot (data, modes, xattrs). Non-trivial = a program whose body reaches an existing bucket; distinct by the full op list.",
		[]checkFn{c15RawShapes, func(a lib.Args, res *lib.Result) error {
			return runPrograms(a, res, progOpts{name: "readonly", prop: "C15", programs: tierN(a, 200, 2500), maxOps: 40, readonly: true,
				setupOps: func(g *prog.Gen) []*prog.Op { return g.Prelude() }, seedOff: 15,
				classify: func(s *prog.Step, class string) (string, string) {
					if class == "fine" {
						return "correspondence", s.Op.Kind + ":error-code"
					}
					return "property", "readonly:" + s.Op.Kind + ":" + class
				}})
		}, func(a lib.Args, res *lib.Result) error {
			// versions and uploads that exist when the gateway turns read-only: deletes by version id, batch
			// deletes naming versions, part uploads / copies / completion / abort of an upload in progress
			ro := func(s *prog.Step, class string) (string, string) {
				if class == "fine" {
					return "correspondence", s.Op.Kind + ":error-code"
				}
				return "property", "readonly:" + s.Op.Kind + ":" + class
			}
			return runPrograms(a, res, progOpts{name: "readonly-versions-uploads", prop: "C15", programs: tierN(a, 12, 200), readonly: true, versioning: true, seedOff: 17, classify: ro,
				setupOps: func(g *prog.Gen) []*prog.Op {
					b := "ro-v"
					put := func(k string) *prog.Op {
						return &prog.Op{Kind: "putObject", Caller: "root", B: b, K: k, Put: g.PutSpec(), Valid: true}
					}
					return []*prog.Op{{Kind: "createBucket", Caller: "root", B: b, Valid: true}, {Kind: "putVersioning", Caller: "root", B: b, On: true},
						put("k1"), put("k1"), {Kind: "deleteObject", Caller: "root", B: b, K: "k1"}, put("k1"), put("dir/k2"),
						{Kind: "createUpload", Caller: "root", B: b, K: "mp", Put: &prog.PutSpec{}, Valid: true},
						{Kind: "uploadPart", Caller: "root", B: b, K: "mp", UpRef: true, Num: 1, Data: []prog.Seg{{Seed: 1700, Off: 0, Len: 50}}}}
				},
				gen: func(g *prog.Gen, i int) []*prog.Op {
					b := "ro-v"
					var ops []*prog.Op
					for _, c := range []string{"root", "u:adm1", "u:up1", "u:usr1"} {
						cand := []*prog.Op{
							{Kind: "deleteObject", Caller: c, B: b, K: "k1", VidRef: 1}, {Kind: "deleteObject", Caller: c, B: b, K: "k1", VidRef: 2},
							{Kind: "deleteObject", Caller: c, B: b, K: "dir/k2", VidRef: 1}, {Kind: "deleteObject", Caller: c, B: b, K: "k1"},
							{Kind: "uploadPart", Caller: c, B: b, K: "mp", UpRef: true, Num: 2, Data: []prog.Seg{{Seed: 1701 + i, Off: 0, Len: 30}}},
							{Kind: "uploadPartCopy", Caller: c, B: b, K: "mp", UpRef: true, Num: 3, SB: b, SK: "dir/k2"},
							{Kind: "abortUpload", Caller: c, B: b, K: "mp", UpRef: true},
							{Kind: "createUpload", Caller: c, B: b, K: "mp2", Put: &prog.PutSpec{}, Valid: true},
							{Kind: "getObject", Caller: c, B: b, K: "k1", VidRef: 2}, {Kind: "listVersions", Caller: c, B: b},
							{Kind: "putVersioning", Caller: c, B: b, On: false},
						}
						g.R.Shuffle(len(cand), func(x, y int) { cand[x], cand[y] = cand[y], cand[x] })
						ops = append(ops, cand[:6]...)
					}
					return append(ops, &prog.Op{Kind: "listVersions", Caller: "root", B: b}, &prog.Op{Kind: "listParts", Caller: "root", B: b, K: "mp", UpRef: true})
				}})
		}, func(a lib.Args, res *lib.Result) error {
			return runPrograms(a, res, progOpts{name: "readonly-versioned", prop: "C15", programs: tierN(a, 60, 800), maxOps: 40, readonly: true, versioning: true,
				setupOps: func(g *prog.Gen) []*prog.Op { return g.Prelude() }, seedOff: 16,
				classify: func(s *prog.Step, class string) (string, string) {
					if class == "fine" {
						return "correspondence", s.Op.Kind + ":error-code"
					}
					return "property", "readonly:" + s.Op.Kind + ":" + class
				}})
		}}}
}
