package main

func init() {
	checks["c20"] = checkDef{"C20",
		"e2e: one request per case against a child gateway process: every route × sub-resource of s3api/router.go and the admin router as a valid template over a fixture world, with 0-3 fields (query values, headers, path, method, XML/JSON body, chunk framing, declared lengths, credentials/auth mode) replaced from typed pools of boundary/malformed/oversized/empty/negative/non-UTF-8/type-confused values; systematic part: every structural variant (element dropped/emptied/duplicated/leaf value) of every XML body. Non-trivial = at least one mutation; distinct by (endpoint, mutations, credentials, auth mode).",
		[]checkFn{c20Sites, c20Direct, c20Tie, c20States, c20E2E}}
}

// sub-checks on their own (debugging aid; `./check` runs "c20")
func init() {
	checks["c20direct"] = checkDef{"C20", "in-process differential only", []checkFn{c20Direct}}
	checks["c20e2e"] = checkDef{"C20", "end-to-end only", []checkFn{c20E2E}}
}

func init() {
	checks["c20states"] = checkDef{"C20", "state matrix only", []checkFn{c20States}}
	checks["c20tie"] = checkDef{"C20", "targeted e2e differential only", []checkFn{c20Tie}}
	checks["c20sites"] = checkDef{"C20", "site inventory only", []checkFn{c20Sites}}
}
