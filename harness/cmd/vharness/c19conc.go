package main

import (
	"crypto/md5"
	"encoding/hex"
	"fmt"
	"sort"
	"strings"
	"sync"
	"time"

	"verif/harness/gw"
	"verif/harness/lib"
	"verif/harness/prog"
)

// c19Concurrent: notifications of CONCURRENT requests. Several clients write to buckets with different
// names at the same time; afterwards the records received must be exactly one per acknowledged request,
// each naming the bucket, key, size and ETag of that request (the record is built from the request context
// and delivered asynchronously: nothing of it may alias memory that the server reuses for the next request).
func c19Concurrent(a lib.Args, res *lib.Result) error {
	hook, err := prog.StartHook()
	if err != nil {
		return err
	}
	defer hook.Close()
	cfg, err := mustStorage(a, "c19conc", false, false, func(c *gw.Config) { c.EventURL = hook.URL })
	if err != nil {
		return err
	}
	g, err := gw.Start(cfg)
	if err != nil {
		return err
	}
	defer g.Kill()
	cr := rootCreds(cfg)
	buckets := []string{"ev-a", "ev-bucket-b", "ev-c-with-a-longer-name"}
	for _, b := range buckets {
		if r := gw.Do(g.Addr(), gw.Req{Method: "PUT", Path: "/" + b, Auth: "header", Creds: cr}); r.Status != 200 {
			return fmt.Errorf("create bucket %s: %d %s", b, r.Status, r.Body)
		}
	}
	hook.Drain(20*time.Millisecond, 500*time.Millisecond)
	workers, per := 6, 25
	if a.Thorough() {
		workers, per = 12, 150
	}
	type reqT struct {
		bucket, key, etag string
		size              int
	}
	var mu sync.Mutex
	var acked []reqT
	var wg sync.WaitGroup
	for w := 0; w < workers; w++ {
		wg.Add(1)
		go func(w int) {
			defer wg.Done()
			for i := 0; i < per; i++ {
				b := buckets[(w+i)%len(buckets)]
				key := fmt.Sprintf("w%d/k%d", w, i)
				if i%3 == 0 {
					key = fmt.Sprintf("flat-w%d-k%d", w, i) // a key without a slash
				}
				body := []byte(fmt.Sprintf("body of %s/%s %s", b, key, strings.Repeat("x", (w*7+i)%40)))
				r := gw.Do(g.Addr(), gw.Req{Method: "PUT", Path: "/" + b + "/" + key, Body: body, Auth: "header", Creds: cr})
				if r.Status == 200 {
					s := md5.Sum(body)
					mu.Lock()
					acked = append(acked, reqT{b, key, "\"" + hex.EncodeToString(s[:]) + "\"", len(body)})
					mu.Unlock()
				}
			}
		}(w)
	}
	wg.Wait()
	recs := hook.Drain(300*time.Millisecond, 8*time.Second)
	hxs := func(s string) string { return lib.HexS(s) }
	var want []string
	for _, q := range acked {
		want = append(want, fmt.Sprintf("s3:ObjectCreated:Put %s %s %d %s", hxs(q.bucket), hxs(q.key), q.size, hxs(q.etag)))
	}
	sort.Strings(want)
	got := append([]string{}, recs...)
	sort.Strings(got)
	res.Count(fmt.Sprintf("concurrent|%d|%d", workers, per), true, "events:concurrent")
	res.Sample(map[string]interface{}{"concurrent_requests": len(acked), "records": len(got)})
	// multiset difference
	cnt := map[string]int{}
	for _, w := range want {
		cnt[w]++
	}
	var extra []string
	for _, r := range got {
		if cnt[r] > 0 {
			cnt[r]--
		} else {
			extra = append(extra, r)
		}
	}
	var missing []string
	for w, n := range cnt {
		for ; n > 0; n-- {
			missing = append(missing, w)
		}
	}
	sort.Strings(missing)
	if len(extra) > 0 || len(missing) > 0 {
		show := func(xs []string) string {
			if len(xs) > 4 {
				xs = xs[:4]
			}
			return strings.Join(xs, " | ")
		}
		res.Fail(lib.Failure{Kind: "property", Signature: "event:concurrent:records-do-not-match-requests",
			What: fmt.Sprintf("%d concurrent PUTs acknowledged, %d records received: %d records match no request (e.g. %s), %d requests have no matching record (e.g. %s) [fields: event, hex(bucket), hex(key), size, hex(etag)]",
				len(acked), len(got), len(extra), show(extra), len(missing), show(missing)),
			Input: map[string]interface{}{"workers": workers, "per_worker": per, "buckets": buckets}, Impl: show(extra), Model: show(missing)})
	}
	return nil
}
