package main

import (
	"encoding/xml"
	"strconv"
	"strings"

	"verif/harness/lib"
	"verif/harness/prog"
)

// c19Program: successful and failing object-changing requests on several keys; the webhook
// records received after each request are compared with the model's event list.
func c19Program(g *prog.Gen, idx int) []*prog.Op {
	g.Encodings = []string{"header", "unsigned", "stream-signed", "stream-unsigned-trailer"}
	b := "bkt-ev"
	keys := []string{"k1", "dir/k2", "a b+c", "ünï"}
	ops := []*prog.Op{{Kind: "createBucket", Caller: "root", B: b, Valid: true}, {Kind: "createBucket", Caller: "u:up1", B: "bkt-other", Valid: true}}
	if idx%2 == 1 {
		ops = append(ops, &prog.Op{Kind: "putVersioning", Caller: "root", B: b, On: true})
	}
	for n := 12 + g.R.Intn(25); n > 0; n-- {
		k := keys[g.R.Intn(len(keys))]
		// a mix of callers that are allowed (root, admin) and not (usr1 has no rights on root's bucket)
		caller := []string{"root", "root", "u:adm1", "u:usr1", "anon:bad-signature"}[g.R.Intn(5)]
		bb := b
		if g.R.Chance(8) {
			bb = "no-such-bucket"
		}
		var o *prog.Op
		switch r := g.R.Intn(100); {
		case r < 30:
			o = &prog.Op{Kind: "putObject", B: bb, K: k, Put: g.PutSpec(), Valid: true}
		case r < 42:
			o = &prog.Op{Kind: "copyObject", SB: b, SK: keys[g.R.Intn(len(keys))], B: bb, K: k, Valid: true}
		case r < 56:
			o = &prog.Op{Kind: "deleteObject", B: bb, K: k}
		case r < 66:
			o = &prog.Op{Kind: "deleteObjects", B: bb}
			for i := 1 + g.R.Intn(3); i > 0; i-- {
				o.Keys = append(o.Keys, [2]string{keys[g.R.Intn(len(keys))], ""})
			}
			// versioned programs: an entry that names a version in front of (or behind) entries that name none
			if idx%2 == 1 && g.R.Chance(35) {
				// one key three times: without a version (a delete marker), its newest version, that version again
				// (the repetition fails: the version is gone)
				k := keys[g.R.Intn(len(keys))]
				o.Keys = [][2]string{{k, ""}, {k, "@ref"}, {k, "@ref"}}
				if g.R.Chance(50) {
					o.Keys = [][2]string{{k, "@ref"}, {k, "@ref"}, {k, ""}}
				}
			} else if idx%2 == 1 && g.R.Chance(60) {
				e := [2]string{keys[g.R.Intn(len(keys))], "@ref"}
				if g.R.Chance(70) {
					o.Keys = append([][2]string{e}, o.Keys...)
				} else {
					o.Keys = append(o.Keys, e)
				}
			}
		case r < 76:
			o = &prog.Op{Kind: "putObjectTagging", B: bb, K: k, Tags: g.KVs([]string{"t1", "t2"}, 2)}
		case r < 82:
			o = &prog.Op{Kind: "deleteObjectTagging", B: bb, K: k}
		case r < 90:
			o = &prog.Op{Kind: "getObject", B: bb, K: k}
		case r < 95:
			o = &prog.Op{Kind: "putBucketTagging", B: bb, Tags: g.KVs([]string{"t1"}, 1)}
		default:
			o = &prog.Op{Kind: "headObject", B: bb, K: k}
		}
		o.Caller = caller
		ops = append(ops, o)
	}
	return ops
}

// c19VersionOracle: a record names the right version. For a batch delete every record's version id must be the
// one the request gave for that key in some entry (none given = none reported). (Records of PUT / copy name the
// ETag, not a version id.)
func c19VersionOracle(steps []*prog.Step, res *lib.Result, idx int) {
	for i, st := range steps {
		if st.Obs == nil || st.Obs.Code != "" || len(st.Obs.EventVids) == 0 {
			continue
		}
		bad := ""
		switch st.Op.Kind {
		case "deleteObjects":
			// expected: one record per <Deleted> element of the answer, naming its key and the version id the
			// entry asked for (the answer's own account of what was deleted; compared with the model elsewhere)
			want := map[string]int{}
			var dr struct {
				Deleted []struct {
					Key       string `xml:"Key"`
					VersionId string `xml:"VersionId"`
				} `xml:"Deleted"`
			}
			if xml.Unmarshal(st.Obs.Raw.Body, &dr) != nil {
				continue
			}
			for _, e := range dr.Deleted {
				want[hexOf(e.Key)+" "+e.VersionId]++
			}
			for _, rec := range st.Obs.EventVids {
				f := strings.SplitN(rec, " ", 3)
				if len(f) < 3 {
					continue
				}
				if f[2] == "null" && want[f[1]+" null"] == 0 {
					f[2] = ""
				}
				want[f[1]+" "+f[2]]--
			}
			for k, n := range want {
				if n > 0 {
					bad = "no record for the deleted entry (key version) = (" + k + ")"
				} else if n < 0 {
					bad = "a record names (key version) = (" + k + "), which is not an entry the request deleted"
				}
			}
		}
		if bad != "" {
			res.Fail(lib.Failure{Kind: "property", Signature: "event:" + st.Op.Kind + ":fields(version)", What: "step " + itoa(i) + " of program " + itoa(idx) + ": " + bad,
				Input: map[string]interface{}{"family": "events-nofilter", "program_index": idx, "steps": prog.Describe(steps, i)}, Impl: strings.Join(st.Obs.EventVids, "; ")})
			return
		}
	}
}

func hexOf(s string) string {
	const d = "0123456789abcdef"
	b := make([]byte, 0, 2*len(s))
	for i := 0; i < len(s); i++ {
		b = append(b, d[s[i]>>4], d[s[i]&15])
	}
	return string(b)
}

func itoa(i int) string { return strconv.Itoa(i) }

func c19Classify(s *prog.Step, class string) (string, string) {
	if class == "fine" {
		return "correspondence", s.Op.Kind + ":error-code"
	}
	if strings.HasPrefix(class, "events-differ") {
		// name the kind of difference, not the values
		impl := class[strings.Index(class, "impl=[")+6 : strings.Index(class, "] model=[")]
		model := class[strings.Index(class, "] model=[")+9 : len(class)-2]
		ni, nm := 0, 0
		if impl != "" {
			ni = strings.Count(impl, ";") + 1
		}
		if model != "" {
			nm = strings.Count(model, ";") + 1
		}
		kind := "fields"
		switch {
		case ni > nm:
			kind = "extra-record"
		case ni < nm:
			kind = "missing-record"
		default:
			pi, pm := strings.Fields(strings.Split(impl, ";")[0]), strings.Fields(strings.Split(model, ";")[0])
			if len(pi) == 5 && len(pm) == 5 {
				var d []string
				for i, n := range []string{"name", "bucket", "key", "size", "etag"} {
					if pi[i] != pm[i] {
						d = append(d, n)
					}
				}
				kind = "fields(" + strings.Join(d, ",") + ")"
			}
		}
		return "property", "event:" + s.Op.Kind + ":" + kind
	}
	return "property", "event-run:" + s.Op.Kind + ":" + class
}

func init() {
	fam := func(name string, versioning bool, filter map[string]bool, off int64, q, t int) checkFn {
		return func(a lib.Args, res *lib.Result) error {
			return runPrograms(a, res, progOpts{name: name, prop: "C19", programs: tierN(a, q, t), gen: c19Program, versioning: versioning,
				nGateways: 1, classify: c19Classify, seedOff: off, events: true, filter: filter, post: c19VersionOracle})
		}
	}
	checks["c19"] = checkDef{"C19",
		"programs of succeeding and failing object-changing requests (put in four encodings, copy, delete, batch delete, put/delete tagging; allowed and denied callers, missing buckets, bad signatures) against a gateway configured with a local webhook endpoint; after every request the records received are compared with Model.Gw.step's event list (event name, bucket, key; size and ETag for put/copy/complete). Four filter configurations: none, exact names, wildcards, exact-overrides-wildcard. Non-trivial = program reaches the bucket; distinct by op list.",
		[]checkFn{
			fam("events-nofilter", true, nil, 1901, 80, 1500),
			fam("events-exact", false, map[string]bool{"s3:ObjectCreated:Put": true, "s3:ObjectRemoved:Delete": true, "s3:ObjectTagging:Put": false}, 1902, 30, 600),
			fam("events-wildcard", false, map[string]bool{"s3:ObjectCreated:*": true, "s3:ObjectRemoved:*": false, "s3:ObjectTagging:*": true}, 1903, 30, 600),
			fam("events-override", false, map[string]bool{"s3:ObjectCreated:*": true, "s3:ObjectCreated:Copy": false, "s3:ObjectRemoved:*": false, "s3:ObjectRemoved:DeleteObjects": true}, 1904, 30, 600),
			c19Concurrent,
		}}
}
