package main

import (
	"verif/harness/lib"
	"verif/harness/prog"
)

type c08Upload struct {
	key, id string
	parts   map[int]string // number -> etag of the most recent successful upload
	sizes   map[int]int
	done    bool
}

// reconstruct the harness-side view of uploads from the history
func c08Uploads(hist []*prog.Step) []*c08Upload {
	var ups []*c08Upload
	find := func(k, id string) *c08Upload {
		for _, u := range ups {
			if u.key == k && u.id == id {
				return u
			}
		}
		return nil
	}
	for _, s := range hist {
		if s.Obs.Code != "" {
			continue
		}
		switch s.Op.Kind {
		case "createUpload":
			ups = append(ups, &c08Upload{key: s.Op.K, id: s.Obs.NewID, parts: map[int]string{}, sizes: map[int]int{}})
		case "uploadPart", "uploadPartCopy":
			if u := find(s.Op.K, s.Op.UpID); u != nil {
				for _, f := range s.Obs.Fields {
					if f.K == "etag" {
						b, _ := hexDecodeStr(f.V)
						u.parts[s.Op.Num] = b
					}
				}
				n := 0
				for _, sg := range s.Op.Data {
					n += sg.Len
				}
				u.sizes[s.Op.Num] = n
			}
		case "completeUpload", "abortUpload":
			if u := find(s.Op.K, s.Op.UpID); u != nil {
				u.done = true
			}
		}
	}
	return ups
}

func hexDecodeStr(h string) (string, error) {
	if h == "-" {
		return "", nil
	}
	b := make([]byte, len(h)/2)
	for i := 0; i+1 < len(h); i += 2 {
		var x byte
		for _, c := range []byte{h[i], h[i+1]} {
			x <<= 4
			switch {
			case c >= '0' && c <= '9':
				x |= c - '0'
			case c >= 'a' && c <= 'f':
				x |= c - 'a' + 10
			}
		}
		b[i/2] = x
	}
	return string(b), nil
}

// version ids issued so far per key (puts and completions), read from the implementation's answers
func c08KnownVids(hist []*prog.Step) map[string][]string {
	m := map[string][]string{}
	for _, s := range hist {
		if (s.Op.Kind == "putObject" || s.Op.Kind == "completeUpload") && s.Obs.Code == "" && s.Obs.NewVid != "" {
			m[s.Op.K] = append(m[s.Op.K], s.Obs.NewVid)
		}
	}
	return m
}

// version ids of the copy source "src"
func c08SrcVids(hist []*prog.Step) []string {
	var v []string
	for _, s := range hist {
		if s.Op.Kind == "putObject" && s.Op.K == "src" && s.Obs.Code == "" && s.Obs.NewVid != "" {
			v = append(v, s.Obs.NewVid)
		}
	}
	return v
}

const c08Big = 5 * 1024 * 1024

func c08Next(versioned bool) func(g *prog.Gen, idx int, hist []*prog.Step) *prog.Op {
	return func(g *prog.Gen, idx int, hist []*prog.Step) *prog.Op {
		b := "bkt-mp"
		keys := []string{"k1", "dir/k2"}
		n := len(hist)
		total := 14 + idx%16
		switch n {
		case 0:
			return &prog.Op{Kind: "createBucket", Caller: "root", B: b, Valid: true}
		case 1:
			if versioned {
				return &prog.Op{Kind: "putVersioning", Caller: "root", B: b, On: true}
			}
			return &prog.Op{Kind: "putObject", Caller: "root", B: b, K: "src", Put: &prog.PutSpec{Data: []prog.Seg{{Seed: 9000 + idx, Off: 0, Len: 3000}}}, Valid: true}
		case 2:
			return &prog.Op{Kind: "putObject", Caller: "root", B: b, K: "src", Put: &prog.PutSpec{Data: []prog.Seg{{Seed: 9500 + idx, Off: 0, Len: 3000}}}, Valid: true}
		case 3:
			if versioned {
				// a second, shorter (or longer) version of the copy source: parts are also copied from the older one
				return &prog.Op{Kind: "putObject", Caller: "root", B: b, K: "src", Put: &prog.PutSpec{Data: []prog.Seg{{Seed: 9700 + idx, Off: 0, Len: []int{1700, 4100}[idx%2]}}}, Valid: true}
			}
		}
		ups := c08Uploads(hist)
		if n >= total {
			switch n - total {
			case 0:
				return &prog.Op{Kind: "listUploads", Caller: "root", B: b}
			case 1:
				return &prog.Op{Kind: "getObject", Caller: "root", B: b, K: keys[0]}
			case 2:
				return &prog.Op{Kind: "getObject", Caller: "root", B: b, K: keys[1]}
			case 3:
				return &prog.Op{Kind: "headObject", Caller: "root", B: b, K: keys[0]}
			}
			if !versioned {
				return nil
			}
			// versioned bucket: the versions a completion (or an upload) replaced must still read back exactly
			if n-total == 4 {
				return &prog.Op{Kind: "listVersions", Caller: "root", B: b}
			}
			var all [][2]string
			vids := c08KnownVids(hist)
			for _, k := range keys {
				for _, v := range vids[k] {
					all = append(all, [2]string{k, v})
				}
			}
			if i := n - total - 5; i < len(all) {
				return &prog.Op{Kind: "getObject", Caller: "root", B: b, K: all[i][0], Vid: all[i][1]}
			}
			return nil
		}
		var open []*c08Upload
		for _, u := range ups {
			if !u.done {
				open = append(open, u)
			}
		}
		pick := func() *c08Upload {
			if len(ups) == 0 {
				return &c08Upload{key: keys[0], id: "no-such-upload-id", parts: map[int]string{}, sizes: map[int]int{}}
			}
			if len(open) > 0 && g.R.Chance(85) {
				return open[g.R.Intn(len(open))]
			}
			return ups[g.R.Intn(len(ups))]
		}
		caller := []string{"root", "u:adm1"}[g.R.Intn(2)]
		r := g.R.Intn(100)
		if len(open) == 0 && r >= 12 && r < 70 {
			r = 0
		}
		switch {
		case r < 12:
			p := g.PutSpec()
			p.Data = nil
			k := keys[g.R.Intn(2)]
			// an initiation that is refused after the backend has begun to create the upload (lock headers on
			// a bucket without object lock), preferably for a key that has uploads in progress: they must survive
			if g.R.Chance(30) {
				p.Hold = true
				if len(open) > 0 {
					k = open[g.R.Intn(len(open))].key
				}
			} else if g.R.Chance(35) {
				// created with a FULL_OBJECT checksum: the completion copies the parts through ONE running hash
				p.Ck = []string{"crc32", "crc32c", "crc64nvme"}[g.R.Intn(3)]
			}
			return &prog.Op{Kind: "createUpload", Caller: caller, B: b, K: k, Put: p, Valid: true}
		case r < 45:
			u := pick()
			if len(open) > 0 && g.R.Chance(7) {
				// an EMPTY upload id for a key that has uploads in progress: it names no upload
				u = &c08Upload{key: open[g.R.Intn(len(open))].key, id: "", parts: map[int]string{}, sizes: map[int]int{}}
			}
			num := 1 + g.R.Intn(4)
			size := g.R.Intn(2000)
			// a few programs use parts at the 5 MiB boundary so that multi-part completes can succeed
			if idx%4 == 0 && g.R.Chance(35) {
				size = c08Big - 1 + g.R.Intn(3)
			}
			o := &prog.Op{Kind: "uploadPart", Caller: caller, B: b, K: u.key, UpID: u.id, Num: num, Data: []prog.Seg{{Seed: 100*idx + n, Off: g.R.Intn(9), Len: size}}}
			if g.R.Chance(30) {
				o.Put = &prog.PutSpec{Encoding: []string{"unsigned", "stream-signed", "stream-unsigned-trailer", "stream-signed-trailer"}[g.R.Intn(4)], Chunks: []int{1 + g.R.Intn(700)}, Trailer: "crc32"}
			}
			return o
		case r < 55:
			u := pick()
			o := &prog.Op{Kind: "uploadPartCopy", Caller: caller, B: b, K: u.key, UpID: u.id, Num: 1 + g.R.Intn(4), SB: b, SK: "src"}
			if sv := c08SrcVids(hist); versioned && len(sv) > 0 && g.R.Chance(60) {
				o.SVid = sv[g.R.Intn(len(sv))]
			}
			switch g.R.Intn(7) {
			case 5, 6:
				o.Range = &[2]int{g.R.Intn(3000), -1} // open-ended: bytes=a-
			case 0:
			case 1:
				o.Range = &[2]int{0, 2999}
			case 2:
				a := g.R.Intn(3000)
				o.Range = &[2]int{a, a + g.R.Intn(3000-a)}
			case 3:
				o.Range = &[2]int{g.R.Intn(3000), 3000 + g.R.Intn(10)} // end beyond the source
			default:
				a := g.R.Intn(2999)
				o.Range = &[2]int{a, a}
			}
			return o
		case r < 62:
			if versioned && g.R.Chance(25) {
				// the copy source is deleted (a delete marker) or written again: a part copy from a deleted key finds no key
				if g.R.Chance(60) {
					return &prog.Op{Kind: "deleteObject", Caller: "root", B: b, K: "src"}
				}
				return &prog.Op{Kind: "putObject", Caller: "root", B: b, K: "src", Put: &prog.PutSpec{Data: []prog.Seg{{Seed: 9800 + idx + n, Off: 0, Len: 2500}}}, Valid: true}
			}
			u := pick()
			return &prog.Op{Kind: "listParts", Caller: caller, B: b, K: u.key, UpID: u.id}
		case r < 66:
			return &prog.Op{Kind: "listUploads", Caller: caller, B: b}
		case r < 86:
			u := pick()
			o := &prog.Op{Kind: "completeUpload", Caller: caller, B: b, K: u.key, UpID: u.id}
			var nums []int
			for k := 1; k <= 4; k++ {
				if _, ok := u.parts[k]; ok {
					nums = append(nums, k)
				}
			}
			switch g.R.Intn(7) {
			case 0: // a subset
				if len(nums) > 1 {
					nums = nums[:1+g.R.Intn(len(nums))]
				}
			case 1: // wrong order
				if len(nums) > 1 {
					nums[0], nums[1] = nums[1], nums[0]
				}
			case 2: // a part that was never uploaded
				nums = append(nums, 9)
			case 3, 4: // a part listed twice in a row (with its correct ETag)
				if len(nums) > 0 {
					i := g.R.Intn(len(nums))
					nums = append(nums[:i+1], nums[i:]...)
				}
			}
			for _, k := range nums {
				et := u.parts[k]
				if g.R.Chance(6) {
					et = "\"00000000000000000000000000000000\""
				}
				o.Parts = append(o.Parts, prog.PartRef{Num: k, ETag: et})
			}
			if len(o.Parts) == 0 {
				return &prog.Op{Kind: "listParts", Caller: caller, B: b, K: u.key, UpID: u.id}
			}
			return o
		case r < 92:
			u := pick()
			return &prog.Op{Kind: "abortUpload", Caller: caller, B: b, K: u.key, UpID: u.id}
		case r < 96:
			return &prog.Op{Kind: "getObject", Caller: caller, B: b, K: keys[g.R.Intn(2)]}
		default:
			return &prog.Op{Kind: "putObject", Caller: caller, B: b, K: keys[g.R.Intn(2)], Put: g.PutSpec(), Valid: true}
		}
	}
}

func c08Classify(s *prog.Step, class string) (string, string) {
	if class == "fine" {
		return "correspondence", s.Op.Kind + ":error-code"
	}
	return "property", "multipart:" + s.Op.Kind + ":" + class
}

func init() {
	fam := func(name string, versioned, noOTmp, sidecar bool, off int64, q, t int) checkFn {
		return func(a lib.Args, res *lib.Result) error {
			return runPrograms(a, res, progOpts{name: name, prop: "C08", programs: tierN(a, q, t), next: c08Next(versioned), versioning: versioned,
				noOTmp: noOTmp, sidecar: sidecar, nGateways: 2, classify: c08Classify, seedOff: off})
		}
	}
	checks["c08"] = checkDef{"C08",
		"adaptive programs of create / upload-part (numbers 1-4, re-uploads, sizes 0-2000 and 5 MiB±1, four payload encodings) / upload-part-copy (no range, whole, inner, single byte, end beyond source) / list-parts / list-uploads / complete (all parts, a subset, wrong order, a never-uploaded number, a wrong ETag) / abort over several uploads incl. several for one key, interleaved with plain PUT/GET of the same keys, on unversioned and versioned buckets (copy sources named by version id as well), with the xattr and the sidecar metadata store, uploads created with a FULL_OBJECT checksum, an empty upload id, over two gateway processes; upload ids and ETags are read from the implementation's answers. Compared with Model.Gw.step. Non-trivial = program reaches the bucket; distinct by op list.",
		[]checkFn{fam("mp-unversioned", false, false, false, 801, 150, 4000), fam("mp-versioned-namedtmp", true, true, false, 802, 50, 1500),
			fam("mp-sidecar", false, false, true, 803, 40, 1200), fam("mp-versioned-sidecar", true, false, true, 804, 25, 800)}}
}
