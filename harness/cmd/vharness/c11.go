package main

// c11.go — property C11: a gateway crash never leaves a half-written or vanished object.
//
// Tie of Model.Crash (lean/Vgw/Model/Crash.lean) to the posix backend:
//  (a) step conformance: the request runs in a real gateway under a ptrace tracer; the sequence of
//      mutating filesystem syscalls below the storage directories, projected to the model's step
//      vocabulary, must equal the model's plan for the same pre-state;
//  (b) exhaustive crash enumeration: for every step index N the gateway is SIGKILLed on ENTRY to its
//      N-th step, a fresh gateway is started on the same directories, and (i) the on-disk tree must
//      equal the model's file system after N-1 steps, (ii) the API view (GET/HEAD/tagging/
//      ListObjectsV2/ListObjectVersions/ListMultipartUploads/ListParts) must equal the model's view of
//      that file system, (iii) the Spec oracle judges the API view: old-or-new, leftovers invisible,
//      later operations (re-PUT, DELETE, emptying the bucket through the API, DeleteBucket) succeed.

import (
	"crypto/md5"
	"crypto/sha256"
	"encoding/hex"
	"encoding/json"
	"encoding/xml"
	"fmt"
	"os"
	"path/filepath"
	"sort"
	"strings"
	"sync"
	"time"

	"verif/harness/gw"
	"verif/harness/lib"
)

type c11Obj struct {
	Body  string            `json:"body"`
	CType string            `json:"ctype,omitempty"`
	Meta  map[string]string `json:"meta,omitempty"`
	Tags  string            `json:"tags,omitempty"` // k=v&k=v
}

// c11Scn is one crash scenario: configuration, pre-state and the request that is killed.
type c11Scn struct {
	Op         string   `json:"op"` // put | delete | copy | uploadpart | complete | deleteversion
	NoOTmp     bool     `json:"no_otmp"`
	Sidecar    bool     `json:"sidecar"`
	Versioning string   `json:"versioning"` // "" (no versioning dir) | "off" (dir configured, bucket unversioned) | "Enabled" | "Suspended"
	Key        string   `json:"key"`
	Pre        string   `json:"pre"` // absent | present | present2 (two generations: an archived version exists) | marker (delete marker is current)
	Old        c11Obj   `json:"old"` // object at Key in the pre-state (Pre != absent)
	New        c11Obj   `json:"new"` // put: the uploaded object; copy: the source object; uploadpart: the part; complete: unused
	SrcKey     string   `json:"src_key,omitempty"`
	PartNo     int      `json:"part_no,omitempty"`
	PartPre    bool     `json:"part_pre,omitempty"`    // uploadpart: the part number was uploaded before (overwrite)
	Parts      []string `json:"parts,omitempty"`       // complete: bodies of the parts uploaded in the pre-state
	OtherKey   string   `json:"other_key,omitempty"`   // an unrelated object that must never change
	KillAt     int      `json:"kill_at,omitempty"`     // replay: only this crash point (0 = all)
	Lock       bool     `json:"lock,omitempty"`        // the bucket is created with object lock; put/copy ask for a legal hold, complete: the upload was created with one
	OracleOnly bool     `json:"oracle_only,omitempty"` // judge the implementation by the Spec oracle alone (no comparison with the model): for trying a changed backend
}

func (s c11Scn) cfgName() string {
	n := "otmp"
	if s.NoOTmp {
		n = "named"
	}
	if s.Sidecar {
		n += "+sidecar"
	} else {
		n += "+xattr"
	}
	v := s.Versioning
	if v == "" {
		v = "nover"
	}
	if s.Lock {
		v += "+lock"
	}
	return n + "+" + v
}

func (s c11Scn) class() string {
	return s.Op + "/" + s.Pre + "/" + s.cfgName()
}

const c11Bucket = "cbk"

// Variants of the backend the model knows (lean/Vgw/Model/Crash.lean, Cfg.atomicReplace / Cfg.tagsFirst /
// Cfg.copyTagsFirst / Cfg.holdFirst). Set to true together with applying docs/C11-fix-1.diff / docs/C11-fix-2.diff /
// docs/C05-fix-4.diff to /repo (and drop the known findings they repair); the environment variables
// C11_FIX1 / C11_FIX2 / C11_FIX4 override for trying another binary.
const (
	c11Fix1Applied = true
	c11Fix2Applied = true
	c11Fix4Applied = true // CopyObject hands the source's tags to PutObject (temp file) instead of storing them by name afterwards
	c11Fix3Applied = true // docs/C11-fix-3.diff: PutObject writes legal hold / retention onto the temp file (C11_FIX3)
)

func c11Variant() string {
	f1, f2, f4 := c11Fix1Applied, c11Fix2Applied, c11Fix4Applied
	if v := os.Getenv("C11_FIX1"); v != "" {
		f1 = v == "1"
	}
	if v := os.Getenv("C11_FIX2"); v != "" {
		f2 = v == "1"
	}
	if v := os.Getenv("C11_FIX4"); v != "" {
		f4 = v == "1"
	}
	out := ""
	if f1 {
		out += ",areplace=1"
	}
	if f2 {
		out += ",tagsfirst=1"
	}
	if f4 {
		out += ",copytagsfirst=1"
	}
	f3 := c11Fix3Applied
	if v := os.Getenv("C11_FIX3"); v != "" {
		f3 = v == "1"
	}
	if f3 {
		out += ",holdfirst=1"
	}
	return out
}

func md5hex(b []byte) string { h := md5.Sum(b); return hex.EncodeToString(h[:]) }

func (w *c11World) putObject(addr, key string, o c11Obj, extra ...gw.Header) gw.Resp {
	r := gw.Req{Method: "PUT", Path: "/" + c11Bucket + "/" + gw.EncodePath(key), Body: []byte(o.Body)}
	if o.CType != "" {
		r.Headers = append(r.Headers, gw.Header{K: "Content-Type", V: o.CType})
	}
	var ks []string
	for k := range o.Meta {
		ks = append(ks, k)
	}
	sort.Strings(ks)
	for _, k := range ks {
		r.Headers = append(r.Headers, gw.Header{K: "x-amz-meta-" + k, V: o.Meta[k]})
	}
	if o.Tags != "" {
		r.Headers = append(r.Headers, gw.Header{K: "x-amz-tagging", V: o.Tags})
	}
	r.Headers = append(r.Headers, extra...)
	return w.do(addr, r)
}

type c11Setup struct {
	UploadID  string
	PartETags []string
}

// setup brings a fresh world into the scenario's pre-state through the API of an untraced gateway.
func (w *c11World) setup(s c11Scn) (c11Setup, error) {
	var st c11Setup
	g, err := w.startGateway()
	if err != nil {
		return st, err
	}
	defer g.Kill()
	addr := g.Addr()
	must := func(what string, r gw.Resp, want ...int) error {
		for _, x := range want {
			if r.Status == x {
				return nil
			}
		}
		return fmt.Errorf("setup %s: status %d %s %v", what, r.Status, r.Body, r.Err)
	}
	mkb := gw.Req{Method: "PUT", Path: "/" + c11Bucket}
	if s.Lock {
		mkb.Headers = append(mkb.Headers, gw.Header{K: "x-amz-bucket-object-lock-enabled", V: "true"})
	}
	if err := must("create bucket", w.do(addr, mkb), 200); err != nil {
		return st, err
	}
	setVer := func(status string) error {
		body := `<VersioningConfiguration xmlns="http://s3.amazonaws.com/doc/2006-03-01/"><Status>` + status + `</Status></VersioningConfiguration>`
		return must("versioning "+status, w.do(addr, gw.Req{Method: "PUT", Path: "/" + c11Bucket, Query: "versioning=", Body: []byte(body)}), 200)
	}
	if s.Pre == "nullarch" {
		// the key predates versioning: its first generation becomes the NULL version, archived by the next write
		if err := must("put before versioning", w.putObject(addr, s.Key, c11Obj{Body: "null-generation", CType: "text/null", Meta: map[string]string{"gen": "null"}}), 200); err != nil {
			return st, err
		}
	}
	if s.Versioning == "Enabled" || s.Versioning == "Suspended" {
		// objects of the pre-state are created while versioning is Enabled (they carry version ids)
		if err := setVer("Enabled"); err != nil {
			return st, err
		}
	}
	if s.OtherKey != "" {
		if err := must("put other", w.putObject(addr, s.OtherKey, c11Obj{Body: "other-body", CType: "text/other", Meta: map[string]string{"o": "other"}, Tags: "o=ther"}), 200); err != nil {
			return st, err
		}
	}
	switch s.Pre {
	case "present2", "marker":
		if err := must("put older", w.putObject(addr, s.Key, c11Obj{Body: "older-generation", CType: "text/older", Meta: map[string]string{"gen": "older"}}), 200); err != nil {
			return st, err
		}
		fallthrough
	case "present", "nullarch":
		if err := must("put old", w.putObject(addr, s.Key, s.Old), 200); err != nil {
			return st, err
		}
	}
	if s.Pre == "marker" {
		if err := must("delete (marker)", w.do(addr, gw.Req{Method: "DELETE", Path: "/" + c11Bucket + "/" + gw.EncodePath(s.Key)}), 204); err != nil {
			return st, err
		}
	}
	if s.Op == "copy" {
		if err := must("put source", w.putObject(addr, s.SrcKey, s.New), 200); err != nil {
			return st, err
		}
	}
	if s.Op == "uploadpart" || s.Op == "complete" {
		hs := []gw.Header{{K: "Content-Type", V: "text/mp"}, {K: "x-amz-meta-mp", V: "mpmeta"}}
		if s.New.Tags != "" {
			// tags requested at CreateMultipartUpload: kept with the upload, carried over by CompleteMultipartUpload
			hs = append(hs, gw.Header{K: "x-amz-tagging", V: s.New.Tags})
		}
		if s.Lock && s.Op == "complete" {
			hs = append(hs, gw.Header{K: "x-amz-object-lock-legal-hold", V: "ON"})
		}
		r := w.do(addr, gw.Req{Method: "POST", Path: "/" + c11Bucket + "/" + gw.EncodePath(s.Key), Query: "uploads=", Headers: hs})
		if err := must("create upload", r, 200); err != nil {
			return st, err
		}
		var x struct{ UploadId string }
		if err := xml.Unmarshal(r.Body, &x); err != nil || x.UploadId == "" {
			return st, fmt.Errorf("setup: no upload id in %s", r.Body)
		}
		st.UploadID = x.UploadId
		up := func(n int, body string) (string, error) {
			r := w.do(addr, gw.Req{Method: "PUT", Path: "/" + c11Bucket + "/" + gw.EncodePath(s.Key), Query: fmt.Sprintf("partNumber=%d&uploadId=%s", n, st.UploadID), Body: []byte(body)})
			if err := must("upload part", r, 200); err != nil {
				return "", err
			}
			return r.Headers.Get("ETag"), nil
		}
		if s.Op == "uploadpart" && s.PartPre {
			if _, err := up(s.PartNo, "previous-part-body"); err != nil {
				return st, err
			}
		}
		if s.Op == "complete" {
			for i, b := range s.Parts {
				et, err := up(i+1, b)
				if err != nil {
					return st, err
				}
				st.PartETags = append(st.PartETags, et)
			}
		}
	}
	if s.Versioning == "Suspended" {
		if err := setVer("Suspended"); err != nil {
			return st, err
		}
	}
	return st, nil
}

// request builds the request that is traced / killed.
func (w *c11World) request(s c11Scn, st c11Setup) gw.Req {
	p := "/" + c11Bucket + "/" + gw.EncodePath(s.Key)
	switch s.Op {
	case "put":
		r := gw.Req{Method: "PUT", Path: p, Body: []byte(s.New.Body)}
		if s.New.CType != "" {
			r.Headers = append(r.Headers, gw.Header{K: "Content-Type", V: s.New.CType})
		}
		var ks []string
		for k := range s.New.Meta {
			ks = append(ks, k)
		}
		sort.Strings(ks)
		for _, k := range ks {
			r.Headers = append(r.Headers, gw.Header{K: "x-amz-meta-" + k, V: s.New.Meta[k]})
		}
		if s.New.Tags != "" {
			r.Headers = append(r.Headers, gw.Header{K: "x-amz-tagging", V: s.New.Tags})
		}
		if s.Lock {
			r.Headers = append(r.Headers, gw.Header{K: "x-amz-object-lock-legal-hold", V: "ON"})
		}
		return r
	case "delete":
		return gw.Req{Method: "DELETE", Path: p}
	case "copy":
		r := gw.Req{Method: "PUT", Path: p, Headers: []gw.Header{{K: "x-amz-copy-source", V: "/" + c11Bucket + "/" + gw.EncodePath(s.SrcKey)}}}
		if s.Lock {
			r.Headers = append(r.Headers, gw.Header{K: "x-amz-object-lock-legal-hold", V: "ON"})
		}
		return r
	case "uploadpart":
		return gw.Req{Method: "PUT", Path: p, Query: fmt.Sprintf("partNumber=%d&uploadId=%s", s.PartNo, st.UploadID), Body: []byte(s.New.Body)}
	case "complete":
		var b strings.Builder
		b.WriteString(`<CompleteMultipartUpload xmlns="http://s3.amazonaws.com/doc/2006-03-01/">`)
		for i, et := range st.PartETags {
			fmt.Fprintf(&b, "<Part><PartNumber>%d</PartNumber><ETag>%s</ETag></Part>", i+1, et)
		}
		b.WriteString(`</CompleteMultipartUpload>`)
		return gw.Req{Method: "POST", Path: p, Query: "uploadId=" + st.UploadID, Body: []byte(b.String())}
	}
	return gw.Req{}
}

// c11Debug: `-replay` file with {"failure":{"input":{"debug":"trace", ...scenario}}} prints the raw
// trace of the scenario's request (development aid, also useful to inspect a finding).
func c11Debug(a lib.Args, s c11Scn) error {
	w, err := newC11World(a.GwBin, filepath.Join(a.Work, "c11dbg"), s.NoOTmp, s.Sidecar, s.Versioning != "")
	if err != nil {
		return err
	}
	w.Lock = s.Lock
	st, err := w.setup(s)
	if err != nil {
		return err
	}
	if err := w.Save(); err != nil {
		return err
	}
	t, err := w.startTraced(s.KillAt, false)
	if err != nil {
		return err
	}
	t.Arm()
	rsp := w.do(t.addr, w.request(s, st))
	fmt.Fprintf(os.Stderr, "response: %d %s err=%v\n", rsp.Status, rsp.ErrCode(), rsp.Err)
	t.Stop()
	recs, end, err := t.Records()
	if err != nil {
		return err
	}
	for _, r := range recs {
		b, _ := json.Marshal(r)
		fmt.Fprintln(os.Stderr, string(b))
	}
	fmt.Fprintln(os.Stderr, "end:", end)
	return nil
}

// ---------------------------------------------------------------- one scenario

type c11Obs struct {
	Get, List, Ver, Up, Other string
	Blocked                   string // "0" | "1" | "?" (not measured)
	Incons                    []string
	Died                      string // the gateway stopped answering during the observation (which request)
}

func (o c11Obs) fields() []string { return []string{o.Get, o.List, o.Ver, o.Up, o.Other, o.Blocked} }
func (o c11Obs) String() string   { return strings.Join(o.fields(), " ") }

type c11Run struct {
	a   lib.Args
	res *lib.Result
	s   c11Scn
	w   *c11World
	st  c11Setup
	tok *c11Tok
}

func (s c11Scn) cfgLine() string {
	b := func(x bool) string {
		if x {
			return "1"
		}
		return "0"
	}
	vs := "off"
	switch s.Versioning {
	case "Enabled":
		vs = "enabled"
	case "Suspended":
		vs = "suspended"
	}
	return fmt.Sprintf("otmp=%s,sidecar=%s,verdir=%s,vstatus=%s,bucket=%s", b(!s.NoOTmp), b(s.Sidecar), b(s.Versioning != ""), vs, c11Bucket) + c11Variant() + map[bool]string{true: ",lock=1", false: ""}[s.Lock]
}

func (s c11Scn) reqLine() string {
	f := []string{"op=" + s.Op, "key=" + s.Key}
	switch s.Op {
	case "put":
		var mk []string
		for k := range s.New.Meta {
			mk = append(mk, k)
		}
		sort.Strings(mk)
		if len(mk) > 0 {
			f = append(f, "meta="+strings.Join(mk, "+"))
		}
		if s.New.CType != "" {
			f = append(f, "ctype=1")
		}
		if s.New.Tags != "" {
			f = append(f, "tags=1")
		}
		if len(s.New.Body) == 0 {
			f = append(f, "falloc=0")
		}
		if s.Lock {
			f = append(f, "hold=1")
		}
	case "copy":
		f = append(f, "src="+s.SrcKey)
		if s.Lock {
			f = append(f, "hold=1")
		}
	case "uploadpart":
		f = append(f, "upload=U0", fmt.Sprintf("part=%d", s.PartNo))
	case "complete":
		var ps []string
		for i := range s.Parts {
			ps = append(ps, fmt.Sprint(i+1))
		}
		f = append(f, "upload=U0", "parts="+strings.Join(ps, "+"))
	}
	return strings.Join(f, ",")
}

// targetRel is the path (below the storage root) whose attributes define the tokens "old" and "new".
func (r *c11Run) targetRel() []string {
	if r.s.Op == "uploadpart" {
		h := sha256hex([]byte(r.s.Key))
		return []string{c11Bucket, ".sgwtmp", "multipart", h, r.st.UploadID, fmt.Sprint(r.s.PartNo)}
	}
	return append([]string{c11Bucket}, strings.Split(r.s.Key, "/")...)
}

func sha256hex(b []byte) string { h := sha256.Sum256(b); return hex.EncodeToString(h[:]) }

// observe queries the API of a gateway running on the current storage and tokenises the answers.
func (r *c11Run) observe(addr string) (c11Obs, error) {
	var o c11Obs
	o.Blocked = "?"
	w, s, t := r.w, r.s, r.tok
	// GetObjectLegalHold (object-lock buckets): ON reads as the stored value's token, OFF / nothing stored as "-"
	holdTok := func(h string) string {
		if h == "ON" {
			return t.val("object-legal-hold", []byte{1})
		}
		if strings.HasPrefix(h, "!") {
			return h
		}
		return "-"
	}
	getTok := func(key string) (string, c11ObjView, error) {
		v := w.observeKey(addr, c11Bucket, key, key != s.Key)
		switch {
		case v.Status == 404:
			return "404", v, nil
		case v.Status != 200:
			return fmt.Sprintf("!%d", v.Status), v, nil
		}
		ct := t.val("content-type", []byte(v.CType))
		if ct != "old" && ct != "new" && !(key != s.Key && key != s.SrcKey) {
			ct = "-"
		}
		var ms []string
		for k, mv := range v.Meta {
			ms = append(ms, "X-Amz-Meta."+k+"="+t.val("X-Amz-Meta."+k, []byte(mv)))
		}
		sort.Strings(ms)
		meta := "-"
		if len(ms) > 0 {
			meta = strings.Join(ms, "+")
		}
		vid := "-"
		if w.Cfg.VersioningDir != "" {
			vid = t.vid(v.Vid)
		}
		tags := r.tagTok(v.Tags)
		etag := "-"
		if v.ETag != "" {
			etag = t.val("etag", []byte(v.ETag))
		}
		out := fmt.Sprintf("%s,%s,%s,%s,%s,%s", t.data(v.Body), etag, ct, meta, vid, tags)
		if s.Lock && key != s.Key {
			out += "," + holdTok(v.Hold)
		}
		return out, v, nil
	}
	g, v, err := getTok(s.Key)
	if err != nil {
		return o, err
	}
	if v.Died != "" {
		o.Get, o.Died = g, v.Died
		return o, nil
	}
	if v.Status <= 0 {
		// no HTTP answer at all: the gateway process is not there (killed from outside, port trouble on a shared
		// machine). Not an observation: the caller runs the scenario again; if it persists the check fails as a whole.
		return o, fmt.Errorf("gateway does not answer (GET %s)", s.Key)
	}
	o.Get = g
	keys, err := w.listKeys(addr, c11Bucket)
	listErr := ""
	if se, ok := err.(*c11StatusErr); ok {
		listErr, keys, err = fmt.Sprintf("!%d", se.Status), map[string]string{}, nil
	}
	if err != nil {
		return o, err
	}
	listTok := func(key string) string {
		if listErr != "" {
			return listErr
		}
		e, ok := keys[key]
		if !ok {
			return "-"
		}
		et := e[strings.Index(e, ":")+1:]
		if stripQuotes(et) == "" {
			return "noetag"
		}
		return t.val("etag", []byte(et))
	}
	o.List = listTok(s.Key)
	// consistency of the answers among themselves (no model involved)
	if listErr != "" {
		o.Incons = append(o.Incons, "ListObjectsV2 answers "+listErr)
	} else if v.Status == 200 {
		want := fmt.Sprintf("200:%d:%s", len(v.Body), v.ETag)
		if v.Head != want {
			o.Incons = append(o.Incons, "HEAD "+v.Head+" vs GET "+want)
		}
		if v.CLen != fmt.Sprint(len(v.Body)) {
			o.Incons = append(o.Incons, "GET Content-Length "+v.CLen+" vs body "+fmt.Sprint(len(v.Body)))
		}
		if e, ok := keys[s.Key]; ok && e != fmt.Sprintf("%d:%s", len(v.Body), v.ETag) {
			o.Incons = append(o.Incons, "List "+e+" vs GET "+fmt.Sprintf("%d:%s", len(v.Body), v.ETag))
		} else if !ok {
			o.Incons = append(o.Incons, "GET 200 but the key is not listed")
		}
	} else if _, ok := keys[s.Key]; ok {
		o.Incons = append(o.Incons, fmt.Sprintf("GET %d but the key is listed", v.Status))
	}
	for k := range keys {
		if strings.Contains(k, ".sgwtmp") {
			o.Incons = append(o.Incons, "temporary name listed: "+k)
		} else if k != s.Key && k != s.SrcKey && k != s.OtherKey {
			o.Incons = append(o.Incons, "a key that nobody put is listed: "+k)
		}
	}
	if s.Versioning == "Enabled" || s.Versioning == "Suspended" {
		vs, err := w.listVersions(addr, c11Bucket)
		if se, ok := err.(*c11StatusErr); ok {
			o.Ver, vs, err = fmt.Sprintf("!%d", se.Status), nil, nil
		}
		if err != nil {
			return o, err
		}
		var ents []string
		for _, x := range vs {
			if x.Key != s.Key {
				continue
			}
			la, mk, et := "A", "O", "-"
			if x.Latest {
				la = "L"
			}
			if x.DelMark {
				mk = "M"
			} else if stripQuotes(x.ETag) != "" {
				et = t.val("etag", []byte(x.ETag))
			}
			ents = append(ents, fmt.Sprintf("%s:%s:%s:%s", t.vid(x.Vid), la, mk, et))
		}
		sort.Strings(ents)
		if len(ents) > 0 {
			o.Ver = strings.Join(ents, "/")
		}
	}
	if o.Ver == "" {
		o.Ver = "-"
	}
	ups, err := w.listUploads(addr, c11Bucket)
	if se, ok := err.(*c11StatusErr); ok {
		o.Up, ups, err = fmt.Sprintf("!%d", se.Status), nil, nil
	}
	if err != nil {
		return o, err
	}
	var us []string
	for _, u := range ups {
		if u[0] != s.Key {
			us = append(us, "foreign-key:"+u[0])
			continue
		}
		id, ok := t.uploads[u[1]]
		if !ok {
			id = "U?"
		}
		ps, err := w.listParts(addr, c11Bucket, s.Key, u[1])
		if err != nil {
			return o, err
		}
		if ps != "-" && !strings.HasPrefix(ps, "!") {
			var pt []string
			for _, p := range strings.Split(ps, ",") {
				f := strings.SplitN(p, ":", 3)
				et := "-"
				if f[2] != "" {
					et = t.val("etag", []byte(f[2]))
				}
				pt = append(pt, f[0]+"="+et)
			}
			sort.Strings(pt)
			ps = strings.Join(pt, "+")
		}
		us = append(us, id+":"+ps)
	}
	sort.Strings(us)
	if o.Up == "" {
		o.Up = "-"
	}
	if len(us) > 0 {
		o.Up = strings.Join(us, "/")
	}
	o.Other = "-"
	if s.OtherKey != "" {
		g, _, _ := getTok(s.OtherKey)
		o.Other = g + "|" + listTok(s.OtherKey)
	}
	if s.Lock && v.Status == 200 {
		// the key's legal hold, asked last: an unreadable stored value has been seen to kill the gateway process
		h := w.legalHold(addr, "/"+c11Bucket+"/"+gw.EncodePath(s.Key))
		if h == "!dies" {
			o.Died = "GetObjectLegalHold got no answer"
			h = ""
		}
		o.Get += "," + holdTok(h)
	}
	return o, nil
}

// tagTok tokenises the GetObjectTagging answer: the stored attribute is the JSON of the tag map (the
// scenarios use at most one tag, so the JSON is rebuilt from the canonical k=v form).
func (r *c11Run) tagTok(canon string) string {
	switch {
	case canon == "!404" || canon == "-":
		return "-" // no tag set (the gateway answers 404 for an untagged object)
	case canon == "!500":
		return "~" // the stored tag set is unreadable (empty sidecar file)
	case strings.HasPrefix(canon, "!"):
		return canon
	}
	kv := strings.SplitN(canon, "=", 2)
	if len(kv) != 2 || strings.Contains(canon, "&") {
		return shortHash([]byte(canon))
	}
	js, _ := json.Marshal(map[string]string{kv[0]: kv[1]})
	return r.tok.val("X-Amz-Tagging", js)
}

// emptyAndDelete deletes everything the API lists (objects, versions, uploads), then the bucket.
func (r *c11Run) emptyAndDelete(addr string) (status int, detail string) {
	w := r.w
	for pass := 0; pass < 3; pass++ {
		if ups, err := w.listUploads(addr, c11Bucket); err == nil {
			for _, u := range ups {
				w.do(addr, gw.Req{Method: "DELETE", Path: "/" + c11Bucket + "/" + gw.EncodePath(u[0]), Query: "uploadId=" + u[1]})
			}
		}
		if r.s.Versioning == "Enabled" || r.s.Versioning == "Suspended" {
			if vs, err := w.listVersions(addr, c11Bucket); err == nil {
				for _, v := range vs {
					w.do(addr, gw.Req{Method: "DELETE", Path: "/" + c11Bucket + "/" + gw.EncodePath(v.Key), Query: "versionId=" + v.Vid})
				}
			}
		} else if keys, err := w.listKeys(addr, c11Bucket); err == nil {
			for k := range keys {
				if r.s.Lock {
					// a held object cannot be deleted: release the legal hold first (any client may)
					w.do(addr, gw.Req{Method: "PUT", Path: "/" + c11Bucket + "/" + gw.EncodePath(k), Query: "legal-hold=",
						Body: []byte(`<LegalHold xmlns="http://s3.amazonaws.com/doc/2006-03-01/"><Status>OFF</Status></LegalHold>`)})
				}
				w.do(addr, gw.Req{Method: "DELETE", Path: "/" + c11Bucket + "/" + gw.EncodePath(k)})
			}
		}
	}
	rsp := w.do(addr, gw.Req{Method: "DELETE", Path: "/" + c11Bucket})
	return rsp.Status, rsp.ErrCode()
}

// ---------------------------------------------------------------- the scenario runner

// withGatewayLog is withGateway for an f that wants to read what the gateway printed so far.
func (w *c11World) withGatewayLog(f func(addr string, glog func() string) error) error {
	g, err := w.startGateway()
	if err != nil {
		return err
	}
	defer g.Kill()
	return f(g.Addr(), func() string {
		time.Sleep(300 * time.Millisecond) // let a dying process finish printing
		if g.Log == nil {
			return ""
		}
		return g.Log.String()
	})
}

// withGateway runs f against a fresh untraced gateway on the current storage.
func (w *c11World) withGateway(f func(addr string) error) error {
	g, err := w.startGateway()
	if err != nil {
		return err
	}
	defer g.Kill()
	err = f(g.Addr())
	if err != nil && strings.Contains(err.Error(), "does not answer") && g.Log != nil {
		// the gateway process died or hung: its last words belong to the error
		l := g.Log.String()
		if i := strings.Index(l, "panic"); i >= 0 {
			l = l[i:]
			if len(l) > 1500 {
				l = l[:1500]
			}
		} else if len(l) > 1500 {
			l = l[len(l)-1500:]
		}
		err = fmt.Errorf("%v; gateway log tail: %s", err, l)
	}
	return err
}

func okStatus(op string, st int) bool {
	if op == "delete" {
		return st == 204
	}
	return st == 200
}

// stepClass names the kind of file a step works on (signature of a finding: the code window).
func stepClass(shape string) string {
	f := strings.Split(shape, ":")
	p := f[len(f)-1]
	if f[0] == "setx" || f[0] == "rmx" {
		p = f[1]
	}
	if f[0] == "rename" && len(f) >= 3 {
		p = f[2]
	}
	cls := "object"
	switch {
	case strings.HasPrefix(p, "@"):
		cls = "tmp"
	case strings.HasPrefix(p, "SV/"):
		cls = "sidecar-of-version"
	case strings.HasPrefix(p, "S/") && strings.Contains(p, "/.sgwtmp/"):
		cls = "sidecar-of-upload"
	case strings.HasPrefix(p, "S/"):
		cls = "sidecar"
	case strings.HasPrefix(p, "V/") && strings.Contains(p, "/.sgwtmp"):
		cls = "version-tmp"
	case strings.HasPrefix(p, "V/"):
		if strings.Count(p, "/") >= 6 {
			cls = "version"
		} else {
			cls = "version-dir"
		}
	case strings.Contains(p, "/.sgwtmp/multipart/"):
		cls = "upload"
	case strings.Contains(p, "/.sgwtmp"):
		cls = "tmp"
	}
	if cls == "object" && (f[0] == "mkdir" || f[0] == "rmdir") {
		cls = "parent-dir"
	}
	if f[0] == "setx" || f[0] == "rmx" {
		return f[0] + "(" + cls + ":" + f[2] + ")"
	}
	return f[0] + "(" + cls + ")"
}

func (r *c11Run) fail(kind, sig, what string, extra map[string]interface{}, impl, model string) {
	in := map[string]interface{}{}
	b, _ := json.Marshal(r.s)
	json.Unmarshal(b, &in)
	for k, v := range extra {
		in[k] = v
	}
	r.res.Fail(lib.Failure{Kind: kind, Signature: sig, What: what, Input: in, Impl: impl, Model: model})
}

func (r *c11Run) run(worker string) error {
	s := r.s
	w, err := newC11World(r.a.GwBin, filepath.Join(r.a.Work, "c11-"+worker), s.NoOTmp, s.Sidecar, s.Versioning != "")
	if err != nil {
		return err
	}
	w.Lock = s.Lock
	r.w = w
	defer os.RemoveAll(w.Work)
	if w.Cfg.Sidecar != "" && w.Cfg.VersioningDir != "" {
		// the sidecar store embeds the absolute path of the versioning directory
		os.MkdirAll(filepath.Join(w.Cfg.Sidecar, w.Cfg.VersioningDir), 0o755)
	}
	r.st, err = w.setup(s)
	if err != nil {
		return err
	}
	if err := w.Save(); err != nil {
		return err
	}
	pre := w.rawSnapshot()

	// ---- record run (tie a)
	t, err := w.startTraced(0, false)
	if err != nil {
		return err
	}
	t.Arm()
	rsp := w.do(t.addr, w.request(s, r.st))
	t.Stop()
	if !okStatus(s.Op, rsp.Status) {
		return fmt.Errorf("scenario %s: the request itself fails: %d %s %v", s.class(), rsp.Status, rsp.Body, rsp.Err)
	}
	recs, _, err := t.Records()
	if err != nil {
		return err
	}
	final := w.rawSnapshot()

	// ---- tokens
	tok := newC11Tok(w, []string{s.Key, s.SrcKey, s.OtherKey})
	r.tok = tok
	if r.st.UploadID != "" {
		tok.uploads[r.st.UploadID] = "U0"
	}
	var vids []string
	for _, n := range pre {
		if v, ok := n.Attrs["version-id"]; ok && len(v) > 0 {
			vids = append(vids, string(v))
		}
		if n.Area == "V" && !n.IsDir && len(n.Rel) == 6 {
			vids = append(vids, n.Rel[5])
		}
		if n.Area == "S" && !n.IsDir && n.Rel[len(n.Rel)-1] == "version-id" {
			vids = append(vids, string(n.Data))
		}
	}
	sort.Strings(vids)
	for _, v := range vids {
		if _, ok := tok.vids[v]; !ok && v != "null" && v != "" {
			tok.vids[v] = fmt.Sprintf("v%d", len(tok.vids))
		}
	}
	tok.oldAttrs = w.targetAttrs(pre, r.targetRel())
	tok.newAttrs = w.targetAttrs(final, r.targetRel())
	switch s.Op {
	case "complete":
		if len(s.Parts) == 1 {
			tok.blobs = append(tok.blobs, [2]string{"new", s.Parts[0]})
		} else {
			var names []string
			for i, p := range s.Parts {
				names = append(names, fmt.Sprintf("p%d", i+1))
				tok.blobs = append(tok.blobs, [2]string{names[i], p})
			}
			tok.blobs = append(tok.blobs, [2]string{strings.Join(names, "+"), strings.Join(s.Parts, "")})
		}
		tok.blobs = append(tok.blobs, [2]string{"old", s.Old.Body})
	case "uploadpart":
		tok.blobs = append(tok.blobs, [2]string{"new", s.New.Body}, [2]string{"old", "previous-part-body"})
	default:
		tok.blobs = append(tok.blobs, [2]string{"new", s.New.Body}, [2]string{"old", s.Old.Body})
	}
	tok.blobs = append(tok.blobs, [2]string{"older", "older-generation"}, [2]string{"other", "other-body"})

	preFS := tok.canonFS(pre)
	finalFS := tok.canonFS(final)
	impl := tok.project(recs)
	cfgL, reqL := s.cfgLine(), s.reqLine()
	okey := s.OtherKey
	if okey == "" {
		okey = "-"
	}

	// ---- observations of the completed request, then of the pre-state
	var obsNew, obsOld c11Obs
	if err := w.withGateway(func(addr string) error {
		var e error
		obsNew, e = r.observe(addr)
		if e != nil {
			return e
		}
		st, _ := r.emptyAndDelete(addr)
		obsNew.Blocked = "0"
		if st != 204 {
			obsNew.Blocked = "1"
		}
		return nil
	}); err != nil {
		return err
	}
	if err := w.Restore(); err != nil {
		return err
	}
	if err := w.withGateway(func(addr string) error {
		var e error
		obsOld, e = r.observe(addr)
		if e != nil {
			return e
		}
		st, _ := r.emptyAndDelete(addr)
		obsOld.Blocked = "0"
		if st != 204 {
			obsOld.Blocked = "1"
		}
		return nil
	}); err != nil {
		return err
	}

	// ---- the model's plan
	out, err := r.a.Driver.Ask([]string{
		fmt.Sprintf("crash plan %s %s %s", cfgL, reqL, preFS),
		fmt.Sprintf("crash obs %s %s %s %s", cfgL, preFS, s.Key, okey),
	})
	if err != nil {
		return err
	}
	var plan []string
	if out[0] != "-" && out[0] != "bad-op" {
		plan = strings.Split(out[0], ";")
	}
	cls := s.class()
	in0 := map[string]interface{}{"pre_fs": preFS}
	if out[0] == "bad-op" || out[1] == "bad-op" {
		r.fail("correspondence", "C11:driver-rejects-input", "the Lean driver does not parse the scenario", in0, preFS, out[0])
		return nil
	}
	if !s.OracleOnly && out[1] != obsOld.String() {
		r.fail("correspondence", "C11:view:pre-state", "API view of the pre-state differs from Model.Crash.view of the on-disk tree", in0, obsOld.String(), out[1])
	}
	idxAll, merr := matchSteps(impl, plan)
	implShapes := make([]string, len(impl))
	for i, st := range impl {
		implShapes[i] = st.Shape
	}
	r.res.Count(cls+"|plan", true, "scenario:"+s.Op, "scenario-cfg:"+s.cfgName(), "scenario-pre:"+s.Pre, fmt.Sprintf("plan-steps:%d", len(impl)))
	if !s.OracleOnly && (merr != nil || len(idxAll) != len(plan)) {
		msg := "the plan has more steps than the implementation executed"
		if merr != nil {
			msg = merr.Error()
		}
		r.fail("correspondence", "C11:steps:"+s.Op+"/"+s.cfgName(), "the traced request's mutating syscalls differ from the model's plan: "+msg, in0,
			strings.Join(implShapes, ";"), strings.Join(plan, ";"))
		// the model no longer describes this request: judge the implementation's crash states by the Spec oracle alone
		s.OracleOnly = true
		r.s.OracleOnly = true
	}
	r.res.Sample(map[string]interface{}{"scenario": s, "plan": plan})

	// ---- crash points (tie b)
	type point struct {
		n       int
		idx     []int
		fs      string
		obs     c11Obs
		last    string
		next    string
		reOK    bool
		reWhat  string
		dies    string // the gateway process died while serving the re-issued request
		skipped string
	}
	var pts []point
	todo := map[int]bool{}
	for n := 0; n < len(impl); n++ {
		if s.KillAt == 0 || n+1 <= s.KillAt {
			todo[n] = true // a replay runs the crash points before the failing one too (signatures name the window's origin)
		}
	}
	postDir := filepath.Join(w.Work, "post")
	delta := 0 // raw syscall index of a step in the current runs minus the one of the record run (restarted calls shift it)
	for attempt := 0; attempt < 4 && len(todo) > 0; attempt++ {
		var ns []int
		for n := range todo {
			ns = append(ns, n)
		}
		sort.Ints(ns)
		for _, n := range ns {
			if !todo[n] {
				continue
			}
			if err := w.Restore(); err != nil {
				return err
			}
			killSeq := impl[n].Seq + delta
			if killSeq < 1 {
				killSeq = 1
			}
			kt, err := w.startTraced(killSeq, false)
			if err != nil {
				return err
			}
			kt.Arm()
			krsp := w.do(kt.addr, w.request(s, r.st))
			if !kt.WaitDead(10 * time.Second) {
				kt.Stop()
			}
			krecs, end, err := kt.Records()
			if err != nil {
				return err
			}
			if end != "killed" {
				// the run drifted (a restarted syscall shifted the raw indices): the request completed
				continue
			}
			_ = krsp
			exec_ := tok.project(krecs)
			idx, merr := matchSteps(exec_, plan)
			if s.OracleOnly {
				idx, merr = make([]int, len(exec_)), nil
			}
			if merr != nil {
				var sh []string
				for _, st := range exec_ {
					sh = append(sh, st.Shape)
				}
				r.fail("correspondence", "C11:steps:"+s.Op+"/"+s.cfgName(), "killed run: executed steps are not a prefix of the model's plan: "+merr.Error(),
					map[string]interface{}{"kill_at": n + 1}, strings.Join(sh, ";"), strings.Join(plan, ";"))
				delete(todo, n)
				continue
			}
			m := len(idx)
			if m < len(impl) {
				delta = killSeq - impl[m].Seq
			}
			if !todo[m] {
				continue // a crash point already covered
			}
			delete(todo, m)
			p := point{n: m, idx: idx, fs: tok.canonFS(w.rawSnapshot())}
			if m > 0 {
				p.last = exec_[m-1].Shape
			}
			if m < len(impl) {
				p.next = impl[m].Shape
			}
			if err := w.saveTo(postDir); err != nil {
				return err
			}
			if err := w.withGateway(func(addr string) error {
				var e error
				p.obs, e = r.observe(addr)
				if e != nil {
					return e
				}
				if p.obs.Died != "" {
					return nil // emptied below, through a fresh gateway
				}
				st, _ := r.emptyAndDelete(addr)
				p.obs.Blocked = "0"
				if st != 204 {
					p.obs.Blocked = "1"
				}
				return nil
			}); err != nil {
				return err
			}
			if p.obs.Died != "" {
				p.dies = p.obs.Died
				if err := w.withGateway(func(addr string) error {
					st, _ := r.emptyAndDelete(addr)
					p.obs.Blocked = "0"
					if st != 204 {
						p.obs.Blocked = "1"
					}
					return nil
				}); err != nil {
					return err
				}
			}
			// later operations on the crashed state: the same request again must succeed and take full effect
			// (a refusal is confirmed by a second attempt from the same crashed state: the machine is shared)
			for try := 0; try < 2; try++ {
				p.dies = p.obs.Died
				if err := w.restoreFrom(postDir); err != nil {
					return err
				}
				if err := w.withGatewayLog(func(addr string, glog func() string) error {
					rr := w.do(addr, w.request(s, r.st))
					p.reOK = okStatus(s.Op, rr.Status)
					p.reWhat = fmt.Sprintf("%d %s", rr.Status, rr.ErrCode())
					if rr.Status <= 0 {
						if l := glog(); strings.Contains(l, "panic") {
							// no answer and the process has printed a panic: the crash left something on disk that kills the gateway
							i := strings.Index(l, "panic")
							l = l[i:]
							if j := strings.IndexByte(l, '\n'); j > 0 {
								l = l[:j]
							}
							p.dies = l
							p.reOK = false
							p.reWhat = "no answer: " + l
							return nil
						}
					}
					o2, e := r.observe(addr)
					if e != nil {
						return e
					}
					if o2.Died != "" {
						p.dies = "after the re-issued request: " + o2.Died
					}
					if p.reOK && (o2.Get != obsNew.Get || o2.List != obsNew.List) {
						p.reOK = false
						p.reWhat += " then " + o2.Get + " " + o2.List
					}
					if !p.reOK && s.Op == "complete" && p.obs.Get == obsNew.Get {
						p.reOK = true // the object is already complete; a leftover of the upload is judged by the oracle and must be abortable
					}
					return nil
				}); err != nil {
					return err
				}
				if p.reOK {
					break
				}
			}
			pts = append(pts, p)
		}
	}
	for n := range todo {
		r.res.Note("%s: crash point %d could not be reached deterministically (restarted syscalls)", cls, n)
	}

	// ---- model and oracle
	sort.Slice(pts, func(i, j int) bool { return pts[i].n < pts[j].n })
	var lines []string
	for _, p := range pts {
		var is []string
		for _, i := range p.idx {
			is = append(is, fmt.Sprint(i))
		}
		il := "-"
		if len(is) > 0 {
			il = strings.Join(is, ",")
		}
		lines = append(lines, fmt.Sprintf("crash after %s %s %s %s %s %s", cfgL, reqL, preFS, il, s.Key, okey))
		lines = append(lines, fmt.Sprintf("crash obs %s %s %s %s", cfgL, p.fs, s.Key, okey))
		lines = append(lines, "crash judge "+obsOld.String()+" "+obsNew.String()+" "+p.obs.String())
	}
	// the completed request
	var all []string
	for _, i := range idxAll {
		all = append(all, fmt.Sprint(i))
	}
	lines = append(lines, fmt.Sprintf("crash after %s %s %s %s %s %s", cfgL, reqL, preFS, strings.Join(all, ","), s.Key, okey))
	ans, err := r.a.Driver.Ask(lines)
	if err != nil {
		return err
	}
	ansOf := map[int][3]string{}
	for i, p := range pts {
		ansOf[p.n] = [3]string{ans[3*i], ans[3*i+1], ans[3*i+2]}
	}
	origin := map[string]string{} // defect -> class of the step that introduced it (current run of crash points)
	prevDefects := map[string]bool{}
	for _, p := range pts {
		after, obsOfImplFS, verdict := ansOf[p.n][0], ansOf[p.n][1], ansOf[p.n][2]
		sp := strings.SplitN(after, " ", 2)
		extra := map[string]interface{}{"kill_at": p.n + 1, "executed_steps": p.n, "last_step": p.last, "next_step": p.next}
		window := "start"
		if p.last != "" {
			window = stepClass(p.last)
		}
		nontrivial := p.n >= 1 || s.Pre != "absent"
		r.res.Count(fmt.Sprintf("%s|%d", cls, p.n), nontrivial, "kills", "kill:"+s.Op, "verdict:"+verdict)
		if len(sp) != 2 {
			r.fail("correspondence", "C11:driver-rejects-input", "bad answer to `after`", extra, p.fs, after)
			continue
		}
		modelFS, modelObs := sp[0], sp[1]
		if s.OracleOnly {
			modelFS, modelObs, obsOfImplFS = p.fs, p.obs.String(), p.obs.String()
		}
		if p.obs.Died != "" {
			// the gateway died while it was being asked: there is no complete observation to compare or to judge;
			// the death itself is the finding (`gateway-dies`)
			modelObs, obsOfImplFS, verdict = p.obs.String(), p.obs.String(), "ok"
			p.obs.Incons = nil
		}
		if modelFS != p.fs {
			r.fail("correspondence", "C11:fs:"+s.Op+"/"+s.cfgName(), "on-disk tree after the kill differs from the model's file system after the same steps", extra, p.fs, modelFS)
		}
		if obsOfImplFS != p.obs.String() {
			r.fail("correspondence", "C11:view:"+s.Op+"/"+s.cfgName(), "API view after restart differs from Model.Crash's view of the on-disk tree", extra, p.obs.String(), obsOfImplFS)
		} else if modelObs != p.obs.String() {
			r.fail("correspondence", "C11:view:"+s.Op+"/"+s.cfgName(), "API view after restart differs from the model's post-crash view", extra, p.obs.String(), modelObs)
		}
		cur := map[string]bool{}
		if verdict != "ok" {
			for _, d := range strings.Split(verdict, "+") {
				cur[d] = true
			}
		}
		for _, inc := range p.obs.Incons {
			cur["inconsistent-answers"] = true
			extra["inconsistency"] = inc
		}
		if !p.reOK {
			cur["blocks-retry"] = true
			extra["retry"] = p.reWhat
		}
		if p.dies != "" {
			delete(cur, "blocks-retry")
			cur["gateway-dies"] = true
		}
		var ds []string
		for d := range cur {
			ds = append(ds, d)
		}
		sort.Strings(ds)
		for _, d := range ds {
			if !prevDefects[d] {
				origin[d] = window
			}
			if s.KillAt != 0 && p.n+1 != s.KillAt {
				continue
			}
			sig := "crash:" + s.Op + ":" + d + "@" + origin[d]
			if d == "gateway-dies" {
				sig = "gateway-dies:" + s.Op + "@" + origin[d] // a process-level failure, kept apart from the families of view defects
				extra["dies"] = p.dies
			}
			r.fail("property", sig, "after a kill in this window the API shows what the property excludes ("+verdict+"; old="+obsOld.String()+" new="+obsNew.String()+")", extra, p.obs.String(), modelObs)
		}
		prevDefects = cur
	}
	// completed run: file system and view
	last := ans[len(ans)-1]
	sp := strings.SplitN(last, " ", 2)
	if len(sp) == 2 && !s.OracleOnly {
		if sp[0] != finalFS {
			r.fail("correspondence", "C11:fs:"+s.Op+"/"+s.cfgName(), "on-disk tree after the completed request differs from the model's", map[string]interface{}{"kill_at": -1}, finalFS, sp[0])
		}
		if sp[1] != obsNew.String() {
			r.fail("correspondence", "C11:view:"+s.Op+"/"+s.cfgName(), "API view after the completed request differs from the model's", map[string]interface{}{"kill_at": -1}, obsNew.String(), sp[1])
		}
	}
	if obsOld.Blocked == "1" || obsNew.Blocked == "1" {
		r.fail("property", "no-crash:"+s.Op+":delete-bucket-blocked", "without any crash the bucket cannot be deleted after emptying it", nil, obsOld.String()+" / "+obsNew.String(), "")
	}
	return nil
}

// c11Scenarios: the corpus (one configuration per request kind, run first), then generated ones.
func c11Scenarios(a lib.Args) []c11Scn {
	r := lib.NewRandStream(a.Seed, 11)
	word := func(p string) string { return p + string(rune('a'+r.Intn(26))) + string(rune('a'+r.Intn(26))) }
	obj := func(gen string, tags bool) c11Obj {
		o := c11Obj{Body: gen + "-body-" + hex.EncodeToString(r.Bytes(3+r.Intn(6))), CType: "text/" + gen, Meta: map[string]string{"a": gen + word("")}}
		if tags {
			o.Tags = "t=" + gen + word("")
		}
		return o
	}
	mk := func(op, key, pre string, noOTmp, sidecar bool, ver string, tags bool) c11Scn {
		s := c11Scn{Op: op, Key: key, Pre: pre, NoOTmp: noOTmp, Sidecar: sidecar, Versioning: ver, OtherKey: "zz", Old: obj("old", true), New: obj("new", tags)}
		switch op {
		case "copy":
			s.SrcKey = "s/src"
			if !strings.Contains(key, "/") {
				s.SrcKey = "src"
			}
		case "uploadpart":
			s.PartNo = 1 + r.Intn(3)
			s.PartPre = pre == "present"
			s.Pre = "absent"
			if s.PartPre {
				s.Pre = "part-present"
			}
		case "complete":
			s.Parts = []string{"part-one-" + hex.EncodeToString(r.Bytes(4))}
		}
		return s
	}
	lock := func(s c11Scn) c11Scn { s.Lock = true; return s }
	flat, nested := "k"+word(""), "d/e/k"+word("")
	short := "d/k" + word("")
	var out []c11Scn
	// corpus: one configuration per request kind, plus the configurations of the known defect classes
	out = append(out,
		mk("put", flat, "absent", false, false, "", false),       // the clean case: must be atomic
		mk("put", short, "present", false, false, "", true),      // overwrite + tags
		mk("put", nested, "absent", true, false, "", false),      // named temp, new nested key
		mk("delete", flat, "present", false, false, "", false),   // clean
		mk("delete", nested, "present", false, false, "", false), // parents pruned afterwards
		mk("copy", short, "present", false, false, "", true),
		mk("uploadpart", short, "absent", false, false, "", false),
		mk("uploadpart", short, "present", true, false, "", false),
		mk("complete", flat, "absent", false, false, "", false),
		mk("complete", flat, "absent", false, false, "", true),        // upload created with tags, new key
		mk("complete", short, "present", false, false, "", true),      // … over an existing tagged object
		lock(mk("put", flat, "absent", false, false, "", true)),       // object-lock bucket: PutObject with a legal hold
		lock(mk("complete", flat, "absent", false, false, "", false)), // … an upload created with a legal hold
		mk("put", short, "present", false, false, "Enabled", false),
		mk("delete", short, "present", false, false, "Enabled", false),
		mk("delete", short, "nullarch", false, false, "Suspended", false), // the archived null version goes with the null delete marker
		mk("put", short, "nullarch", false, false, "Suspended", false),    // the archived null version is replaced by the new null version
		mk("delete", short, "nullarch", false, true, "Suspended", false), // sidecar: the attribute directory of the archived null version goes too
		mk("put", short, "nullarch", false, true, "Suspended", false),
		mk("put", short, "present", false, true, "", false),
		mk("delete", short, "present", false, true, "", false), // sidecar: attributes and object removed in separate steps
		mk("copy", flat, "absent", false, true, "", true),
	)
	fresh := mk("put", flat, "absent", false, false, "", false)
	fresh.OtherKey = "" // first request into a new bucket: no .sgwtmp yet
	out = append(out, fresh)
	ops := []string{"put", "copy", "delete", "uploadpart", "complete"}
	vers := []string{"", "off", "Enabled", "Suspended"}
	if !a.Thorough() {
		// a few random configurations on top of the corpus
		for i := 0; i < 4; i++ {
			op := ops[r.Intn(len(ops))]
			ver := vers[r.Intn(len(vers))]
			pres := []string{"absent", "present"}
			if (ver == "Enabled" || ver == "Suspended") && op != "uploadpart" {
				pres = append(pres, "present2", "marker")
			}
			pre := pres[r.Intn(len(pres))]
			if (op == "delete") && pre == "absent" {
				pre = "present"
			}
			key := []string{flat, short, nested}[r.Intn(3)]
			out = append(out, mk(op, key, pre, r.Bool(), r.Chance(30), ver, r.Bool()))
		}
		return out
	}
	for _, op := range ops {
		for _, ver := range vers {
			for _, noOTmp := range []bool{false, true} {
				for _, sidecar := range []bool{false, true} {
					pres := []string{"absent", "present"}
					if (ver == "Enabled" || ver == "Suspended") && op != "uploadpart" {
						pres = append(pres, "present2", "marker", "nullarch")
					}
					for _, pre := range pres {
						if op == "delete" && pre == "absent" {
							continue
						}
						key := []string{flat, short, nested}[r.Intn(3)]
						out = append(out, mk(op, key, pre, noOTmp, sidecar, ver, r.Bool()))
						if ver == "" && (op == "put" || op == "copy" || op == "complete") {
							out = append(out, lock(mk(op, key, pre, noOTmp, sidecar, ver, r.Bool())))
						}
					}
				}
			}
		}
	}
	return out
}

func c11Check(a lib.Args, res *lib.Result) error {
	if in := a.ReplayInput(); in != nil {
		b, _ := json.Marshal(in)
		var s c11Scn
		if err := json.Unmarshal(b, &s); err != nil {
			return err
		}
		if in["debug"] == "trace" {
			return c11Debug(a, s)
		}
		r := &c11Run{a: a, res: res, s: s}
		return r.run("replay")
	}
	scns := c11Scenarios(a)
	if os.Getenv("C11_ORACLE_ONLY") != "" {
		for i := range scns {
			scns[i].OracleOnly = true
		}
	}
	var mergeMu sync.Mutex
	workers := 4
	jobs := make(chan int)
	errs := make(chan error, workers)
	for wk := 0; wk < workers; wk++ {
		go func(wk int) {
			var first error
			for i := range jobs {
				if first != nil {
					continue
				}
				// Each scenario collects into a private result. The machine is shared: when the run was disturbed from
				// outside (disk full for a moment, …) — a harness error, or a model/implementation disagreement that does
				// not show again — the scenario is run again; only what repeats is reported.
				var last *lib.Result
				var err error
				for try := 0; try < 4; try++ {
					priv := lib.NewResult(res.Property, res.Check, res.Rule)
					r := &c11Run{a: a, res: priv, s: scns[i]}
					err = r.run(fmt.Sprintf("w%d", wk))
					if err != nil {
						time.Sleep(time.Duration(2*(try+1)) * time.Second)
						continue
					}
					disagree := false
					for _, f := range priv.Failures {
						if f.Kind != "property" {
							disagree = true
						}
					}
					if disagree && last == nil {
						last = priv
						continue
					}
					last = priv
					break
				}
				if err != nil {
					first = fmt.Errorf("scenario %d (%s): %v", i, scns[i].class(), err)
					continue
				}
				mergeMu.Lock()
				fs := last.Failures
				last.Failures = nil
				for k := range last.Histogram {
					if strings.HasPrefix(k, "fail:") {
						delete(last.Histogram, k)
					}
				}
				res.Merge(last)
				mergeMu.Unlock()
				for _, f := range fs {
					res.Fail(f) // keeps at most five witnesses per signature
				}
			}
			errs <- first
		}(wk)
	}
	for i := range scns {
		jobs <- i
	}
	close(jobs)
	var first error
	for wk := 0; wk < workers; wk++ {
		if e := <-errs; e != nil && first == nil {
			first = e
		}
	}
	return first
}

func init() {
	checks["c11"] = checkDef{"C11",
		"crash scenarios = request kind (put/copy/complete/uploadpart/delete) x pre-state (absent/present/two generations/delete marker/null version archived) x temp-file strategy (O_TMPFILE / named temp) x metadata store (xattr / sidecar) x bucket versioning (none/off/Enabled/Suspended) x key shape (flat / nested); for each scenario every step index of the traced request is a crash point. Non-trivial = the kill left at least one executed step behind or the scenario has a pre-existing object; distinct by (scenario class, crash point).",
		[]checkFn{c11Check}}
}
