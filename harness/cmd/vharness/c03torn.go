package main

// C03, a bucket policy whose stored attribute is EMPTY (the sidecar store writes an attribute with
// truncate-then-write: a request in between, or a gateway killed in between, finds a zero-length policy). A
// policy that cannot be read must not be taken for "no policy": the ACL would then decide alone and grant
// what the policy withholds.

import (
	"fmt"
	"os"
	"path/filepath"

	"verif/harness/gw"
	"verif/harness/lib"
)

func c03TornPolicy(a lib.Args, res *lib.Result) error {
	if in := a.ReplayInput(); in != nil {
		if st, _ := in["stage"].(string); st != "torn-policy" {
			return nil
		}
	}
	cfg, err := mustStorage(a, "c03torn", false, true, nil)
	if err != nil {
		return err
	}
	g, err := gw.Start(cfg)
	if err != nil {
		return err
	}
	defer g.Kill()
	root := rootCreds(cfg)
	usr := gw.Creds{Access: "tornusr", Secret: "tornsecret"}
	gw.Do(g.AdminAddr(), gw.Req{Method: "PATCH", Path: "/create-user", Auth: "header", Creds: root,
		Body: []byte("<Account><Access>tornusr</Access><Secret>tornsecret</Secret><Role>user</Role><UserID>0</UserID><GroupID>0</GroupID></Account>")})
	gw.Do(g.AdminAddr(), gw.Req{Method: "PATCH", Path: "/create-user", Auth: "header", Creds: root,
		Body: []byte("<Account><Access>tornother</Access><Secret>tornsecret2</Secret><Role>user</Role><UserID>0</UserID><GroupID>0</GroupID></Account>")})
	do := func(c gw.Creds, q gw.Req) gw.Resp {
		q.Auth, q.Creds = "header", c
		return gw.Do(g.Addr(), q)
	}
	cb := gw.Req{Method: "PUT", Path: "/tornb"}
	cb.Set("x-amz-acl", "public-read")
	cb.Set("x-amz-object-ownership", "BucketOwnerPreferred")
	if r := do(root, cb); r.Status != 200 {
		return fmt.Errorf("c03 torn policy: create bucket %d %s", r.Status, r.Body)
	}
	do(root, gw.Req{Method: "PUT", Path: "/tornb/report", Body: []byte("withheld by the policy")})
	// the policy allows somebody else: for tornusr the policy decides (and refuses), although the ACL is public-read
	pol := `{"Version":"2012-10-17","Statement":[{"Effect":"Allow","Principal":{"AWS":["tornother"]},"Action":"s3:GetObject","Resource":"arn:aws:s3:::tornb/*"}]}`
	if r := do(root, gw.Req{Method: "PUT", Path: "/tornb", Query: "policy", Body: []byte(pol)}); r.Status/100 != 2 {
		res.Note("torn policy: PutBucketPolicy answered %d %s", r.Status, r.ErrCode())
		return nil
	}
	base := do(usr, gw.Req{Method: "GET", Path: "/tornb/report"})
	pf := filepath.Join(cfg.Sidecar, "tornb", "meta", "policy")
	if base.Status/100 == 2 {
		res.Note("torn policy: the baseline request is granted (%d): scenario not applicable", base.Status)
		return nil
	}
	if _, err := os.Stat(pf); err != nil {
		res.Note("torn policy: no policy attribute file at %s", pf)
		return nil
	}
	if err := os.Truncate(pf, 0); err != nil {
		return err
	}
	got := do(usr, gw.Req{Method: "GET", Path: "/tornb/report"})
	head := do(usr, gw.Req{Method: "HEAD", Path: "/tornb/report"})
	res.Count("torn-policy", true, "torn-policy:baseline-refused", fmt.Sprintf("torn-policy:get-%dxx", got.Status/100), fmt.Sprintf("torn-policy:head-%dxx", head.Status/100))
	if got.Status/100 == 2 || head.Status/100 == 2 {
		res.Fail(lib.Failure{Kind: "property", Signature: "access:torn-policy-attribute:acl-decides",
			What:  fmt.Sprintf("with the bucket policy attribute truncated to zero length (a PutBucketPolicy in progress or interrupted, sidecar store) a request the policy refuses (%d before) is granted by the ACL alone: GET %d, HEAD %d", base.Status, got.Status, head.Status),
			Input: map[string]interface{}{"stage": "torn-policy", "bucket_acl": "public-read", "policy": pol, "caller": "account without a matching statement"}, Impl: fmt.Sprintf("GET %d HEAD %d", got.Status, head.Status)})
	}
	return nil
}
