package main

// C05 (c): free-running stress. N clients hammer ONE key through several gateway processes that share
// the storage directory; every write has a distinct body and distinct attribute values, invocation
// and response times are recorded, and the history is judged by the executable oracles of
// Spec.Register run by the Lean driver (single write per read, linearizable). A second, independent
// implementation of the linearizability search (Go, below) cross-checks the Lean oracle's verdicts.

import (
	"fmt"
	"os"
	"regexp"
	"sort"
	"strconv"
	"strings"
	"sync"
	"sync/atomic"
	"time"

	"verif/harness/gw"
	"verif/harness/lib"
)

type c05Op struct {
	Kind string   `json:"kind"`
	W    c05Write `json:"w"`
	Inv  int64    `json:"inv"`
	Ret  int64    `json:"ret"`
	Ans  string   `json:"ans"`
	Gw   int      `json:"gw"`
	Err  string   `json:"err,omitempty"`
	Vid  string   `json:"vid,omitempty"` // x-amz-version-id of an acknowledged write (versioned stage)
	raw  gw.Resp
}

type c05Phase struct {
	name    string
	deletes bool
	sameLen bool
}

func c05Stress(a lib.Args, res *lib.Result) error {
	if os.Getenv("C05_ONLY") == "steered" { // development aid
		return nil
	}
	if in := a.ReplayInput(); in != nil {
		mode, _ := in["mode"].(string)
		switch mode {
		case "stress-history":
			return c05ReplayHistory(a, res, in)
		case "stress-read":
			return c05ReplayRead(a, res, in)
		case "stress-answer":
			// a failed request of a free-running phase cannot be re-created deterministically: the
			// recorded answer is re-reported under the signature of its class
			kind, _ := in["kind"].(string)
			strat, _ := in["strategy"].(string)
			ans, _ := in["answer"].(string)
			res.Count("replay-answer", true, "replay:answer")
			if sig, _ := in["signature"].(string); sig != "" && strings.HasPrefix(ans, "err") {
				res.Fail(lib.Failure{Kind: "property", Signature: sig, What: "recorded answer of a free-running phase: " + ans, Input: in, Impl: ans})
			} else if strings.HasPrefix(ans, "err") {
				res.Fail(lib.Failure{Kind: "property", Signature: "conc:request-failed:" + kind + ":" + strat, What: "recorded answer of a free-running phase: " + ans, Input: in, Impl: ans})
			}
			return nil
		}
		return nil
	}
	var wg sync.WaitGroup
	errs := make([]error, 4)
	for si, strat := range []string{"otmp", "mktemp"} {
		for vi, versioned := range []bool{false, true} {
			wg.Add(1)
			go func(n int, strat string, versioned bool) {
				defer wg.Done()
				errs[n] = c05StressOn(a, res, strat, versioned)
			}(2*si+vi, strat, versioned)
		}
	}
	wg.Wait()
	for _, e := range errs {
		if e != nil {
			return e
		}
	}
	return nil
}

// c05StressOn: with `versioned` the bucket has versioning enabled (every overwrite first archives the
// current file into the versioning directory): the same oracles judge the reads of the key, and after
// each phase every version id a write was acknowledged with is read back — it must be the complete
// body, ETag and metadata of exactly one write.
func c05StressOn(a lib.Args, res *lib.Result, strat string, versioned bool) error {
	name := "c05s-" + strat
	if versioned {
		name = "c05v-" + strat
	}
	cfg, err := mustStorage(a, name, versioned, false, func(c *gw.Config) { c.NoOTmp = strat == "mktemp" })
	if err != nil {
		return err
	}
	const nGw = 3
	var gws []*gw.Gateway
	defer func() {
		for _, g := range gws {
			g.Kill()
		}
	}()
	for i := 0; i < nGw; i++ {
		g, err := gw.Start(cfg)
		if err != nil {
			return err
		}
		gws = append(gws, g)
	}
	cr := rootCreds(cfg)
	do := func(g int, q gw.Req) gw.Resp {
		q.Auth = "header"
		q.Creds = cr
		return gw.Do(gws[g].Addr(), q)
	}
	if rsp := do(0, gw.Req{Method: "PUT", Path: "/bkt"}); rsp.Status != 200 {
		return fmt.Errorf("create bucket: %d %s", rsp.Status, rsp.Body)
	}
	do(0, gw.Req{Method: "PUT", Path: "/bkt/warmup", Body: []byte("w")})
	clients, perClient, rounds := 8, 40, 2
	if a.Thorough() {
		perClient, rounds = 150, 6
	}
	phases := []c05Phase{{"overwrite-only", false, true}, {"overwrite-only", false, false}, {"with-deletes", true, true}, {"with-deletes", true, false}}
	label := strat
	if versioned {
		if rsp := do(0, gw.Req{Method: "PUT", Path: "/bkt", Query: "versioning=", Body: []byte("<VersioningConfiguration><Status>Enabled</Status></VersioningConfiguration>")}); rsp.Status != 200 {
			return fmt.Errorf("enable versioning: %d %s", rsp.Status, rsp.Body)
		}
		label = strat + "+versioned"
		rounds = (rounds + 1) / 2
		phases = []c05Phase{{"versioned-overwrite-only", false, false}, {"versioned-with-deletes", true, false}}
	}
	var idCtr int64 = 1000
	rnd := lib.NewRandStream(a.Seed, int64(77+len(strat)))
	for round := 0; round < rounds; round++ {
		for pi, ph := range phases {
			key := fmt.Sprintf("hot-%d-%d", round, pi)
			path := "/bkt/" + key
			shapes := [][]string{{"m0", "ctype"}, {"m0"}, {"m0", "ctype", "cdisp"}, {"m0", "tags"}, {"m0", "ctype", "tags"}}
			newWrite := func(r *lib.Rand) c05Write {
				n := 48
				if !ph.sameLen {
					n = 8 + r.Intn(64)
				}
				return c05Write{ID: int(atomic.AddInt64(&idCtr, 1)), Len: n, Attrs: shapes[r.Intn(len(shapes))]}
			}
			w0 := newWrite(rnd)
			if rsp := do(0, gw.Req{Method: "PUT", Path: path, Body: w0.body(), Headers: w0.headers()}); rsp.Status != 200 {
				return fmt.Errorf("initial put: %d %s\ngateway log: %s", rsp.Status, rsp.Body, tailOf(gws[0].Log.String(), 1500))
			}
			t0 := time.Now()
			hist := make([][]c05Op, clients)
			var cw sync.WaitGroup
			for c := 0; c < clients; c++ {
				cr := rnd.Fork()
				cw.Add(1)
				go func(c int, r *lib.Rand) {
					defer cw.Done()
					for n := 0; n < perClient; n++ {
						g := r.Intn(nGw)
						op := c05Op{Gw: g}
						x := r.Intn(100)
						var q gw.Req
						switch {
						case x < 30:
							op.Kind, op.W = "P", newWrite(r)
							q = gw.Req{Method: "PUT", Path: path, Body: op.W.body(), Headers: op.W.headers()}
						case x < 35:
							op.Kind, op.W = "C", newWrite(r)
							src := fmt.Sprintf("/bkt/src-%d", op.W.ID)
							if rsp := do(g, gw.Req{Method: "PUT", Path: src, Body: op.W.body(), Headers: c05NoTagging(op.W.headers())}); rsp.Status != 200 {
								continue
							}
							hs := []gw.Header{{K: "x-amz-copy-source", V: src[1:]}}
							if op.W.has("tags") {
								hs = append(hs, gw.Header{K: "x-amz-tagging-directive", V: "REPLACE"}, gw.Header{K: "x-amz-tagging", V: op.W.tagging()})
							}
							q = gw.Req{Method: "PUT", Path: path, Headers: hs}
						case x < 40:
							op.Kind, op.W = "M", newWrite(r)
							rsp := do(g, gw.Req{Method: "POST", Path: path, Query: "uploads=", Headers: op.W.headers()})
							m := reUploadID.FindSubmatch(rsp.Body)
							if rsp.Status != 200 || m == nil {
								continue
							}
							id := string(m[1])
							rsp = do(g, gw.Req{Method: "PUT", Path: path, Query: "partNumber=1&uploadId=" + id, Body: op.W.body()})
							if rsp.Status != 200 {
								continue
							}
							body := "<CompleteMultipartUpload><Part><PartNumber>1</PartNumber><ETag>" + rsp.Headers.Get("ETag") + "</ETag></Part></CompleteMultipartUpload>"
							q = gw.Req{Method: "POST", Path: path, Query: "uploadId=" + id, Body: []byte(body)}
						case x < 50 && ph.deletes:
							op.Kind = "D"
							q = gw.Req{Method: "DELETE", Path: path}
						case x < 85:
							op.Kind = "G"
							q = gw.Req{Method: "GET", Path: path}
						default:
							op.Kind = "H"
							q = gw.Req{Method: "HEAD", Path: path}
						}
						op.Inv = int64(time.Since(t0))
						rsp := do(g, q)
						op.Ret = int64(time.Since(t0))
						op.raw = rsp // canonicalised once all writes of the phase are known
						if rsp.Status == 200 && q.Method != "GET" && q.Method != "HEAD" {
							op.Vid = rsp.Headers.Get("x-amz-version-id")
						}
						hist[c] = append(hist[c], op)
					}
				}(c, cr)
			}
			cw.Wait()
			var ops []c05Op
			for _, h := range hist {
				ops = append(ops, h...)
			}
			var vreads []gw.Resp
			if versioned {
				// quiescent: read back every version id a write was acknowledged with
				for i := range ops {
					if ops[i].Vid != "" {
						vreads = append(vreads, do(0, gw.Req{Method: "GET", Path: path, Query: "versionId=" + ops[i].Vid}))
					} else {
						vreads = append(vreads, gw.Resp{})
					}
				}
			}
			vops := append([]c05Op(nil), ops...)
			// what the gateways logged for the requests they answered 500 (distinct lines, digits folded)
			var ierr []string
			seenLine := map[string]bool{}
			for _, g := range gws {
				for _, l := range strings.Split(g.Log.String(), "\n") {
					if !strings.Contains(l, "Internal Error") {
						continue
					}
					k := regexp.MustCompile(`[0-9A-Za-z]{20,}|\d+`).ReplaceAllString(l, "#")
					if !seenLine[k] && len(ierr) < 12 {
						seenLine[k] = true
						ierr = append(ierr, l)
					}
				}
			}
			for i := range ops {
				if ops[i].raw.Status >= 500 {
					ops[i].Err = strings.Join(ierr, " || ")
				}
			}
			if err := c05JudgeHistory(a, res, label, ph, w0, ops); err != nil {
				return err
			}
			if versioned {
				if err := c05JudgeVersions(a, res, label, ph, w0, vops, vreads); err != nil {
					return err
				}
			}
		}
	}
	return nil
}

var reViewIDs = regexp.MustCompile(`[=+.,]?(\d+)`)

func c05JudgeHistory(a lib.Args, res *lib.Result, strat string, ph c05Phase, w0 c05Write, ops []c05Op) error {
	writes := []c05Write{w0}
	kinds := map[int]string{w0.ID: "P"}
	byID := map[int]c05Write{w0.ID: w0}
	for i := range ops {
		if ops[i].Kind == "P" || ops[i].Kind == "C" || ops[i].Kind == "M" {
			writes = append(writes, ops[i].W)
			kinds[ops[i].W.ID] = ops[i].Kind
			byID[ops[i].W.ID] = ops[i].W
		}
	}
	for i := range ops {
		ops[i].Ans = c05View(c05Req{Kind: ops[i].Kind, W: ops[i].W}, ops[i].raw, writes, kinds)
		if ops[i].raw.Status >= 500 && ops[i].Err == "" {
			ops[i].Err = string(ops[i].raw.Body)
		}
		ops[i].raw = gw.Resp{}
	}
	sort.SliceStable(ops, func(i, j int) bool { return ops[i].Inv < ops[j].Inv })
	// single-write oracle on every successful read
	var lines []string
	var idx []int
	specOf := func(id int) string {
		w := byID[id]
		k := kinds[id]
		if k == "C" {
			k = "P"
		}
		return w.spec(k)
	}
	for i, o := range ops {
		if (o.Kind == "G" || o.Kind == "H") && strings.HasPrefix(o.Ans, "read(") {
			seen := map[int]bool{}
			var ws []string
			for _, m := range reViewIDs.FindAllStringSubmatch(o.Ans, -1) {
				id, _ := strconv.Atoi(m[1])
				if _, ok := byID[id]; ok && !seen[id] {
					seen[id] = true
					ws = append(ws, specOf(id))
				}
			}
			if len(ws) == 0 {
				ws = []string{"0.0.0"}
			}
			lines = append(lines, fmt.Sprintf("conc judge %s %s %s", o.Kind, strings.Join(ws, ","), o.Ans))
			idx = append(idx, i)
		}
	}
	out, err := a.Driver.Ask(lines)
	if err != nil {
		return err
	}
	verdict := make([]string, len(ops))
	for n, i := range idx {
		verdict[i] = out[n]
	}
	events := func(dropMissing bool) string {
		var evs []string
		for i, o := range ops {
			ret := strconv.FormatInt(o.Ret, 10)
			switch o.Kind {
			case "P", "C", "M":
				if o.Ans != "ok" {
					ret = "-"
				}
				evs = append(evs, fmt.Sprintf("W%d:%d:%s:ok", o.W.ID, o.Inv, ret))
			case "D":
				switch o.Ans {
				case "ok":
					evs = append(evs, fmt.Sprintf("D:%d:%s:ok", o.Inv, ret))
				case "nokey":
					if !dropMissing {
						evs = append(evs, fmt.Sprintf("D:%d:%s:missing", o.Inv, ret))
					}
				default:
					evs = append(evs, fmt.Sprintf("D:%d:-:ok", o.Inv))
				}
			default:
				switch {
				case o.Ans == "nokey":
					if !dropMissing {
						evs = append(evs, fmt.Sprintf("R:%d:%s:missing", o.Inv, ret))
					}
				case verdict[i] == "ok":
					m := regexp.MustCompile(`etag=(\d+)`).FindStringSubmatch(o.Ans)
					if m != nil {
						evs = append(evs, fmt.Sprintf("R:%d:%s:v%s", o.Inv, ret, m[1]))
					}
				}
			}
		}
		if len(evs) == 0 {
			return "-"
		}
		return strings.Join(evs, ",")
	}
	full, noMissing := events(false), events(true)
	lin, err := a.Driver.Ask([]string{fmt.Sprintf("conc lin %d %s", w0.ID, full), fmt.Sprintf("conc lin %d %s", w0.ID, noMissing)})
	if err != nil {
		return err
	}
	// independent cross-check of the oracle
	for k, evs := range []string{full, noMissing} {
		gv := c05GoLin(w0.ID, evs)
		if gv != lin[k] && lin[k] != "unknown" && gv != "unknown" {
			res.Fail(lib.Failure{Kind: "model-vs-spec", Signature: "oracle:linearizability-checkers-disagree", What: "Spec.Register.linearizableB and the independent Go search disagree on a recorded history",
				Input: map[string]interface{}{"mode": "stress-history", "strategy": strat, "phase": ph.name, "init": w0.ID, "events": evs}, Impl: "go=" + gv, Model: "lean=" + lin[k]})
		}
	}
	// report
	hin := map[string]interface{}{"mode": "stress-history", "strategy": strat, "phase": ph.name, "init": w0.ID, "events": full}
	explained := false
	nMissing, nTorn := 0, 0
	for i, o := range ops {
		cls := "stress:" + strat + ":" + o.Kind + ":"
		switch {
		case strings.HasPrefix(verdict[i], "bad:"):
			nTorn++
			who := "get"
			if o.Kind == "H" {
				who = "head"
			}
			c := strings.SplitN(strings.TrimPrefix(verdict[i], "bad:"), "+", 2)[0]
			var ws []string
			for _, m := range reViewIDs.FindAllStringSubmatch(o.Ans, -1) {
				id, _ := strconv.Atoi(m[1])
				if _, ok := byID[id]; ok {
					ws = append(ws, specOf(id))
				}
			}
			res.Fail(lib.Failure{Kind: "property", Signature: "conc:" + who + "-vs-overwrite:" + c, What: "free-running: a successful " + strings.ToUpper(who) + " answered parts of different writes (" + verdict[i] + ")",
				Input: map[string]interface{}{"mode": "stress-read", "kind": o.Kind, "writes": strings.Join(ws, ","), "view": o.Ans, "strategy": strat}, Impl: o.Ans})
			explained = true
			cls += "torn"
		case o.Ans == "nokey" && (o.Kind == "G" || o.Kind == "H"):
			if !ph.deletes {
				nMissing++
				res.Fail(lib.Failure{Kind: "property", Signature: "conc:overwrite:key-missing-window:" + c05StratName(strat),
					What: "free-running: the key existed and was only being overwritten (no DELETE in the whole history), yet a read answered NoSuchKey", Input: hin, Impl: fmt.Sprintf("%s at [%d,%d] ns answered NoSuchKey", o.Kind, o.Inv, o.Ret)})
				explained = true
			}
			cls += "nokey"
		case strings.HasPrefix(o.Ans, "err"):
			cls += "failed"
			if o.Ans == "err:transport" && o.Kind == "G" {
				res.Count("g", false, "stress:grey:get-without-answer(length mismatch or connection)")
			} else {
				res.Fail(lib.Failure{Kind: "property", Signature: "conc:request-failed:" + o.Kind + ":" + strat, What: "free-running: a request failed under concurrency: " + o.Ans + " " + o.Err,
					Input: map[string]interface{}{"mode": "stress-answer", "kind": o.Kind, "strategy": strat, "answer": o.Ans, "phase": ph.name, "error_body": o.Err}, Impl: o.Ans})
				explained = true
			}
		case verdict[i] == "grey:short-body":
			cls += "short-body(grey)"
		default:
			cls += "ok"
		}
		res.Count(fmt.Sprintf("stress|%s|%s|%d|%d", strat, ph.name, o.Inv, i), o.Kind == "G" || o.Kind == "H", cls)
	}
	res.Count("hist|"+strat+"|"+ph.name+"|"+full[:min(len(full), 64)], false, "stress:history:"+strat+":"+ph.name+":"+lin[0])
	if lin[0] == "bad" {
		if lin[1] == "ok" {
			res.Fail(lib.Failure{Kind: "property", Signature: "conc:overwrite:key-missing-window:" + c05StratName(strat),
				What: "free-running: the history is not linearizable; it is once the NoSuchKey answers (reads / deletes that hit the window between unlink and publication) are set aside", Input: hin, Impl: lin[0]})
		} else if !explained || lin[1] == "bad" {
			res.Fail(lib.Failure{Kind: "property", Signature: "conc:linearizability:unexplained:stress:" + ph.name, What: "free-running: the recorded history is not explained by any order that respects real time, even without the NoSuchKey answers", Input: hin, Impl: lin[0] + "/" + lin[1]})
		}
	} else if lin[0] == "unknown" {
		res.Note("stress %s %s: linearizability oracle ran out of budget (%d events)", strat, ph.name, strings.Count(full, ",")+1)
		res.Count("unk", false, "stress:history:oracle-budget-exhausted")
	}
	_ = nMissing
	_ = nTorn
	return nil
}

// c05JudgeVersions: every version id a write of the phase was acknowledged with (nothing deletes by
// version id) must read back as the complete body, ETag and metadata of exactly one write — that write.
func c05JudgeVersions(a lib.Args, res *lib.Result, label string, ph c05Phase, w0 c05Write, ops []c05Op, reads []gw.Resp) error {
	writes := []c05Write{w0}
	kinds := map[int]string{w0.ID: "P"}
	byID := map[int]c05Write{w0.ID: w0}
	for _, o := range ops {
		if o.Kind == "P" || o.Kind == "C" || o.Kind == "M" {
			writes = append(writes, o.W)
			kinds[o.W.ID] = o.Kind
			byID[o.W.ID] = o.W
		}
	}
	specOf := func(id int) string {
		k := kinds[id]
		if k == "C" {
			k = "P"
		}
		return byID[id].spec(k)
	}
	var lines, views []string
	var idx []int
	vidOwner := map[string]int{}
	for i, o := range ops {
		if o.Vid == "" || !(o.Kind == "P" || o.Kind == "C" || o.Kind == "M") {
			continue
		}
		in := map[string]interface{}{"mode": "stress-answer", "kind": "V", "strategy": label, "phase": ph.name, "write": o.W, "write_kind": o.Kind, "version_id": o.Vid}
		if prev, dup := vidOwner[o.Vid]; dup {
			in["answer"] = fmt.Sprintf("err:two writes (%d, %d) were acknowledged with the same version id", prev, o.W.ID)
			res.Fail(lib.Failure{Kind: "property", Signature: c05Sig(in, "conc:versioned:same-version-id-twice"), What: "free-running, versioned bucket: two acknowledged writes carry the same version id", Input: in, Impl: o.Vid})
			continue
		}
		vidOwner[o.Vid] = o.W.ID
		view := c05View(c05Req{Kind: "G"}, reads[i], writes, kinds)
		in["answer"] = view
		if !strings.HasPrefix(view, "read(") {
			in["answer"] = "err:" + view
			res.Count(fmt.Sprintf("vread|%s|%s|%d", label, ph.name, o.W.ID), true, "stress:"+label+":V:"+strings.SplitN(view, ":", 2)[0])
			res.Fail(lib.Failure{Kind: "property", Signature: c05Sig(in, "conc:versioned:version-not-retrievable:"+strings.SplitN(view, ":", 2)[0]), What: "free-running, versioned bucket: the version id a write was acknowledged with cannot be read although nothing deleted it by id", Input: in, Impl: view})
			continue
		}
		seen := map[int]bool{}
		var ws []string
		for _, m := range reViewIDs.FindAllStringSubmatch(view, -1) {
			id, _ := strconv.Atoi(m[1])
			if _, ok := byID[id]; ok && !seen[id] {
				seen[id] = true
				ws = append(ws, specOf(id))
			}
		}
		if len(ws) == 0 {
			ws = []string{"0.0.0"}
		}
		lines = append(lines, fmt.Sprintf("conc judge G %s %s", strings.Join(ws, ","), view))
		views = append(views, view)
		idx = append(idx, i)
	}
	if len(lines) == 0 {
		return nil
	}
	out, err := a.Driver.Ask(lines)
	if err != nil {
		return err
	}
	for n, i := range idx {
		o := ops[i]
		in := map[string]interface{}{"mode": "stress-answer", "kind": "V", "strategy": label, "phase": ph.name, "write": o.W, "write_kind": o.Kind, "version_id": o.Vid, "answer": views[n]}
		cls := "ok"
		switch {
		case strings.HasPrefix(out[n], "bad:"):
			cls = "torn"
			c := strings.SplitN(strings.TrimPrefix(out[n], "bad:"), "+", 2)[0]
			in["answer"] = "err:" + views[n]
			res.Fail(lib.Failure{Kind: "property", Signature: c05Sig(in, "conc:versioned:version-read:"+c), What: "free-running, versioned bucket: the version a write was acknowledged with reads back as a mixture or a prefix (" + out[n] + ")", Input: in, Impl: views[n]})
		case out[n] == "ok" && !strings.Contains(views[n], fmt.Sprintf("etag=%d,", o.W.ID)):
			cls = "other-write"
			in["answer"] = "err:" + views[n]
			res.Fail(lib.Failure{Kind: "property", Signature: c05Sig(in, "conc:versioned:version-is-another-write"), What: "free-running, versioned bucket: the version id a write was acknowledged with reads back as the complete state of a different write", Input: in, Impl: views[n]})
		case out[n] != "ok":
			cls = out[n]
		}
		res.Count(fmt.Sprintf("vread|%s|%s|%d", label, ph.name, o.W.ID), true, "stress:"+label+":V:"+cls)
	}
	return nil
}

func c05Sig(in map[string]interface{}, sig string) string {
	in["signature"] = sig
	return sig
}

func c05ReplayHistory(a lib.Args, res *lib.Result, in map[string]interface{}) error {
	ini, _ := in["init"].(float64)
	evs, _ := in["events"].(string)
	strat, _ := in["strategy"].(string)
	phase, _ := in["phase"].(string)
	// the same two judgements as in the run: the whole history, and the history without the
	// NoSuchKey answers
	var kept []string
	missingReads := 0
	for _, e := range strings.Split(evs, ",") {
		if strings.HasSuffix(e, ":missing") {
			if strings.HasPrefix(e, "R:") {
				missingReads++
			}
			continue
		}
		kept = append(kept, e)
	}
	noMissing := "-"
	if len(kept) > 0 {
		noMissing = strings.Join(kept, ",")
	}
	out, err := a.Driver.Ask([]string{fmt.Sprintf("conc lin %d %s", int(ini), evs), fmt.Sprintf("conc lin %d %s", int(ini), noMissing)})
	if err != nil {
		return err
	}
	res.Count("replay-history", true, "replay:history:"+out[0]+"/"+out[1])
	switch {
	case out[0] == "bad" && out[1] == "ok", out[0] != "bad" && phase == "overwrite-only" && missingReads > 0:
		res.Fail(lib.Failure{Kind: "property", Signature: "conc:overwrite:key-missing-window:" + c05StratName(strat),
			What: "re-judged recorded history (a free-running race cannot be re-created deterministically): NoSuchKey answers although the key existed throughout / not linearizable unless they are set aside", Input: in, Impl: out[0] + "/" + out[1]})
	case out[0] == "bad":
		res.Fail(lib.Failure{Kind: "property", Signature: "conc:linearizability:unexplained:stress:" + phase, What: "re-judged recorded history: not linearizable even without the NoSuchKey answers", Input: in, Impl: out[0] + "/" + out[1]})
	}
	return nil
}

func c05ReplayRead(a lib.Args, res *lib.Result, in map[string]interface{}) error {
	kind, _ := in["kind"].(string)
	ws, _ := in["writes"].(string)
	view, _ := in["view"].(string)
	out, err := a.Driver.Ask([]string{fmt.Sprintf("conc judge %s %s %s", kind, ws, view)})
	if err != nil {
		return err
	}
	res.Count("replay-read", true, "replay:read:"+out[0])
	if strings.HasPrefix(out[0], "bad:") {
		who := "get"
		if kind == "H" {
			who = "head"
		}
		res.Fail(lib.Failure{Kind: "property", Signature: "conc:" + who + "-vs-overwrite:" + strings.SplitN(strings.TrimPrefix(out[0], "bad:"), "+", 2)[0], What: "re-judged recorded answer: " + out[0], Input: in, Impl: view})
	}
	return nil
}

// ------------------------------------------------------------------ independent linearizability search (Go)

type goEv struct {
	op       byte // W D R
	v        int
	inv, ret int64 // ret < 0: no answer
	res      string
}

func c05GoLin(init int, evs string) string {
	var h []goEv
	if evs != "-" {
		for _, s := range strings.Split(evs, ",") {
			f := strings.Split(s, ":")
			if len(f) != 4 {
				return "unknown"
			}
			e := goEv{op: f[0][0], ret: -1, res: f[3]}
			if e.op == 'W' {
				e.v, _ = strconv.Atoi(f[0][1:])
			}
			e.inv, _ = strconv.ParseInt(f[1], 10, 64)
			if f[2] != "-" {
				e.ret, _ = strconv.ParseInt(f[2], 10, 64)
			}
			h = append(h, e)
		}
	}
	sort.SliceStable(h, func(i, j int) bool { return h[i].inv < h[j].inv })
	n := len(h)
	done := make([]bool, n)
	seen := map[string]bool{}
	budget := 3000000
	keyOf := func(val int) string {
		var b strings.Builder
		b.WriteString(strconv.Itoa(val))
		b.WriteByte('|')
		for i := 0; i < n; i++ {
			if done[i] {
				b.WriteByte('1')
			} else {
				b.WriteByte('0')
			}
		}
		return b.String()
	}
	admits := func(val int, e goEv) bool {
		if e.ret < 0 {
			return true
		}
		switch e.op {
		case 'W':
			return e.res == "ok"
		case 'D':
			return e.res == "ok" || (e.res == "missing" && val < 0)
		default:
			if e.res == "missing" {
				return val < 0
			}
			return strings.HasPrefix(e.res, "v") && e.res[1:] == strconv.Itoa(val) && val >= 0
		}
	}
	var rec func(val int) int // 1 found, 0 no, 2 budget
	rec = func(val int) int {
		k := keyOf(val)
		if seen[k] {
			return 0
		}
		if len(seen) > budget {
			return 2
		}
		seen[k] = true
		minRet := int64(-1)
		for i := 0; i < n; i++ {
			if !done[i] && h[i].ret >= 0 && (minRet < 0 || h[i].ret < minRet) {
				minRet = h[i].ret
			}
		}
		if minRet < 0 {
			return 1
		}
		for i := 0; i < n; i++ {
			if done[i] || h[i].inv > minRet {
				continue
			}
			if !admits(val, h[i]) {
				continue
			}
			nv := val
			switch h[i].op {
			case 'W':
				nv = h[i].v
			case 'D':
				nv = -1
			}
			done[i] = true
			r := rec(nv)
			done[i] = false
			if r != 0 {
				return r
			}
		}
		return 0
	}
	switch rec(init) {
	case 1:
		return "ok"
	case 0:
		return "bad"
	}
	return "unknown"
}

func tailOf(s string, n int) string {
	if len(s) > n {
		return s[len(s)-n:]
	}
	return s
}
