package main

// C05 — per-key reads and writes are atomic and linearizable.
//
// Tie between Model.Conc (Lean) and the real gateway:
//  (a) step conformance and (b) steered schedules: gateway PROCESSES sharing one storage directory,
//      each single-stepped by an attached `strace -e inject=<fs syscalls>:signal=SIGSTOP` (the whole
//      process is stopped right after every filesystem syscall, resumed by SIGCONT when the schedule
//      says so). Every schedule the model enumerates for a pair of requests is replayed step by
//      step; the observed syscall sequence (projected to the model's step vocabulary, with errno
//      class) must equal the model's step list, the responses must equal the model's, and the
//      responses are judged by the Spec oracles (single write, never missing, linearizable).
//  (c) free-running stress (c05stress.go).
//
// Known-finding classes are named by signature; anything else is a new violation.

import (
	"bytes"
	"crypto/md5"
	"encoding/hex"
	"encoding/json"
	"fmt"
	"path/filepath"
	"regexp"
	"sort"
	"strconv"
	"strings"
	"sync"
	"sync/atomic"
	"time"

	"verif/harness/gw"
	"verif/harness/lib"
	"verif/harness/prog"
)

// ------------------------------------------------------------------------------------ payloads

// c05Write: the payload of one write. Every attribute value encodes ID, the body is the first Len
// bytes of prog.StreamByte(ID, ·): a response component identifies the write it came from.
type c05Write struct {
	ID    int      `json:"id"`
	Len   int      `json:"len"`
	Attrs []string `json:"attrs"` // subset of m0 m1 ctype cenc cdisp clang cache expires (etag/checksums are implied)
}

var c05HdrOrder = []string{"ctype", "cenc", "cdisp", "clang", "cache", "expires"}
var c05HdrName = map[string]string{"ctype": "Content-Type", "cenc": "Content-Encoding", "cdisp": "Content-Disposition",
	"clang": "Content-Language", "cache": "Cache-Control", "expires": "Expires"}
var c05Xattr = map[string]string{"user.content-type": "ctype", "user.content-encoding": "cenc", "user.content-disposition": "cdisp",
	"user.content-language": "clang", "user.cache-control": "cache", "user.expires": "expires", "user.etag": "etag",
	"user.X-Amz-Tagging": "tags", "user.checksums": "checksums"}

func (w c05Write) has(a string) bool {
	for _, x := range w.Attrs {
		if x == a {
			return true
		}
	}
	return false
}

func (w c05Write) body() []byte {
	b := make([]byte, w.Len)
	for i := range b {
		b[i] = prog.StreamByte(w.ID, i)
	}
	return b
}

func c05Val(a string, id int) string {
	if a == "ctype" {
		return "text/v" + strconv.Itoa(id)
	}
	return "v" + strconv.Itoa(id)
}

// tagCount: the number of tags of the write (0 = none). The tag attribute's value in the model IS this
// number: x-amz-tagging-count of a GET identifies the tag set up to its size, and the writes of one
// schedule get different sizes.
func (w c05Write) tagCount() int {
	if !w.has("tags") {
		return 0
	}
	return 1 + w.ID%3
}

func (w c05Write) tagging() string {
	var kv []string
	for i := 0; i < w.tagCount(); i++ {
		kv = append(kv, fmt.Sprintf("t%d=v%d", i, w.ID))
	}
	return strings.Join(kv, "&")
}

func (w c05Write) headers() []gw.Header {
	var h []gw.Header
	for _, a := range w.Attrs {
		if a == "tags" {
			h = append(h, gw.Header{K: "x-amz-tagging", V: w.tagging()})
		} else if strings.HasPrefix(a, "m") {
			h = append(h, gw.Header{K: "x-amz-meta-" + a, V: c05Val(a, w.ID)})
		} else {
			h = append(h, gw.Header{K: c05HdrName[a], V: c05Val(a, w.ID)})
		}
	}
	return h
}

// spec renders the write for the driver, attributes in the order the code sets them through the fd:
// PutObject (and CopyObject): user metadata, checksums, etag, content headers, tags; CompleteMultipartUpload:
// content headers, user metadata, tags, etag.
func (w c05Write) spec(kind string) string {
	id := strconv.Itoa(w.ID)
	var metas, hdrs []string
	for _, a := range w.Attrs {
		if strings.HasPrefix(a, "m") {
			metas = append(metas, a+"="+id)
		}
	}
	var tags []string
	if w.has("tags") {
		tags = []string{"tags=" + strconv.Itoa(w.tagCount())}
	}
	for _, a := range c05HdrOrder {
		if w.has(a) {
			hdrs = append(hdrs, a+"="+id)
		}
	}
	var all []string
	if kind == "M" {
		all = append(append(append(hdrs, metas...), tags...), "etag="+id)
	} else {
		all = append(append(append(metas, "checksums="+id, "etag="+id), hdrs...), tags...)
	}
	return fmt.Sprintf("%d.%d.%s", w.ID, w.Len, strings.Join(all, "+"))
}

func (w c05Write) etag(kind string) string {
	s := md5.Sum(w.body())
	if kind == "M" {
		t := md5.Sum(s[:])
		return "\"" + hex.EncodeToString(t[:]) + "-1\""
	}
	return "\"" + hex.EncodeToString(s[:]) + "\""
}

type c05Req struct {
	Kind string   `json:"kind"` // P put, C copy, M multipart-complete, D delete, G get, H head
	W    c05Write `json:"w"`
}

func (r c05Req) isWrite() bool { return r.Kind == "P" || r.Kind == "C" || r.Kind == "M" }

func (r c05Req) spec() string {
	switch r.Kind {
	case "P":
		return "P" + r.W.spec("P")
	case "C":
		return "C" + r.W.spec("P")
	case "M":
		return "M" + r.W.spec("M")
	}
	return r.Kind
}

type c05Case struct {
	Strat string    `json:"strategy"` // otmp | mktemp
	Init  *c05Write `json:"init"`
	Reqs  []c05Req  `json:"requests"`
	Sched string    `json:"schedule"` // request index per step
	Pair  string    `json:"pair"`
}

func (c c05Case) initSpec() string {
	if c.Init == nil {
		return "-"
	}
	return c.Init.spec("P")
}
func (c c05Case) reqSpec() string {
	var s []string
	for _, r := range c.Reqs {
		s = append(s, r.spec())
	}
	return strings.Join(s, ",")
}
func (c c05Case) writes() []c05Write {
	var ws []c05Write
	if c.Init != nil {
		ws = append(ws, *c.Init)
	}
	for _, r := range c.Reqs {
		if r.isWrite() {
			ws = append(ws, r.W)
		}
	}
	return ws
}
func (c c05Case) writeSpecs() string {
	var s []string
	if c.Init != nil {
		s = append(s, c.Init.spec("P"))
	}
	for _, r := range c.Reqs {
		if r.isWrite() {
			k := "P"
			if r.Kind == "M" {
				k = "M"
			}
			s = append(s, r.W.spec(k))
		}
	}
	if len(s) == 0 {
		return "0.0.0"
	}
	return strings.Join(s, ",")
}

// ------------------------------------------------------------------------------------ projection

var c05LastErr atomic.Value

// names linkAndReplace / CreateTemp give to temp files: <sha256 of the key>.<random>
var c05ReTmpName = regexp.MustCompile(`^[0-9a-f]{64}\.\d+$`)

var reQuoted = regexp.MustCompile(`"((?:[^"\\]|\\.)*)"`)

func c05Class(ret string) string {
	if !strings.HasPrefix(ret, "-1 ") {
		return "ok"
	}
	f := strings.Fields(ret)
	if len(f) >= 2 {
		return strings.ToLower(f[1])
	}
	return "err"
}

type c05Proj struct {
	bucket, key string
	keyFd       string // fd returned by open(key): fd-based reads of a fixed GetObject are attributed to the key
}

// project maps one syscall to the model's step vocabulary; "" = not a step on the key.
func (p *c05Proj) project(s *gw.Sys) (name, class string) {
	q := reQuoted.FindAllStringSubmatch(s.Args, -1)
	arg := func(i int) string {
		if i < len(q) {
			return q[i][1]
		}
		return ""
	}
	path := p.bucket + "/" + p.key
	tmpdir := p.bucket + "/.sgwtmp"
	class = c05Class(s.Ret)
	firstArg := strings.TrimSpace(strings.SplitN(s.Args, ",", 2)[0])
	attrName := func(x string) string {
		if strings.HasPrefix(x, "user.X-Amz-Meta.") {
			return strings.TrimPrefix(x, "user.X-Amz-Meta.")
		}
		return c05Xattr[x]
	}
	getName := func(a string) string {
		switch {
		case a == "":
			return ""
		case strings.HasPrefix(a, "m"):
			return "getmeta." + a
		case a == "etag":
			return "getetag"
		case a == "tags":
			return "gettags"
		case a == "checksums":
			return ""
		}
		return "gethdr." + a
	}
	switch s.Name {
	case "newfstatat":
		if arg(0) == path {
			if strings.Contains(s.Args, "AT_SYMLINK_NOFOLLOW") {
				return "lstat", class
			}
			return "stat", class
		}
	case "fstat":
		if p.keyFd != "" && firstArg == p.keyFd {
			return "stat", class
		}
	case "openat":
		switch {
		case arg(0) == path:
			if class == "ok" {
				p.keyFd = strings.TrimSpace(s.Ret)
			}
			return "open", class
		case arg(0) == tmpdir && strings.Contains(s.Args, "O_TMPFILE"):
			return "opentmp", class
		case strings.HasPrefix(arg(0), tmpdir+"/") && !strings.Contains(arg(0), "/multipart") && strings.Contains(s.Args, "O_EXCL"):
			return "opentmp", class
		}
	case "fsetxattr":
		if a := attrName(arg(0)); a != "" {
			return "setattr." + a, class
		}
	case "setxattr", "lsetxattr", "removexattr", "lremovexattr":
		// an attribute stored (removed) BY NAME on the object: never a step of the model — every
		// attribute of an object is written through the descriptor before the publication
		if arg(0) == path {
			a := attrName(arg(1))
			if a == "" {
				a = strings.TrimPrefix(arg(1), "user.")
			}
			return s.Name + "-by-name." + a, class
		}
	case "unlinkat":
		if arg(0) == path {
			if strings.Contains(s.Args, "AT_REMOVEDIR") {
				return "rmdir", class
			}
			return "unlink", class
		}
	case "linkat":
		if arg(1) == p.key || arg(1) == path {
			return "linkat", class
		}
		if strings.Contains(arg(1), ".sgwtmp") || c05ReTmpName.MatchString(arg(1)) {
			return "linktmp", class
		}
	case "renameat", "renameat2":
		if arg(1) == path {
			return "rename", class
		}
	case "listxattr", "flistxattr":
		if (s.Name == "listxattr" && arg(0) == path) || (s.Name == "flistxattr" && p.keyFd != "" && firstArg == p.keyFd) {
			if strings.HasSuffix(strings.TrimSpace(s.Args), ", 0") {
				return "listsize", class
			}
			return "listnames", class
		}
	case "getxattr":
		if arg(0) == path {
			if n := getName(attrName(arg(1))); n != "" {
				return n, class
			}
		}
	case "fgetxattr":
		if p.keyFd != "" && firstArg == p.keyFd {
			if n := getName(attrName(arg(0))); n != "" {
				return n, class
			}
		}
	}
	return "", ""
}

// ------------------------------------------------------------------------------------ rig

// c05Rig: one storage directory, `n` single-stepped gateway processes and one free-running gateway
// (set-up traffic) on it.
type c05Rig struct {
	cfg      gw.Config
	strat    string
	free     *gw.Gateway
	procs    []*gw.Gateway
	steppers []*gw.Stepper
	creds    gw.Creds
	bucket   string
	seq      int
	mode     string // read mode of the code under test: bypath | byfd (detected)
	wstrat   string // publication shape of the code under test (detected): otmp|mktemp|linkrename|renameonly
}

func c05NewRig(a lib.Args, name, strat string, nproc int) (*c05Rig, error) {
	cfg, err := mustStorage(a, name, false, false, func(c *gw.Config) { c.NoOTmp = strat == "mktemp" })
	if err != nil {
		return nil, err
	}
	r := &c05Rig{cfg: cfg, strat: strat, creds: rootCreds(cfg), bucket: "bkt", mode: "bypath", wstrat: strat}
	if r.free, err = gw.Start(cfg); err != nil {
		return nil, err
	}
	if rsp := r.do(r.free, gw.Req{Method: "PUT", Path: "/" + r.bucket}); rsp.Status != 200 {
		r.close()
		return nil, fmt.Errorf("create bucket: %d %s %v", rsp.Status, rsp.Body, rsp.Err)
	}
	// the first upload creates <bucket>/.sgwtmp (until then O_TMPFILE fails and falls back to CreateTemp)
	if rsp := r.do(r.free, gw.Req{Method: "PUT", Path: "/" + r.bucket + "/warmup", Body: []byte("w")}); rsp.Status != 200 {
		r.close()
		return nil, fmt.Errorf("warm-up put: %d %s %v", rsp.Status, rsp.Body, rsp.Err)
	}
	for i := 0; i < nproc; i++ {
		g, err := gw.Start(cfg)
		if err != nil {
			r.close()
			return nil, err
		}
		r.procs = append(r.procs, g)
		st, err := gw.Attach(g, filepath.Join(cfg.Work, fmt.Sprintf("strace-%d.log", i)))
		if err != nil {
			r.close()
			return nil, err
		}
		r.steppers = append(r.steppers, st)
	}
	return r, nil
}

func (r *c05Rig) close() {
	for _, s := range r.steppers {
		s.Detach()
	}
	for _, g := range r.procs {
		g.Kill()
	}
	if r.free != nil {
		r.free.Kill()
	}
}

func (r *c05Rig) do(g *gw.Gateway, q gw.Req) gw.Resp {
	q.Auth = "header"
	q.Creds = r.creds
	return gw.Do(g.Addr(), q)
}

func c05NoTagging(h []gw.Header) []gw.Header {
	var o []gw.Header
	for _, x := range h {
		if x.K != "x-amz-tagging" {
			o = append(o, x)
		}
	}
	return o
}

var reUploadID = regexp.MustCompile(`<UploadId>([^<]+)</UploadId>`)

// request builds the HTTP request of rq on `key`, doing its preparation (copy source, multipart
// upload with one part) through the free-running gateway.
func (r *c05Rig) request(rq c05Req, key string) (gw.Req, error) {
	path := "/" + r.bucket + "/" + key
	switch rq.Kind {
	case "P":
		return gw.Req{Method: "PUT", Path: path, Body: rq.W.body(), Headers: rq.W.headers()}, nil
	case "C":
		src := fmt.Sprintf("src-%s-%d", key, rq.W.ID)
		if rsp := r.do(r.free, gw.Req{Method: "PUT", Path: "/" + r.bucket + "/" + src, Body: rq.W.body(), Headers: c05NoTagging(rq.W.headers())}); rsp.Status != 200 {
			return gw.Req{}, fmt.Errorf("put copy source: %d %s %v", rsp.Status, rsp.Body, rsp.Err)
		}
		// the source carries no tags: with the (default) COPY tagging directive CopyObject stores the
		// source's tags BY NAME after the publication (probed separately: c05CopyTagsProbe); the
		// destination's tags are given with the REPLACE directive and travel through PutObject
		hs := []gw.Header{{K: "x-amz-copy-source", V: r.bucket + "/" + src}}
		if rq.W.has("tags") {
			hs = append(hs, gw.Header{K: "x-amz-tagging-directive", V: "REPLACE"}, gw.Header{K: "x-amz-tagging", V: rq.W.tagging()})
		}
		return gw.Req{Method: "PUT", Path: path, Headers: hs}, nil
	case "M":
		rsp := r.do(r.free, gw.Req{Method: "POST", Path: path, Query: "uploads=", Headers: rq.W.headers()})
		m := reUploadID.FindSubmatch(rsp.Body)
		if rsp.Status != 200 || m == nil {
			return gw.Req{}, fmt.Errorf("create multipart upload: %d %s %v", rsp.Status, rsp.Body, rsp.Err)
		}
		id := string(m[1])
		rsp = r.do(r.free, gw.Req{Method: "PUT", Path: path, Query: "partNumber=1&uploadId=" + id, Body: rq.W.body()})
		if rsp.Status != 200 {
			return gw.Req{}, fmt.Errorf("upload part: %d %s %v", rsp.Status, rsp.Body, rsp.Err)
		}
		body := "<CompleteMultipartUpload><Part><PartNumber>1</PartNumber><ETag>" + rsp.Headers.Get("ETag") + "</ETag></Part></CompleteMultipartUpload>"
		return gw.Req{Method: "POST", Path: path, Query: "uploadId=" + id, Body: []byte(body)}, nil
	case "D":
		return gw.Req{Method: "DELETE", Path: path}, nil
	case "G":
		return gw.Req{Method: "GET", Path: path}, nil
	case "H":
		return gw.Req{Method: "HEAD", Path: path}, nil
	}
	return gw.Req{}, fmt.Errorf("unknown request kind %q", rq.Kind)
}

// ------------------------------------------------------------------------------------ canonical answers

// c05View renders the answer of a request in the syntax of the driver (`showResp`).
func c05View(rq c05Req, rsp gw.Resp, writes []c05Write, kinds map[int]string) string {
	if rsp.Status == 0 && rsp.Err != nil {
		return "err:transport"
	}
	switch rq.Kind {
	case "P", "C", "M":
		if rsp.Status == 200 {
			return "ok"
		}
		if rsp.Status == 500 {
			c05LastErr.Store(string(rsp.Body))
			return "err"
		}
		return fmt.Sprintf("err:%d:%s", rsp.Status, rsp.ErrCode())
	case "D":
		if rsp.Status == 204 {
			return "ok"
		}
		if rsp.Status == 404 && rsp.ErrCode() == "NoSuchKey" {
			return "nokey"
		}
		return fmt.Sprintf("err:%d:%s", rsp.Status, rsp.ErrCode())
	}
	// reads
	if rsp.Status == 404 {
		return "nokey"
	}
	if rsp.Status != 200 {
		return fmt.Sprintf("err:%d:%s", rsp.Status, rsp.ErrCode())
	}
	clen := rsp.Headers.Get("Content-Length")
	body, short := "-", "0"
	if rq.Kind == "G" {
		body = "?"
		for _, w := range writes {
			if len(rsp.Body) <= w.Len && bytes.Equal(w.body()[:len(rsp.Body)], rsp.Body) && len(rsp.Body) > 0 {
				body = fmt.Sprintf("%d.%d", w.ID, len(rsp.Body))
			}
		}
		if rsp.Err != nil {
			short = "1" // the announced length was not delivered
		}
	}
	etag := "-"
	if e := rsp.Headers.Get("ETag"); e != "" {
		etag = "?"
		for _, w := range writes {
			k := kinds[w.ID]
			if k == "" {
				k = "P"
			}
			if e == w.etag(k) {
				etag = strconv.Itoa(w.ID)
			}
		}
	}
	var metas []string
	for k, v := range rsp.Headers {
		lk := strings.ToLower(k)
		if strings.HasPrefix(lk, "x-amz-meta-") && len(v) > 0 {
			metas = append(metas, strings.TrimPrefix(lk, "x-amz-meta-")+"="+strings.TrimPrefix(v[0], "v"))
		}
	}
	sort.Strings(metas)
	var hdrs []string
	for _, a := range c05HdrOrder {
		v := rsp.Headers.Get(c05HdrName[a])
		if v == "" || (a == "ctype" && !strings.HasPrefix(v, "text/v")) {
			continue
		}
		hdrs = append(hdrs, a+"="+strings.TrimPrefix(strings.TrimPrefix(v, "text/"), "v"))
	}
	z := func(l []string) string {
		if len(l) == 0 {
			return "0"
		}
		return strings.Join(l, "+")
	}
	tags := "-"
	if v := rsp.Headers.Get("X-Amz-Tagging-Count"); v != "" && rq.Kind == "G" {
		tags = v
	}
	return fmt.Sprintf("read(clen=%s,body=%s,short=%s,etag=%s,meta=%s,hdrs=%s,tags=%s)", clen, body, short, etag, z(metas), z(hdrs), tags)
}

// ------------------------------------------------------------------------------------ steered execution

type c05Obs struct {
	Steps   []string // rid:name:class:fin as observed
	Resp    []string
	Err     string // harness-level problem (time-out, preparation failed)
	Div     string // first divergence from the model's step list
	Diag    string // strace log tails when Err/Div is set
	Final   string // GET of the key after the schedule (through the free-running gateway)
	Tagging string // number of tags GetObjectTagging answers after the schedule ("-" = none / no key)
}

// runCase replays the schedule on the rig's processes. `want` is the model's step list (rid:name:class:fin).
func (r *c05Rig) runCase(c c05Case, want []string) c05Obs {
	r.seq++
	key := fmt.Sprintf("k%06d", r.seq)
	var obs c05Obs
	if c.Init != nil {
		if rsp := r.do(r.free, gw.Req{Method: "PUT", Path: "/" + r.bucket + "/" + key, Body: c.Init.body(), Headers: c.Init.headers()}); rsp.Status != 200 {
			obs.Err = fmt.Sprintf("initial put: %d %s %v", rsp.Status, rsp.Body, rsp.Err)
			return obs
		}
	}
	n := len(c.Reqs)
	reqs := make([]gw.Req, n)
	for i, rq := range c.Reqs {
		q, err := r.request(rq, key)
		if err != nil {
			obs.Err = err.Error()
			return obs
		}
		reqs[i] = q
	}
	resps := make([]gw.Resp, n)
	done := make([]chan struct{}, n)
	sent := make([]bool, n)
	held := make([]bool, n)     // the process is stopped after a relevant step
	finished := make([]bool, n) // response received
	projs := make([]*c05Proj, n)
	for i := range projs {
		projs[i] = &c05Proj{bucket: r.bucket, key: key}
	}
	relevant := func(i int) func(*gw.Sys) bool {
		return func(s *gw.Sys) bool { nm, _ := projs[i].project(s); return nm != "" }
	}
	const stepTO = 8 * time.Second
	waitDone := func(i int) {
		// run request i to its response; no further step on the key is expected
		for !finished[i] {
			if held[i] {
				r.steppers[i].Cont()
				held[i] = false
			}
			sys, fin, err := r.steppers[i].Next(done[i], relevant(i), stepTO)
			if err != nil {
				if obs.Err == "" {
					obs.Err = err.Error()
				}
				r.steppers[i].Cont()
				select {
				case <-done[i]:
				case <-time.After(stepTO):
				}
				finished[i] = true
				return
			}
			if fin {
				finished[i] = true
				return
			}
			nm, cl := projs[i].project(sys)
			obs.Steps = append(obs.Steps, fmt.Sprintf("%d:%s:%s:?", i, nm, cl))
			if obs.Div == "" {
				obs.Div = fmt.Sprintf("request %d: extra step %s:%s after the model's last step", i, nm, cl)
			}
			held[i] = true
		}
	}
	wi := 0
	for _, ch := range c.Sched {
		i := int(ch - '0')
		if i < 0 || i >= n || finished[i] {
			continue
		}
		if obs.Div != "" || obs.Err != "" {
			break
		}
		if !sent[i] {
			sent[i] = true
			done[i] = make(chan struct{})
			go func(i int) { resps[i] = r.do(r.procs[i], reqs[i]); close(done[i]) }(i)
		}
		if held[i] {
			r.steppers[i].Cont()
			held[i] = false
		}
		sys, fin, err := r.steppers[i].Next(done[i], relevant(i), stepTO)
		if err != nil {
			obs.Err = err.Error()
			break
		}
		if fin {
			finished[i] = true
			if want == nil {
				continue
			}
			obs.Div = fmt.Sprintf("request %d answered although the model expects step %d (%s)", i, wi, c05At(want, wi))
			break
		}
		held[i] = true
		nm, cl := projs[i].project(sys)
		if want == nil { // recording mode (shape detection): no expectation
			obs.Steps = append(obs.Steps, fmt.Sprintf("%d:%s:%s", i, nm, cl))
			continue
		}
		w := c05At(want, wi)
		wf := strings.Split(w, ":")
		last := len(wf) == 4 && wf[3] == "1"
		got := fmt.Sprintf("%d:%s:%s", i, nm, cl)
		fin1 := "0"
		if last {
			fin1 = "1"
		}
		obs.Steps = append(obs.Steps, got+":"+fin1)
		if len(wf) != 4 || got != strings.Join(wf[:3], ":") {
			obs.Div = fmt.Sprintf("step %d: code did %s, model expects %s", wi, got, w)
			break
		}
		wi++
		if last {
			waitDone(i)
		}
	}
	if want != nil && obs.Div == "" && obs.Err == "" && wi < len(want) {
		obs.Div = fmt.Sprintf("schedule exhausted at model step %d (%s)", wi, c05At(want, wi))
	}
	if obs.Div != "" || obs.Err != "" {
		for i := 0; i < n; i++ {
			if sent[i] {
				obs.Diag += fmt.Sprintf("--- strace of process %d\n%s\n", i, r.steppers[i].LogTail(30))
			}
		}
	}
	// drain: let every request that was sent run to its end
	var wg sync.WaitGroup
	for i := 0; i < n; i++ {
		if sent[i] && !finished[i] {
			wg.Add(1)
			go func(i int) {
				defer wg.Done()
				if held[i] {
					r.steppers[i].Cont()
				}
				for {
					_, fin, err := r.steppers[i].Next(done[i], func(*gw.Sys) bool { return false }, stepTO)
					if fin || err != nil {
						if err != nil {
							r.steppers[i].Cont()
						}
						return
					}
				}
			}(i)
		}
	}
	wg.Wait()
	kinds := map[int]string{}
	for _, rq := range c.Reqs {
		if rq.isWrite() {
			kinds[rq.W.ID] = rq.Kind
		}
	}
	for i, rq := range c.Reqs {
		if !sent[i] {
			obs.Resp = append(obs.Resp, "pending")
			continue
		}
		obs.Resp = append(obs.Resp, c05View(rq, resps[i], c.writes(), kinds))
	}
	// the state the schedule leaves behind: a GET and a GetObjectTagging of the key
	if want != nil && obs.Err == "" && obs.Div == "" {
		path := "/" + r.bucket + "/" + key
		obs.Final = c05View(c05Req{Kind: "G"}, r.do(r.free, gw.Req{Method: "GET", Path: path}), c.writes(), kinds)
		tg := r.do(r.free, gw.Req{Method: "GET", Path: path, Query: "tagging="})
		obs.Tagging = "-"
		if n := bytes.Count(tg.Body, []byte("<Tag>")); tg.Status == 200 && n > 0 {
			obs.Tagging = strconv.Itoa(n)
		}
	}
	return obs
}

func c05At(l []string, i int) string {
	if i < len(l) {
		return l[i]
	}
	return "<end>"
}

// ------------------------------------------------------------------------------------ model answers

type c05Model struct {
	Steps []string
	Resp  []string
	Final string // what a GET of the key answers after the schedule
}

func c05ParseRun(line string) (c05Model, error) {
	parts := strings.Split(line, " | ")
	if len(parts) != 3 || !strings.HasPrefix(parts[0], "steps") || !strings.HasPrefix(parts[1], "resp ") {
		return c05Model{}, fmt.Errorf("driver answer: %q", line)
	}
	return c05Model{Steps: strings.Fields(strings.TrimPrefix(parts[0], "steps")), Resp: strings.Fields(strings.TrimPrefix(parts[1], "resp ")),
		Final: strings.TrimSpace(strings.TrimPrefix(parts[2], "final"))}, nil
}

func (r *c05Rig) runLine(c c05Case) string {
	return fmt.Sprintf("conc run %s %s %s %s %s", r.wstrat, r.mode, c.initSpec(), c.reqSpec(), c.Sched)
}

// ------------------------------------------------------------------------------------ judging one case

func c05StratName(s string) string {
	switch s {
	case "otmp":
		return "link-strategy"
	case "mktemp":
		return "rename-strategy"
	}
	return s
}

// c05LinEvents renders the history of a steered case: invocation = index of the request's first
// step, response = index of its last step (the controller sends a request at its first step and
// waits for the answer right after its last one, so these ARE the real-time relations).
func c05LinEvents(c c05Case, steps []string, resp []string, verdicts []string, dropMissingReads bool) string {
	first, last := map[int]int{}, map[int]int{}
	for t, s := range steps {
		i, _ := strconv.Atoi(strings.SplitN(s, ":", 2)[0])
		if _, ok := first[i]; !ok {
			first[i] = t
		}
		last[i] = t
	}
	var evs []string
	for i, rq := range c.Reqs {
		if _, ok := first[i]; !ok {
			continue
		}
		ans := resp[i]
		op, res, ret := "", "", strconv.Itoa(last[i])
		switch {
		case rq.isWrite():
			op = "W" + strconv.Itoa(rq.W.ID)
			res = "ok"
			if ans != "ok" {
				ret = "-"
			}
		case rq.Kind == "D":
			op = "D"
			switch ans {
			case "ok":
				res = "ok"
			case "nokey":
				if dropMissingReads {
					continue
				}
				res = "missing"
			default:
				res, ret = "ok", "-"
			}
		default:
			op = "R"
			switch {
			case ans == "nokey":
				if dropMissingReads {
					continue
				}
				res = "missing"
			case strings.HasPrefix(ans, "read(") && verdicts[i] == "ok":
				res = "v" + c05Attributed(rq.Kind, ans, c)
			default:
				continue // garbled / short / failed reads are judged by the single-write oracle
			}
		}
		evs = append(evs, fmt.Sprintf("%s:%d:%s:%s", op, first[i], ret, res))
	}
	if len(evs) == 0 {
		return "-"
	}
	return strings.Join(evs, ",")
}

// c05Attributed: the write a consistent read answer belongs to.
func c05Attributed(kind, view string, c c05Case) string {
	m := regexp.MustCompile(`etag=(\d+)`).FindStringSubmatch(view)
	if m != nil {
		return m[1]
	}
	return "0"
}

type c05Judged struct {
	c       c05Case
	model   c05Model
	obs     c05Obs
	verdict []string // per request: single-write verdict of the IMPLEMENTATION's answer ("" for non-reads)
	final   string   // single-write verdict of the GET after the schedule
}

func c05Input(c c05Case) map[string]interface{} {
	b, _ := json.Marshal(c)
	var m map[string]interface{}
	json.Unmarshal(b, &m)
	m["mode"] = "steered"
	return m
}

// c05Report turns one judged case into failures.
func c05Report(res *lib.Result, a lib.Args, j c05Judged, linFull, linNoMissing string) {
	c := j.c
	impl := strings.Join(j.obs.Resp, " ")
	model := strings.Join(j.model.Resp, " ")
	in := c05Input(c)
	if j.obs.Err != "" {
		res.Fail(lib.Failure{Kind: "correspondence", Signature: "steered:harness:" + c.Pair, What: "the schedule could not be replayed: " + j.obs.Err, Input: in, Impl: strings.Join(j.obs.Steps, " "), Model: strings.Join(j.model.Steps, " ")})
		return
	}
	if j.obs.Div != "" {
		res.Fail(lib.Failure{Kind: "correspondence", Signature: "steps:" + c.Pair + ":" + c.Strat, What: "the code's filesystem steps differ from Model.Conc's step list: " + j.obs.Div,
			Input: in, Impl: strings.Join(j.obs.Steps, " "), Model: strings.Join(j.model.Steps, " ")})
		return
	}
	hasDelete, explained := false, false
	for _, rq := range c.Reqs {
		if rq.Kind == "D" {
			hasDelete = true
		}
	}
	for i, rq := range c.Reqs {
		ans := j.obs.Resp[i]
		if rq.Kind != "G" && rq.Kind != "H" {
			if rq.isWrite() && ans != "ok" || strings.HasPrefix(ans, "err") {
				res.Fail(lib.Failure{Kind: "property", Signature: "conc:request-failed:" + rq.Kind + ":" + c.Strat, What: "a request failed under concurrency: " + ans, Input: in, Impl: impl, Model: model})
				explained = true
			}
			continue
		}
		who := "get"
		if rq.Kind == "H" {
			who = "head"
		}
		switch {
		case strings.HasPrefix(j.verdict[i], "bad:"):
			cls := strings.SplitN(strings.TrimPrefix(j.verdict[i], "bad:"), "+", 2)[0]
			res.Fail(lib.Failure{Kind: "property", Signature: "conc:" + who + "-vs-overwrite:" + cls,
				What: "a successful " + strings.ToUpper(who) + " concurrent with an overwrite answered parts of different writes (" + j.verdict[i] + ")", Input: in, Impl: impl, Model: model})
			explained = true
		case ans == "nokey" && c.Init != nil && !hasDelete:
			res.Fail(lib.Failure{Kind: "property", Signature: "conc:overwrite:key-missing-window:" + c05StratName(c.Strat),
				What: "the key existed and was only being overwritten, yet " + strings.ToUpper(who) + " answered NoSuchKey (link() removes the old entry before it publishes the new one)", Input: in, Impl: impl, Model: model})
			explained = true
		case ans == "err:transport" && i < len(j.model.Resp) && c05LenMismatch(j.model.Resp[i]):
			// the announced length (stat of one write) and the opened file (another write) differ:
			// the server drops the connection without an answer — not a successful GET (grey zone)
			res.Count("grey-drop", false, "steered:grey:length-mismatch-connection-dropped")
		case strings.HasPrefix(ans, "err"):
			res.Fail(lib.Failure{Kind: "property", Signature: "conc:request-failed:" + rq.Kind + ":" + c.Strat, What: "a read failed under concurrency: " + ans, Input: in, Impl: impl, Model: model})
			explained = true
		}
	}
	if linFull == "bad" && !explained {
		if linNoMissing == "ok" {
			res.Fail(lib.Failure{Kind: "property", Signature: "conc:overwrite:key-missing-window:" + c05StratName(c.Strat),
				What: "not linearizable: a read answered NoSuchKey although in every order that respects real time the key holds a value at that point (window between unlink and publication of an overwrite)", Input: in, Impl: impl, Model: model})
		} else {
			res.Fail(lib.Failure{Kind: "property", Signature: "conc:linearizability:unexplained:" + c.Pair, What: "the answers are not explained by any order that respects real time (Spec.Register.linearizableB)", Input: in, Impl: impl, Model: model})
		}
	}
	// the state left behind
	if j.obs.Final != "" {
		switch {
		case strings.HasPrefix(j.final, "bad:"):
			res.Fail(lib.Failure{Kind: "property", Signature: "conc:final-state:" + strings.SplitN(strings.TrimPrefix(j.final, "bad:"), "+", 2)[0],
				What: "after the schedule the key holds parts of different writes for good (" + j.final + "): GET answers " + j.obs.Final, Input: in, Impl: j.obs.Final, Model: j.model.Final})
		case j.obs.Final != j.model.Final:
			res.Fail(lib.Failure{Kind: "correspondence", Signature: "final-state:" + c.Pair + ":" + c.Strat, What: "the object the schedule leaves behind differs from Model.Conc's", Input: in, Impl: j.obs.Final, Model: j.model.Final})
		}
		// GetObjectTagging must agree with the tag set of the GET answer
		if m := regexp.MustCompile(`tags=([^,)]*)`).FindStringSubmatch(j.model.Final); m != nil && j.obs.Tagging != m[1] && strings.HasPrefix(j.model.Final, "read(") {
			res.Fail(lib.Failure{Kind: "property", Signature: "conc:final-state:tagging-of-other-write", What: "GetObjectTagging after the schedule answers " + j.obs.Tagging + " tags, the object the key holds has " + m[1],
				Input: in, Impl: "tagging=" + j.obs.Tagging + " " + j.obs.Final, Model: j.model.Final})
		}
	}
	if !c05SameAnswers(j.model.Resp, j.obs.Resp) {
		res.Fail(lib.Failure{Kind: "correspondence", Signature: "answers:" + c.Pair + ":" + c.Strat, What: "the code's answers differ from Model.Conc's for this schedule", Input: in, Impl: impl, Model: model})
	}
}

// ------------------------------------------------------------------------------------ case generation

func c05Payloads(r *lib.Rand, base int) (c05Write, c05Write, c05Write) {
	shapes := [][]string{
		{"m0", "ctype"},
		{"m0"},
		{"m1", "ctype", "cdisp", "cache"},
		{},
		{"m0", "ctype", "cenc", "cdisp", "clang", "cache", "expires"},
		{"ctype"},
		{"m0", "tags"},
		{"tags"},
		{"m0", "ctype", "tags"},
	}
	same := 0
	if r.Chance(60) { // equal lengths: a torn read is then a complete HTTP answer (no length mismatch)
		same = 3 + r.Intn(40)
	}
	mk := func(id int) c05Write {
		n := same
		if n == 0 {
			n = 3 + r.Intn(40)
		}
		return c05Write{ID: id, Len: n, Attrs: shapes[r.Intn(len(shapes))]}
	}
	return mk(base), mk(base + 1), mk(base + 2)
}

type c05PairDef struct {
	name   string
	kinds  []string
	inits  []bool // initial states to try: true = the key exists
	tagged []bool // per request: the write carries a tag set (nil = as the payload shape says)
}

var c05Pairs = []c05PairDef{
	{"PUT,PUT", []string{"P", "P"}, []bool{true, false}, nil},
	{"PUT,GET", []string{"P", "G"}, []bool{true, false}, nil},
	{"PUT,HEAD", []string{"P", "H"}, []bool{true, false}, nil},
	{"PUT,DELETE", []string{"P", "D"}, []bool{true, false}, nil},
	{"DELETE,GET", []string{"D", "G"}, []bool{true}, nil},
	{"MPU,GET", []string{"M", "G"}, []bool{true, false}, nil},
	{"COPY,GET", []string{"C", "G"}, []bool{true}, nil},
	{"DELETE,DELETE", []string{"D", "D"}, []bool{true}, nil},
	{"COPY,DELETE", []string{"C", "D"}, []bool{true}, nil},
	// uploads with a tag set against a write without / a reader: the tags must be published with the object
	{"MPU+tags,PUT", []string{"M", "P"}, []bool{true}, []bool{true, false}},
	{"MPU+tags,GET", []string{"M", "G"}, []bool{true}, []bool{true, false}},
	{"PUT+tags,PUT", []string{"P", "P"}, []bool{true}, []bool{true, false}},
	{"COPY+tags,PUT", []string{"C", "P"}, []bool{true}, []bool{true, false}},
	{"PUT,PUT,GET", []string{"P", "P", "G"}, []bool{true}, nil},
	{"PUT,DELETE,GET", []string{"P", "D", "G"}, []bool{true}, nil},
}

// c05Corpus: the witnesses of the FORMER findings (fixed in the repo: 4399f3e, 109ae9c, 4e82e48), run first;
// the same schedules as the examples of Open/C05.lean. They must pass on the code as it is.
func c05Corpus(strat string) []c05Case {
	a := c05Write{ID: 1, Len: 7, Attrs: []string{"m0", "ctype"}}
	b := c05Write{ID: 2, Len: 12, Attrs: []string{"m0", "ctype"}}
	put := c05Req{Kind: "P", W: b}
	putAll := strings.Repeat("0", 12)                       // more tokens than any variant's PUT has steps: surplus tokens are skipped
	pad := strings.Repeat("0", 6) + strings.Repeat("1", 16) // tokens of finished requests are skipped
	bigA := c05Write{ID: 3, Len: 6000, Attrs: []string{"m0", "ctype"}}
	bigB := c05Write{ID: 4, Len: 40000, Attrs: []string{"m0", "ctype"}}
	return []c05Case{
		// the same with bodies beyond fasthttp's write buffer: the client receives 200 and a PREFIX of B
		{Strat: strat, Init: &bigA, Reqs: []c05Req{{Kind: "P", W: bigB}, {Kind: "G"}}, Sched: strings.Repeat("1", 12) + putAll + "1" + pad, Pair: "PUT,GET"},
		// GET stats A, the overwrite publishes B, GET reads attributes of B and opens B: ETag and metadata of B with a prefix of B's body
		{Strat: strat, Init: &bigA, Reqs: []c05Req{{Kind: "P", W: bigB}, {Kind: "G"}}, Sched: "1" + putAll + strings.Repeat("1", 12) + pad, Pair: "PUT,GET"},
		// GET reads stat and attributes of A, the overwrite publishes B, GET opens B
		{Strat: strat, Init: &a, Reqs: []c05Req{put, {Kind: "G"}}, Sched: strings.Repeat("1", 12) + putAll + "1" + pad, Pair: "PUT,GET"},
		// the overwrite runs up to (old shape: and including) its unlink, GET / HEAD start, the overwrite goes on
		{Strat: strat, Init: &a, Reqs: []c05Req{put, {Kind: "G"}}, Sched: strings.Repeat("0", 7) + "1" + pad, Pair: "PUT,GET"},
		{Strat: strat, Init: &a, Reqs: []c05Req{put, {Kind: "H"}}, Sched: strings.Repeat("0", 7) + "1" + pad, Pair: "PUT,HEAD"},
		// CopyObject publishes, a DELETE removes the key, CopyObject stats the destination
		{Strat: strat, Init: &a, Reqs: []c05Req{{Kind: "C", W: b}, {Kind: "D"}}, Sched: strings.Repeat("0", 9) + "11" + strings.Repeat("0", 6) + "11", Pair: "COPY,DELETE"},
		{Strat: strat, Init: &a, Reqs: []c05Req{{Kind: "C", W: b}, {Kind: "D"}}, Sched: strings.Repeat("0", 11) + "11" + strings.Repeat("0", 6) + "11", Pair: "COPY,DELETE"},
	}
}

var reReadView = regexp.MustCompile(`^read\(clen=(\d+),body=([^,]*),short=(\d),(.*)\)$`)

// c05LenMismatch: the model's read answer announces a length (stat) that differs from the opened file's.
func c05LenMismatch(model string) bool {
	m := reReadView.FindStringSubmatch(model)
	if m == nil || m[2] == "-" {
		return false
	}
	f := strings.Split(m[2], ".")
	return len(f) == 2 && f[1] != m[1]
}

// c05SameAnswers compares the code's answers with the model's. Where the model's read answer has a
// length mismatch the client's view is only partly determined: no answer at all, or the same headers
// with at most min(announced, file length) bytes of the opened file.
func c05SameAnswers(model, impl []string) bool {
	if len(model) != len(impl) {
		return false
	}
	for i := range model {
		if model[i] == impl[i] {
			continue
		}
		if !c05LenMismatch(model[i]) {
			return false
		}
		if impl[i] == "err:transport" {
			continue
		}
		mm, im := reReadView.FindStringSubmatch(model[i]), reReadView.FindStringSubmatch(impl[i])
		if mm == nil || im == nil || mm[1] != im[1] || mm[4] != im[4] {
			return false
		}
		mb, ib := strings.Split(mm[2], "."), strings.Split(im[2], ".")
		if len(mb) != 2 || len(ib) != 2 || mb[0] != ib[0] {
			return false
		}
		ml, _ := strconv.Atoi(mb[1])
		il, _ := strconv.Atoi(ib[1])
		cl, _ := strconv.Atoi(mm[1])
		if il > ml || il > cl {
			return false
		}
	}
	return true
}
