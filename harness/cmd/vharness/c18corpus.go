package main

// C18 corpus: one minimal, deterministic program per known difference between the proxy and the
// direct endpoint (run first, in both tiers). Each scenario names the model fact that predicts the
// difference (an entry of `lossyReq` / `droppedResp`, an unimplemented method, an early use of the
// SDK output, the tag-value limit) or says that the cause lies outside the model (SDK behaviour,
// ownership semantics). The table-vs-runs correspondence is judged on these scenarios:
//   * a predicted difference that does not show up  -> correspondence failure `table-says-lost-not-observed:<entry>`
//   * a difference in a field the table certifies   -> correspondence failure `table-says-preserved:<signature>`

import (
	"fmt"
	"strings"

	"verif/harness/lib"
	"verif/harness/prog"
)

type c18Scenario struct {
	name       string
	versioning bool
	ops        []*c18Op
	expect     []string // signatures that must be observed; nil + repaired: a regression scenario (no difference at all is allowed)
	model      []string // model facts predicting it: `req:M.f`, `resp:M.f`, `unimplemented:M`, `earlyuse:M`, `acl:too-long`; empty = outside the model
	repaired   string   // the repo commit subject that removed the difference this scenario used to show
	note       string
}

func c18Mk(kind, caller, b, k string) *c18Op {
	return &c18Op{Op: prog.Op{Kind: kind, Caller: caller, B: b, K: k, Valid: true}}
}

func c18Put(caller, b, k string, n int, hdrs ...prog.KV) *c18Op {
	o := c18Mk("x:putObject", caller, b, k)
	o.Put = &prog.PutSpec{CType: "text/plain"}
	if n > 0 {
		o.Put.Data = []prog.Seg{{Seed: 4242, Off: 0, Len: n}}
	}
	o.XH = hdrs
	return o
}

func c18WithQ(o *c18Op, q ...prog.KV) *c18Op { o.XQ = append(o.XQ, q...); return o }
func c18WithH(o *c18Op, h ...prog.KV) *c18Op { o.XH = append(o.XH, h...); return o }

func c18Scenarios() []c18Scenario {
	b := "bkt-x"
	mk := func(caller string) *c18Op { return c18Mk("createBucket", caller, b, "") }
	var sc []c18Scenario
	add := func(s c18Scenario) { sc = append(sc, s) }

	add(c18Scenario{name: "attributes-crash", ops: []*c18Op{mk("root"), c18Put("root", b, "k", 10),
		c18WithH(c18Mk("x:getObjectAttributes", "root", b, "k"), c18KV("x-amz-object-attributes", "ETag,ObjectSize"))},
		repaired: "GetObjectAttributes and GetBucketVersioning test the error before using the answer",
		note:     "until then: the front end never filled in the required ObjectAttributes member, the SDK's own validation failed, the method read the nil output and the gateway process died (proxy:getObjectAttributes:crash)"})
	add(c18Scenario{name: "versioning-crash", ops: []*c18Op{mk("root"), c18Mk("getVersioning", "root", b, "")},
		repaired: "GetObjectAttributes and GetBucketVersioning test the error before using the answer",
		note:     "the endpoint has no --versioning-dir: GetBucketVersioning fails there; until then the proxy read the nil output (proxy:getVersioning:crash)"})
	add(c18Scenario{name: "bucket-tagging", ops: []*c18Op{mk("root"),
		{Op: prog.Op{Kind: "putBucketTagging", Caller: "root", B: b, Tags: []prog.KV{{K: "team", V: "x"}}}},
		c18Mk("getBucketTagging", "root", b, ""), c18Mk("deleteBucketTagging", "root", b, "")},
		repaired: "bucket tagging through the proxy, with the gateway's ACL tag kept apart"})
	add(c18Scenario{name: "acl-too-long-create", ops: []*c18Op{{Op: prog.Op{Kind: "createBucket", Caller: "u:adm1", B: b, Canned: "public-read-write", Own: "BucketOwnerPreferred", Valid: true}}},
		expect: []string{"proxy:createBucket:acl-3-grantees:status"}, model: []string{"acl:too-long"},
		note: "owner + READ + WRITE grantees: the JSON is longer than 192 bytes, its base64 longer than the 256 characters a tag value may have; the bucket stays behind at the endpoint without its ACL (owner falls back to root)"})
	add(c18Scenario{name: "acl-too-long-put", ops: []*c18Op{mk("u:adm1"),
		{Op: prog.Op{Kind: "putOwnership", Caller: "u:adm1", B: b, Own: "BucketOwnerPreferred"}},
		{Op: prog.Op{Kind: "putBucketAcl", Caller: "u:adm1", B: b, Canned: "public-read-write"}}},
		expect: []string{"proxy:putBucketAcl:acl-3-grantees:status"}, model: []string{"acl:too-long"}})
	add(c18Scenario{name: "listbuckets-owner", ops: []*c18Op{c18Mk("createBucket", "root", "bkt-r", ""), c18Mk("createBucket", "u:up1", "bkt-u", ""),
		c18Mk("listBuckets", "u:usr1", "", ""), c18Mk("listBuckets", "u:up1", "", "")},
		expect: []string{"proxy:listBuckets:xml:Buckets.Bucket.Name", "proxy:listBuckets:xml:Owner.ID"},
		model:  []string{"req:ListBuckets.Owner", "req:ListBuckets.IsAdmin"},
		note:   "the caller and the is-admin flag are not sent: every caller sees every bucket of the endpoint, owned by the endpoint's root"})
	add(c18Scenario{name: "create-existing", ops: []*c18Op{c18Mk("createBucket", "u:up1", b, ""), c18Mk("createBucket", "u:adm1", b, "")},
		expect: []string{"proxy:createBucket:code"}, note: "ownership: at the endpoint every bucket belongs to the proxy's credentials, so a second create by anybody is BucketAlreadyOwnedByYou"})
	add(c18Scenario{name: "object-owner-in-listing", ops: []*c18Op{mk("u:up1"), c18Put("u:up1", b, "k", 5), c18Mk("x:listObjects", "u:up1", b, ""),
		c18WithQ(c18Mk("x:listObjectsV2", "u:up1", b, ""), c18KV("fetch-owner", "true"))},
		expect: []string{"proxy:listObjects:xml:Contents.Owner.ID", "proxy:listObjectsV2:xml:Contents.Owner.ID"},
		note:   "ownership: listings show the endpoint's owner (the proxy's credentials), not the bucket owner the gateway keeps in the tag"})
	add(c18Scenario{name: "expires-put", ops: []*c18Op{mk("root"), c18Put("root", b, "k", 5, c18KV("expires", "never")), c18Mk("x:getObject", "root", b, "k"), c18Mk("x:headObject", "root", b, "k")},
		expect: []string{"proxy:getObject:hdr:expires", "proxy:headObject:hdr:expires"}, model: []string{"req:PutObject.Expires"},
		note: "Expires is parsed with time.RFC1123 and silently dropped when that fails; the endpoint stores the header verbatim"})
	add(c18Scenario{name: "expires-copy", ops: []*c18Op{mk("root"), c18Put("root", b, "k", 5),
		c18WithH(c18Mk("x:copyObject", "root", b, "k2"), c18KV("x-amz-metadata-directive", "REPLACE"), c18KV("expires", "2033-12-01T16:00:00Z")), c18Mk("x:getObject", "root", b, "k2")},
		expect: []string{"proxy:getObject:hdr:expires"}, model: []string{"req:CopyObject.Expires"}})
	cpy := sc[len(sc)-1].ops[2]
	cpy.SB, cpy.SK = b, "k"
	cu := c18WithH(c18Mk("x:createUpload", "root", b, "mp"), c18KV("expires", "Thursday, 01-Dec-33 16:00:00 GMT"))
	cu.Put = &prog.PutSpec{}
	add(c18Scenario{name: "expires-multipart", ops: []*c18Op{mk("root"), cu,
		{Op: prog.Op{Kind: "uploadPart", Caller: "root", B: b, K: "mp", UpID: "#u1", Num: 1, Data: []prog.Seg{{Seed: 1, Off: 0, Len: 100}}}},
		{Op: prog.Op{Kind: "completeUpload", Caller: "root", B: b, K: "mp", UpID: "#u1", Parts: []prog.PartRef{{Num: 1, ETag: "#e2"}}}},
		c18Mk("x:headObject", "root", b, "mp")},
		expect: []string{"proxy:headObject:hdr:expires"}, model: []string{"req:CreateMultipartUpload.Expires"}})
	add(c18Scenario{name: "lock-headers", ops: []*c18Op{mk("root"),
		c18Put("root", b, "k", 5, c18KV("x-amz-object-lock-mode", "GOVERNANCE"), c18KV("x-amz-object-lock-retain-until-date", "2033-12-01T16:00:00Z"))},
		expect: []string{"proxy:putObject:lock-headers:status"},
		model:  []string{"req:PutObject.ObjectLockMode", "req:PutObject.ObjectLockRetainUntilDate", "req:PutObject.ObjectLockLegalHoldStatus"},
		note:   "the three lock fields are cleared before the call: a PUT that the endpoint refuses (no lock configuration) succeeds, unprotected"})
	for _, l := range [][2]string{{"x:listObjects", "ListObjects.MaxKeys"}, {"x:listObjectsV2", "ListObjectsV2.MaxKeys"}} {
		add(c18Scenario{name: "max-zero-" + l[0][2:], ops: []*c18Op{mk("root"), c18Put("root", b, "k", 5), c18WithQ(c18Mk(l[0], "root", b, ""), c18KV("max-keys", "0"))},
			repaired: "max-keys, max-uploads, max-parts and x-amz-mp-object-size of 0 reach the endpoint",
			note:     "until then `if input.MaxKeys != nil && *input.MaxKeys == 0 { input.MaxKeys = nil }`: the endpoint applied its default (1000) instead of returning an empty page (" + l[1] + ")"})
	}
	add(c18Scenario{name: "max-zero-listVersions", versioning: true, ops: []*c18Op{mk("root"), {Op: prog.Op{Kind: "putVersioning", Caller: "root", B: b, On: true}},
		c18Put("root", b, "k", 5), c18WithQ(c18Mk("x:listVersions", "root", b, ""), c18KV("max-keys", "0"))},
		repaired: "max-keys, max-uploads, max-parts and x-amz-mp-object-size of 0 reach the endpoint"})
	cu2 := c18Mk("x:createUpload", "root", b, "mp")
	cu2.Put = &prog.PutSpec{}
	lp := c18WithQ(c18Mk("x:listParts", "root", b, "mp"), c18KV("max-parts", "0"))
	lp.UpID = "#u1"
	add(c18Scenario{name: "max-zero-multipart", ops: []*c18Op{mk("root"), cu2,
		{Op: prog.Op{Kind: "uploadPart", Caller: "root", B: b, K: "mp", UpID: "#u1", Num: 1, Data: []prog.Seg{{Seed: 1, Off: 0, Len: 100}}}},
		lp, c18WithQ(c18Mk("x:listUploads", "root", b, ""), c18KV("max-uploads", "0"))},
		repaired: "max-keys, max-uploads, max-parts and x-amz-mp-object-size of 0 reach the endpoint"})
	cu3 := c18Mk("x:createUpload", "root", b, "mp")
	cu3.Put = &prog.PutSpec{}
	comp := &c18Op{Op: prog.Op{Kind: "x:completeUpload", Caller: "root", B: b, K: "mp", UpID: "#u1", Parts: []prog.PartRef{{Num: 1, ETag: "#e2"}}}, XH: []prog.KV{c18KV("x-amz-mp-object-size", "0")}}
	add(c18Scenario{name: "mp-object-size-zero", ops: []*c18Op{mk("root"), cu3,
		{Op: prog.Op{Kind: "uploadPart", Caller: "root", B: b, K: "mp", UpID: "#u1", Num: 1, Data: []prog.Seg{{Seed: 1, Off: 0, Len: 100}}}}, comp},
		repaired: "max-keys, max-uploads, max-parts and x-amz-mp-object-size of 0 reach the endpoint",
		note:     "until then x-amz-mp-object-size: 0 was dropped: the endpoint did not compare the declared size with the assembled object"})
	add(c18Scenario{name: "checksum-type", ops: []*c18Op{mk("root"), c18Put("root", b, "k", 5)},
		repaired: "the proxy passes on ChecksumType, StartAfter, EncodingType and the copy source version id"})
	add(c18Scenario{name: "start-after", ops: []*c18Op{mk("root"), c18Put("root", b, "k", 5), c18WithQ(c18Mk("x:listObjectsV2", "root", b, ""), c18KV("start-after", "a"))},
		repaired: "the proxy passes on ChecksumType, StartAfter, EncodingType and the copy source version id"})
	upc := &c18Op{Op: prog.Op{Kind: "uploadPartCopy", Caller: "root", B: b, K: "mp", UpID: "#u4", Num: 1, SB: b, SK: "src", SVid: "#v2"}}
	cu4 := c18Mk("x:createUpload", "root", b, "mp")
	cu4.Put = &prog.PutSpec{}
	add(c18Scenario{name: "copy-source-version-id", versioning: true, ops: []*c18Op{mk("root"), {Op: prog.Op{Kind: "putVersioning", Caller: "root", B: b, On: true}},
		c18Put("root", b, "src", 50), c18Put("root", b, "src", 60), cu4, upc},
		repaired: "the proxy passes on ChecksumType, StartAfter, EncodingType and the copy source version id"})
	// ---- outside the model: behaviour of the (trusted) SDK in front of this endpoint
	cu5 := c18Mk("x:createUpload", "root", b, "mp")
	cu5.Put = &prog.PutSpec{}
	add(c18Scenario{name: "empty-body", ops: []*c18Op{mk("root"), c18Put("root", b, "k", 0), c18Mk("x:getObject", "root", b, "k"), c18Mk("x:listObjectsV2", "root", b, ""), cu5,
		{Op: prog.Op{Kind: "uploadPart", Caller: "root", B: b, K: "mp", UpID: "#u4", Num: 1}}},
		repaired: "empty objects and empty parts can be uploaded through the proxy",
		note:     "until then the SDK sent the empty non-seekable body aws-chunked without x-amz-decoded-content-length and the versitygw endpoint answered MissingContentLength; the listing shows that the object carries the endpoint's default checksum, not one of the SDK's choice"})
	c1 := c18Mk("x:copyObject", "root", b, "k2")
	c1.SB, c1.SK = b, "a b+c%&=d"
	add(c18Scenario{name: "copy-source-escape", ops: []*c18Op{mk("root"), c18Put("root", b, "a b+c%&=d", 5), c1},
		repaired: "the proxy url-encodes the copy source",
		note:     "until then the DECODED copy source went to the SDK, which sends x-amz-copy-source as given: a key with characters that need escaping was an invalid URI at the endpoint"})
	np := c18Mk("x:putObject", "root", b, "k")
	np.Put = &prog.PutSpec{Data: []prog.Seg{{Seed: 5, Off: 0, Len: 9}}}
	add(c18Scenario{name: "default-content-type", ops: []*c18Op{mk("root"), np, c18Mk("x:getObject", "root", b, "k")},
		expect: []string{"proxy:getObject:hdr:content-type"},
		note:   "SDK: a PUT without Content-Type is sent with application/octet-stream; the endpoint's own default is binary/octet-stream"})
	return sc
}

// c18ModelFacts: what the Lean model (generated table + hand-written lists) says.
type c18ModelFacts struct {
	lossy, dropped, unimpl, early map[string]bool
	argued                        map[string]bool // lossy by the table criterion, argued harmless in Model/Proxy.lean
	relevantReq, relevantResp     map[string]bool // "M.f"
	stale                         string          // non-empty: the hand-written drop lists no longer match the table
}

func c18AskModel(a lib.Args) (*c18ModelFacts, error) {
	out, err := a.Driver.Ask([]string{"proxy tablelossy", "proxy tabledropped", "proxy unimplemented", "proxy earlyuse", "proxy relevantreq", "proxy relevantresp", "proxy lossy", "proxy dropped", "proxy argued"})
	if err != nil {
		return nil, err
	}
	set := func(s string) map[string]bool {
		m := map[string]bool{}
		for _, x := range strings.Split(s, ",") {
			if x != "" && x != "-" {
				m[x] = true
			}
		}
		return m
	}
	f := &c18ModelFacts{lossy: set(out[0]), dropped: set(out[1]), unimpl: set(out[2]), early: set(out[3]), relevantReq: map[string]bool{}, relevantResp: map[string]bool{}}
	for x := range set(out[4]) {
		p := strings.SplitN(x, "|", 3)
		f.relevantReq[p[0]+"."+p[1]] = true
	}
	for x := range set(out[5]) {
		f.relevantResp[x] = true
	}
	f.argued = set(out[8])
	if out[0] != out[6] || out[1] != out[7] {
		// Props.C18.lossyReq_exact / droppedResp_exact fail to build in this situation; the runs go on
		// with what the regenerated table says
		f.stale = fmt.Sprintf("table: lossy=[%s] dropped=[%s]; Model/Proxy.lean: lossyReq=[%s] droppedResp=[%s]", out[0], out[1], out[6], out[7])
	}
	return f, nil
}

func (f *c18ModelFacts) holds(fact string) bool {
	switch {
	case strings.HasPrefix(fact, "req:"):
		return f.lossy[fact[4:]]
	case strings.HasPrefix(fact, "resp:"):
		return f.dropped[fact[5:]]
	case strings.HasPrefix(fact, "unimplemented:"):
		return f.unimpl[fact[14:]]
	case strings.HasPrefix(fact, "earlyuse:"):
		return f.early[fact[9:]]
	case fact == "acl:too-long":
		return true // judged by c18Acl against the model's `create`
	}
	return false
}

// c18Corpus runs every scenario on a fresh state and judges the table-vs-runs correspondence.
func c18Corpus(a lib.Args, res *lib.Result) error {
	if a.ReplayInput() != nil || c18Skip(a, "corpus") {
		return nil
	}
	facts, err := c18AskModel(a)
	if err != nil {
		return err
	}
	if facts.stale != "" {
		res.Fail(lib.Failure{Kind: "model-vs-spec", Signature: "table-changed", What: "the table regenerated from backend/s3proxy/s3.go no longer yields the drop lists written in Model/Proxy.lean (the source changed: a new drop, or a repaired one)",
			Input: map[string]interface{}{"family": "corpus"}, Impl: facts.stale})
	}
	envs := map[bool]*c18Env{}
	defer func() {
		for _, e := range envs {
			e.kill()
		}
	}()
	covered := map[string]bool{}
	for i, sc := range c18Scenarios() {
		e := envs[sc.versioning]
		if e == nil {
			e, err = c18Start(a, fmt.Sprintf("c18corpus-%v", sc.versioning), sc.versioning)
			if err != nil {
				return err
			}
			envs[sc.versioning] = e
		}
		e.wipe()
		steps := e.runPairOpt(sc.ops, false, false)
		res.Count("corpus:"+sc.name, true, "programs:corpus")
		before := map[string]int{}
		for k, v := range c18Observed {
			before[k] = v
		}
		c18Report(res, "corpus:"+sc.name, i, a.Seed, sc.versioning, sc.ops, steps)
		if sc.repaired != "" {
			res.Histogram["corpus:regression-scenarios"]++
		}
		for _, want := range sc.expect {
			if c18Observed[want] == before[want] {
				kind, sig := "correspondence", "corpus-not-reproduced:"+want
				for _, m := range sc.model {
					if facts.holds(m) {
						sig = "table-says-lost-not-observed:" + m
					}
				}
				res.Fail(lib.Failure{Kind: kind, Signature: sig,
					What:  fmt.Sprintf("corpus scenario %s: the known difference %s did not show up (fixed? then update the model lists and the corpus)", sc.name, want),
					Input: map[string]interface{}{"family": "corpus:" + sc.name, "versioning": sc.versioning, "ops": sc.ops, "steps": c18Describe(steps, len(steps)-1)}})
			}
		}
		for _, m := range sc.model {
			covered[m] = true
			if !facts.holds(m) {
				res.Fail(lib.Failure{Kind: "correspondence", Signature: "table-says-preserved:" + m,
					What:  fmt.Sprintf("corpus scenario %s attributes its difference to %s, but the regenerated table no longer says so", sc.name, m),
					Input: map[string]interface{}{"family": "corpus:" + sc.name, "versioning": sc.versioning, "ops": sc.ops}})
			}
		}
	}
	// every loss the table predicts has a scenario (or a written reason why it cannot be shown)
	masked := map[string]string{
		"req:HeadObject.PartNumber": "argued harmless (Model.Proxy.zeroUnreachable): the front end never hands over 0",
		"req:PutObjectTagging.tags": "computed, proved faithful (Props.C18.tagset_faithful); the paired runs compare object tags",
		"req:PutObject.Body":        "argued harmless (Model.Proxy.emptyBodyRewrite): an empty body is replaced by an empty body; regression scenario empty-body, and every generated program reads its uploads back",
		"req:UploadPart.Body":       "argued harmless (Model.Proxy.emptyBodyRewrite); regression scenario empty-body",
	}
	for k := range facts.lossy {
		if !covered["req:"+k] && masked["req:"+k] == "" {
			res.Fail(lib.Failure{Kind: "correspondence", Signature: "table-says-lost-no-scenario:req:" + k, What: "the table says this request field is lost but the corpus has no scenario for it", Input: map[string]interface{}{"entry": k}})
		}
	}
	for k := range facts.dropped {
		if !covered["resp:"+k] && masked["resp:"+k] == "" {
			res.Fail(lib.Failure{Kind: "correspondence", Signature: "table-says-lost-no-scenario:resp:" + k, What: "the table says this output field is not copied but the corpus has no scenario for it", Input: map[string]interface{}{"entry": k}})
		}
	}
	for k, v := range masked {
		res.Note("not shown by a paired run: %s — %s", k, v)
	}
	return nil
}
