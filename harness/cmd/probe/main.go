// probe: start a gateway on fresh storage and send a few hand-written requests (debugging aid).
// usage: probe -gw <bin> -work <dir> 'METHOD /path?query [body=..] [defect=..] [te] [auth=mode] [h:K=V]' ...
package main

import (
	"flag"
	"fmt"
	"os"
	"strings"

	"verif/harness/gw"
)

func main() {
	bin := flag.String("gw", "/verif/.cache/bin/versitygw", "")
	work := flag.String("work", "/tmp/probe-work", "")
	vers := flag.Bool("versioning", false, "")
	side := flag.Bool("sidecar", false, "")
	extra := flag.String("extra", "", "extra gateway arguments (before the backend sub-command), space separated")
	flag.Parse()
	os.RemoveAll(*work)
	os.MkdirAll(*work, 0o755)
	cfg, err := gw.NewStorage(gw.Config{Bin: *bin, Work: *work, ExtraArgs: strings.Fields(*extra)}, *vers, *side)
	if err != nil {
		panic(err)
	}
	g, err := gw.Start(cfg)
	if err != nil {
		panic(err)
	}
	defer g.Kill()
	cr := gw.Creds{Access: cfg.Access, Secret: cfg.Secret}
	upid := ""
	for _, a := range flag.Args() {
		a = strings.ReplaceAll(a, "{upid}", upid)
		f := strings.Fields(a)
		req := gw.Req{Method: f[0], Auth: "header", Creds: cr}
		req.Path = f[1]
		if i := strings.Index(f[1], "?"); i >= 0 {
			req.Path, req.Query = f[1][:i], f[1][i+1:]
		}
		for _, o := range f[2:] {
			switch {
			case strings.HasPrefix(o, "body="):
				req.Body = []byte(o[5:])
			case strings.HasPrefix(o, "defect="):
				req.Defect = o[7:]
			case o == "te":
				req.TEChunked = true
			case strings.HasPrefix(o, "auth="):
				req.Auth = o[5:]
			case strings.HasPrefix(o, "h:"):
				kv := strings.SplitN(o[2:], "=", 2)
				req.Set(kv[0], kv[1])
			}
		}
		rsp := gw.Do(g.Addr(), req)
		if i := strings.Index(string(rsp.Body), "<UploadId>"); i >= 0 {
			upid = string(rsp.Body)[i+10:]
			upid = upid[:strings.Index(upid, "<")]
		}
		b := string(rsp.Body)
		if len(b) > 300 {
			b = b[:300]
		}
		fmt.Printf("%-60s -> %d %s err=%v\n   %s\n", a, rsp.Status, rsp.ErrCode(), rsp.Err, b)
	}
	l := g.Log.String()
	if len(l) > 1500 {
		l = l[len(l)-1500:]
	}
	fmt.Println("--- gateway log tail ---\n" + l)
}
