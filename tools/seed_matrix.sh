#!/bin/sh
# Runs every kept seeded change (seeded/<id>/patch.diff) against the current checks: fresh scratch worktree of
# /repo HEAD + patch, `VERIF_REPO=<worktree> ./check <PROP> --tier quick` (thorough when quick misses).
# Writes seeded/RESULTS.tsv: id, property, applies, quick result, thorough result, signatures.
cd /verif
out=${OUT:-seeded/RESULTS.tsv}
if [ -n "$ONLY" ] && [ -f $out ]; then for x in $ONLY; do grep -v "^$x	" $out > $out.tmp; mv $out.tmp $out; done; else printf 'seed\tproperty\tapplies\tquick\tthorough\tsignatures\n' > $out; fi
for d in seeded/C*-*/; do
  id=$(basename $d); prop=${id%%-*}
  [ -n "$ONLY" ] && ! echo " $ONLY " | grep -q " $id " && continue
  wt=/tmp/sm-$id
  git -C /repo worktree add --detach $wt HEAD -q || continue
  if ! git -C $wt apply /verif/$d/patch.diff 2>/dev/null && ! git -C $wt apply -3 /verif/$d/patch.diff 2>/dev/null; then
    printf '%s\t%s\tno (the code it changes was repaired since)\t-\t-\t-\n' $id $prop >> $out
    git -C /repo worktree remove --force $wt; continue
  fi
  if git -C $wt grep -q '^<<<<<<< ' 2>/dev/null || ! (cd $wt && GOFLAGS=-mod=mod GOPROXY=off GOSUMDB=off GOTOOLCHAIN=local go build ./... >/dev/null 2>&1); then
    printf '%s\t%s\tno (the code it changes was repaired since)\t-\t-\t-\n' $id $prop >> $out
    git -C /repo worktree remove --force $wt; continue
  fi
  run() {
    o=$(VERIF_REPO=$wt ./check $prop --tier $1 2>/dev/null)
    n=$(echo "$o" | grep -c '^VIOLATION')
    sigs=$(for r in $(echo "$o" | sed -n 's/^VIOLATION.*replay=\([^ ]*\).*/\1/p' | head -5); do python3 -c "
import json
d=json.load(open('$r')); f=d.get('failure') or {}; print(str(f.get('signature') or d.get('broken')))"; done | tr '\n' ';')
    echo "$n|$sigs"
  }
  q=$(run quick); t="-"
  if [ "${q%%|*}" = 0 ] && [ -f $d/also_checks ]; then
    own=$prop
    for prop in $(cat $d/also_checks); do
      q2=$(run quick)
      if [ "${q2%%|*}" != 0 ]; then q="${q2%%|*}|[by ./check $prop] ${q2#*|}"; break; fi
    done
    prop=$own
  fi
  if [ "${q%%|*}" = 0 ] && [ -d $d/demo ]; then
    # does the change still break the property on the current tree? (a later repair may mask it)
    n=${id##*-}; mkdir -p $wt/out/$n && cp -r $d/demo $wt/out/$n/
    if (cd $wt && GOFLAGS=-mod=mod GOPROXY=off GOSUMDB=off GOTOOLCHAIN=local timeout 600 go run ./out/$n/demo >/dev/null 2>&1); then
      printf '%s\t%s\tyes\tnot a violation any more\t-\tthe demonstration passes with the change applied to the current tree: a later repair masks it\n' $id $prop >> $out
      rm -rf $wt/out; A=/verif/.cache/alt-$(printf %s "$wt" | sha1sum | cut -c1-10); git -C /repo worktree remove --force $wt; rm -rf $A; continue
    fi
    rm -rf $wt/out
  fi
  if [ "${q%%|*}" = 0 ]; then t=$(run thorough); fi
  s="${q#*|}"; [ "${q%%|*}" = 0 ] && s="${t#*|}"
  printf '%s\t%s\tyes\t%s\t%s\t%s\n' $id $prop "$([ "${q%%|*}" = 0 ] && echo MISSED || echo caught:${q%%|*})" "$([ "$t" = - ] && echo - || ([ "${t%%|*}" = 0 ] && echo MISSED || echo caught:${t%%|*}))" "$s" >> $out
  A=/verif/.cache/alt-$(printf %s "$wt" | sha1sum | cut -c1-10)
  git -C /repo worktree remove --force $wt; rm -rf $A
done
cat $out
