#!/bin/sh
# usage: tools/try_seed.sh <PROP> <n> [check-prop ...]
# Confirms a seeded change produced in /tmp/seed-<PROP>/out/<n> (builds, suite passes, demo fails with / passes without),
# stores it as /verif/seeded/<PROP>-<n>/ and runs the given checks (default: <PROP>) against a scratch worktree with it.
export GOFLAGS=-mod=mod GOPROXY=off GOSUMDB=off GOTOOLCHAIN=local
P=$1; N=$2; shift 2; CHECKS=${*:-$P}
R=${ROUND:-}; OFF=0; [ -n "$R" ] && OFF=$((3*(R-1))); src=/tmp/seed$R-$P/out/$N; wt=/tmp/try-$P-$N; dst=/verif/seeded/$P-$((N+OFF))
[ -f $src/patch.diff ] || { echo "no patch $src"; exit 2; }
git -C /repo worktree add --detach $wt HEAD -q || exit 2
cp -r /tmp/seed$R-$P/out $wt/out 2>/dev/null   # demos are run from the worktree root as ./out/<n>/demo
log=$wt.log; : > $log
cd $wt
# demo without the change
( timeout 600 go run ./out/$N/demo >>$log 2>&1 ); d0=$?
git apply $src/patch.diff || { echo "patch does not apply"; cd /; git -C /repo worktree remove --force $wt; exit 2; }
( go build ./... >>$log 2>&1 ); b=$?
( timeout 600 go run ./out/$N/demo >>$log 2>&1 ); d1=$?
# suite with the change (out/ removed so that demos are not part of ./...)
rm -rf $wt/out
( env -u AWS_CA_BUNDLE go test -vet=off -count=1 ./... >>$log 2>&1 ); t=$?
echo "confirm: build=$b demo_without=$d0 demo_with=$d1 suite_with=$t"
res=""
cd /verif
for c in $CHECKS; do
  out=$(VERIF_REPO=$wt ./check $c --tier ${TIER:-quick} 2>/dev/null)
  n=$(echo "$out" | grep -c '^VIOLATION')
  sigs=$(for r in $(echo "$out" | sed -n 's/^VIOLATION.*replay=\([^ ]*\).*/\1/p' | head -6); do python3 -c "
import json
d=json.load(open('$r')); f=d.get('failure') or {}; print((f.get('kind') or '')+':'+str(f.get('signature') or d.get('broken')))"; done | tr '\n' ';')
  echo "check $c ${TIER:-quick}: violations=$n $sigs"
  res="$res|$c ${TIER:-quick}: violations=$n $sigs"
done
mkdir -p $dst; cp $src/patch.diff $dst/; cp -r $src/demo $dst/ 2>/dev/null; cp $src/notes.md $dst/ 2>/dev/null
python3 - "$P" "$N" "$b" "$d0" "$d1" "$t" "$res" <<'PY'
import json,sys,os
P,N,b,d0,d1,t,res=sys.argv[1:8]
dst=f'/verif/seeded/{P}-{int(N)+3*(int(os.environ.get("ROUND") or 1)-1)}'; mp=os.path.join(dst,'meta.json')
m=json.load(open(mp)) if os.path.exists(mp) else {}
m.update({"property":P,"source":"fresh sub-agent given only the property text and a scratch worktree",
 "confirmed":{"go build ./...":int(b)==0,"demo passes without the change":int(d0)==0,"demo fails with the change":int(d1)!=0,"existing suite passes with the change (env -u AWS_CA_BUNDLE go test -vet=off -count=1 ./...)":int(t)==0},
 "demonstration":f"from a worktree root with out/{N}/demo copied in: go run ./out/{N}/demo (see notes.md)"})
m.setdefault("runs",[]); m["runs"]+= [r for r in res.split('|') if r]
json.dump(m,open(mp,'w'),indent=1)
PY
cd /; A=/verif/.cache/alt-$(printf %s "$wt" | sha1sum | cut -c1-10); mkdir -p /verif/.cache/last-replays/$(basename $wt); cp -r $A/replays/. /verif/.cache/last-replays/$(basename $wt)/ 2>/dev/null; git -C /repo worktree remove --force $wt; rm -rf $A $log
