#!/bin/sh
# For every "fix:" commit of /repo: revert it in a scratch worktree and run the owning property's quick check there.
# usage: tools/revert_matrix.sh [tier]   -> lines "<commit> <prop> caught|MISSED|conflict <signatures>"
cd /verif
tier=${1:-quick}
python3 - <<'PY' > /tmp/revmap.txt
import json,re
k=json.load(open('/verif/known_findings.json'))
seen=set()
for f in k['fixed']:
    m=re.match(r'fixed: property=(C\d+) ((?:[0-9a-f]{7,}(?:, )?)+) ',f)
    if not m: continue
    for c in re.split(r'[ ,]+',m.group(2).strip()):
        if c and (m.group(1),c) not in seen:
            seen.add((m.group(1),c)); print(m.group(1),c)
PY
while read prop c; do
  [ -n "$ONLYC" ] && ! echo " $ONLYC " | grep -q " $c " && continue
  true
  wt=/tmp/rv-$c
  git -C /repo worktree add --detach $wt HEAD -q 2>/dev/null
  if ! git -C $wt revert --no-commit $c >/dev/null 2>&1; then echo "$c $prop conflict"; git -C /repo worktree remove --force $wt; continue; fi
  out=$(VERIF_REPO=$wt ./check $prop --tier $tier 2>/dev/null)
  n=$(echo "$out" | grep -c '^VIOLATION')
  if [ "$n" -gt 0 ]; then
    sigs=$(for r in $(echo "$out" | sed -n 's/^VIOLATION.*replay=\([^ ]*\).*/\1/p' | head -4); do python3 -c "
import json,sys
d=json.load(open('$r')); f=d.get('failure') or {}; print(f.get('signature') or d.get('broken'))"; done | tr '\n' ';')
    echo "$c $prop caught($n) $sigs"
  else echo "$c $prop MISSED"; fi
  git -C /repo worktree remove --force $wt
  rm -rf /verif/.cache/alt-$(printf %s "$wt" | sha1sum | cut -c1-10)
done < /tmp/revmap.txt
