#!/usr/bin/env python3
"""Writes seeded/README.md from seeded/*/meta.json, notes.md and seeded/RESULTS.tsv."""
import json, os, re, glob
V = os.path.dirname(os.path.dirname(os.path.abspath(__file__)))
rows = {}
p = os.path.join(V, "seeded", "RESULTS.tsv")
if os.path.exists(p):
    for l in open(p).read().splitlines()[1:]:
        f = l.split("\t")
        if len(f) >= 6:
            rows[f[0]] = f
out = ["# Seeded breaking changes", "",
       "Each directory holds one realistic breaking change written by a fresh sub-agent that was given only the text of one",
       "property and a scratch worktree of /repo (nothing from /verif): `patch.diff`, the demonstration (`demo/`, fails with the",
       "change, passes without it), `notes.md` (the author's description) and `meta.json` (what was confirmed, what was run).",
       "The table is the last run of `tools/seed_matrix.sh`: every change applied to a scratch worktree of the current /repo HEAD",
       "and judged by `VERIF_REPO=<worktree> ./check <property>` (quick tier; thorough when quick misses).", "",
       "| seed | change and what it needs to manifest | quick | thorough | reported as |", "|---|---|---|---|---|"]
for d in sorted(glob.glob(os.path.join(V, "seeded", "C*-*"))):
    sid = os.path.basename(d)
    need = ""
    n = os.path.join(d, "notes.md")
    if os.path.exists(n):
        t = open(n).read()
        first = next((l for l in t.splitlines() if l.strip()), "")
        need = re.sub(r"^#+\s*", "", first).strip()[:200]
        m = re.search(r"(?im)^#+\s*(what is needed[^\n]*|trigger[^\n]*)\n+((?:.+\n?){1,6})", t)
        if m:
            need += " — needs: " + re.sub(r"\s+", " ", m.group(2)).strip()[:240]
    r = rows.get(sid)
    if r:
        q, th, sig = r[3], r[4], r[5]
        if r[2] != "yes":
            q = th = "n/a"
            sig = "does not apply to the current tree (the code it changes was repaired since)"
            mp = os.path.join(d, "meta.json")
            if os.path.exists(mp):
                runs = json.load(open(mp)).get("runs", [])
                hit = [x for x in runs if "violations=0" not in x]
                if hit:
                    sig += "; when it was written: " + hit[-1][:200]
    else:
        q = th = sig = "not run yet"
    sig = "; ".join([x for x in sig.split(";") if x][:3])
    out.append(f"| {sid} | {need.replace('|', '/')} | {q} | {th} | {sig.replace('|', '/')} |")
open(os.path.join(V, "seeded", "README.md"), "w").write("\n".join(out) + "\n")
print(len(out) - 10, "rows")
