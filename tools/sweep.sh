#!/bin/sh
# usage: tools/sweep.sh "<ids>" "<seeds>" [tier]   — runs ./check for every id × seed, prints non-OK lines
cd "$(dirname "$0")/.."
IDS=${1:-"C01 C02 C03 C06 C08 C09 C10 C13 C14 C15 C16 C19"}
SEEDS=${2:-"1 2 3 4 5 6"}
TIER=${3:-quick}
[ -x .cache/bin/versitygw ] || ./setup.sh >/dev/null 2>&1
for id in $IDS; do
  for s in $SEEDS; do
    out=$(VERIF_SEED=$s ./check $id --tier $TIER 2>/dev/null | grep -v "^KNOWN-FINDING")
    case "$out" in
      OK*) echo "ok   $id seed=$s $(echo "$out" | sed 's/.*evaluations/evaluations/')" ;;
      *) echo "FAIL $id seed=$s"; echo "$out" | head -5; for f in $(echo "$out" | sed -n 's/.*replay=\([^ ]*\).*/\1/p' | head -2); do python3 -c "
import json,sys; d=json.load(open('$f')); f=d.get('failure',d); print('   ',json.dumps(f)[:1500])"; done ;;
    esac
  done
done
