#!/bin/sh
# usage: alt_run.sh <PROP-n> <check> [tier]  : apply seeded patch from /verif/seeded/<PROP-n> to a fresh worktree, run check, show violations
S=$1; C=$2; T=${3:-quick}
wt=/tmp/alt-$S
git -C /repo worktree add --detach $wt HEAD -q || exit 2
git -C $wt apply /verif/seeded/$S/patch.diff || { echo "patch does not apply on current HEAD"; git -C /repo worktree remove --force $wt; exit 2; }
cd /verif
out=$(VERIF_REPO=$wt ./check $C --tier $T 2>&1)
echo "$out" | grep -v "^KNOWN" | tail -3
for r in $(echo "$out" | sed -n 's/^VIOLATION.*replay=\([^ ]*\).*/\1/p' | head -8); do python3 -c "
import json
d=json.load(open('$r')); f=d.get('failure') or {}
print('  ', (f.get('kind') or '')+':'+str(f.get('signature') or d.get('broken')), (d.get('detail') or '')[-600:])"; done
A=/verif/.cache/alt-$(printf %s "$wt" | sha1sum | cut -c1-10); mkdir -p /verif/.cache/last-replays/$(basename $wt); cp -r $A/replays/. /verif/.cache/last-replays/$(basename $wt)/ 2>/dev/null; git -C /repo worktree remove --force $wt; rm -rf $A
