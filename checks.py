# Per-property configuration of ./check (what to prove, what to run, what is trusted).

COMMON_TRUSTED = [
    "Lean 4.33.0 kernel (thorough tier: re-checked by leanchecker); axioms allowed: propext, Classical.choice, Quot.sound — audited by `#print axioms` on every theorem, every run",
    "no sorry/admit/axiom/native_decide/bv_decide/implemented_by/unsafe in any imported Vgw module (grep, every run)",
    "the correspondence harness (/verif/harness), the Lean driver's parsing of the line protocol and the canonicalisation of observations",
    "Vgw/Go shim of the Go stdlib fragments used (strings.Split, strconv.ParseInt, …): differential-tested against Go through the models that use them",
]

CHECKS = {
    "C13": {
        "lean_props": ["Vgw.Props.C13"],
        "harness": "c13",
        "needs_gateway": True,
        "trusted": [
            "Model.Range is hand-written; tied to backend.ParseGetObjectRange by in-process differential runs and to GET end-to-end (status, body bytes, Content-Length, Content-Range) on a real gateway process",
        ],
        "modelled": ["backend/common.go:ParseGetObjectRange", "backend/posix/posix.go:GetObject (range → contentRange/section reader/ContentLength)",
                     "s3api/controllers/base.go:GetActions (status choice)"],
        "not_modelled": ["fasthttp header parsing (headers that are not valid HTTP header values are out of scope)", "directory objects (size forced to 0 after parsing)"],
        "assumptions": ["object size fits int64 (0 ≤ size ≤ 2^63-1)",
                        "grey zones admitted by Spec.Range: `+`-signed numbers, numbers > 2^63-1, reversed range whose first position is beyond the end, first position beyond the end followed by a malformed tail"],
        "timeout_quick": 600, "timeout_thorough": 3000,
    },
    "C15": {
        "lean_props": ["Vgw.Props.C15"],
        "harness": "c15",
        "trusted": ["Model.Gw (gateway model: state, access decisions, step) is hand-written; tied to the code by differential runs of generated request programs against real gateway processes built from /repo (every answer canonicalised and compared; server-chosen version/upload ids are passed to the model as inputs)", "a byte-exact snapshot of the storage directories (data, modes, xattrs) is the model-independent oracle for 'nothing changed'"],
        "modelled": ["s3api/server.go middleware order (authentication → ACL parser → handler)", "s3api/middlewares/acl-parser.go", "auth/acl.go VerifyAccess/verifyACL/VerifyObjectCopyAccess/IsAdminOrOwner/MayCreateBucket", "auth/bucket_policy*.go evaluation (isAllowed, FindMatch, Contains)", "s3api/controllers/base.go branches of the modelled operations", "backend/posix/posix.go methods of the modelled operations, abstracted to buckets → keys → version stacks"],
        "not_modelled": ["SigV4 canonicalisation and HMAC (the outcome of verification is the Caller of a request)", "encoding/xml, encoding/json decoding", "fasthttp/fiber routing and header parsing", "Azure, ScoutFS and s3proxy backends", "metrics, audit logs"] + ["multipart, object-lock and admin operations are not yet in the model vocabulary of this check"],
        "assumptions": ["admin API (account management) is not an S3 API request and is outside C15"],
        "timeout_quick": 900, "timeout_thorough": 3400,
    },
    "C03": {
        "lean_props": ["Vgw.Props.C03"],
        "harness": "c03",
        "trusted": ["Model.Gw (gateway model: state, access decisions, step) is hand-written; tied to the code by differential runs of generated request programs against real gateway processes built from /repo (every answer canonicalised and compared; server-chosen version/upload ids are passed to the model as inputs)", "Props.C03.required is the specification table (operation → S3 action on the exact resource)"],
        "modelled": ["s3api/server.go middleware order (authentication → ACL parser → handler)", "s3api/middlewares/acl-parser.go", "auth/acl.go VerifyAccess/verifyACL/VerifyObjectCopyAccess/IsAdminOrOwner/MayCreateBucket", "auth/bucket_policy*.go evaluation (isAllowed, FindMatch, Contains)", "s3api/controllers/base.go branches of the modelled operations", "backend/posix/posix.go methods of the modelled operations, abstracted to buckets → keys → version stacks"],
        "not_modelled": ["SigV4 canonicalisation and HMAC (the outcome of verification is the Caller of a request)", "encoding/xml, encoding/json decoding", "fasthttp/fiber routing and header parsing", "Azure, ScoutFS and s3proxy backends", "metrics, audit logs"] + ["object ACLs (not implemented by the gateway)", "versions as targets, multipart operations: not yet in this check's vocabulary"],
        "assumptions": ["root and admin-role accounts are exempt from policy/ACL by design (the property is about non-admin accounts)"],
        "timeout_quick": 900, "timeout_thorough": 3400,
    },
    "C02": {
        "lean_props": ["Vgw.Props.C02"],
        "harness": "c02",
        "trusted": ["Model.Gw (gateway model: state, access decisions, step) is hand-written; tied to the code by differential runs of generated request programs against real gateway processes built from /repo (every answer canonicalised and compared; server-chosen version/upload ids are passed to the model as inputs)", "byte-exact snapshot of storage, versioning and IAM directories as the oracle for 'changes nothing'; canary object content as the oracle for 'returns no stored data'",
                    "the harness's own SigV4 signer (harness/gw/client.go) produces the valid requests the defects are injected into"],
        "modelled": ["s3api/server.go middleware order (authentication → ACL parser → handler)", "s3api/middlewares/acl-parser.go", "auth/acl.go VerifyAccess/verifyACL/VerifyObjectCopyAccess/IsAdminOrOwner/MayCreateBucket", "auth/bucket_policy*.go evaluation (isAllowed, FindMatch, Contains)", "s3api/controllers/base.go branches of the modelled operations", "backend/posix/posix.go methods of the modelled operations, abstracted to buckets → keys → version stacks"],
        "not_modelled": ["SigV4 canonicalisation and HMAC (the outcome of verification is the Caller of a request)", "encoding/xml, encoding/json decoding", "fasthttp/fiber routing and header parsing", "Azure, ScoutFS and s3proxy backends", "metrics, audit logs"] + ["the theorem is about the model's Caller abstraction; the middleware chain itself is covered by the exhaustive shape probe only"],
        "assumptions": ["a credential defect = the property's list: missing/malformed authorization, unknown key, wrong secret, altered signature / signed header / query / path / declared payload, date ±1h, wrong region, expired or modified presigned URL",
                        "an extra header that was never signed, and a body mutated under UNSIGNED-PAYLOAD / streaming modes on requests whose handler ignores the body, are not counted as defects (the signature does not cover them)"],
        "timeout_quick": 900, "timeout_thorough": 3400,
    },
    "C01": {
        "lean_props": ["Vgw.Props.C01"],
        "harness": "c01",
        "trusted": ["Model.Gw (gateway model: state, access decisions, step) is hand-written; tied to the code by differential runs of generated request programs against real gateway processes built from /repo (every answer canonicalised and compared; server-chosen version/upload ids are passed to the model as inputs)", "ETag = MD5 is an environment input of the model: the harness computes MD5 over the body it sent and hands it to the model; the implementation's ETag is compared with it"],
        "modelled": ["s3api/server.go middleware order (authentication → ACL parser → handler)", "s3api/middlewares/acl-parser.go", "auth/acl.go VerifyAccess/verifyACL/VerifyObjectCopyAccess/IsAdminOrOwner/MayCreateBucket", "auth/bucket_policy*.go evaluation (isAllowed, FindMatch, Contains)", "s3api/controllers/base.go branches of the modelled operations", "backend/posix/posix.go methods of the modelled operations, abstracted to buckets → keys → version stacks"],
        "not_modelled": ["SigV4 canonicalisation and HMAC (the outcome of verification is the Caller of a request)", "encoding/xml, encoding/json decoding", "fasthttp/fiber routing and header parsing", "Azure, ScoutFS and s3proxy backends", "metrics, audit logs"] + ["multipart completion (C08) and listings (C07) are separate checks", "bodies above 70 kB are not exercised by the correspondence"],
        "assumptions": ["keys are valid UTF-8 without empty, `.` or `..` segments and with segments ≤ 255 bytes"],
        "timeout_quick": 900, "timeout_thorough": 3400,
    },
}
