# Per-property configuration of ./check (what to prove, what to run, what is trusted).

COMMON_TRUSTED = [
    "Lean 4.33.0 kernel (thorough tier: re-checked by leanchecker); axioms allowed: propext, Classical.choice, Quot.sound — audited by `#print axioms` on every theorem, every run",
    "no sorry/admit/axiom/native_decide/bv_decide/implemented_by/unsafe in any imported Vgw module (grep, every run)",
    "the correspondence harness (/verif/harness), the Lean driver's parsing of the line protocol and the canonicalisation of observations",
    "Vgw/Go shim of the Go stdlib fragments used (strings.Split, strconv.ParseInt, …): differential-tested against Go through the models that use them",
]

CHECKS = {
    "C13": {
        "lean_props": ["Vgw.Props.C13"],
        "harness": "c13",
        "needs_gateway": True,
        "trusted": [
            "Model.Range is hand-written; tied to backend.ParseGetObjectRange by in-process differential runs and to GET end-to-end (status, body bytes, Content-Length, Content-Range) on a real gateway process",
        ],
        "modelled": ["backend/common.go:ParseGetObjectRange", "backend/posix/posix.go:GetObject (range → contentRange/section reader/ContentLength)",
                     "s3api/controllers/base.go:GetActions (status choice)"],
        "not_modelled": ["fasthttp header parsing (headers that are not valid HTTP header values are out of scope)", "directory objects (size forced to 0 after parsing)"],
        "assumptions": ["object size fits int64 (0 ≤ size ≤ 2^63-1)",
                        "grey zones admitted by Spec.Range: `+`-signed numbers, numbers > 2^63-1, reversed range whose first position is beyond the end, first position beyond the end followed by a malformed tail"],
        "timeout_quick": 600, "timeout_thorough": 3000,
    },
}
