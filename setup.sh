#!/bin/sh
# Offline build of the framework: Lean library + driver, harness and gateway binaries.
set -e
cd "$(dirname "$0")"
export GOFLAGS=-mod=mod GOPROXY=off GOSUMDB=off GOTOOLCHAIN=local
MODS=$(python3 -c "import checks; print(' '.join(sorted({m for c in checks.CHECKS.values() for m in c['lean_props']})))")
(cd lean && lake build Vgw $MODS vgwdriver)
mkdir -p .cache/bin
cp /repo/go.sum harness/go.sum
(cd harness && go build -tags verif -o ../.cache/bin/vharness ./cmd/vharness)
(cd /repo && go build -tags verif -o /verif/.cache/bin/versitygw ./cmd/versitygw)
echo setup done
