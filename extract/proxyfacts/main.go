// proxyfacts: regenerates lean/Vgw/Gen/ProxyFacts.lean from the source of the S3-proxy backend.
//
// It parses (go/parser, syntax only — no type checking, works offline)
//
//	<repo>/backend/s3proxy/s3.go          every method of *S3Proxy
//	<repo>/backend/backend.go             the Backend interface (which methods are NOT implemented)
//	<repo>/s3response/*.go                the gateway's request/result struct types
//	<repo>/s3api/controllers/base.go      which request fields the front end sets per backend call
//	<sdk>/api_op_*.go                     the field lists of the SDK input/output structs
//
// and emits, per proxied method: how the SDK input is built (the request struct handed over
// unchanged, or a struct literal: SDK field <- request fields), which request fields are cleared
// or normalised before the call, which SDK output fields are copied into the result, which output
// pointers are dereferenced without a nil test, whether the output is used before the error is
// tested, and how errors leave the method. A source shape it does not understand is a hard error
// (exit 2): the proof obligations of C18 must not silently talk about a stale table.
package main

import (
	"flag"
	"fmt"
	"go/ast"
	"go/parser"
	"go/token"
	"os"
	"os/exec"
	"path/filepath"
	"sort"
	"strconv"
	"strings"
)

var fset = token.NewFileSet()

func fatal(format string, a ...interface{}) {
	fmt.Fprintf(os.Stderr, "proxyfacts: "+format+"\n", a...)
	os.Exit(2)
}

func parseFile(path string) *ast.File {
	f, err := parser.ParseFile(fset, path, nil, parser.SkipObjectResolution)
	if err != nil {
		fatal("parse %s: %v", path, err)
	}
	return f
}

// ---------------------------------------------------------------- struct universes

// structFields: exported field names of every struct type declared in the file.
func structFields(f *ast.File, into map[string][]string) {
	for _, d := range f.Decls {
		gd, ok := d.(*ast.GenDecl)
		if !ok || gd.Tok != token.TYPE {
			continue
		}
		for _, sp := range gd.Specs {
			ts := sp.(*ast.TypeSpec)
			st, ok := ts.Type.(*ast.StructType)
			if !ok {
				continue
			}
			var names []string
			for _, fl := range st.Fields.List {
				for _, n := range fl.Names {
					if n.IsExported() && n.Name != "ResultMetadata" && n.Name != "XMLName" {
						names = append(names, n.Name)
					}
				}
			}
			into[ts.Name.Name] = names
		}
	}
}

// ---------------------------------------------------------------- facts

type inField struct {
	sdk    string
	srcs   []string
	direct bool
}

type call struct {
	op          string
	passthrough bool
	fields      []inField
}

type outField struct {
	res    string
	srcs   []string
	direct bool
}

type method struct {
	name              string
	reqKind           string
	reqType           string
	reqFields         []string
	calls             []call
	cleared           []string
	normStr           []string
	normTime          []string
	normInt           []string
	normOther         []string
	condWrites        []string // request fields assigned under a condition on OTHER request fields
	outPassthrough    bool
	outFields         []outField
	derefUnguarded    []string
	useBeforeErrCheck bool
	errWrapped        bool
	errOther          []string
	fixedError        string   // the method only returns a constant error (s3err.ErrX)
	swallows          []string // SDK error codes (substrings) answered with success
	usesAclKey        bool
	line              int
}

type analyser struct {
	fn        *ast.FuncDecl
	m         *method
	reqStruct string            // name of the struct request parameter ("" when none)
	scalars   map[string]bool   // names of scalar request parameters
	outVars   map[string]string // ident -> "" (root of an SDK output)
	alias     map[string]string // range variable -> out path prefix ("Buckets[]") or "req:<x>"
	deps      map[string]map[string]bool
	helpers   map[string]*ast.FuncDecl
	// local slice -> literal of the element appended to it
	elemLits map[string]*ast.CompositeLit
	// local -> helper function that produced it from an SDK output path
	helperOf map[string]struct {
		fn  *ast.FuncDecl
		arg ast.Expr
	}
	directLocal map[string]bool
	directSeen  map[string]bool
	insideErrIf map[*ast.ReturnStmt]bool
}

func exprString(e ast.Expr) string {
	switch x := e.(type) {
	case *ast.Ident:
		return x.Name
	case *ast.SelectorExpr:
		return exprString(x.X) + "." + x.Sel.Name
	case *ast.StarExpr:
		return "*" + exprString(x.X)
	case *ast.UnaryExpr:
		return x.Op.String() + exprString(x.X)
	case *ast.IndexExpr:
		return exprString(x.X) + "[]"
	case *ast.BasicLit:
		return x.Value
	case *ast.CallExpr:
		return exprString(x.Fun) + "(…)"
	case *ast.ParenExpr:
		return exprString(x.X)
	case *ast.BinaryExpr:
		return exprString(x.X) + " " + x.Op.String() + " " + exprString(x.Y)
	case *ast.CompositeLit:
		return exprString(x.Type) + "{…}"
	case *ast.ArrayType:
		return "[]" + exprString(x.Elt)
	}
	return fmt.Sprintf("%T", e)
}

// selPath: for a selector chain rooted at an identifier returns (root, "A.B.C").
func selPath(e ast.Expr) (root string, path string, ok bool) {
	switch x := e.(type) {
	case *ast.Ident:
		return x.Name, "", true
	case *ast.SelectorExpr:
		r, p, ok := selPath(x.X)
		if !ok {
			return "", "", false
		}
		if p == "" {
			return r, x.Sel.Name, true
		}
		return r, p + "." + x.Sel.Name, true
	case *ast.IndexExpr:
		r, p, ok := selPath(x.X)
		if !ok {
			return "", "", false
		}
		return r, p + "[]", true
	case *ast.ParenExpr:
		return selPath(x.X)
	case *ast.StarExpr:
		return selPath(x.X)
	}
	return "", "", false
}

// ref resolves a selector chain to a request / output reference, or "".
func (a *analyser) ref(e ast.Expr) []string {
	root, path, ok := selPath(e)
	if !ok {
		return nil
	}
	join := func(pre, p string) string {
		if p == "" {
			return pre
		}
		if pre == "" {
			return p
		}
		return pre + "." + p
	}
	switch {
	case root == a.reqStruct && a.reqStruct != "":
		if path == "" {
			return []string{"req:*"}
		}
		return []string{"req:" + path}
	case a.scalars[root]:
		return []string{"req:" + root}
	}
	if _, ok := a.outVars[root]; ok {
		if path == "" {
			return []string{"out:*"}
		}
		return []string{"out:" + path}
	}
	if pre, ok := a.alias[root]; ok {
		if strings.HasPrefix(pre, "req:") {
			return []string{pre}
		}
		return []string{"out:" + join(pre, path)}
	}
	if d, ok := a.deps[root]; ok {
		var out []string
		for k := range d {
			out = append(out, k)
		}
		sort.Strings(out)
		return out
	}
	return nil
}

// refs collects every reference inside an expression.
func (a *analyser) refs(e ast.Expr) []string {
	set := map[string]bool{}
	var walk func(n ast.Node) bool
	walk = func(n ast.Node) bool {
		switch x := n.(type) {
		case *ast.SelectorExpr, *ast.Ident:
			if r := a.ref(x.(ast.Expr)); r != nil {
				for _, s := range r {
					set[s] = true
				}
				return false
			}
			if _, ok := x.(*ast.SelectorExpr); ok {
				// package-qualified name or unknown root: look inside
				return true
			}
		case *ast.KeyValueExpr:
			ast.Inspect(x.Value, walk)
			return false
		case *ast.FuncLit:
			return false
		}
		return true
	}
	ast.Inspect(e, walk)
	var out []string
	for k := range set {
		out = append(out, k)
	}
	sort.Strings(out)
	return out
}

// isDirect: the expression is one reference, possibly wrapped in &, *, a conversion or a
// pointer helper — no computation that could lose information.
func (a *analyser) isDirect(e ast.Expr) bool {
	for {
		switch x := e.(type) {
		case *ast.ParenExpr:
			e = x.X
			continue
		case *ast.UnaryExpr:
			if x.Op == token.AND {
				e = x.X
				continue
			}
			return false
		case *ast.StarExpr:
			e = x.X
			continue
		case *ast.CallExpr:
			fn := exprString(x.Fun)
			if len(x.Args) == 1 && (fn == "backend.GetPtrFromString" || fn == "backend.GetStringFromPtr" || fn == "string" || fn == "int" || fn == "[]byte" || fn == "int32" || fn == "int64" ||
				fn == "aws.ToString" || fn == "aws.ToBool" || fn == "aws.ToInt32" || fn == "aws.ToInt64" || fn == "aws.ToTime" || fn == "aws.String" || fn == "aws.Bool" || fn == "aws.Int32" || fn == "aws.Int64" || fn == "aws.Time") {
				e = x.Args[0]
				continue
			}
			return false
		case *ast.Ident, *ast.SelectorExpr:
			r := a.ref(e)
			if len(r) != 1 {
				return false
			}
			// a local variable is direct only if it was itself computed directly; locals are
			// recorded with their dependency set only, so be conservative
			root, _, _ := selPath(e)
			if _, isLocal := a.deps[root]; isLocal && root != a.reqStruct && !a.scalars[root] {
				if _, isOut := a.outVars[root]; !isOut {
					if _, isAlias := a.alias[root]; !isAlias {
						return a.directLocal[root]
					}
				}
			}
			return true
		default:
			return false
		}
	}
}

func (a *analyser) addDeps(local string, r []string) {
	if a.deps[local] == nil {
		a.deps[local] = map[string]bool{}
	}
	for _, s := range r {
		a.deps[local][s] = true
	}
}

// flattenLit: fields of a (possibly nested) composite literal as path -> value expression.
func flattenLit(cl *ast.CompositeLit, prefix string, out *[]struct {
	path string
	val  ast.Expr
}) {
	for _, el := range cl.Elts {
		kv, ok := el.(*ast.KeyValueExpr)
		if !ok {
			// positional element of a slice literal
			if inner, ok := unwrapLit(el); ok {
				flattenLit(inner, prefix+"[]", out)
			} else {
				*out = append(*out, struct {
					path string
					val  ast.Expr
				}{prefix + "[]", el})
			}
			continue
		}
		key := exprString(kv.Key)
		p := key
		if prefix != "" {
			p = prefix + "." + key
		}
		if inner, ok := unwrapLit(kv.Value); ok && len(inner.Elts) > 0 {
			flattenLit(inner, p, out)
			continue
		}
		*out = append(*out, struct {
			path string
			val  ast.Expr
		}{p, kv.Value})
	}
}

func unwrapLit(e ast.Expr) (*ast.CompositeLit, bool) {
	switch x := e.(type) {
	case *ast.CompositeLit:
		return x, true
	case *ast.UnaryExpr:
		if x.Op == token.AND {
			return unwrapLit(x.X)
		}
	}
	return nil, false
}

func isClientCall(e ast.Expr) (*ast.CallExpr, string, bool) {
	c, ok := e.(*ast.CallExpr)
	if !ok {
		return nil, "", false
	}
	sel, ok := c.Fun.(*ast.SelectorExpr)
	if !ok {
		return nil, "", false
	}
	if exprString(sel.X) != "s.client" {
		return nil, "", false
	}
	return c, sel.Sel.Name, true
}

type guardStack []string

func (g guardStack) has(p string) bool {
	for _, x := range g {
		if x == p {
			return true
		}
	}
	return false
}

// nilGuards: paths X for which the condition contains `X != nil`.
func (a *analyser) nilGuards(cond ast.Expr) []string {
	var out []string
	ast.Inspect(cond, func(n ast.Node) bool {
		be, ok := n.(*ast.BinaryExpr)
		if !ok || be.Op != token.NEQ {
			return true
		}
		if id, ok := be.Y.(*ast.Ident); ok && id.Name == "nil" {
			if r := a.ref(be.X); len(r) == 1 {
				out = append(out, r[0])
			}
		}
		return true
	})
	return out
}

func (a *analyser) analyse() {
	m := a.m
	fn := a.fn
	// ---- parameters
	for i, p := range fn.Type.Params.List {
		if i == 0 {
			continue // ctx
		}
		ts := exprString(p.Type)
		for _, n := range p.Names {
			base := strings.TrimPrefix(ts, "*")
			if strings.HasPrefix(base, "s3.") || strings.HasPrefix(base, "s3response.") {
				if a.reqStruct != "" {
					fatal("%s: two struct parameters", m.name)
				}
				a.reqStruct = n.Name
				m.reqKind, m.reqType = "struct", base
			} else {
				a.scalars[n.Name] = true
				m.reqFields = append(m.reqFields, n.Name)
			}
		}
	}
	if a.reqStruct == "" {
		m.reqKind = "args"
	}

	// ---- pass 1: locals, aliases, output variables (fixpoint over assignments)
	for iter := 0; iter < 4; iter++ {
		ast.Inspect(fn.Body, func(n ast.Node) bool {
			switch x := n.(type) {
			case *ast.AssignStmt:
				if len(x.Rhs) == 1 {
					if _, _, ok := isClientCall(x.Rhs[0]); ok {
						if id, ok := x.Lhs[0].(*ast.Ident); ok && id.Name != "_" {
							a.outVars[id.Name] = ""
						}
						return true
					}
				}
				for i, l := range x.Lhs {
					id, ok := l.(*ast.Ident)
					if !ok || id.Name == "_" || id.Name == "err" {
						continue
					}
					if id.Name == a.reqStruct || a.scalars[id.Name] {
						continue
					}
					if _, isOut := a.outVars[id.Name]; isOut {
						continue
					}
					var rhs ast.Expr
					if len(x.Rhs) == len(x.Lhs) {
						rhs = x.Rhs[i]
					} else if len(x.Rhs) == 1 {
						rhs = x.Rhs[0]
					}
					if rhs == nil {
						continue
					}
					// x := out.Field (struct-valued) : alias
					if r := a.ref(rhs); len(r) == 1 && strings.HasPrefix(r[0], "out:") && isPlainSel(rhs) {
						if _, seen := a.alias[id.Name]; !seen {
							a.alias[id.Name] = strings.TrimPrefix(r[0], "out:")
						}
						continue
					}
					// buckets = append(buckets, X)
					if c, ok := rhs.(*ast.CallExpr); ok && exprString(c.Fun) == "append" && len(c.Args) >= 2 {
						for _, arg := range c.Args[1:] {
							a.addDeps(id.Name, a.refs(arg))
							if lit, ok := unwrapLit(arg); ok {
								a.elemLits[id.Name] = lit
							}
						}
						continue
					}
					// helper call converting a slice element-wise
					if c, ok := rhs.(*ast.CallExpr); ok {
						if h, ok := a.helpers[exprString(c.Fun)]; ok && len(c.Args) == 1 {
							a.addDeps(id.Name, a.refs(c.Args[0]))
							a.helperOf[id.Name] = struct {
								fn  *ast.FuncDecl
								arg ast.Expr
							}{h, c.Args[0]}
							continue
						}
					}
					a.addDeps(id.Name, a.refs(rhs))
					if a.isDirect(rhs) {
						if _, seen := a.directSeen[id.Name]; !seen {
							a.directLocal[id.Name] = true
						}
					} else {
						a.directLocal[id.Name] = false
					}
					a.directSeen[id.Name] = true
				}
			case *ast.DeclStmt:
				if gd, ok := x.Decl.(*ast.GenDecl); ok {
					for _, sp := range gd.Specs {
						if vs, ok := sp.(*ast.ValueSpec); ok {
							for i, n := range vs.Names {
								if a.deps[n.Name] == nil {
									a.deps[n.Name] = map[string]bool{}
								}
								if i < len(vs.Values) {
									a.addDeps(n.Name, a.refs(vs.Values[i]))
								}
							}
						}
					}
				}
			case *ast.RangeStmt:
				r := a.ref(x.X)
				for _, v := range []ast.Expr{x.Key, x.Value} {
					id, ok := v.(*ast.Ident)
					if !ok || id.Name == "_" {
						continue
					}
					if len(r) == 1 && strings.HasPrefix(r[0], "out:") {
						if v == x.Value {
							a.alias[id.Name] = strings.TrimPrefix(r[0], "out:") + "[]"
						}
					} else if len(r) >= 1 {
						a.alias[id.Name] = r[0]
					}
				}
			}
			return true
		})
	}

	// ---- pass 2: top-level statements — clears, normalisations, order of use vs. error test
	primaryIdx := -1
	errChecked := false
	for idx, st := range fn.Body.List {
		switch x := st.(type) {
		case *ast.IfStmt:
			a.classifyIf(x)
		case *ast.AssignStmt:
			for _, l := range x.Lhs {
				if r := a.ref(l); len(r) == 1 && strings.HasPrefix(r[0], "req:") && r[0] != "req:*" {
					if _, isSel := l.(*ast.SelectorExpr); isSel {
						m.cleared = append(m.cleared, strings.TrimPrefix(r[0], "req:"))
					}
				}
			}
		}
		hasCall := false
		ast.Inspect(st, func(n ast.Node) bool {
			if e, ok := n.(ast.Expr); ok {
				if _, _, ok := isClientCall(e); ok {
					hasCall = true
				}
			}
			return true
		})
		if hasCall && primaryIdx < 0 {
			primaryIdx = idx
			if _, isRet := st.(*ast.ReturnStmt); isRet {
				errChecked = true
			}
			continue
		}
		if primaryIdx >= 0 && !errChecked {
			if ifs, ok := st.(*ast.IfStmt); ok && isErrNeNil(ifs.Cond) {
				errChecked = true
				continue
			}
			// any use of an output variable before the error was tested
			if a.usesOut(st) {
				if rs, ok := st.(*ast.ReturnStmt); ok && len(rs.Results) == 2 {
					if id, ok := rs.Results[0].(*ast.Ident); ok {
						if _, isOut := a.outVars[id.Name]; isOut {
							continue // `return out, handleError(err)`: handing the pointer on is not a use
						}
					}
				}
				m.useBeforeErrCheck = true
			}
		}
	}

	// ---- pass 3: SDK calls
	ast.Inspect(fn.Body, func(n ast.Node) bool {
		e, ok := n.(ast.Expr)
		if !ok {
			return true
		}
		c, op, ok := isClientCall(e)
		if !ok {
			return true
		}
		cl := call{op: op}
		if len(c.Args) < 2 {
			fatal("%s: client call %s with %d arguments", m.name, op, len(c.Args))
		}
		arg := c.Args[1]
		if id, ok := arg.(*ast.Ident); ok && id.Name == a.reqStruct {
			cl.passthrough = true
		} else if lit, ok := unwrapLit(arg); ok {
			var flat []struct {
				path string
				val  ast.Expr
			}
			flattenLit(lit, "", &flat)
			for _, f := range flat {
				cl.fields = append(cl.fields, inField{sdk: f.path, srcs: a.refs(f.val), direct: a.isDirect(f.val)})
			}
		} else {
			fatal("%s: client call %s: argument shape not understood: %s", m.name, op, exprString(arg))
		}
		m.calls = append(m.calls, cl)
		return true
	})

	// ---- pass 4: returns, error paths, unguarded dereferences
	nres := len(fn.Type.Results.List)
	m.errWrapped = true
	var guards guardStack
	var visit func(n ast.Node)
	visitStmts := func(l []ast.Stmt) {
		for _, s := range l {
			visit(s)
		}
	}
	visit = func(n ast.Node) {
		switch x := n.(type) {
		case nil:
			return
		case *ast.BlockStmt:
			visitStmts(x.List)
		case *ast.IfStmt:
			if x.Init != nil {
				visit(x.Init)
			}
			a.derefs(x.Cond, guards, true)
			g := a.nilGuards(x.Cond)
			guards = append(guards, g...)
			visit(x.Body)
			guards = guards[:len(guards)-len(g)]
			if x.Else != nil {
				visit(x.Else)
			}
		case *ast.ForStmt:
			visit(x.Body)
		case *ast.RangeStmt:
			visit(x.Body)
		case *ast.ReturnStmt:
			for _, r := range x.Results {
				a.derefs(r, guards, false)
			}
			a.classifyReturn(x, nres)
		case *ast.AssignStmt:
			for _, r := range x.Rhs {
				a.derefs(r, guards, false)
			}
			for _, l := range x.Lhs {
				a.derefs(l, guards, false)
			}
		case *ast.DeclStmt, *ast.ExprStmt:
			ast.Inspect(x, func(k ast.Node) bool {
				if e, ok := k.(ast.Expr); ok {
					a.derefs(e, guards, false)
					return false
				}
				return true
			})
		}
	}
	visit(fn.Body)
	ast.Inspect(fn.Body, func(n ast.Node) bool {
		switch x := n.(type) {
		case *ast.Ident:
			if x.Name == "aclKey" {
				m.usesAclKey = true
			}
		case *ast.CallExpr:
			if exprString(x.Fun) == "strings.Contains" && len(x.Args) == 2 && strings.HasPrefix(exprString(x.Args[0]), "ae.ErrorCode") {
				if lit, err := strconv.Unquote(exprString(x.Args[1])); err == nil {
					m.swallows = append(m.swallows, lit)
				}
			}
		}
		return true
	})
	sort.Strings(m.derefUnguarded)
	m.derefUnguarded = uniq(m.derefUnguarded)
}

func isPlainSel(e ast.Expr) bool {
	switch x := e.(type) {
	case *ast.SelectorExpr:
		return isPlainSel(x.X)
	case *ast.Ident:
		return true
	}
	return false
}

func isErrNeNil(e ast.Expr) bool {
	be, ok := e.(*ast.BinaryExpr)
	if !ok {
		return false
	}
	return be.Op == token.NEQ && exprString(be.X) == "err" && exprString(be.Y) == "nil"
}

func (a *analyser) usesOut(n ast.Node) bool {
	used := false
	ast.Inspect(n, func(k ast.Node) bool {
		if id, ok := k.(*ast.Ident); ok {
			if _, isOut := a.outVars[id.Name]; isOut {
				used = true
			}
		}
		return true
	})
	return used
}

func uniq(s []string) []string {
	var out []string
	for i, x := range s {
		if i == 0 || x != s[i-1] {
			out = append(out, x)
		}
	}
	return out
}

// derefs records `*X` where X is an SDK output path with no enclosing `X != nil` test. Inside a
// condition `X != nil && *X == …` the right operand is guarded by the left one.
func (a *analyser) derefs(e ast.Expr, guards guardStack, inCond bool) {
	var walk func(n ast.Node, g guardStack)
	walk = func(n ast.Node, g guardStack) {
		switch x := n.(type) {
		case nil:
			return
		case *ast.BinaryExpr:
			if x.Op == token.LAND {
				walk(x.X, g)
				walk(x.Y, append(append(guardStack{}, g...), a.nilGuards(x.X)...))
				return
			}
			walk(x.X, g)
			walk(x.Y, g)
		case *ast.StarExpr:
			if r := a.ref(x.X); len(r) == 1 && strings.HasPrefix(r[0], "out:") {
				if !g.has(r[0]) {
					a.m.derefUnguarded = append(a.m.derefUnguarded, strings.TrimPrefix(r[0], "out:"))
				}
				return
			}
			walk(x.X, g)
		case *ast.CallExpr:
			for _, arg := range x.Args {
				walk(arg, g)
			}
		case *ast.CompositeLit:
			for _, el := range x.Elts {
				if kv, ok := el.(*ast.KeyValueExpr); ok {
					walk(kv.Value, g)
				} else {
					walk(el, g)
				}
			}
		case *ast.UnaryExpr:
			walk(x.X, g)
		case *ast.ParenExpr:
			walk(x.X, g)
		case *ast.IndexExpr:
			// out.Rules[0]: indexing a possibly empty slice
			if r := a.ref(x.X); len(r) == 1 && strings.HasPrefix(r[0], "out:") {
				a.m.derefUnguarded = append(a.m.derefUnguarded, strings.TrimPrefix(r[0], "out:")+"[0]")
			}
			walk(x.X, g)
			walk(x.Index, g)
		case *ast.SelectorExpr:
			// out.A.B where A is a pointer-valued member: recorded only for known struct pointers
			walk(x.X, g)
		}
	}
	walk(e, guards)
}

// reqLvalue: e is a field of the request struct / a scalar request parameter itself (not a local
// computed from one)
func (a *analyser) reqLvalue(e ast.Expr) (string, bool) {
	root, path, ok := selPath(e)
	if !ok {
		return "", false
	}
	if root == a.reqStruct && a.reqStruct != "" && path != "" {
		return path, true
	}
	if a.scalars[root] && path == "" {
		return root, true
	}
	return "", false
}

// classifyIf: `if input.F != nil && *input.F == <zero> { input.F = nil }` and relatives.
func (a *analyser) classifyIf(x *ast.IfStmt) {
	m := a.m
	var targets []string
	okShape := true
	// writes to request fields among the statements of the body; other statements (locals, calls)
	// do not matter here
	for _, st := range x.Body.List {
		as, ok := st.(*ast.AssignStmt)
		if !ok || len(as.Lhs) != 1 {
			continue
		}
		f, ok := a.reqLvalue(as.Lhs[0])
		if !ok {
			continue
		}
		targets = append(targets, f)
	}
	// … and none hidden deeper (nested blocks)
	deep := 0
	ast.Inspect(x.Body, func(n ast.Node) bool {
		if as, ok := n.(*ast.AssignStmt); ok {
			for _, l := range as.Lhs {
				if _, ok := a.reqLvalue(l); ok {
					deep++
				}
			}
		}
		return true
	})
	if deep != len(targets) {
		fatal("%s: write to the request inside a nested block (line %d)", m.name, fset.Position(x.Pos()).Line)
	}
	_ = okShape
	if len(targets) == 0 {
		return // not a write to the request (error tests etc.)
	}
	if x.Else != nil || len(targets) != 1 {
		fatal("%s: conditional write to the request of a shape that is not understood (line %d)", m.name, fset.Position(x.Pos()).Line)
	}
	f := targets[0]
	condRefs := a.refs(x.Cond)
	for _, r := range condRefs {
		if r != "req:"+f {
			// the value handed on is no longer a plain copy: the Lean side treats the field as
			// computed (not certified) until the rewrite is argued harmless there
			m.condWrites = append(m.condWrites, f)
			return
		}
	}
	cs := exprString(x.Cond)
	be, _ := x.Cond.(*ast.BinaryExpr)
	zero := ""
	if be != nil && be.Op == token.LAND {
		if cmp, ok := be.Y.(*ast.BinaryExpr); ok && cmp.Op == token.EQL {
			zero = exprString(cmp.Y)
		}
	}
	switch zero {
	case `""`:
		m.normStr = append(m.normStr, f)
	case "defTime":
		m.normTime = append(m.normTime, f)
	case "0":
		m.normInt = append(m.normInt, f)
	default:
		_ = cs
		m.normOther = append(m.normOther, f)
	}
}

// errSource: the right-hand side of the last assignment to `err` before pos ("" = none found)
func (a *analyser) errSource(pos token.Pos) string {
	best, src := token.NoPos, ""
	ast.Inspect(a.fn.Body, func(n ast.Node) bool {
		as, ok := n.(*ast.AssignStmt)
		if !ok || as.Pos() >= pos || as.Pos() < best {
			return true
		}
		for _, l := range as.Lhs {
			if id, ok := l.(*ast.Ident); ok && id.Name == "err" && len(as.Rhs) == 1 {
				best = as.Pos()
				src = exprString(as.Rhs[0])
				if c, ok := as.Rhs[0].(*ast.CallExpr); ok {
					src = exprString(c.Fun) + "(…)"
				}
			}
		}
		return true
	})
	return src
}

func (a *analyser) classifyReturn(rs *ast.ReturnStmt, nres int) {
	m := a.m
	if len(rs.Results) == 0 {
		return
	}
	errExpr := rs.Results[len(rs.Results)-1]
	es := exprString(errExpr)
	switch {
	case es == "nil":
	case strings.HasPrefix(es, "handleError("):
		// handleError(x): x must be the SDK call's error or the call itself
	case es == "err":
		// a raw error: acceptable only if err was produced by something else than an SDK call
		// (the last assignment to err before this return decides)
		src := a.errSource(rs.Pos())
		if src == "" || strings.Contains(src, "s.client.") {
			m.errOther = append(m.errOther, fmt.Sprintf("line %d: raw err", fset.Position(rs.Pos()).Line))
		} else {
			m.errOther = append(m.errOther, fmt.Sprintf("line %d: err of %s", fset.Position(rs.Pos()).Line, src))
		}
	case strings.HasPrefix(es, "s3err.GetAPIError("):
		if c, ok := errExpr.(*ast.CallExpr); ok && len(c.Args) == 1 {
			m.fixedError = strings.TrimPrefix(exprString(c.Args[0]), "s3err.")
		}
	default:
		m.errOther = append(m.errOther, fmt.Sprintf("line %d: %s", fset.Position(rs.Pos()).Line, es))
	}
	if nres != 2 || len(rs.Results) != 2 {
		return
	}
	val := rs.Results[0]
	// only the success return (error result nil or handleError on the last statement) defines
	// the output mapping; error-path returns carry zero values
	isLast := rs == a.fn.Body.List[len(a.fn.Body.List)-1]
	if !(es == "nil" && !a.insideErrIf[rs]) && !isLast {
		return
	}
	if id, ok := val.(*ast.Ident); ok {
		if _, isOut := a.outVars[id.Name]; isOut {
			m.outPassthrough = true
			return
		}
		if id.Name == "nil" {
			return
		}
	}
	if lit, ok := unwrapLit(val); ok {
		if len(m.outFields) > 0 {
			return
		}
		var flat []struct {
			path string
			val  ast.Expr
		}
		flattenLit(lit, "", &flat)
		for _, f := range flat {
			// a local slice filled element-wise: expand the element literal
			if id, ok := f.val.(*ast.Ident); ok {
				if el, ok := a.elemLits[id.Name]; ok {
					var sub []struct {
						path string
						val  ast.Expr
					}
					flattenLit(el, f.path+"[]", &sub)
					for _, s := range sub {
						m.outFields = append(m.outFields, outField{res: s.path, srcs: a.refs(s.val), direct: a.isDirect(s.val)})
					}
					continue
				}
				if h, ok := a.helperOf[id.Name]; ok {
					m.outFields = append(m.outFields, a.helperFields(f.path, h.fn, h.arg)...)
					continue
				}
			}
			m.outFields = append(m.outFields, outField{res: f.path, srcs: a.refs(f.val), direct: a.isDirect(f.val)})
		}
		return
	}
	// anything else (a map, a byte slice, a scalar): one anonymous result
	if len(m.outFields) == 0 {
		m.outFields = append(m.outFields, outField{res: "result", srcs: a.refs(val), direct: a.isDirect(val)})
	}
}

// helperFields: a helper `func conv(objs []T) []U { for _, o := range objs { result = append(result, U{F: o.F}) } }`.
func (a *analyser) helperFields(resPath string, h *ast.FuncDecl, arg ast.Expr) []outField {
	argRef := a.ref(arg)
	if len(argRef) != 1 || !strings.HasPrefix(argRef[0], "out:") {
		fatal("helper %s called with an argument that is not an SDK output path", h.Name.Name)
	}
	base := strings.TrimPrefix(argRef[0], "out:")
	param := h.Type.Params.List[0].Names[0].Name
	var out []outField
	ast.Inspect(h.Body, func(n ast.Node) bool {
		rs, ok := n.(*ast.RangeStmt)
		if !ok || exprString(rs.X) != param {
			return true
		}
		elem := exprString(rs.Value)
		ast.Inspect(rs.Body, func(k ast.Node) bool {
			c, ok := k.(*ast.CallExpr)
			if !ok || exprString(c.Fun) != "append" || len(c.Args) < 2 {
				return true
			}
			lit, ok := unwrapLit(c.Args[1])
			if !ok {
				return true
			}
			for _, el := range lit.Elts {
				kv := el.(*ast.KeyValueExpr)
				root, path, ok := selPath(kv.Value)
				if !ok || root != elem {
					fatal("helper %s: element field %s is not a plain copy", h.Name.Name, exprString(kv.Key))
				}
				out = append(out, outField{res: resPath + "[]." + exprString(kv.Key), srcs: []string{"out:" + base + "[]." + path}, direct: true})
			}
			return false
		})
		return false
	})
	if len(out) == 0 {
		fatal("helper %s: shape not understood", h.Name.Name)
	}
	return out
}

// ---------------------------------------------------------------- front end

// frontendSets: for every `c.be.<Method>(…)` in the controllers, the keys of the struct literal
// handed over (the request fields the front end actually fills in).
func frontendSets(f *ast.File) map[string][]string {
	out := map[string]map[string]bool{}
	ast.Inspect(f, func(n ast.Node) bool {
		c, ok := n.(*ast.CallExpr)
		if !ok {
			return true
		}
		sel, ok := c.Fun.(*ast.SelectorExpr)
		if !ok || exprString(sel.X) != "c.be" {
			return true
		}
		name := sel.Sel.Name
		if out[name] == nil {
			out[name] = map[string]bool{}
		}
		for _, arg := range c.Args {
			if lit, ok := unwrapLit(arg); ok {
				for _, el := range lit.Elts {
					if kv, ok := el.(*ast.KeyValueExpr); ok {
						out[name][exprString(kv.Key)] = true
					}
				}
			}
		}
		return true
	})
	res := map[string][]string{}
	for k, v := range out {
		var l []string
		for f := range v {
			l = append(l, f)
		}
		sort.Strings(l)
		res[k] = l
	}
	return res
}

// ---------------------------------------------------------------- handleError

type errFacts struct {
	code, desc, status string
	asAPIError         bool
	asResponseError    bool
	elseRaw            bool
}

func analyseHandleError(fn *ast.FuncDecl) errFacts {
	var f errFacts
	ast.Inspect(fn.Body, func(n ast.Node) bool {
		switch x := n.(type) {
		case *ast.CallExpr:
			if exprString(x.Fun) == "errors.As" && len(x.Args) == 2 {
				switch exprString(x.Args[1]) {
				case "&ae":
					f.asAPIError = true
				case "&re":
					f.asResponseError = true
				}
			}
		case *ast.CompositeLit:
			if exprString(x.Type) == "s3err.APIError" {
				for _, el := range x.Elts {
					kv := el.(*ast.KeyValueExpr)
					switch exprString(kv.Key) {
					case "Code":
						f.code = exprString(kv.Value)
					case "Description":
						f.desc = exprString(kv.Value)
					}
				}
			}
		case *ast.AssignStmt:
			if len(x.Lhs) == 1 && exprString(x.Lhs[0]) == "apiErr.HTTPStatusCode" {
				f.status = exprString(x.Rhs[0])
			}
		}
		return true
	})
	if last, ok := fn.Body.List[len(fn.Body.List)-1].(*ast.ReturnStmt); ok && len(last.Results) == 1 && exprString(last.Results[0]) == "err" {
		f.elseRaw = true
	}
	if f.code == "" || f.status == "" {
		fatal("handleError: shape not understood")
	}
	return f
}

// ---------------------------------------------------------------- output

func q(s string) string { return strconv.Quote(s) }

// tagged: the references carrying the given tag, tag removed
func tagged(l []string, tag string) []string {
	var out []string
	for _, s := range l {
		if strings.HasPrefix(s, tag) {
			out = append(out, strings.TrimPrefix(s, tag))
		}
	}
	return out
}

func qlist(l []string) string {
	var p []string
	for _, s := range l {
		p = append(p, q(s))
	}
	return "[" + strings.Join(p, ", ") + "]"
}

func b(x bool) string {
	if x {
		return "true"
	}
	return "false"
}

func main() {
	repo := flag.String("repo", "/repo", "source tree of versitygw")
	out := flag.String("out", "", "Lean file to write")
	flag.Parse()
	if *out == "" {
		fatal("-out is required")
	}

	src := parseFile(filepath.Join(*repo, "backend/s3proxy/s3.go"))
	helpers := map[string]*ast.FuncDecl{}
	var methods []*ast.FuncDecl
	var handleErr *ast.FuncDecl
	aclKey := ""
	for _, d := range src.Decls {
		switch x := d.(type) {
		case *ast.FuncDecl:
			if x.Recv == nil {
				helpers[x.Name.Name] = x
				if x.Name.Name == "handleError" {
					handleErr = x
				}
				continue
			}
			if exprString(x.Recv.List[0].Type) == "*S3Proxy" && x.Name.IsExported() {
				methods = append(methods, x)
			}
		case *ast.GenDecl:
			for _, sp := range x.Specs {
				if vs, ok := sp.(*ast.ValueSpec); ok && len(vs.Names) == 1 && vs.Names[0].Name == "aclKey" && len(vs.Values) == 1 {
					aclKey, _ = strconv.Unquote(exprString(vs.Values[0]))
				}
			}
		}
	}
	if handleErr == nil || aclKey == "" {
		fatal("handleError or aclKey not found in s3.go")
	}

	// struct universes
	gwTypes := map[string][]string{}
	ents, err := os.ReadDir(filepath.Join(*repo, "s3response"))
	if err != nil {
		fatal("%v", err)
	}
	for _, e := range ents {
		if strings.HasSuffix(e.Name(), ".go") && !strings.HasSuffix(e.Name(), "_test.go") {
			structFields(parseFile(filepath.Join(*repo, "s3response", e.Name())), gwTypes)
		}
	}
	cmd := exec.Command("go", "list", "-m", "-f", "{{.Dir}}", "github.com/aws/aws-sdk-go-v2/service/s3")
	cmd.Dir = *repo
	cmd.Env = append(os.Environ(), "GOFLAGS=-mod=mod", "GOPROXY=off", "GOSUMDB=off", "GOTOOLCHAIN=local")
	sdkDirB, err := cmd.Output()
	if err != nil {
		fatal("cannot locate the AWS SDK s3 module: %v", err)
	}
	sdkDir := strings.TrimSpace(string(sdkDirB))
	sdkTypes := map[string][]string{}

	// Backend interface
	bk := parseFile(filepath.Join(*repo, "backend/backend.go"))
	var iface []string
	for _, d := range bk.Decls {
		gd, ok := d.(*ast.GenDecl)
		if !ok {
			continue
		}
		for _, sp := range gd.Specs {
			ts, ok := sp.(*ast.TypeSpec)
			if !ok || ts.Name.Name != "Backend" {
				continue
			}
			it := ts.Type.(*ast.InterfaceType)
			for _, mth := range it.Methods.List {
				for _, n := range mth.Names {
					iface = append(iface, n.Name)
				}
			}
		}
	}
	if len(iface) == 0 {
		fatal("Backend interface not found")
	}

	var facts []*method
	implemented := map[string]bool{}
	for _, fn := range methods {
		implemented[fn.Name.Name] = true
		m := &method{name: fn.Name.Name, line: fset.Position(fn.Pos()).Line}
		a := &analyser{fn: fn, m: m, scalars: map[string]bool{}, outVars: map[string]string{}, alias: map[string]string{},
			deps: map[string]map[string]bool{}, helpers: helpers, elemLits: map[string]*ast.CompositeLit{},
			helperOf: map[string]struct {
				fn  *ast.FuncDecl
				arg ast.Expr
			}{}, directLocal: map[string]bool{}, directSeen: map[string]bool{}, insideErrIf: map[*ast.ReturnStmt]bool{}}
		// returns inside `if err != nil {…}` are error paths
		ast.Inspect(fn.Body, func(n ast.Node) bool {
			if ifs, ok := n.(*ast.IfStmt); ok && isErrNeNil(ifs.Cond) {
				ast.Inspect(ifs.Body, func(k ast.Node) bool {
					if rs, ok := k.(*ast.ReturnStmt); ok {
						a.insideErrIf[rs] = true
					}
					return true
				})
			}
			return true
		})
		a.analyse()
		if m.reqKind == "struct" {
			tn := m.reqType[strings.Index(m.reqType, ".")+1:]
			if strings.HasPrefix(m.reqType, "s3response.") {
				m.reqFields = gwTypes[tn]
			} else {
				op := strings.TrimSuffix(tn, "Input")
				if _, ok := sdkTypes[tn]; !ok {
					structFields(parseFile(filepath.Join(sdkDir, "api_op_"+op+".go")), sdkTypes)
				}
				m.reqFields = sdkTypes[tn]
			}
			if len(m.reqFields) == 0 {
				fatal("%s: fields of %s not found", m.name, m.reqType)
			}
		}
		for _, c := range m.calls {
			if _, ok := sdkTypes[c.op+"Input"]; !ok {
				structFields(parseFile(filepath.Join(sdkDir, "api_op_"+c.op+".go")), sdkTypes)
			}
		}
		// every SDK error must leave through handleError
		for _, o := range m.errOther {
			if strings.Contains(o, "raw err") && len(m.calls) > 0 {
				m.errWrapped = false
			}
		}
		facts = append(facts, m)
	}
	var unimpl []string
	for _, n := range iface {
		if !implemented[n] && n != "Shutdown" && n != "String" {
			unimpl = append(unimpl, n)
		}
	}
	fe := frontendSets(parseFile(filepath.Join(*repo, "s3api/controllers/base.go")))
	ef := analyseHandleError(handleErr)

	var w strings.Builder
	w.WriteString("/-\n  GENERATED by extract/proxyfacts from backend/s3proxy/s3.go, backend/backend.go, s3response/*.go,\n")
	w.WriteString("  s3api/controllers/base.go and the AWS SDK's api_op_*.go. Deleted and regenerated on every run of\n  `./check C18`; do not edit.\n-/\n")
	w.WriteString("namespace Vgw.Gen.ProxyFacts\n\n")
	w.WriteString("structure InField where\n  sdk : String\n  req : List String\n  direct : Bool\nderiving Repr, DecidableEq\n\n")
	w.WriteString("structure Call where\n  op : String\n  passthrough : Bool\n  fields : List InField\nderiving Repr, DecidableEq\n\n")
	w.WriteString("structure OutField where\n  res : String\n  out : List String\n  req : List String\n  direct : Bool\nderiving Repr, DecidableEq\n\n")
	w.WriteString("structure Method where\n  name : String\n  line : Nat\n  reqKind : String\n  reqType : String\n  reqFields : List String\n  calls : List Call\n  cleared : List String\n  normStr : List String\n  normTime : List String\n  normInt : List String\n  normOther : List String\n  condWrites : List String\n  outPassthrough : Bool\n  outFields : List OutField\n  derefUnguarded : List String\n  useBeforeErrCheck : Bool\n  errWrapped : Bool\n  errOther : List String\n  fixedError : String\n  swallows : List String\n  usesAclKey : Bool\nderiving Repr, DecidableEq\n\n")
	var names []string
	for _, m := range facts {
		id := "m" + m.name
		names = append(names, id)
		fmt.Fprintf(&w, "def %s : Method where\n  name := %s\n  line := %d\n  reqKind := %s\n  reqType := %s\n  reqFields := %s\n", id, q(m.name), m.line, q(m.reqKind), q(m.reqType), qlist(m.reqFields))
		w.WriteString("  calls := [")
		for i, c := range m.calls {
			if i > 0 {
				w.WriteString(",")
			}
			fmt.Fprintf(&w, "\n    { op := %s, passthrough := %s, fields := [", q(c.op), b(c.passthrough))
			for j, f := range c.fields {
				if j > 0 {
					w.WriteString(",")
				}
				fmt.Fprintf(&w, "\n      ⟨%s, %s, %s⟩", q(f.sdk), qlist(tagged(f.srcs, "req:")), b(f.direct && len(tagged(f.srcs, "out:")) == 0))
			}
			w.WriteString("] }")
		}
		w.WriteString("]\n")
		fmt.Fprintf(&w, "  cleared := %s\n  normStr := %s\n  normTime := %s\n  normInt := %s\n  normOther := %s\n  condWrites := %s\n", qlist(m.cleared), qlist(m.normStr), qlist(m.normTime), qlist(m.normInt), qlist(m.normOther), qlist(m.condWrites))
		fmt.Fprintf(&w, "  outPassthrough := %s\n  outFields := [", b(m.outPassthrough))
		for j, f := range m.outFields {
			if j > 0 {
				w.WriteString(",")
			}
			fmt.Fprintf(&w, "\n    ⟨%s, %s, %s, %s⟩", q(f.res), qlist(tagged(f.srcs, "out:")), qlist(tagged(f.srcs, "req:")), b(f.direct))
		}
		w.WriteString("]\n")
		fmt.Fprintf(&w, "  derefUnguarded := %s\n  useBeforeErrCheck := %s\n  errWrapped := %s\n  errOther := %s\n  fixedError := %s\n  swallows := %s\n  usesAclKey := %s\n\n", qlist(m.derefUnguarded), b(m.useBeforeErrCheck), b(m.errWrapped), qlist(m.errOther), q(m.fixedError), qlist(m.swallows), b(m.usesAclKey))
	}
	fmt.Fprintf(&w, "def methods : List Method := [%s]\n\n", strings.Join(names, ", "))
	fmt.Fprintf(&w, "/-- methods of the Backend interface that *S3Proxy does not define (BackendUnsupported answers NotImplemented) -/\ndef unimplemented : List String := %s\n\n", qlist(unimpl))
	fmt.Fprintf(&w, "def aclKey : String := %s\n\n", q(aclKey))
	fmt.Fprintf(&w, "/-- handleError: which accessor of the SDK error feeds which member of s3err.APIError -/\nstructure ErrFacts where\n  asAPIError : Bool\n  code : String\n  description : String\n  asResponseError : Bool\n  status : String\n  otherwiseRaw : Bool\nderiving Repr, DecidableEq\n\n")
	fmt.Fprintf(&w, "def handleError : ErrFacts := ⟨%s, %s, %s, %s, %s, %s⟩\n\n", b(ef.asAPIError), q(ef.code), q(ef.desc), b(ef.asResponseError), q(ef.status), b(ef.elseRaw))
	// SDK struct universes (only the ops that are called)
	var ops []string
	for k := range sdkTypes {
		if strings.HasSuffix(k, "Input") || strings.HasSuffix(k, "Output") {
			ops = append(ops, k)
		}
	}
	sort.Strings(ops)
	w.WriteString("/-- exported fields of the SDK input/output structs of the operations called -/\ndef sdkStructs : List (String × List String) := [")
	for i, k := range ops {
		if i > 0 {
			w.WriteString(",")
		}
		fmt.Fprintf(&w, "\n  (%s, %s)", q(k), qlist(sdkTypes[k]))
	}
	w.WriteString("]\n\n")
	var fes []string
	for k := range fe {
		fes = append(fes, k)
	}
	sort.Strings(fes)
	w.WriteString("/-- request fields the front end (s3api/controllers/base.go) fills in per backend call -/\ndef frontendSets : List (String × List String) := [")
	for i, k := range fes {
		if i > 0 {
			w.WriteString(",")
		}
		fmt.Fprintf(&w, "\n  (%s, %s)", q(k), qlist(fe[k]))
	}
	w.WriteString("]\n\nend Vgw.Gen.ProxyFacts\n")
	if err := os.MkdirAll(filepath.Dir(*out), 0o755); err != nil {
		fatal("%v", err)
	}
	os.Remove(*out)
	if err := os.WriteFile(*out, []byte(w.String()), 0o644); err != nil {
		fatal("%v", err)
	}
	fmt.Printf("proxyfacts: %d methods, %d unimplemented interface methods -> %s\n", len(facts), len(unimpl), *out)
}
