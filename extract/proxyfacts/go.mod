module verif/extract/proxyfacts

go 1.23.0
