module verif/extract/panicsites

go 1.23.0
