// panicsites: inventory of the expressions on the request path of versitygw that can panic at run
// time — index, slice, explicit dereference, implicit dereference of a pointer-typed struct field
// (optional input member), make with a non-constant size, type assertion without the `ok` form,
// integer division by a non-constant — in the request-path packages.
//
//	panicsites -repo /repo > sites.json
//
// Only the standard library (go/ast, go/types, go/importer); type information of imported packages
// comes from the export data of the local build cache (`go list -export -deps`, offline).
//
// Every site is keyed by (file, function, kind, expression text) so that a check can notice when the
// code at a site it modelled has changed.
package main

import (
	"bytes"
	"encoding/json"
	"flag"
	"fmt"
	"go/ast"
	"go/constant"
	"go/importer"
	"go/parser"
	"go/printer"
	"go/token"
	"go/types"
	"io"
	"os"
	"os/exec"
	"path/filepath"
	"sort"
	"strings"
)

// request-path packages: directory (relative to the repository) and, when non-nil, the only files of it
var scope = []struct {
	dir   string
	files []string
}{
	{"s3api/controllers", nil},
	{"s3api/middlewares", nil},
	{"s3api/utils", nil},
	{"s3api", []string{"router.go", "server.go", "admin-router.go", "admin-server.go"}},
	{"backend", []string{"common.go", "walk.go", "backend.go"}},
	{"backend/posix", nil},
	{"auth", nil},
}

type Site struct {
	File string `json:"file"`
	Func string `json:"func"`
	Kind string `json:"kind"`
	Expr string `json:"expr"`
	Line int    `json:"line"`
	Note string `json:"note,omitempty"`
}

type Output struct {
	Repo     string         `json:"repo"`
	Packages []string       `json:"packages"`
	Sites    []Site         `json:"sites"`
	ByKind   map[string]int `json:"by_kind"`
	Errors   []string       `json:"type_errors,omitempty"`
}

func main() {
	repo := flag.String("repo", "/repo", "versitygw source tree")
	tags := flag.String("tags", "", "build tags")
	flag.Parse()
	out, err := extract(*repo, *tags)
	if err != nil {
		fmt.Fprintln(os.Stderr, "panicsites:", err)
		os.Exit(1)
	}
	enc := json.NewEncoder(os.Stdout)
	enc.SetIndent("", " ")
	enc.Encode(out)
}

func exportMap(repo, tags string, pkgs []string) (map[string]string, error) {
	args := []string{"list", "-export", "-deps", "-f", "{{.ImportPath}}\t{{.Export}}"}
	if tags != "" {
		args = append(args, "-tags", tags)
	}
	args = append(args, pkgs...)
	cmd := exec.Command("go", args...)
	cmd.Dir = repo
	cmd.Env = append(os.Environ(), "GOFLAGS=-mod=mod", "GOPROXY=off", "GOSUMDB=off", "GOTOOLCHAIN=local")
	var stderr bytes.Buffer
	cmd.Stderr = &stderr
	b, err := cmd.Output()
	if err != nil {
		return nil, fmt.Errorf("go list -export: %v\n%s", err, stderr.String())
	}
	m := map[string]string{}
	for _, l := range strings.Split(string(b), "\n") {
		f := strings.Split(l, "\t")
		if len(f) == 2 && f[1] != "" {
			m[f[0]] = f[1]
		}
	}
	return m, nil
}

func extract(repo, tags string) (*Output, error) {
	var pkgs []string
	for _, s := range scope {
		pkgs = append(pkgs, "./"+s.dir)
	}
	exports, err := exportMap(repo, tags, pkgs)
	if err != nil {
		return nil, err
	}
	fset := token.NewFileSet()
	imp := importer.ForCompiler(fset, "gc", func(path string) (io.ReadCloser, error) {
		f, ok := exports[path]
		if !ok {
			return nil, fmt.Errorf("no export data for %s", path)
		}
		return os.Open(f)
	})
	out := &Output{Repo: repo, ByKind: map[string]int{}, Sites: []Site{}}
	for _, s := range scope {
		dir := filepath.Join(repo, s.dir)
		ents, err := os.ReadDir(dir)
		if err != nil {
			return nil, err
		}
		var files []*ast.File
		var names []string
		only := map[string]bool{}
		for _, f := range s.files {
			only[f] = true
		}
		for _, e := range ents {
			n := e.Name()
			if !strings.HasSuffix(n, ".go") || strings.HasSuffix(n, "_test.go") {
				continue
			}
			src, err := os.ReadFile(filepath.Join(dir, n))
			if err != nil {
				return nil, err
			}
			if !buildOK(src, tags) {
				continue
			}
			af, err := parser.ParseFile(fset, filepath.Join(dir, n), src, parser.ParseComments)
			if err != nil {
				return nil, err
			}
			files = append(files, af)
			names = append(names, n)
		}
		info := &types.Info{Types: map[ast.Expr]types.TypeAndValue{}, Uses: map[*ast.Ident]types.Object{}, Selections: map[*ast.SelectorExpr]*types.Selection{}}
		conf := types.Config{Importer: imp, Error: func(err error) { out.Errors = append(out.Errors, err.Error()) }}
		conf.Check(s.dir, fset, files, info)
		out.Packages = append(out.Packages, s.dir)
		for i, af := range files {
			if len(only) > 0 && !only[names[i]] {
				continue
			}
			w := &walker{fset: fset, info: info, file: s.dir + "/" + names[i], out: out}
			w.file_(af)
		}
	}
	sort.SliceStable(out.Sites, func(i, j int) bool {
		a, b := out.Sites[i], out.Sites[j]
		if a.File != b.File {
			return a.File < b.File
		}
		return a.Line < b.Line
	})
	for _, s := range out.Sites {
		out.ByKind[s.Kind]++
	}
	return out, nil
}

// buildOK: honour `//go:build` lines of the simple forms used in the tree (tag, !tag, linux etc.)
func buildOK(src []byte, tags string) bool {
	have := map[string]bool{"linux": true, "amd64": true, "unix": true, "gc": true}
	for _, t := range strings.Split(tags, ",") {
		if t != "" {
			have[t] = true
		}
	}
	for _, l := range strings.Split(string(src), "\n") {
		l = strings.TrimSpace(l)
		if strings.HasPrefix(l, "package ") {
			break
		}
		if !strings.HasPrefix(l, "//go:build ") {
			continue
		}
		expr := strings.TrimPrefix(l, "//go:build ")
		// disjunction of conjunctions of (!)tag — enough for this tree
		okAny := false
		for _, or := range strings.Split(expr, "||") {
			okAll := true
			for _, and := range strings.Split(or, "&&") {
				t := strings.Trim(strings.TrimSpace(and), "()")
				neg := strings.HasPrefix(t, "!")
				t = strings.TrimPrefix(t, "!")
				if have[t] == neg {
					okAll = false
				}
			}
			if okAll {
				okAny = true
			}
		}
		return okAny
	}
	return true
}

type walker struct {
	fset *token.FileSet
	info *types.Info
	file string
	out  *Output
	fn   string
	okTA map[*ast.TypeAssertExpr]bool // type assertions in comma-ok / switch position
	lhs  map[ast.Expr]bool            // index expressions that are assignment targets of a map
}

func (w *walker) text(e ast.Node) string {
	var b bytes.Buffer
	printer.Fprint(&b, w.fset, e)
	return strings.Join(strings.Fields(b.String()), " ")
}

func (w *walker) add(kind string, e ast.Node, note string) {
	w.out.Sites = append(w.out.Sites, Site{File: w.file, Func: w.fn, Kind: kind, Expr: w.text(e), Line: w.fset.Position(e.Pos()).Line, Note: note})
}

func (w *walker) file_(f *ast.File) {
	for _, d := range f.Decls {
		switch d := d.(type) {
		case *ast.FuncDecl:
			w.fn = d.Name.Name
			if d.Recv != nil && len(d.Recv.List) > 0 {
				w.fn = recvName(d.Recv.List[0].Type) + "." + d.Name.Name
			}
			if d.Body != nil {
				w.body(d.Body)
			}
		case *ast.GenDecl:
			w.fn = "<package>"
			w.body(d)
		}
	}
}

func recvName(t ast.Expr) string {
	switch t := t.(type) {
	case *ast.StarExpr:
		return recvName(t.X)
	case *ast.Ident:
		return t.Name
	case *ast.IndexExpr:
		return recvName(t.X)
	}
	return "?"
}

func (w *walker) typeOf(e ast.Expr) types.Type {
	if tv, ok := w.info.Types[e]; ok && tv.Type != nil {
		return tv.Type
	}
	return nil
}

func (w *walker) isConst(e ast.Expr) (constant.Value, bool) {
	if tv, ok := w.info.Types[e]; ok && tv.Value != nil {
		return tv.Value, true
	}
	return nil, false
}

func (w *walker) body(n ast.Node) {
	w.okTA = map[*ast.TypeAssertExpr]bool{}
	// first pass: type assertions used in the two-value form or in a type switch
	ast.Inspect(n, func(n ast.Node) bool {
		switch n := n.(type) {
		case *ast.AssignStmt:
			if len(n.Lhs) == 2 && len(n.Rhs) == 1 {
				if ta, ok := ast.Unparen(n.Rhs[0]).(*ast.TypeAssertExpr); ok {
					w.okTA[ta] = true
				}
			}
		case *ast.ValueSpec:
			if len(n.Names) == 2 && len(n.Values) == 1 {
				if ta, ok := ast.Unparen(n.Values[0]).(*ast.TypeAssertExpr); ok {
					w.okTA[ta] = true
				}
			}
		case *ast.TypeSwitchStmt:
			ast.Inspect(n.Assign, func(m ast.Node) bool {
				if ta, ok := m.(*ast.TypeAssertExpr); ok && ta.Type == nil {
					w.okTA[ta] = true
				}
				return true
			})
		}
		return true
	})
	ast.Inspect(n, func(n ast.Node) bool {
		switch e := n.(type) {
		case *ast.IndexExpr:
			t := w.typeOf(e.X)
			if t == nil {
				w.add("index", e, "type unknown")
				return true
			}
			if tv, ok := w.info.Types[e.X]; ok && tv.IsType() {
				return true // generic instantiation
			}
			if _, ok := w.info.Types[e]; ok && w.info.Types[e].IsType() {
				return true
			}
			switch u := t.Underlying().(type) {
			case *types.Map, *types.Signature:
				return true
			case *types.Array:
				if c, ok := w.isConst(e.Index); ok {
					if i, ok := constant.Int64Val(c); ok && i >= 0 && i < u.Len() {
						return true
					}
				}
			case *types.Pointer:
				if a, ok := u.Elem().Underlying().(*types.Array); ok {
					if c, ok := w.isConst(e.Index); ok {
						if i, ok := constant.Int64Val(c); ok && i >= 0 && i < a.Len() {
							return true
						}
					}
				}
			}
			w.add("index", e, "")
		case *ast.SliceExpr:
			w.add("slice", e, "")
		case *ast.StarExpr:
			if tv, ok := w.info.Types[e]; ok && tv.IsType() {
				return true
			}
			if t := w.typeOf(e.X); t != nil {
				if _, ok := t.Underlying().(*types.Pointer); !ok {
					return true
				}
			}
			w.add("deref", e, "")
		case *ast.SelectorExpr:
			// implicit dereference of a pointer-typed struct FIELD (an optional member): a.b.c with a.b a field of pointer type
			inner, ok := ast.Unparen(e.X).(*ast.SelectorExpr)
			if !ok {
				return true
			}
			sel, ok := w.info.Selections[inner]
			if !ok || sel.Kind() != types.FieldVal {
				return true
			}
			if _, ok := sel.Type().Underlying().(*types.Pointer); !ok {
				return true
			}
			// method values with pointer receivers that tolerate nil cannot be told apart here: report
			w.add("field-of-optional", e, "")
		case *ast.CallExpr:
			if id, ok := ast.Unparen(e.Fun).(*ast.Ident); ok && id.Name == "make" {
				if _, isBuiltin := w.info.Uses[id].(*types.Builtin); isBuiltin || w.info.Uses[id] == nil {
					for _, a := range e.Args[1:] {
						if _, ok := w.isConst(a); !ok {
							// len(x) of something already in memory is not wire-sized, still non-constant: noted
							note := ""
							if c, ok := ast.Unparen(a).(*ast.CallExpr); ok {
								if f, ok := c.Fun.(*ast.Ident); ok && (f.Name == "len" || f.Name == "cap") {
									note = "len/cap of an existing value"
								}
							}
							w.add("make", e, note)
							break
						}
					}
				}
			}
		case *ast.TypeAssertExpr:
			if e.Type != nil && !w.okTA[e] {
				w.add("type-assert", e, "")
			}
		case *ast.BinaryExpr:
			if e.Op == token.QUO || e.Op == token.REM {
				if _, ok := w.isConst(e.Y); ok {
					return true
				}
				if t := w.typeOf(e); t != nil {
					if b, ok := t.Underlying().(*types.Basic); ok && b.Info()&types.IsInteger != 0 {
						w.add("int-div", e, "")
					}
				}
			}
		}
		return true
	})
}
