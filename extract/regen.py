#!/usr/bin/env python3
"""
extract/regen.py <generator> [<generator> …]

Regenerates Lean facts from the source tree under test (VERIF_REPO, default /repo) before the
property's theorems are built: `./check` calls it from the `prove` step for every name in the
`regen` key of the property's entry in checks.py. Each generator is a small Go program under
extract/<name>/ (stdlib only, offline) that deletes and rewrites its file under lean/Vgw/Gen/.
A generator that does not understand the shape of the source exits non-zero: the proof
obligations are then reported as broken rather than checked against a stale table.
"""
import os, subprocess, sys

VERIF = os.path.dirname(os.path.dirname(os.path.abspath(__file__)))
REPO = os.environ.get("VERIF_REPO", "/repo")
OUT = {"proxyfacts": "lean/Vgw/Gen/ProxyFacts.lean"}


def main():
    env = dict(os.environ, GOFLAGS="-mod=mod", GOPROXY="off", GOSUMDB="off", GOTOOLCHAIN="local")
    for name in sys.argv[1:]:
        if name not in OUT:
            print(f"regen: unknown generator {name}", file=sys.stderr)
            return 2
        out = os.path.join(VERIF, OUT[name])
        if os.path.exists(out):
            os.remove(out)
        p = subprocess.run(["go", "run", ".", "-repo", REPO, "-out", out], cwd=os.path.join(VERIF, "extract", name), env=env,
                           stdout=subprocess.PIPE, stderr=subprocess.STDOUT, text=True)
        sys.stdout.write(p.stdout)
        if p.returncode != 0 or not os.path.exists(out):
            print(f"regen: {name} failed", file=sys.stderr)
            return 1
    return 0


if __name__ == "__main__":
    sys.exit(main())
